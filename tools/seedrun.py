#!/usr/bin/env python3
"""
tools/seedrun.py <property> <name> <mut.diff> <demo.rs> <meta.txt> [extra properties to run…]

Confirms a seeded change (made by an independent sub-agent that saw only the property text) and runs the checks against it:
  1. in a scratch worktree of /repo: the change applies, the existing suites pass with it, the demo passes without it and fails with it;
  2. git -C /repo apply; ./check <property> (and any extra ones) --tier quick; git -C /repo checkout -- .
  3. writes /verif/seeded/<name>/{patch.diff, demo.rs, meta.json}
Never commits anything to /repo.
"""
import json, os, shutil, subprocess, sys, time

ROOT = os.path.dirname(os.path.dirname(os.path.abspath(__file__)))
REPO = "/repo"
FEATS = "backend-mmap backend-atomic backend-bitmap"


def sh(cmd, cwd=None, timeout=3600):
    p = subprocess.run(cmd, cwd=cwd, shell=isinstance(cmd, str), stdout=subprocess.PIPE, stderr=subprocess.STDOUT, timeout=timeout,
                       env=dict(os.environ, CARGO_NET_OFFLINE="true"))
    return p.returncode, p.stdout.decode(errors="replace")


def main():
    args = [a for a in sys.argv[1:] if not a.startswith("--")]
    mode = "confirm" if "--confirm-only" in sys.argv else ("check" if "--check-only" in sys.argv else "both")
    prop, name, diff, demo, meta = args[0:5]
    extra = args[5:]
    feats, rflags = FEATS, ""
    for l in open(meta).read().splitlines()[:4]:
        if l.startswith("FEATURES:"):
            feats = l.split(":", 1)[1].strip().strip('"')
        if l.startswith("RUSTFLAGS:"):
            rflags = l.split(":", 1)[1].strip().strip('"')
    out = os.path.join(ROOT, "seeded", name)
    os.makedirs(out, exist_ok=True)
    wt = "/tmp/seedchk-%d" % os.getpid()
    res = {"property": prop, "name": name, "ran": []}
    if mode == "check":
        res = json.load(open(os.path.join(out, "meta.json")))
        res["ran"] = []
    if mode != "confirm":
        assert sh(["git", "-C", REPO, "status", "--porcelain", "--untracked-files=no"])[1].strip() == "", "/repo has local changes"
    if mode != "check":
        sh(["git", "-C", REPO, "worktree", "add", "-q", "--detach", wt, "HEAD"])
    try:
      if mode != "check":
            os.makedirs(os.path.join(wt, "tests"), exist_ok=True)
            shutil.copyfile(demo, os.path.join(wt, "tests", "seed_demo.rs"))
            env_t = "CARGO_TARGET_DIR=%s/target" % wt
            env_d = env_t + ((" RUSTFLAGS='%s'" % rflags) if rflags else "")
            rc0, o0 = sh("%s cargo test --offline --features '%s' --test seed_demo 2>&1 | tail -15" % (env_d, feats), cwd=wt)
            demo_clean = "test result: ok" in o0
            rc, o = sh(["git", "apply", "--check", diff], cwd=wt)
            applies = rc == 0
            res.update({"applies_to_head": applies, "demo_passes_without_change": demo_clean})
            if applies:
                sh(["git", "apply", diff], cwd=wt)
                _, o1 = sh("%s cargo test --offline --features '%s' --test seed_demo 2>&1 | tail -15" % (env_d, feats), cwd=wt)
                os.remove(os.path.join(wt, "tests", "seed_demo.rs"))
                _, o2 = sh("%s cargo test --offline 2>&1 | grep 'test result' | head -1" % env_t, cwd=wt)
                _, o3 = sh("%s cargo test --offline --features '%s' 2>&1 | grep 'test result' | head -1" % (env_t, FEATS), cwd=wt)
                if "xen" in feats:
                    _, o4 = sh("%s cargo test --offline --features 'xen backend-atomic backend-bitmap' 2>&1 | grep 'test result' | head -1" % env_t, cwd=wt)
                    res["xen_suite_pass_with_change"] = "0 failed" in o4 and "passed" in o4
                res.update({"demo_features": feats, "demo_rustflags": rflags})
                res.update({"demo_fails_with_change": "test result: FAILED" in o1 or "panicked" in o1 or "error: test failed" in o1,
                            "baseline_81_pass_with_change": "81 passed; 0 failed" in o2, "feature_suite_pass_with_change": "0 failed" in o3 and "passed" in o3,
                            "demo_output_with_change": o1[-600:]})
    finally:
        if mode != "check":
            sh(["git", "-C", REPO, "worktree", "remove", "--force", wt])
            shutil.rmtree(wt, ignore_errors=True)
    confirmed = res.get("applies_to_head") and res.get("demo_passes_without_change") and res.get("demo_fails_with_change") and res.get("baseline_81_pass_with_change")
    res["confirmed"] = bool(confirmed)
    if confirmed and mode != "confirm":
        rc, o = sh(["git", "-C", REPO, "apply", diff])
        try:
            for p in [prop] + extra:
                t0 = time.time()
                rc, o = sh([os.path.join(ROOT, "check"), p, "--tier", "quick"], cwd=ROOT)
                viol = [l for l in o.splitlines() if l.startswith("VIOLATION") or l.startswith("KNOWN-FINDING")]
                rep = None
                for l in viol:
                    if "replay=" in l:
                        fn = l.split("replay=")[1].split()[0]
                        try:
                            pl = json.load(open(fn))
                            rep = {k: pl.get(k) for k in ("kind", "signature", "detail", "world") if k in pl}
                            if "no_longer_checks" in pl:
                                rep["no_longer_checks"] = [{k: (v if k != "ops" else v[-3:]) for k, v in w.items()} for w in pl["no_longer_checks"]][:2]
                        except Exception:
                            pass
                        break
                res["ran"].append({"check": "./check %s --tier quick" % p, "exit": rc, "lines": viol[:4], "first_replay": rep, "wall_s": round(time.time() - t0, 1)})
        finally:
            sh(["git", "-C", REPO, "checkout", "--", "."])
    res["caught_by"] = [r["check"].split()[1] for r in res["ran"] if r["exit"] != 0]
    shutil.copyfile(diff, os.path.join(out, "patch.diff"))
    shutil.copyfile(demo, os.path.join(out, "demo.rs"))
    res["needs_to_manifest"] = open(meta).read()
    json.dump(res, open(os.path.join(out, "meta.json"), "w"), indent=1)
    print(name, "confirmed=%s" % res["confirmed"], "caught_by=%s" % res["caught_by"])
    for r in res["ran"]:
        print("   ", r["check"], "exit", r["exit"], (r["lines"] or [""])[0][:150])


main()
