#!/usr/bin/env python3
"""
tools/mutate.py gen N SEED OUT      generate N syntactic mutants of /repo/src (one-token operator replacements on non-test,
                                    non-comment lines), keep those that compile and pass the existing suites (default features
                                    and backend-mmap backend-atomic backend-bitmap), write them to OUT/<k>.diff (+ OUT/index.json)
tools/mutate.py run OUT             apply each kept mutant to /repo, run the quick checks of the properties anchored in the
                                    mutated file, undo it; OUT/results.json

Support tooling: a systematic complement to the changes written by sub-agents (DESIGN.md section 11).  A mutant the checks do
not report is either equivalent (the property still holds: most `<` / `<=` swaps on unreachable boundaries are) or a gap; the
survivors are listed for reading.  Nothing here is part of any registered check.
"""
import json, os, random, re, shutil, subprocess, sys
from concurrent.futures import ThreadPoolExecutor

REPO = "/repo"
ROOT = os.path.dirname(os.path.dirname(os.path.abspath(__file__)))
FEATS = "backend-mmap backend-atomic backend-bitmap"
FILES = ["src/address.rs", "src/atomic.rs", "src/bitmap/backend/atomic_bitmap.rs", "src/bitmap/backend/slice.rs", "src/bitmap/mod.rs",
         "src/bytes.rs", "src/endian.rs", "src/guest_memory.rs", "src/io.rs", "src/mmap/mod.rs", "src/mmap/unix.rs", "src/volatile_memory.rs"]
OPS = [(r"<=", "<"), (r"(?<= )<(?= )", "<="), (r">=", ">"), (r"(?<= )>(?= )", ">="), (r"==", "!="), (r"!=", "=="),
       (r"&&", "||"), (r"\|\|", "&&"), (r"\+ 1\b", "+ 0"), (r"- 1\b", "- 0"), (r"\+ 1\b", "+ 2"), (r"(?<=[\w\)]) \+ (?=[\w\(])", " - "),
       (r"(?<=[\w\)]) - (?=[\w\(])", " + "), (r"\bmin\(", "max("), (r"\bmax\(", "min("), (r"\btrue\b", "false"), (r"\bfalse\b", "true"),
       (r"saturating_add", "wrapping_add"), (r"wrapping_add", "saturating_add"), (r"saturating_sub", "wrapping_sub"),
       (r"checked_add\(([^)]*)\)", r"checked_add(\1 + 1)"), (r"\.is_empty\(\)", ".is_empty() == false"), (r"\bis_none\(\)", "is_some()"),
       (r"\bis_some\(\)", "is_none()"), (r"\bis_ok\(\)", "is_err()"), (r"\bSome\(0\)", "Some(1)"), (r"\b0x1000\b", "0x1001"),
       (r"\bOrdering::SeqCst\b", "Ordering::Relaxed"), (r"size_of::<T>\(\)", "align_of::<T>()"), (r"\bas usize\b", "as u32 as usize")]


def sh(cmd, cwd=None, timeout=900, env=None):
    e = dict(os.environ, CARGO_NET_OFFLINE="true")
    if env:
        e.update(env)
    p = subprocess.run(cmd, cwd=cwd, shell=isinstance(cmd, str), stdout=subprocess.PIPE, stderr=subprocess.STDOUT, timeout=timeout, env=e)
    return p.returncode, p.stdout.decode(errors="replace")


def code_lines(path):
    """(index, line) of mutable lines: before `mod tests`, not comments / attributes / use / doc"""
    src = open(os.path.join(REPO, path)).read().splitlines()
    out = []
    for i, l in enumerate(src):
        t = l.strip()
        if t.startswith("mod tests") or t.startswith("#[cfg(test)]"):
            break
        if not t or t.startswith("//") or t.startswith("#") or t.startswith("use ") or t.startswith("///") or t.startswith("*") or "vm_memory_verif" in t or "verif_hooks" in t:
            continue
        out.append((i, l))
    return src, out


def candidates(rng):
    cands = []
    for f in FILES:
        src, lines = code_lines(f)
        for i, l in lines:
            code = l.split("//")[0]
            for k, (pat, rep) in enumerate(OPS):
                for m in re.finditer(pat, code):
                    new = code[:m.start()] + m.expand(rep) + code[m.end():] + l[len(code):]
                    if new != l:
                        cands.append({"file": f, "line": i + 1, "op": "%s -> %s" % (pat, rep), "old": l, "new": new})
    rng.shuffle(cands)
    return cands


def try_mutant(wt, c):
    path = os.path.join(wt, c["file"])
    src = open(path).read().splitlines(keepends=True)
    keep = src[c["line"] - 1]
    src[c["line"] - 1] = c["new"] + "\n"
    open(path, "w").write("".join(src))
    try:
        env = {"CARGO_TARGET_DIR": os.path.join(wt, "target")}
        rc, o = sh("cargo check --offline --features '%s' 2>&1 | tail -3" % FEATS, cwd=wt, env=env)
        if "error" in o:
            return "no-compile", None
        rc, o = sh("cargo test --offline --lib 2>&1 | grep 'test result' | head -1", cwd=wt, env=env)
        if "0 failed" not in o:
            return "killed-by-baseline", None
        rc, o = sh("cargo test --offline --lib --features '%s' 2>&1 | grep 'test result' | head -1" % FEATS, cwd=wt, env=env)
        if "0 failed" not in o:
            return "killed-by-feature-suite", None
        rc, diff = sh(["git", "diff", "--", "src"], cwd=wt)
        return "kept", diff
    finally:
        src[c["line"] - 1] = keep
        open(path, "w").write("".join(src))


def gen(n, seed, out):
    os.makedirs(out, exist_ok=True)
    rng = random.Random(seed)
    cands = candidates(rng)[: n]
    workers = 8
    wts = []
    for w in range(workers):
        wt = "/tmp/mutwt-%d-%d" % (os.getpid(), w)
        sh(["git", "-C", REPO, "worktree", "add", "-q", "--detach", wt, "HEAD"])
        wts.append(wt)
    results = [None] * len(cands)

    def work(w):
        for k in range(w, len(cands), workers):
            try:
                results[k] = try_mutant(wts[w], cands[k])
            except Exception as e:  # noqa
                results[k] = ("error:%s" % e, None)
    with ThreadPoolExecutor(workers) as ex:
        list(ex.map(work, range(workers)))
    for wt in wts:
        sh(["git", "-C", REPO, "worktree", "remove", "--force", wt])
        shutil.rmtree(wt, ignore_errors=True)
    index, hist = [], {}
    for k, (c, r) in enumerate(zip(cands, results)):
        st, diff = r
        hist[st] = hist.get(st, 0) + 1
        if st == "kept":
            open(os.path.join(out, "%d.diff" % k), "w").write(diff)
            index.append({"id": k, **c})
    json.dump({"seed": seed, "generated": len(cands), "outcome": hist, "kept": index}, open(os.path.join(out, "index.json"), "w"), indent=1)
    print(hist)


def run(out):
    anchors = {}
    for l in open(os.path.join(ROOT, "properties.jsonl")):
        p = json.loads(l)
        for f in p["anchors"]["files"]:
            anchors.setdefault(f, []).append(p["id"])
    idx = json.load(open(os.path.join(out, "index.json")))
    res = []
    assert sh(["git", "-C", REPO, "status", "--porcelain", "--untracked-files=no"])[1].strip() == "", "/repo has local changes"
    # first pass: the properties most directly concerned with the file (the slow ones, C07/C18/C17, in a second pass over survivors)
    primary = {"src/volatile_memory.rs": ["C01", "C04", "C05", "C06"], "src/bitmap/backend/atomic_bitmap.rs": ["C09", "C08", "C05", "C16"],
               "src/bitmap/backend/slice.rs": ["C09", "C05"], "src/bitmap/mod.rs": ["C05", "C09"], "src/mmap/mod.rs": ["C02", "C10", "C03", "C15"],
               "src/guest_memory.rs": ["C02", "C03", "C14"], "src/io.rs": ["C13", "C14", "C16"], "src/mmap/unix.rs": ["C15", "C12", "C01"]}
    second = len(sys.argv) > 3 and sys.argv[3] == "second"
    if second:
        prev = {r["id"]: r for r in json.load(open(os.path.join(out, "results.json")))}
        idx["kept"] = [m for m in idx["kept"] if m["id"] in prev and not prev[m["id"]]["caught_by"]]
    resfile = os.path.join(out, "results2.json" if second else "results.json")
    if os.path.exists(resfile) and not second:
        res = json.load(open(resfile))          # resume
    done = {r["id"] for r in res}
    for m in idx["kept"]:
        if m["id"] in done:
            continue
        props = anchors.get(m["file"], [])
        if second:
            props = [p for p in props if p not in primary.get(m["file"], [])]
        else:
            props = primary.get(m["file"], props)
        sh(["git", "-C", REPO, "apply", os.path.join(out, "%d.diff" % m["id"])])
        try:
            def one(p):
                rc, o = sh([os.path.join(ROOT, "check"), p, "--tier", "quick"], cwd=ROOT, timeout=3000, env={"VERIF_FAST": "1"})
                line = next((x for x in o.splitlines() if x.startswith("VIOLATION")), "")
                return p, rc, ("no-failing-input-found" in line)
            with ThreadPoolExecutor(len(props) or 1) as ex:
                outs = list(ex.map(one, props))
        finally:
            sh(["git", "-C", REPO, "checkout", "--", "."])
        caught = [p for p, rc, _ in outs if rc != 0]
        res.append({**m, "checks": props, "caught_by": caught, "concrete": [p for p, rc, nf in outs if rc != 0 and not nf]})
        print(m["id"], m["file"], m["line"], m["op"], "->", caught or "SURVIVED", flush=True)
        json.dump(res, open(os.path.join(out, "results2.json" if second else "results.json"), "w"), indent=1)


if __name__ == "__main__":
    if sys.argv[1] == "gen":
        gen(int(sys.argv[2]), int(sys.argv[3]), sys.argv[4])
    else:
        run(sys.argv[2])
