#!/usr/bin/env python3
"""tools/seedcheck.py <seeded-name> <property>...   apply a kept seeded change to /repo, run the quick checks, undo it;
appends the outcome to seeded/<name>/meta.json under "reruns" (checks strengthened after the first run)."""
import json, os, subprocess, sys
ROOT = os.path.dirname(os.path.dirname(os.path.abspath(__file__)))
name, props = sys.argv[1], sys.argv[2:]
d = os.path.join(ROOT, "seeded", name)
assert subprocess.run(["git", "-C", "/repo", "status", "--porcelain", "--untracked-files=no"], capture_output=True, text=True).stdout.strip() == "", "/repo has local changes"
# (a change written before a later fix:/hook commit touched the same lines is kept as written in patch.diff; the same
#  change against the current HEAD is patch-rebased.diff)
patch = os.path.join(d, "patch-rebased.diff") if os.path.exists(os.path.join(d, "patch-rebased.diff")) else os.path.join(d, "patch.diff")
if subprocess.run(["git", "-C", "/repo", "apply", patch]).returncode != 0:
    sys.exit("patch does not apply to /repo HEAD")
head = subprocess.run(["git", "-C", ROOT, "rev-parse", "--short", "HEAD"], capture_output=True, text=True).stdout.strip()
res = []
try:
    for p in props:
        r = subprocess.run([os.path.join(ROOT, "check"), p, "--tier", "quick"], cwd=ROOT, capture_output=True, text=True)
        line = next((l for l in r.stdout.splitlines() if l.startswith("VIOLATION")), "")
        sig = ""
        if "replay=" in line:
            try:
                pl = json.load(open(line.split("replay=")[1].split()[0]))
                sig = pl.get("signature") or ("K/proof: no-failing-input-found" if pl.get("kind") == "no-failing-input-found" else "")
            except Exception:
                pass
        res.append({"check": "./check %s --tier quick" % p, "exit": r.returncode, "line": line, "signature": sig, "verif_commit_after": head})
        print(name, p, "exit=%d" % r.returncode, sig or line)
finally:
    subprocess.run(["git", "-C", "/repo", "checkout", "--", "."])
m = json.load(open(os.path.join(d, "meta.json")))
m.setdefault("reruns", []).extend(res)
json.dump(m, open(os.path.join(d, "meta.json"), "w"), indent=1)
