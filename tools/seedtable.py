#!/usr/bin/env python3
"""prints the markdown table of seeded changes (DESIGN.md section 11) from seeded/*/meta.json"""
import glob, json, os
ROOT = os.path.dirname(os.path.dirname(os.path.abspath(__file__)))
rows = []
for f in sorted(glob.glob(os.path.join(ROOT, "seeded", "*", "meta.json"))):
    m = json.load(open(f))
    first = (m.get("needs_to_manifest") or "").strip().splitlines()
    what = " ".join(first[:2])[:170].replace("|", "/")
    ran = []
    for r in m.get("ran", []):
        c = r["check"].split()[1]
        tag = "caught" if r["exit"] != 0 else "missed"
        rep = r.get("first_replay") or {}
        sig = rep.get("signature") or ("K/proof: no-failing-input-found" if rep.get("kind") == "no-failing-input-found" else "")
        ran.append("%s: %s%s" % (c, tag, (" (`%s`)" % sig) if sig else ""))
    rer = []
    for r in m.get("reruns", []):
        c = r["check"].split()[1]
        rer.append("%s: %s%s" % (c, "caught" if r["exit"] != 0 else "missed", (" (`%s`)" % r["signature"]) if r.get("signature") else ""))
    rows.append("| %s | %s | %s | %s | %s |" % (m["name"], m["property"], what, "; ".join(ran), "; ".join(rer)))
print("| seeded change | property | what it breaks / needs (from the author's note) | quick checks, first run | after strengthening |")
print("|---|---|---|---|---|")
print("\n".join(rows))
