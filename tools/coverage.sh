#!/bin/bash
# tools/coverage.sh [outdir]  — source coverage of /repo/src under the correspondence runs (quick-tier sizes).
# Builds the harness with the nightly toolchain and -C instrument-coverage (its own target dir), runs every world,
# merges the profiles and prints llvm-cov's per-file summary plus the list of never-executed functions of /repo/src.
# Support tooling: it measures how much of the code the model/implementation comparison actually drives; it proves nothing.
set -e
ROOT=$(cd "$(dirname "$0")/.." && pwd)
OUT=${1:-$ROOT/coverage}
BIN=$(rustc +nightly --print sysroot)/lib/rustlib/x86_64-unknown-linux-gnu/bin
T=/tmp/vmverif-cov-$$
mkdir -p $T/prof "$OUT"
cp /repo/Cargo.lock $ROOT/harness/Cargo.lock
export CARGO_NET_OFFLINE=true LLVM_PROFILE_FILE="$T/prof/%p-%m.profraw"
build() { # features targetdir
  (cd $ROOT/harness && RUSTFLAGS="--cfg vm_memory_verif -C instrument-coverage" cargo +nightly build --offline --release --target-dir $2 ${1:+--features $1} >/dev/null 2>&1)
}
build "" $T/t0; build xen $T/t1
B0=$T/t0/release/vmverif; B1=$T/t1/release/vmverif
S=${VERIF_SEED:-20260929}
run() { b=$1; shift; $b "$@" >/dev/null 2>&1 || echo "world $* exited $?"; }
run $B0 addr $S 20000 $T/o; run $B0 endian $S 20000 $T/o; run $B0 bitmap $S 30000 $T/o
run $B0 slice $S 60000 $T/o streams; run $B0 slice $S 60000 $T/o
for m in mixed edit exhaustive; do run $B0 gm $S $([ $m = exhaustive ] && echo 60 || echo 30000) $T/o $m; done
run $B0 copy $S 3000 $T/o; run $B0 atomic $S 3000 $T/o; run $B0 amem $S 6000 $T/o; run $B0 build $S 3000 $T/o; run $B0 life $S 2500 $T/o
run $B1 gm $S 8000 $T/o xen; run $B1 xbuild $S 6000 $T/o
$BIN/llvm-profdata merge -sparse $T/prof/*.profraw -o $T/all.profdata
$BIN/llvm-cov report $B0 -object $B1 -instr-profile=$T/all.profdata --sources /repo/src 2>/dev/null | sed 's#/repo/##' > "$OUT/summary.txt"
$BIN/llvm-cov export $B0 -object $B1 -instr-profile=$T/all.profdata --sources /repo/src -format=lcov 2>/dev/null > $T/lcov.info
python3 - $T/lcov.info "$OUT" <<'PY'
import sys, re, collections, subprocess
lcov, out = sys.argv[1:3]
cur=None; fn={}; da={}
files={}
for l in open(lcov):
    l=l.strip()
    if l.startswith('SF:'): cur=l[3:]; files[cur]={'fn':{}, 'fnda':{}, 'da':{}}
    elif l.startswith('FN:'):
        ln,name=l[3:].split(',',1); files[cur]['fn'][name]=int(ln.split(',')[0])
    elif l.startswith('FNDA:'):
        c,name=l[5:].split(',',1); files[cur]['fnda'][name]=files[cur]['fnda'].get(name,0)+int(c)
    elif l.startswith('DA:'):
        ln,c=l[3:].split(',')[:2]; files[cur]['da'][int(ln)]=files[cur]['da'].get(int(ln),0)+int(c)
def demangle(names):
    try:
        p=subprocess.run(['rustfilt'],input='\n'.join(names).encode(),stdout=subprocess.PIPE); return p.stdout.decode().splitlines()
    except Exception: return names
with open(out+'/uncovered_lines.txt','w') as f:
    for sf in sorted(files):
        d=files[sf]['da']; src=open(sf).read().splitlines()
        # skip #[cfg(test)] mod tests
        tstart=next((i+1 for i,l in enumerate(src) if l.strip().startswith('mod tests')),10**9)
        unc=[ln for ln,c in sorted(d.items()) if c==0 and ln<tstart]
        tot=[ln for ln in d if ln<tstart]
        f.write("== %s: %d/%d executable non-test lines never executed\n"%(sf.replace('/repo/',''),len(unc),len(tot)))
        # group into ranges
        rng=[]
        for ln in unc:
            if rng and ln==rng[-1][1]+1: rng[-1][1]=ln
            else: rng.append([ln,ln])
        for a,b in rng:
            f.write("  %d-%d: %s\n"%(a,b,src[a-1].strip()[:100]))
PY
rm -rf $T
cat "$OUT/summary.txt"
