#!/bin/bash
# tools/precommit.sh — what to run before committing a change to the machinery: all four harness builds and the Lean
# project (./check --setup), every quick check on the unchanged tree in parallel, MANIFEST/evidence against their schemas.
cd "$(dirname "$0")/.."
test -z "$(git -C /repo status --porcelain --untracked-files=no)" || { echo "/repo has local changes"; exit 2; }
./check --setup > /tmp/precommit-setup.log 2>&1 || { echo "setup failed"; tail -20 /tmp/precommit-setup.log; exit 1; }
rm -rf /tmp/precommit; mkdir -p /tmp/precommit
for p in C01 C02 C03 C04 C05 C06 C07 C08 C09 C10 C11 C12 C13 C14 C15 C16 C17 C18 C19 C20; do
  ( ./check $p --tier quick > /tmp/precommit/$p.log 2>&1; echo "$p rc=$?" >> /tmp/precommit/rc.txt ) &
done
wait
bad=$(grep -v "rc=0" /tmp/precommit/rc.txt)
grep -h "VIOLATION\|KNOWN" /tmp/precommit/*.log
python3 checklib/mkmanifest.py > /dev/null
python3-vt - <<'PY' || exit 1
import json, jsonschema, glob
jsonschema.validate(json.load(open('/verif/MANIFEST.json')), json.load(open('/root/.vp/MANIFEST.schema.json')))
es = json.load(open('/root/.vp/EVIDENCE.schema.json'))
for f in sorted(glob.glob('/verif/evidence/*.json')):
    jsonschema.validate(json.load(open(f)), es)
print("manifest and evidence valid")
PY
test -z "$bad" && echo "all 20 quick checks exit 0" || { echo "FAILED: $bad"; exit 1; }
