//! Readers and writers used by the stream forms (C13, C14): the crate's own adapters
//! (`&[u8]`, `&mut [u8]`, `Vec<u8>`, `Cursor<_>`, `File`) behind one enum, plus a scripted
//! stream that obeys a per-call behaviour list (full / short / zero / EINTR / hard error).
use crate::rng::Rng;
use crate::util::*;
use std::collections::{HashMap, VecDeque};
use std::io::{Cursor, Read, Seek, SeekFrom, Write};
use vm_memory::bitmap::BitmapSlice;
use vm_memory::{ReadVolatile, VolatileMemoryError, VolatileSlice, WriteVolatile};

#[derive(Clone, Copy, Debug)]
pub enum Beh {
    Full,
    Short(usize),
    Zero,
    Eintr,
    Fail,
}

pub fn parse_script(s: &str) -> VecDeque<Beh> {
    s.split(',')
        .filter_map(|t| match t.as_bytes().first() {
            Some(b'F') => Some(Beh::Full),
            Some(b'Z') => Some(Beh::Zero),
            Some(b'I') => Some(Beh::Eintr),
            Some(b'E') => Some(Beh::Fail),
            Some(b'S') => t[1..].parse().ok().map(Beh::Short),
            _ => None,
        })
        .collect()
}

fn io_err(kind: std::io::ErrorKind) -> VolatileMemoryError {
    VolatileMemoryError::IOError(std::io::Error::new(kind, "scripted"))
}

/// harness stream obeying a script; uses the trait's *default* exact loops
pub struct ScriptRd {
    pub data: Vec<u8>,
    pub pos: usize,
    pub script: VecDeque<Beh>,
}
impl ReadVolatile for ScriptRd {
    fn read_volatile<B: BitmapSlice>(&mut self, buf: &mut VolatileSlice<B>) -> Result<usize, VolatileMemoryError> {
        let beh = self.script.pop_front().unwrap_or(Beh::Full);
        let mut src: &[u8] = &self.data[self.pos..];
        let n = match beh {
            Beh::Full => src.read_volatile(buf)?,
            Beh::Short(k) => {
                let lim = k.min(buf.len());
                let mut sub = buf.subslice(0, lim)?;
                src.read_volatile(&mut sub)?
            }
            Beh::Zero => 0,
            Beh::Eintr => return Err(io_err(std::io::ErrorKind::Interrupted)),
            Beh::Fail => return Err(io_err(std::io::ErrorKind::Other)),
        };
        self.pos += n;
        Ok(n)
    }
}
pub struct ScriptWr {
    pub sink: Vec<u8>,
    pub script: VecDeque<Beh>,
}
impl WriteVolatile for ScriptWr {
    fn write_volatile<B: BitmapSlice>(&mut self, buf: &VolatileSlice<B>) -> Result<usize, VolatileMemoryError> {
        let beh = self.script.pop_front().unwrap_or(Beh::Full);
        match beh {
            Beh::Full => self.sink.write_volatile(buf),
            Beh::Short(k) => {
                let sub = buf.subslice(0, k.min(buf.len()))?;
                self.sink.write_volatile(&sub)
            }
            Beh::Zero => Ok(0),
            Beh::Eintr => Err(io_err(std::io::ErrorKind::Interrupted)),
            Beh::Fail => Err(io_err(std::io::ErrorKind::Other)),
        }
    }
}

pub enum Rd {
    Slice { data: Vec<u8>, pos: usize },
    Cursor(Cursor<Vec<u8>>),
    Scripted(ScriptRd),
    /// regular file holding `data`; `bad` is a descriptor on which read(2) fails (EBADF);
    /// the script says which one each call uses (F = good, E = bad)
    Fd { good: std::fs::File, bad: std::fs::File, len: usize, script: VecDeque<Beh> },
}

impl ReadVolatile for Rd {
    fn read_volatile<B: BitmapSlice>(&mut self, buf: &mut VolatileSlice<B>) -> Result<usize, VolatileMemoryError> {
        match self {
            Rd::Slice { data, pos } => {
                let mut s: &[u8] = &data[*pos..];
                let r = s.read_volatile(buf);
                *pos = data.len() - s.len();
                r
            }
            Rd::Cursor(c) => c.read_volatile(buf),
            Rd::Scripted(s) => s.read_volatile(buf),
            Rd::Fd { good, bad, script, .. } => match script.pop_front().unwrap_or(Beh::Full) {
                Beh::Fail => bad.read_volatile(buf),
                _ => good.read_volatile(buf),
            },
        }
    }
    fn read_exact_volatile<B: BitmapSlice>(&mut self, buf: &mut VolatileSlice<B>) -> Result<(), VolatileMemoryError> {
        match self {
            Rd::Slice { data, pos } => {
                let mut s: &[u8] = &data[*pos..];
                let r = s.read_exact_volatile(buf);
                *pos = data.len() - s.len();
                r
            }
            Rd::Cursor(c) => c.read_exact_volatile(buf),
            Rd::Scripted(s) => s.read_exact_volatile(buf),
            Rd::Fd { .. } => {
                // the default loop of the trait, driven through our per-call dispatch
                struct Via<'a>(&'a mut Rd);
                impl ReadVolatile for Via<'_> {
                    fn read_volatile<B: BitmapSlice>(&mut self, buf: &mut VolatileSlice<B>) -> Result<usize, VolatileMemoryError> {
                        self.0.read_volatile(buf)
                    }
                }
                Via(self).read_exact_volatile(buf)
            }
        }
    }
}

/// what the corresponding std::io operation does on a twin of the stream with an ordinary buffer
pub struct StdTwin {
    pub ok: bool,
    pub n: usize,
    pub bytes: Vec<u8>,
    pub err_kind: u32,
    /// cursor position of the twin afterwards (cursors only)
    pub pos: Option<u64>,
}

impl Rd {
    /// run `std::io::Read::read` / `read_exact` on a twin of this stream (only for the crate's
    /// plain adapters: scripted streams have no std counterpart)
    pub fn std_twin(&mut self, buflen: usize, exact: bool) -> Option<StdTwin> {
        let mut buf = vec![0u8; buflen];
        let run = |r: &mut dyn Read, buf: &mut Vec<u8>| -> StdTwin {
            if exact {
                match r.read_exact(&mut buf[..]) {
                    Ok(()) => StdTwin { ok: true, n: buflen, bytes: buf.clone(), err_kind: 0, pos: None },
                    Err(e) => StdTwin { ok: false, n: 0, bytes: vec![], err_kind: crate::slice::io_kind(&e), pos: None },
                }
            } else {
                match r.read(&mut buf[..]) {
                    Ok(n) => StdTwin { ok: true, n, bytes: buf[..n].to_vec(), err_kind: 0, pos: None },
                    Err(e) => StdTwin { ok: false, n: 0, bytes: vec![], err_kind: crate::slice::io_kind(&e), pos: None },
                }
            }
        };
        match self {
            Rd::Slice { data, pos } => {
                let mut twin: &[u8] = &data[*pos..];
                Some(run(&mut twin, &mut buf))
            }
            Rd::Cursor(c) => {
                let mut twin = Cursor::new(c.get_ref().clone());
                twin.set_position(c.position());
                let mut t = run(&mut twin, &mut buf);
                t.pos = Some(twin.position());
                Some(t)
            }
            Rd::Fd { good, script, .. } if script.is_empty() => {
                let mut twin = good.try_clone().ok()?;
                let p = good.stream_position().ok()?;
                let t = run(&mut twin, &mut buf);
                // the clone shares the file offset: put it back
                good.seek(SeekFrom::Start(p)).ok()?;
                Some(t)
            }
            _ => None,
        }
    }

    /// (bytes consumed so far, bytes still available)
    pub fn progress(&mut self) -> (usize, usize) {
        match self {
            Rd::Slice { data, pos } => (*pos, data.len() - *pos),
            Rd::Cursor(c) => {
                let len = c.get_ref().len();
                let p = (c.position() as usize).min(len);
                (p, len - p)
            }
            Rd::Scripted(s) => (s.pos, s.data.len() - s.pos),
            Rd::Fd { good, len, .. } => {
                let p = good.stream_position().unwrap() as usize;
                (p, len.saturating_sub(p))
            }
        }
    }
    pub fn data_at(&mut self, from: usize, to: usize) -> Vec<u8> {
        match self {
            Rd::Slice { data, .. } => data[from..to].to_vec(),
            Rd::Cursor(c) => c.get_ref()[from..to].to_vec(),
            Rd::Scripted(s) => s.data[from..to].to_vec(),
            Rd::Fd { good, .. } => {
                let p = good.stream_position().unwrap();
                let mut v = vec![0u8; to - from];
                good.seek(SeekFrom::Start(from as u64)).unwrap();
                good.read_exact(&mut v).unwrap();
                good.seek(SeekFrom::Start(p)).unwrap();
                v
            }
        }
    }
    pub fn is_fd(&self) -> bool {
        matches!(self, Rd::Fd { .. })
    }
}

pub enum Wr {
    MutSlice { buf: Vec<u8>, pos: usize },
    Vec(Vec<u8>),
    Cursor { buf: Vec<u8>, pos: u64 },
    Scripted(ScriptWr),
    /// regular file; `bad` is a descriptor on which write(2) fails (EBADF); the script says which one each call uses (F = file, E = bad)
    Fd { file: std::fs::File, bad: std::fs::File, script: VecDeque<Beh> },
}

impl WriteVolatile for Wr {
    fn write_volatile<B: BitmapSlice>(&mut self, v: &VolatileSlice<B>) -> Result<usize, VolatileMemoryError> {
        match self {
            Wr::MutSlice { buf, pos } => {
                let total = buf.len();
                let mut s: &mut [u8] = &mut buf[*pos..];
                let r = s.write_volatile(v);
                *pos = total - s.len();
                r
            }
            Wr::Vec(x) => x.write_volatile(v),
            Wr::Cursor { buf, pos } => {
                let mut c = Cursor::new(&mut buf[..]);
                c.set_position(*pos);
                let r = c.write_volatile(v);
                *pos = c.position();
                r
            }
            Wr::Scripted(s) => s.write_volatile(v),
            Wr::Fd { file, bad, script } => match script.pop_front().unwrap_or(Beh::Full) {
                Beh::Fail => bad.write_volatile(v),
                // a short write on a regular file: the file-size limit of the process lets exactly `k` more bytes in
                // (a further write(2) inside the same call would fail with EFBIG; SIGXFSZ is ignored, see main)
                Beh::Short(k) if k > 0 && k < v.len() => {
                    let pos = file.stream_position().unwrap();
                    let mut old = libc::rlimit { rlim_cur: 0, rlim_max: 0 };
                    unsafe { libc::getrlimit(libc::RLIMIT_FSIZE, &mut old) };
                    let lim = libc::rlimit { rlim_cur: pos + k as u64, rlim_max: old.rlim_max };
                    unsafe { libc::setrlimit(libc::RLIMIT_FSIZE, &lim) };
                    let r = file.write_volatile(v);
                    unsafe { libc::setrlimit(libc::RLIMIT_FSIZE, &old) };
                    r
                }
                _ => file.write_volatile(v),
            },
        }
    }
    fn write_all_volatile<B: BitmapSlice>(&mut self, v: &VolatileSlice<B>) -> Result<(), VolatileMemoryError> {
        match self {
            Wr::MutSlice { buf, pos } => {
                let total = buf.len();
                let mut s: &mut [u8] = &mut buf[*pos..];
                let r = s.write_all_volatile(v);
                *pos = total - s.len();
                r
            }
            Wr::Vec(x) => x.write_all_volatile(v),
            Wr::Cursor { buf, pos } => {
                let mut c = Cursor::new(&mut buf[..]);
                c.set_position(*pos);
                let r = c.write_all_volatile(v);
                *pos = c.position();
                r
            }
            Wr::Scripted(s) => s.write_all_volatile(v),
            Wr::Fd { .. } => {
                // the default loop of the trait, driven through our per-call dispatch
                struct Via<'a>(&'a mut Wr);
                impl WriteVolatile for Via<'_> {
                    fn write_volatile<B: BitmapSlice>(&mut self, buf: &VolatileSlice<B>) -> Result<usize, VolatileMemoryError> {
                        self.0.write_volatile(buf)
                    }
                }
                Via(self).write_all_volatile(v)
            }
        }
    }
}

impl Wr {
    /// `std::io::Write::write` / `write_all` of `src` on a twin of this sink: (ok, count, sink contents afterwards, error kind)
    pub fn std_twin(&mut self, src: &[u8], exact: bool) -> Option<(bool, usize, Vec<u8>, u32)> {
        let run = |w: &mut dyn Write| -> (bool, usize, u32) {
            if exact {
                match w.write_all(src) { Ok(()) => (true, src.len(), 0), Err(e) => (false, 0, crate::slice::io_kind(&e)) }
            } else {
                match w.write(src) { Ok(n) => (true, n, 0), Err(e) => (false, 0, crate::slice::io_kind(&e)) }
            }
        };
        match self {
            Wr::MutSlice { buf, pos } => {
                let mut twin = buf.clone();
                let r = { let mut s: &mut [u8] = &mut twin[*pos..]; run(&mut s) };
                Some((r.0, r.1, twin, r.2))
            }
            Wr::Vec(v) => {
                let mut twin = v.clone();
                let r = run(&mut twin);
                Some((r.0, r.1, twin, r.2))
            }
            Wr::Cursor { buf, pos } => {
                let mut twin = buf.clone();
                let r = { let mut c = Cursor::new(&mut twin[..]); c.set_position(*pos); run(&mut c) };
                Some((r.0, r.1, twin, r.2))
            }
            _ => None,
        }
    }

    /// (whole sink contents, position)
    pub fn state(&mut self) -> (Vec<u8>, u64) {
        match self {
            Wr::MutSlice { buf, pos } => (buf.clone(), *pos as u64),
            Wr::Vec(v) => (v.clone(), 0),
            Wr::Cursor { buf, pos } => (buf.clone(), *pos),
            Wr::Scripted(s) => (s.sink.clone(), 0),
            Wr::Fd { file, .. } => {
                let mut v = Vec::new();
                let p = file.stream_position().unwrap();
                file.seek(SeekFrom::Start(0)).unwrap();
                file.read_to_end(&mut v).unwrap();
                file.seek(SeekFrom::Start(p)).unwrap();
                (v, 0)
            }
        }
    }
    /// where the next byte would go
    fn cursor(&mut self) -> usize {
        match self {
            Wr::MutSlice { pos, .. } => *pos,
            Wr::Vec(v) => v.len(),
            Wr::Cursor { buf, pos } => (*pos as usize).min(buf.len()),
            Wr::Scripted(s) => s.sink.len(),
            Wr::Fd { file, .. } => file.stream_position().unwrap() as usize,
        }
    }
}

pub struct RdRes {
    pub res: Result<usize, String>,
    pub consumed: Vec<u8>,
    /// "left=<bytes still available> pos=<cursor position, 0 for other kinds>"
    pub left: String,
    pub failed_fd: bool,
    pub pos: u64,
}

#[derive(Default)]
pub struct Streams {
    pub rds: HashMap<u64, Rd>,
    pub wrs: HashMap<u64, Wr>,
}

pub fn tmpfile_pub() -> std::fs::File {
    tmpfile()
}
fn tmpfile() -> std::fs::File {
    // anonymous temporary file (unlinked immediately)
    let dir = std::env::temp_dir();
    static N: std::sync::atomic::AtomicU64 = std::sync::atomic::AtomicU64::new(0);
    let p = dir.join(format!("vmverif-{}-{}", std::process::id(), N.fetch_add(1, std::sync::atomic::Ordering::SeqCst)));
    let f = std::fs::OpenOptions::new().read(true).write(true).create(true).truncate(true).open(&p).unwrap();
    let _ = std::fs::remove_file(&p);
    f
}

impl Streams {
    pub fn exec(&mut self, kv: &Kv) -> String {
        let id = kv.n("id");
        match kv.op {
            "rd.new" => {
                let data = kv.bytes("data");
                let r = match kv.s("kind") {
                    "slice" => Rd::Slice { data, pos: 0 },
                    "cursor" => {
                        let mut c = Cursor::new(data);
                        c.set_position(kv.n("pos"));
                        Rd::Cursor(c)
                    }
                    "fd" => {
                        let mut good = tmpfile();
                        good.write_all(&data).unwrap();
                        good.seek(SeekFrom::Start(0)).unwrap();
                        // a descriptor that cannot be read from: opened write-only
                        let bad = std::fs::OpenOptions::new().write(true).open("/dev/null").unwrap();
                        Rd::Fd { good, bad, len: data.len(), script: parse_script(kv.s("script")) }
                    }
                    _ => Rd::Scripted(ScriptRd { data, pos: 0, script: parse_script(kv.s("script")) }),
                };
                self.rds.insert(id, r);
                "ok".into()
            }
            "wr.new" => {
                let data = kv.bytes("data");
                let w = match kv.s("kind") {
                    "mutslice" => Wr::MutSlice { buf: data, pos: 0 },
                    "vec" => Wr::Vec(data),
                    "cursor" => Wr::Cursor { buf: data, pos: kv.n("pos") },
                    "fd" => {
                        // a descriptor that cannot be written to: opened read-only
                        let bad = std::fs::OpenOptions::new().read(true).open("/dev/null").unwrap();
                        Wr::Fd { file: tmpfile(), bad, script: parse_script(kv.s("script")) }
                    }
                    _ => Wr::Scripted(ScriptWr { sink: data, script: parse_script(kv.s("script")) }),
                };
                self.wrs.insert(id, w);
                "ok".into()
            }
            "rd.state" => match self.rds.get_mut(&id) {
                Some(r) => {
                    let (_, left) = r.progress();
                    let pos = if let Rd::Cursor(c) = r { c.position() } else { 0 };
                    format!("ok left={} pos={}", left, pos)
                }
                None => "bad-id".into(),
            },
            _ => "bad-op".into(),
        }
    }

    pub fn read_into(&mut self, id: u64, f: impl FnOnce(&mut Rd) -> Result<usize, String>) -> RdRes {
        let rd = self.rds.get_mut(&id).unwrap();
        let (p0, _) = rd.progress();
        let res = f(rd);
        let (p1, left) = rd.progress();
        let consumed = if p1 >= p0 { rd.data_at(p0, p1) } else { vec![] };
        let failed_fd = rd.is_fd() && matches!(&res, Err(e) if e.starts_with("err io k=4"));
        let pos = if let Rd::Cursor(c) = rd { c.position() } else { 0 };
        RdRes { res, consumed, left: format!("{} pos={}", left, pos), failed_fd, pos }
    }

    pub fn write_from(&mut self, id: u64, f: impl FnOnce(&mut Wr) -> Result<usize, String>) -> (Result<usize, String>, Vec<u8>) {
        let wr = self.wrs.get_mut(&id).unwrap();
        let c0 = wr.cursor();
        let res = f(wr);
        let c1 = wr.cursor();
        let (sink, _) = wr.state();
        let delivered = if c1 >= c0 && c1 <= sink.len() { sink[c0..c1].to_vec() } else { vec![] };
        (res, delivered)
    }

    pub fn sink_state(&mut self, id: u64) -> (Vec<u8>, u64) {
        self.wrs.get_mut(&id).unwrap().state()
    }
}

fn gen_script(rng: &mut Rng, fd: bool) -> String {
    gen_script2(rng, fd, false)
}
/// `wr`: the script is for a descriptor sink (short writes can be produced there)
fn gen_script2(rng: &mut Rng, fd: bool, wr: bool) -> String {
    let n = rng.below(7);
    (0..n)
        .map(|_| {
            if fd {
                return match rng.below(8) { 0 | 1 => "E".to_string(), 2 if wr => format!("S{}", 1 + rng.below(6)), _ => "F".to_string() };
            }
            match rng.below(10) {
                0 | 1 => "F".to_string(),
                2 | 3 | 4 => format!("S{}", rng.below(6)),
                5 => "Z".to_string(),
                6 | 7 | 8 => "I".to_string(),
                _ => "E".to_string(),
            }
        })
        .collect::<Vec<_>>()
        .join(",")
}

/// create a fresh stream (emitting its `rd.new` / `wr.new` line through `exec`) and return
/// the transfer op line that uses it
pub fn gen_stream_ops(rec: &mut Rec, rng: &mut Rng, exec: &mut dyn FnMut(&mut Rec, String), prefix: &str, target: &str, count: u64) -> String {
    let reading = rng.chance(1, 2);
    let exact = rng.chance(1, 2);
    // lengths around `count` and around the 8-byte small-copy threshold
    let dlen = match rng.below(6) {
        0 => 0,
        1 => count.min(60),
        2 => count.saturating_sub(1 + rng.below(3)).min(60),
        3 => count.saturating_add(1 + rng.below(4)).min(60),
        4 => rng.below(12),
        _ => rng.below(48),
    } as usize;
    if reading {
        let kind = *rng.pick(&["slice", "cursor", "scripted", "scripted", "fd"]);
        let data = rng.bytes(dlen);
        // (a cursor may stand anywhere, far beyond its data included: position + count must not be computed carelessly)
        let pos = if kind == "cursor" { match rng.below(10) { 0 | 1 => dlen as u64 + rng.below(4), 2 => *rng.pick(&[u64::MAX, u64::MAX - 1, u64::MAX - 7, u64::MAX - 8, 1 << 63, (1 << 32) + 1]), _ => rng.below(dlen as u64 + 1) } } else { 0 };
        let script = if kind == "scripted" || kind == "fd" { gen_script(rng, kind == "fd") } else { String::new() };
        exec(rec, format!("rd.new id=0 kind={} data={} pos={} script={}", kind, hex(&data), pos, script));
        format!("{}.{} {} rd=0 count={}", prefix, if exact { "revf" } else { "rvf" }, target, count)
    } else {
        let kind = *rng.pick(&["mutslice", "vec", "cursor", "scripted", "scripted", "fd"]);
        let data = if kind == "vec" || kind == "scripted" { let k = rng.below(4) as usize; rng.bytes(k) } else if kind == "fd" { vec![] } else { rng.bytes(dlen) };
        let pos = if kind == "cursor" { if rng.chance(1, 5) { dlen as u64 + rng.below(4) } else { rng.below(dlen as u64 + 1) } } else { 0 };
        let script = if kind == "scripted" || kind == "fd" { gen_script2(rng, kind == "fd", true) } else { String::new() };
        exec(rec, format!("wr.new id=0 kind={} data={} pos={} script={}", kind, hex(&data), pos, script));
        format!("{}.{} {} wr=0 count={}", prefix, if exact { "wavt" } else { "wvt" }, target, count)
    }
}
