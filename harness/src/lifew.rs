//! `life` world (C12): a mapping lives exactly as long as something can still reach it.
//! Regions are file-backed over uniquely named files so that `/proc/self/maps` shows, per
//! region, whether it is (still) mapped.
use crate::rng::Rng;
use crate::util::*;
use std::collections::{BTreeMap, HashMap};
use std::sync::Arc;
use vm_memory::mmap::MmapRegionBuilder;
use vm_memory::{FileOffset, GuestAddress, GuestAddressSpace, GuestMemory, GuestMemoryAtomic, GuestMemoryMmap, GuestMemoryRegion, GuestRegionMmap, Bytes};

type Reg = GuestRegionMmap<()>;
type Map = GuestMemoryMmap<()>;

enum H {
    Region(Arc<Reg>),
    Map(Map),
    Guard(vm_memory::atomic::GuestMemoryLoadGuard<Map>),
    ArcMap(Arc<Map>),
}

pub struct LifeWorld {
    handles: HashMap<u64, H>,
    refs: HashMap<u64, Vec<u64>>,        // oracle: region ids each handle reaches
    rids: BTreeMap<u64, (String, bool)>, // rid -> (path, owned)
    ext: Vec<(usize, usize)>,            // external mappings made by the harness
    dir: String,
}

/// region sizes vary with the region id: page multiples, a partial last page, less than a page
fn rsz(rid: u64) -> usize {
    [8192usize, 4096 + 100, 100, 12288, 5000][(rid % 5) as usize]
}
fn start_of(rid: u64) -> u64 {
    rid * 0x10000
}

impl LifeWorld {
    pub fn new() -> Self {
        let dir = format!("{}/vmverif-life-{}", std::env::temp_dir().display(), std::process::id());
        let _ = std::fs::create_dir_all(&dir);
        LifeWorld { handles: HashMap::new(), refs: HashMap::new(), rids: BTreeMap::new(), ext: vec![], dir }
    }
    fn reset(&mut self) {
        self.handles.clear();
        self.refs.clear();
        for (p, l) in self.ext.drain(..) {
            unsafe { libc::munmap(p as *mut libc::c_void, l) };
        }
        for (_, (p, _)) in std::mem::take(&mut self.rids) {
            let _ = std::fs::remove_file(p);
        }
    }
    fn mapped(&self, path: &str) -> bool {
        std::fs::read_to_string("/proc/self/maps").map(|s| s.lines().any(|l| l.ends_with(path))).unwrap_or(false)
    }
    fn observe(&self) -> String {
        format!("ok {}", self.rids.iter().map(|(r, (p, _))| format!("{}:{}", r, self.mapped(p))).collect::<Vec<_>>().join(","))
    }
    fn regions_of(&self, h: &H) -> Vec<Arc<Reg>> {
        // the Arcs a handle holds (cloned: callers drop them right away or move them)
        match h {
            H::Region(r) => vec![r.clone()],
            H::Map(_) | H::Guard(_) | H::ArcMap(_) => vec![],
        }
    }

    pub fn exec(&mut self, rec: &mut Rec, line: &str) -> String {
        let kv = Kv::parse(line);
        let hid = kv.n("hid");
        match kv.op {
            "l.reset" => {
                self.reset();
                return "ok ".into();
            }
            "l.create" => {
                let (rid, owned) = (kv.n("rid"), kv.n("owned") == 1);
                let path = format!("{}/r{}", self.dir, rid);
                let f = std::fs::OpenOptions::new().read(true).write(true).create(true).truncate(true).open(&path).unwrap();
                let rsz_ = rsz(rid);
                f.set_len(rsz_ as u64).unwrap();
                let region = if owned {
                    MmapRegionBuilder::<()>::new(rsz_)
                        .with_file_offset(FileOffset::new(f, 0))
                        .with_mmap_prot(libc::PROT_READ | libc::PROT_WRITE)
                        .with_mmap_flags(libc::MAP_SHARED | libc::MAP_NORESERVE)
                        .build()
                        .unwrap()
                } else {
                    use std::os::fd::AsRawFd;
                    let p = unsafe { libc::mmap(std::ptr::null_mut(), rsz_, libc::PROT_READ | libc::PROT_WRITE, libc::MAP_SHARED, f.as_raw_fd(), 0) };
                    self.ext.push((p as usize, rsz_));
                    unsafe { MmapRegionBuilder::<()>::new(rsz_).with_raw_mmap_pointer(p as *mut u8).with_mmap_prot(libc::PROT_READ | libc::PROT_WRITE).with_mmap_flags(libc::MAP_SHARED).build() }.unwrap()
                };
                let r = Arc::new(GuestRegionMmap::new(region, GuestAddress(start_of(rid))).unwrap());
                self.rids.insert(rid, (path, owned));
                self.handles.insert(hid, H::Region(r));
                self.refs.insert(hid, vec![rid]);
            }
            "l.build" => {
                let mut parts = kv.list("parts");
                let mut regs = vec![];
                let mut rr = vec![];
                parts.sort_by_key(|p| self.refs[p][0]);
                for p in &parts {
                    if let Some(H::Region(r)) = self.handles.remove(p) {
                        regs.push(r);
                    }
                    rr.extend(self.refs.remove(p).unwrap());
                }
                let m = Map::from_arc_regions(regs).unwrap();
                self.handles.insert(hid, H::Map(m));
                self.refs.insert(hid, rr);
            }
            "l.insert" => {
                let (src, reg) = (kv.n("src"), kv.n("reg"));
                let Some(H::Region(r)) = self.handles.remove(&reg) else { return "bad-id".into() };
                let rr = self.refs.remove(&reg).unwrap();
                let new = match &self.handles[&src] {
                    H::Map(m) => m.insert_region(r).unwrap(),
                    H::Guard(g) => g.insert_region(r).unwrap(),
                    H::ArcMap(m) => m.insert_region(r).unwrap(),
                    _ => return "bad-kind".into(),
                };
                let mut all = self.refs[&src].clone();
                all.extend(rr);
                self.handles.insert(hid, H::Map(new));
                self.refs.insert(hid, all);
            }
            "l.remove" => {
                let (src, rid, hreg) = (kv.n("src"), kv.n("rid"), kv.n("hreg"));
                let res = match &self.handles[&src] {
                    H::Map(m) => m.remove_region(GuestAddress(start_of(rid)), rsz(rid) as u64),
                    H::Guard(g) => g.remove_region(GuestAddress(start_of(rid)), rsz(rid) as u64),
                    H::ArcMap(m) => m.remove_region(GuestAddress(start_of(rid)), rsz(rid) as u64),
                    _ => return "bad-kind".into(),
                };
                let (new, r) = res.unwrap();
                let rest: Vec<u64> = { let mut v = self.refs[&src].clone(); let i = v.iter().position(|x| *x == rid).unwrap(); v.remove(i); v };
                self.handles.insert(hid, H::Map(new));
                self.refs.insert(hid, rest);
                self.handles.insert(hreg, H::Region(r));
                self.refs.insert(hreg, vec![rid]);
            }
            "l.clone" => {
                let src = kv.n("src");
                let how = kv.s("how");
                let new = match &self.handles[&src] {
                    H::Region(r) => H::Region(r.clone()),
                    H::Map(m) => match how {
                        // a snapshot of an atomically replaceable memory built from a clone of the map; the
                        // GuestMemoryAtomic itself is dropped at once, the guard is then the only owner
                        "snapshot" => H::Guard(GuestMemoryAtomic::new(m.clone()).memory()),
                        "arc" => H::ArcMap(GuestMemoryAtomic::new(m.clone()).memory().into_inner()),
                        _ => H::Map(m.clone()),
                    },
                    H::Guard(g) => if how == "arc" { H::ArcMap(g.clone().into_inner()) } else { H::Guard(g.clone()) },
                    H::ArcMap(m) => H::ArcMap(m.clone()),
                };
                self.handles.insert(hid, new);
                let rr = self.refs[&src].clone();
                self.refs.insert(hid, rr);
            }
            "l.drop" => {
                let h = self.handles.remove(&hid);
                self.refs.remove(&hid);
                if kv.s("how") == "unwind" {
                    // the owner goes away while its thread is unwinding from a panic (a worker that died, a contained panic)
                    let _ = std::panic::catch_unwind(std::panic::AssertUnwindSafe(move || {
                        let _owner = h;
                        panic!("unwinding with an owner on the stack");
                    }));
                } else {
                    drop(h);
                }
            }
            "l.fail" => {
                // a construction that fails (file range past the end of the file, by `over` bytes) owns nothing afterwards
                let path = format!("{}/f{}", self.dir, kv.n("rid"));
                let f = std::fs::OpenOptions::new().read(true).write(true).create(true).truncate(true).open(&path).unwrap();
                f.set_len(kv.n("flen")).unwrap();
                let res = MmapRegionBuilder::<()>::new(kv.us("size"))
                    .with_file_offset(FileOffset::new(f, 0))
                    .with_mmap_prot(libc::PROT_READ | libc::PROT_WRITE)
                    .with_mmap_flags(libc::MAP_SHARED | libc::MAP_NORESERVE)
                    .build();
                let left = self.mapped(&path);
                let _ = std::fs::remove_file(&path);
                match res {
                    Ok(r) => { drop(r); rec.fail("C15", "l.fail/built-past-eof", line); }
                    Err(_) if left => rec.fail("C12", "failed-construction-left-a-mapping", line),
                    Err(_) => {}
                }
            }
            _ => return "bad-op".into(),
        }
        let _ = self.regions_of(&H::ArcMap(Arc::new(Map::new())));
        // a mapping is released once: the executable's own munmap sees every release (src/interpose.rs)
        let (dbl, at) = crate::interpose::take_double_unmaps();
        if dbl > 0 {
            rec.fail("C12", "mapping-unmapped-twice", &format!("{} range at {:#x} released {} more time(s)", line, at, dbl));
        }
        // ---- oracle: an owned mapping is mapped iff some live handle reaches it; external ones always are;
        //      every live handle can still read its memory
        for (rid, (path, owned)) in &self.rids {
            let reachable = self.refs.values().any(|v| v.contains(rid));
            let m = self.mapped(path);
            if *owned && m != reachable {
                rec.fail("C12", if m { "leaked-mapping" } else { "unmapped-while-reachable" }, &format!("{} rid={}", line, rid));
            }
            if !*owned && !m {
                rec.fail("C12", "external-mapping-unmapped", &format!("{} rid={}", line, rid));
            }
        }
        for (h, v) in &self.refs {
            for rid in v {
                let a = GuestAddress(start_of(*rid) + 5);
                let ok = match &self.handles[h] {
                    H::Region(r) => r.read_obj::<u8>(vm_memory::MemoryRegionAddress(5)).is_ok() && r.start_addr().0 == start_of(*rid),
                    H::Map(m) => m.read_obj::<u8>(a).is_ok(),
                    H::Guard(g) => g.read_obj::<u8>(a).is_ok(),
                    H::ArcMap(m) => m.read_obj::<u8>(a).is_ok(),
                };
                if !ok {
                    rec.fail("C12", "handle-cannot-reach-region", &format!("{} handle={} rid={}", line, h, rid));
                }
            }
        }
        self.observe()
    }
}

impl Drop for LifeWorld {
    fn drop(&mut self) {
        self.reset();
        let _ = std::fs::remove_dir_all(&self.dir);
    }
}

pub fn run(rec: &mut Rec, rng: &mut Rng, n_ops: usize) {
    let mut w = LifeWorld::new();
    let mut go = |w: &mut LifeWorld, rec: &mut Rec, line: String| {
        let out = w.exec(rec, &line);
        rec.push(line, out, true);
    };
    let mut done = 0;
    while done < n_ops {
        rec.cases += 1;
        go(&mut w, rec, "l.reset".into());
        let (mut next_h, mut next_r) = (0u64, 0u64);
        let steps = 8 + rng.below(25);
        for _ in 0..steps {
            done += 1;
            let regs: Vec<u64> = w.handles.iter().filter(|(_, h)| matches!(h, H::Region(_))).map(|(k, _)| *k).collect();
            let maps: Vec<u64> = w.handles.iter().filter(|(_, h)| !matches!(h, H::Region(_))).map(|(k, _)| *k).collect();
            let mut regs = regs; regs.sort();
            let mut maps = maps; maps.sort();
            let r = rng.below(100);
            let hid = next_h;
            let line = if r < 25 || (regs.is_empty() && maps.is_empty()) {
                next_h += 1;
                next_r += 1;
                format!("l.create hid={} rid={} owned={}", hid, next_r - 1, if rng.chance(4, 5) { 1 } else { 0 })
            } else if r < 40 && !regs.is_empty() {
                // build from a subset of region handles with distinct regions
                let mut parts: Vec<u64> = vec![];
                let mut seen = vec![];
                for h in &regs {
                    let rid = w.refs[h][0];
                    if rng.chance(2, 3) && !seen.contains(&rid) {
                        parts.push(*h);
                        seen.push(rid);
                    }
                }
                if parts.is_empty() { parts.push(regs[0]); }
                next_h += 1;
                format!("l.build hid={} parts={}", hid, parts.iter().map(|p| p.to_string()).collect::<Vec<_>>().join(","))
            } else if r < 52 && !regs.is_empty() && !maps.is_empty() {
                let src = *rng.pick(&maps);
                let cand: Vec<u64> = regs.iter().copied().filter(|h| !w.refs[&src].contains(&w.refs[h][0])).collect();
                if cand.is_empty() { continue; }
                next_h += 1;
                format!("l.insert hid={} src={} reg={}", hid, src, rng.pick(&cand))
            } else if r < 64 && !maps.is_empty() {
                let src = *rng.pick(&maps);
                if w.refs[&src].is_empty() { continue; }
                let rid = *rng.pick(&w.refs[&src]);
                next_h += 2;
                format!("l.remove hid={} hreg={} src={} rid={}", hid, hid + 1, src, rid)
            } else if r < 78 {
                let all: Vec<u64> = regs.iter().chain(maps.iter()).copied().collect();
                let src = *rng.pick(&all);
                next_h += 1;
                format!("l.clone hid={} src={} how={}", hid, src, rng.pick(&["plain", "snapshot", "arc"]))
            } else if r < 82 {
                next_r += 1;
                let flen = *rng.pick(&[0u64, 100, 4096, 5000, 8192]);
                format!("l.fail rid={} flen={} size={}", next_r - 1, flen, flen + 1 + rng.below(5000))
            } else {
                let all: Vec<u64> = regs.iter().chain(maps.iter()).copied().collect();
                format!("l.drop hid={} how={}", rng.pick(&all), if rng.chance(1, 4) { "unwind" } else { "plain" })
            };
            go(&mut w, rec, line);
        }
        // drop everything in a random order
        let mut all: Vec<u64> = w.handles.keys().copied().collect();
        all.sort();
        while !all.is_empty() {
            let i = rng.below(all.len() as u64) as usize;
            let h = all.remove(i);
            go(&mut w, rec, format!("l.drop hid={} how={}", h, if rng.chance(1, 4) { "unwind" } else { "plain" }));
        }
    }
}
