//! splitmix64: every random choice of a run derives from one state seeded by VERIF_SEED.
#[derive(Clone)]
pub struct Rng(pub u64);

impl Rng {
    pub fn new(seed: u64) -> Self {
        Rng(seed.wrapping_mul(0x9E3779B97F4A7C15) ^ 0xD1B54A32D192ED03)
    }
    pub fn next(&mut self) -> u64 {
        self.0 = self.0.wrapping_add(0x9E3779B97F4A7C15);
        let mut z = self.0;
        z = (z ^ (z >> 30)).wrapping_mul(0xBF58476D1CE4E5B9);
        z = (z ^ (z >> 27)).wrapping_mul(0x94D049BB133111EB);
        z ^ (z >> 31)
    }
    /// uniform in [0, n)
    pub fn below(&mut self, n: u64) -> u64 {
        if n == 0 {
            0
        } else {
            self.next() % n
        }
    }
    pub fn range(&mut self, lo: u64, hi_incl: u64) -> u64 {
        lo + self.below(hi_incl - lo + 1)
    }
    pub fn chance(&mut self, num: u64, den: u64) -> bool {
        self.below(den) < num
    }
    pub fn pick<'a, T>(&mut self, xs: &'a [T]) -> &'a T {
        &xs[self.below(xs.len() as u64) as usize]
    }
    pub fn bytes(&mut self, n: usize) -> Vec<u8> {
        (0..n).map(|_| self.next() as u8).collect()
    }
    /// boundary-heavy number: around each of `marks` (±2), extremes, powers of two ±1, else small
    pub fn boundary(&mut self, marks: &[u64]) -> u64 {
        let r = self.below(100);
        if r < 55 && !marks.is_empty() {
            let m = *self.pick(marks);
            let d = self.below(5) as i64 - 2;
            return (m as i128 + d as i128).clamp(0, u64::MAX as i128) as u64;
        }
        if r < 58 && !marks.is_empty() {
            // a live boundary plus 2^32 (or 2^63): whatever narrows a 64-bit operand on its way sees a valid value there
            let m = *self.pick(marks);
            let d = self.below(3) as i64 - 1;
            let hi = if self.chance(3, 4) { 1u128 << 32 } else { 1u128 << 63 };
            return ((m as i128 + d as i128).max(0) as u128 + hi).min(u64::MAX as u128) as u64;
        }
        if r < 65 {
            let ext = [
                0u64,
                1,
                u64::MAX,
                u64::MAX - 1,
                u64::MAX - 3,
                i64::MAX as u64,
                i64::MAX as u64 + 1,
                i64::MAX as u64 - 1,
                1 << 32,
                (1 << 32) - 1,
                1 << 63,
            ];
            return *self.pick(&ext);
        }
        if r < 72 {
            let k = self.below(64);
            let d = self.below(3) as i64 - 1;
            return ((1u128 << k) as i128 + d as i128).clamp(0, u64::MAX as i128) as u64;
        }
        if r < 75 {
            return self.next();
        }
        self.below(24)
    }
}
