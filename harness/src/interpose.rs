//! The harness executable defines `mmap` and `munmap` itself (the definitions of an executable take precedence over
//! libc's for everything linked into it, the `libc` crate's declarations included): both forward to the raw system
//! call and keep a small table of the ranges that were unmapped and not mapped again since.  A `munmap` of such a
//! range — same address, same length, nothing mapped there in between — is a second release of one mapping
//! (C12: "unmapped, exactly once"; C17: a temporary window is released once).  No allocation happens in here.
use std::sync::atomic::{AtomicBool, AtomicUsize, Ordering};

const CAP: usize = 4096;
static LOCK: AtomicBool = AtomicBool::new(false);
static mut DEAD: [(usize, usize); CAP] = [(0, 0); CAP];
static mut NDEAD: usize = 0;
static DOUBLE: AtomicUsize = AtomicUsize::new(0);
static LAST: AtomicUsize = AtomicUsize::new(0);

fn lock() {
    while LOCK.compare_exchange(false, true, Ordering::Acquire, Ordering::Relaxed).is_err() {
        std::hint::spin_loop();
    }
}
fn unlock() {
    LOCK.store(false, Ordering::Release);
}

/// number of second releases seen since the last call, and the address of the last one
pub fn take_double_unmaps() -> (usize, usize) {
    (DOUBLE.swap(0, Ordering::SeqCst), LAST.load(Ordering::SeqCst))
}

#[no_mangle]
pub unsafe extern "C" fn mmap(addr: *mut libc::c_void, len: libc::size_t, prot: libc::c_int, flags: libc::c_int, fd: libc::c_int, off: libc::off_t) -> *mut libc::c_void {
    let p = libc::syscall(libc::SYS_mmap, addr, len, prot, flags, fd, off) as isize;
    let ret = if (-4095..0).contains(&p) {
        *libc::__errno_location() = -p as libc::c_int;
        libc::MAP_FAILED
    } else {
        p as *mut libc::c_void
    };
    if ret != libc::MAP_FAILED {
        // whatever was dead in this range is alive again
        let (a, b) = (ret as usize, ret as usize + len);
        lock();
        let dead = &mut *std::ptr::addr_of_mut!(DEAD);
        let n = &mut *std::ptr::addr_of_mut!(NDEAD);
        let mut i = 0;
        while i < *n {
            let (x, l) = dead[i];
            if x < b && a < x + l.max(1) {
                dead[i] = dead[*n - 1];
                *n -= 1;
            } else {
                i += 1;
            }
        }
        unlock();
    }
    ret
}

#[no_mangle]
pub unsafe extern "C" fn munmap(addr: *mut libc::c_void, len: libc::size_t) -> libc::c_int {
    let r = libc::syscall(libc::SYS_munmap, addr, len) as isize;
    let ret = if r < 0 {
        *libc::__errno_location() = -r as libc::c_int;
        -1
    } else {
        0
    };
    if ret == 0 && len > 0 {
        lock();
        let dead = &mut *std::ptr::addr_of_mut!(DEAD);
        let n = &mut *std::ptr::addr_of_mut!(NDEAD);
        if dead[..*n].iter().any(|e| *e == (addr as usize, len)) {
            DOUBLE.fetch_add(1, Ordering::SeqCst);
            LAST.store(addr as usize, Ordering::SeqCst);
        } else {
            if *n == CAP {
                *n = 0; // forget: the table only has to remember recent releases
            }
            dead[*n] = (addr as usize, len);
            *n += 1;
        }
        unlock();
    }
    ret
}
