//! `atomic` world (C08): the atomic steps issued by every public AtomicBitmap operation
//! (hook H2), compared with the model's step programs; and an exhaustive enumeration of the
//! interleavings of small multi-thread scenarios on the real code, driven through the yield
//! points of the hook, checked against the "no mark is lost" partition predicate.
use crate::rng::Rng;
use crate::util::*;
use std::collections::{BTreeSet, HashMap};
use std::num::NonZeroUsize;
use std::sync::{Arc, Condvar, Mutex};
use vm_memory::bitmap::AtomicBitmap;
use vm_memory::verif_hooks as hk;

pub struct AtomicWorld {
    bms: HashMap<u64, AtomicBitmap>,
}

fn word0_addr(b: &AtomicBitmap) -> Option<usize> {
    if b.len() == 0 {
        return None;
    }
    hk::atomic_log_start();
    b.is_bit_set(0);
    hk::atomic_log_take().first().map(|s| s.addr)
}

fn fmt_steps(log: &[hk::AtomicStep], base: usize) -> String {
    log.iter()
        .map(|s| {
            let k = ["ld", "st", "fo", "fa"][s.kind as usize];
            format!("{}:{}:{}:{}", k, (s.addr.wrapping_sub(base)) / 8, s.operand, s.returned)
        })
        .collect::<Vec<_>>()
        .join(" ")
}

impl AtomicWorld {
    pub fn new() -> Self {
        AtomicWorld { bms: HashMap::new() }
    }
    pub fn exec(&mut self, _rec: &mut Rec, line: &str) -> String {
        let kv = Kv::parse(line);
        let id = kv.n("id");
        if kv.op == "b.new" {
            let b = AtomicBitmap::new(kv.us("size"), NonZeroUsize::new(kv.us("page")).unwrap());
            let out = format!("ok len={} bs={} w={}", b.len(), b.byte_size(), words(&crate::bitmap::bm_words(&b)));
            self.bms.insert(id, b);
            return out;
        }
        let Some(b) = self.bms.get(&id) else { return "bad-id".into() };
        let base = word0_addr(b).unwrap_or(0);
        hk::atomic_log_start();
        match kv.op {
            "p.mark" => b.set_addr_range(kv.us("start"), kv.us("len")),
            "p.clear" => b.reset_addr_range(kv.us("start"), kv.us("len")),
            "p.setbit" => b.set_bit(kv.us("i")),
            "p.resetbit" => b.reset_bit(kv.us("i")),
            "p.gar" => { b.get_and_reset(); }
            "p.reset" => b.reset(),
            "p.clone" => { let _ = b.clone(); }
            "p.isbit" => { b.is_bit_set(kv.us("i")); }
            _ => return "bad-op".into(),
        }
        let log = hk::atomic_log_take();
        format!("ok steps={} w={}", fmt_steps(&log, base), words(&crate::bitmap::bm_words(b)))
    }
}

// ------------------------------------------------------------------------------------------
// schedule enumeration

#[derive(Clone, Debug)]
pub enum TOp {
    Mark(usize, usize),
    Clear(usize, usize),
    SetBit(usize),
    Harvest,
    CloneB,
}

thread_local! {
    /// set while a thread works on private data (its own clone): those steps are not scheduling points
    static PAUSED: std::cell::Cell<bool> = const { std::cell::Cell::new(false) };
}

struct Sched {
    order: Vec<usize>,
    pos: usize,
    running: Option<usize>,
    finished: Vec<bool>,
}

/// run `threads` (each a list of ops) on `bm` under the interleaving `order` (thread ids, one per atomic step);
/// returns for each thread the results of its harvests / clones
fn run_schedule(bm: Arc<AtomicBitmap>, threads: &[Vec<TOp>], order: Vec<usize>) -> Vec<Vec<Vec<u64>>> {
    let ctl = Arc::new((Mutex::new(Sched { order, pos: 0, running: None, finished: vec![false; threads.len()] }), Condvar::new()));
    let mut handles = vec![];
    for (tid, ops) in threads.iter().enumerate() {
        let (bm, ops, ctl) = (bm.clone(), ops.clone(), ctl.clone());
        handles.push(std::thread::spawn(move || {
            let c2 = ctl.clone();
            hk::set_yield(Some(Box::new(move || {
                if PAUSED.with(|p| p.get()) {
                    return;
                }
                let (m, cv) = &*c2;
                let mut s = m.lock().unwrap();
                if s.running == Some(tid) {
                    s.running = None; // my previous step is complete
                    cv.notify_all();
                }
                // The schedule was computed from a dry run; if the code under test issues a different number of
                // steps (e.g. data-dependent ones) the schedule may run out or name a finished thread: skip
                // those entries, and once it is exhausted let the threads run one step at a time in any order.
                loop {
                    while s.pos < s.order.len() && s.finished[s.order[s.pos]] {
                        s.pos += 1;
                    }
                    if s.running.is_none() && (s.pos >= s.order.len() || s.order[s.pos] == tid) {
                        break;
                    }
                    s = cv.wait(s).unwrap();
                }
                s.running = Some(tid);
                if s.pos < s.order.len() {
                    s.pos += 1;
                }
            })));
            let mut results = vec![];
            for op in &ops {
                match op {
                    TOp::Mark(a, l) => bm.set_addr_range(*a, *l),
                    TOp::Clear(a, l) => bm.reset_addr_range(*a, *l),
                    TOp::SetBit(i) => bm.set_bit(*i),
                    TOp::Harvest => results.push(bm.get_and_reset()),
                    TOp::CloneB => {
                        let c = (*bm).clone();
                        PAUSED.with(|p| p.set(true));
                        results.push(c.get_and_reset());
                        PAUSED.with(|p| p.set(false));
                    }
                }
            }
            hk::set_yield(None);
            let (m, cv) = &*ctl;
            let mut s = m.lock().unwrap();
            if s.running == Some(tid) {
                s.running = None;
            }
            s.finished[tid] = true;
            cv.notify_all();
            results
        }));
    }
    handles.into_iter().map(|h| h.join().unwrap()).collect()
}

/// number of atomic steps of a thread's program: the larger of a dry run on a clean bitmap and one on a
/// fully marked bitmap (the programs of the unchanged code are straight-line; a changed one may not be)
fn count_steps(size: usize, page: usize, ops: &[TOp]) -> usize {
    count_steps_on(size, page, ops, false).max(count_steps_on(size, page, ops, true))
}

fn count_steps_on(size: usize, page: usize, ops: &[TOp], marked: bool) -> usize {
    let bm = AtomicBitmap::new(size, NonZeroUsize::new(page).unwrap());
    if marked {
        bm.set_addr_range(0, size);
    }
    hk::atomic_log_start();
    for op in ops {
        match op {
            TOp::Mark(a, l) => bm.set_addr_range(*a, *l),
            TOp::Clear(a, l) => bm.reset_addr_range(*a, *l),
            TOp::SetBit(i) => bm.set_bit(*i),
            TOp::Harvest => { bm.get_and_reset(); }
            TOp::CloneB => { let _ = bm.clone(); }
        }
    }
    hk::atomic_log_take().len()
}

fn interleavings(counts: &[usize]) -> Vec<Vec<usize>> {
    fn go(counts: &mut Vec<usize>, cur: &mut Vec<usize>, out: &mut Vec<Vec<usize>>) {
        if counts.iter().all(|c| *c == 0) {
            out.push(cur.clone());
            return;
        }
        for t in 0..counts.len() {
            if counts[t] > 0 {
                counts[t] -= 1;
                cur.push(t);
                go(counts, cur, out);
                cur.pop();
                counts[t] += 1;
            }
        }
    }
    let mut out = vec![];
    go(&mut counts.to_vec(), &mut vec![], &mut out);
    out
}

fn pages_of(words: &[u64]) -> BTreeSet<usize> {
    let mut s = BTreeSet::new();
    for (i, w) in words.iter().enumerate() {
        for b in 0..64 {
            if w >> b & 1 == 1 {
                s.insert(i * 64 + b);
            }
        }
    }
    s
}

/// every interleaving of one scenario; the partition predicate of C08
fn scenario(rec: &mut Rec, name: &str, size: usize, page: usize, threads: Vec<Vec<TOp>>) -> usize {
    scenario_post(rec, name, size, page, threads, vec![])
}

/// as `scenario`, with pages marked (sequentially) before the race starts: each of them was marked once, so it may be
/// reported once — by one harvest or at the end — and never twice
fn scenario_pre(rec: &mut Rec, name: &str, size: usize, page: usize, pre: Vec<usize>, threads: Vec<Vec<TOp>>) -> usize {
    PRE.with(|p| *p.borrow_mut() = pre);
    let n = scenario_post(rec, name, size, page, threads, vec![]);
    PRE.with(|p| p.borrow_mut().clear());
    n
}
thread_local! {
    static PRE: std::cell::RefCell<Vec<usize>> = const { std::cell::RefCell::new(Vec::new()) };
}

/// as `scenario`; when the concurrent part is over the calling thread marks the pages in `post`, one by one: a
/// mark made after everything else has finished must be there at the end, whatever the interleaving before it was
fn scenario_post(rec: &mut Rec, name: &str, size: usize, page: usize, threads: Vec<Vec<TOp>>, post: Vec<usize>) -> usize {
    let counts: Vec<usize> = threads.iter().map(|t| count_steps(size, page, t)).collect();
    let all = interleavings(&counts);
    let np = size.div_ceil(page);
    // pages some thread marks / explicitly clears
    let mut marked = BTreeSet::new();
    let mut cleared = BTreeSet::new();
    for t in &threads {
        for op in t {
            match op {
                TOp::Mark(a, l) if *l > 0 => { for p in a / page..=((a + l - 1) / page) { if p < np { marked.insert(p); } } }
                TOp::SetBit(i) if *i < np => { marked.insert(*i); }
                TOp::Clear(a, l) if *l > 0 => { for p in a / page..=((a + l - 1) / page) { if p < np { cleared.insert(p); } } }
                _ => {}
            }
        }
    }
    for order in &all {
        let bm = Arc::new(AtomicBitmap::new(size, NonZeroUsize::new(page).unwrap()));
        let pre: Vec<usize> = PRE.with(|p| p.borrow().clone());
        for p in &pre {
            bm.set_bit(*p);
        }
        let res = run_schedule(bm.clone(), &threads, order.clone());
        for p in &post {
            bm.set_addr_range(p * page, 1);
        }
        let end = pages_of(&bm.get_and_reset());
        for p in &post {
            if *p < np && !end.contains(p) {
                rec.fail("C08", &format!("{}/mark-after-the-race-lost", name), &format!("page={} order={:?}", p, order));
            }
        }
        let mut harvested = BTreeSet::new();
        let mut seen_by_clone = BTreeSet::new();
        for (tid, rs) in res.iter().enumerate() {
            let mut k = 0;
            for op in &threads[tid] {
                match op {
                    TOp::Harvest => { harvested.extend(pages_of(&rs[k])); k += 1; }
                    TOp::CloneB => { seen_by_clone.extend(pages_of(&rs[k])); k += 1; }
                    _ => {}
                }
            }
        }
        // a page marked once before the race is reported once: by a harvest or at the end, not both (nor by two harvests)
        for p in &pre {
            let mut times = end.contains(p) as usize;
            for (tid, rs) in res.iter().enumerate() {
                let mut k = 0;
                for op in &threads[tid] {
                    if let TOp::Harvest = op { times += pages_of(&rs[k]).contains(p) as usize; k += 1; } else if let TOp::CloneB = op { k += 1; }
                }
            }
            if times > 1 && !marked.contains(p) {
                rec.fail("C08", &format!("{}/mark-reported-twice", name), &format!("page={} times={} order={:?}", p, times, order));
                // the same observation read as precision (C16): the page is dirty again although nothing wrote it since it was harvested
                rec.fail("C16", &format!("{}/dirty-again-without-a-write", name), &format!("page={} order={:?}", p, order));
            }
            if times == 0 && !cleared.contains(p) {
                rec.fail("C08", &format!("{}/lost-mark", name), &format!("page={} (marked before the race) order={:?}", p, order));
            }
        }
        // no mark lost: every marked page is harvested, still set, or was explicitly cleared
        for p in &marked {
            if !harvested.contains(p) && !end.contains(p) && !cleared.contains(p) {
                rec.fail("C08", &format!("{}/lost-mark", name), &format!("page={} order={:?}", p, order));
            }
        }
        // no phantom: nothing reported or left that nobody marked
        for p in harvested.iter().chain(end.iter()).chain(seen_by_clone.iter()) {
            if !marked.contains(p) && !post.contains(p) && !pre.contains(p) {
                rec.fail("C08", &format!("{}/phantom", name), &format!("page={} order={:?}", p, order));
            }
        }
    }
    *rec.notes.entry(format!("schedules_{}", name)).or_default() += all.len();
    all.len()
}

pub fn run(rec: &mut Rec, rng: &mut Rng, n_random: usize, thorough: bool) {
    let mut w = AtomicWorld::new();
    let mut go = |w: &mut AtomicWorld, rec: &mut Rec, line: String| {
        let out = w.exec(rec, &line);
        rec.push(line, out, true);
    };
    // K: step programs of every public op
    let mut done = 0;
    while done < n_random {
        rec.cases += 1;
        let size = *rng.pick(&[0usize, 1, 64, 65, 128, 129, 300, 1000, 8192]);
        let page = *rng.pick(&[1usize, 2, 3, 7, 64, 128]);
        go(&mut w, rec, format!("b.new id=0 size={} page={}", size, page));
        let np = size.div_ceil(page) as u64;
        for _ in 0..12 {
            done += 1;
            let a = rng.boundary(&[size as u64, 64 * page as u64]);
            let l = if rng.chance(1, 2) { rng.below(4 * page as u64 + 2) } else { rng.boundary(&[size as u64]) };
            let line = match rng.below(9) {
                0 | 1 | 2 => format!("p.mark id=0 start={} len={}", a, l),
                3 => format!("p.clear id=0 start={} len={}", a, l),
                4 => format!("p.setbit id=0 i={}", rng.boundary(&[np, 63, 64])),
                5 => format!("p.resetbit id=0 i={}", rng.boundary(&[np, 63, 64])),
                6 => "p.gar id=0".to_string(),
                7 => "p.clone id=0".to_string(),
                _ => if rng.chance(1, 2) { format!("p.isbit id=0 i={}", rng.boundary(&[np])) } else { "p.reset id=0".to_string() },
            };
            go(&mut w, rec, line);
        }
    }
    // O: all interleavings of the listed scenarios on the real code
    let mut total = 0;
    total += scenario(rec, "mark-vs-harvest", 128, 1, vec![vec![TOp::SetBit(5)], vec![TOp::Harvest]]);
    total += scenario(rec, "mark-vs-mark-same-word", 128, 1, vec![vec![TOp::SetBit(5)], vec![TOp::SetBit(6)], vec![TOp::Harvest]]);
    total += scenario(rec, "markrange-2words-vs-harvest", 128, 1, vec![vec![TOp::Mark(63, 2)], vec![TOp::Harvest]]);
    total += scenario(rec, "mark-vs-clear-vs-harvest", 128, 1, vec![vec![TOp::Mark(3, 2)], vec![TOp::Clear(4, 1)], vec![TOp::Harvest]]);
    total += scenario(rec, "mark-vs-clone", 128, 1, vec![vec![TOp::Mark(62, 3)], vec![TOp::CloneB], vec![TOp::SetBit(1)]]);
    total += scenario_post(rec, "mark-vs-harvest-then-mark-again", 128, 1, vec![vec![TOp::SetBit(5)], vec![TOp::Harvest]], vec![5]);
    total += scenario_post(rec, "markrange-vs-harvest-then-mark-again", 128, 1, vec![vec![TOp::Mark(5, 1)], vec![TOp::Harvest]], vec![5, 6]);
    total += scenario_post(rec, "mark-vs-clear-then-mark-again", 128, 1, vec![vec![TOp::Mark(5, 1)], vec![TOp::Clear(5, 1)]], vec![5]);
    total += scenario(rec, "markrange-vs-clear-of-its-first-page", 128, 1, vec![vec![TOp::Mark(4, 2)], vec![TOp::Clear(4, 1)], vec![TOp::Harvest]]);
    total += scenario_pre(rec, "dirty-neighbour-then-mark-vs-harvest", 128, 1, vec![9], vec![vec![TOp::SetBit(10)], vec![TOp::Harvest]]);
    total += scenario_pre(rec, "dirty-neighbour-then-markrange-vs-harvest", 128, 1, vec![2], vec![vec![TOp::Mark(9, 2)], vec![TOp::Harvest]]);
    total += scenario(rec, "two-harvests", 128, 1, vec![vec![TOp::Mark(10, 2)], vec![TOp::Harvest], vec![TOp::Harvest]]);
    if thorough {
        total += scenario(rec, "T-markrange-vs-markrange-vs-harvest", 192, 1, vec![vec![TOp::Mark(62, 4)], vec![TOp::Mark(64, 3)], vec![TOp::Harvest]]);
        total += scenario(rec, "T-pagesize-7", 1000, 7, vec![vec![TOp::Mark(440, 20)], vec![TOp::SetBit(64)], vec![TOp::Harvest]]);
        total += scenario(rec, "T-clear-range-vs-marks", 128, 1, vec![vec![TOp::Mark(0, 3)], vec![TOp::Clear(1, 3)], vec![TOp::SetBit(3), TOp::Harvest]]);
    }
    *rec.notes.entry("schedules_total".into()).or_default() += total;
}
