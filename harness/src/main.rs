//! vmverif — correspondence harness for the Lean model of vm-memory.
//! usage: vmverif <world> <seed> <n> <outdir> [opts…]   |   vmverif replay <world> <opsfile> <outdir>
mod atomicw;
mod atomw;
#[cfg(not(feature = "xen"))]
mod buildw;
#[cfg(not(feature = "xen"))]
mod lifew;
mod bitmap;
mod copyw;
mod guest;
mod interpose;
mod pure;
mod rng;
mod slice;
mod streams;
mod util;
#[cfg(feature = "xen")]
mod xbuildw;

use rng::Rng;
use util::Rec;

/// was vm-memory built with overflow checks?  (`unchecked_add` is a plain `+`)
pub fn overflow_checks_on() -> bool {
    use vm_memory::{Address, GuestAddress};
    let a = std::hint::black_box(GuestAddress(u64::MAX));
    util::guarded(|| std::hint::black_box(a.unchecked_add(std::hint::black_box(1)))).is_none()
}

fn main() {
    let args: Vec<String> = std::env::args().collect();
    if args.len() > 1 && args[1] == "selftest" {
        // the interposed mmap/munmap are the ones the crate calls: a region dropped normally is released once, a second
        // munmap of its range is seen as a double release
        use vm_memory::{GuestAddress, GuestMemory, GuestMemoryMmap, GuestMemoryRegion};
        let r = GuestMemoryMmap::<()>::from_ranges(&[(GuestAddress(0), 8192)]).unwrap();
        let (p, l) = (r.get_host_address(GuestAddress(0)).unwrap() as usize, 8192usize);
        let _ = r.iter().next().map(|x| x.len());
        let _ = interpose::take_double_unmaps();
        drop(r);
        let once = interpose::take_double_unmaps().0;
        unsafe { libc::munmap(p as *mut libc::c_void, l) };
        let twice = interpose::take_double_unmaps().0;
        println!("selftest double-unmaps after drop={} after second munmap={}", once, twice);
        std::process::exit(if once == 0 && twice == 1 { 0 } else { 1 });
    }
    if args.len() < 5 {
        eprintln!("usage: vmverif <world> <seed> <n> <outdir> [opts]");
        std::process::exit(2);
    }
    // silence the default panic message: panics are observations here
    if std::env::var("VMVERIF_PANICS").is_err() { std::panic::set_hook(Box::new(|_| {})); }
    // short writes on regular files are produced with the file-size limit (streams.rs): exceeding it must be an error, not a signal
    unsafe { libc::signal(libc::SIGXFSZ, libc::SIG_IGN) };
    let chk = overflow_checks_on();
    let mut rec = Rec::default();
    if args[1] == "replay" {
        let world = args[2].as_str();
        let text = std::fs::read_to_string(&args[3]).expect("ops file");
        for line in text.lines() {
            if line.trim().is_empty() {
                continue;
            }
            let out = exec_line(&mut rec, world, line, chk);
            rec.push(line.to_string(), out, false);
        }
        rec.write(&args[4]);
        return;
    }
    let world = args[1].as_str();
    let seed: u64 = args[2].parse().expect("seed");
    let n: usize = args[3].parse().expect("n");
    let opts: Vec<&str> = args[5..].iter().map(|s| s.as_str()).collect();
    let mut rng = Rng::new(seed);
    match world {
        "addr" => pure::run_addr(&mut rec, &mut rng, n, chk),
        "endian" => pure::run_endian(&mut rec, &mut rng, n, true, opts.contains(&"all32")),
        "slice" => {
            let streams = opts.contains(&"streams");
            rec.ops.push(format!("prof chk={}", chk as u8));
            rec.outs.push("ok".into());
            // one fifth of the ops per tracking flavour
            use vm_memory::bitmap::{ArcSlice, AtomicBitmap, RefSlice};
            let k = n / 6 + 1;
            slice::third_party_probe(&mut rec);
            slice::run::<RefSlice<'static, AtomicBitmap>>(&mut rec, &mut rng, 2 * k, streams);
            slice::run::<slice::ProbeSlice>(&mut rec, &mut rng, k, streams);
            slice::run::<ArcSlice<AtomicBitmap>>(&mut rec, &mut rng, k, streams);
            slice::run::<Option<RefSlice<'static, AtomicBitmap>>>(&mut rec, &mut rng, k, streams);
            slice::run::<()>(&mut rec, &mut rng, k, streams);
        }
        "gm" => {
            rec.ops.push(format!("prof chk={}", chk as u8));
            rec.outs.push("ok".into());
            let mode = opts.iter().find(|o| ["mixed", "edit", "exhaustive", "xen"].contains(o)).copied().unwrap_or("mixed");
            guest::run(&mut rec, &mut rng, n, mode);
        }
        #[cfg(not(feature = "xen"))]
        "build" => buildw::run(&mut rec, &mut rng, n),
        #[cfg(not(feature = "xen"))]
        "life" => lifew::run(&mut rec, &mut rng, n),
        #[cfg(feature = "xen")]
        "xbuild" => xbuildw::run(&mut rec, &mut rng, n),
        "amem" => atomw::run(&mut rec, &mut rng, n, if opts.contains(&"stress") { 3 } else { 0 }),
        "copy" => copyw::run(&mut rec, &mut rng, n, if opts.contains(&"tear") { 2 } else { 0 }),
        "atomic" => atomicw::run(&mut rec, &mut rng, n, opts.contains(&"thorough")),
        "bitmap" => bitmap::run(&mut rec, &mut rng, n, opts.contains(&"exhaustive")),
        _ => {
            eprintln!("unknown world {}", world);
            std::process::exit(2);
        }
    }
    rec.notes.insert("overflow_checks".into(), chk as usize);
    rec.write(&args[4]);
}

use vm_memory::bitmap::{ArcSlice, AtomicBitmap, RefSlice};
enum SlAny {
    Ref(slice::SliceWorld<RefSlice<'static, AtomicBitmap>>),
    Arc(slice::SliceWorld<ArcSlice<AtomicBitmap>>),
    Probe(slice::SliceWorld<slice::ProbeSlice>),
    Some(slice::SliceWorld<Option<RefSlice<'static, AtomicBitmap>>>),
    Unit(slice::SliceWorld<()>),
}

thread_local! {
    #[cfg(not(feature = "xen"))]
    static BW: std::cell::RefCell<buildw::BuildWorld> = std::cell::RefCell::new(buildw::BuildWorld::new());
    #[cfg(not(feature = "xen"))]
    static LW: std::cell::RefCell<lifew::LifeWorld> = std::cell::RefCell::new(lifew::LifeWorld::new());
    #[cfg(feature = "xen")]
    static XB: std::cell::RefCell<xbuildw::XBuildWorld> = std::cell::RefCell::new(xbuildw::XBuildWorld::new());
    static AM: std::cell::RefCell<atomw::AmemWorld> = std::cell::RefCell::new(atomw::AmemWorld::new());
    static CP: std::cell::RefCell<copyw::CopyWorld> = std::cell::RefCell::new(copyw::CopyWorld::new());
    static AT: std::cell::RefCell<atomicw::AtomicWorld> = std::cell::RefCell::new(atomicw::AtomicWorld::new());
    static GM: std::cell::RefCell<guest::GmWorld> = std::cell::RefCell::new(guest::GmWorld::new());
    static SL: std::cell::RefCell<SlAny> = std::cell::RefCell::new(SlAny::Unit(slice::SliceWorld::empty()));
    static BM: std::cell::RefCell<bitmap::BmWorld> = std::cell::RefCell::new(bitmap::BmWorld::new());
}

fn exec_line(rec: &mut Rec, world: &str, line: &str, chk: bool) -> String {
    if line.starts_with("prof ") {
        return "ok".into();
    }
    match world {
        #[cfg(not(feature = "xen"))]
        "build" => BW.with(|w| {
            let l = line.rsplit_once(" kernel=").map(|x| x.0).unwrap_or(line);
            w.borrow_mut().exec(rec, l)
        }),
        #[cfg(not(feature = "xen"))]
        "life" => LW.with(|w| w.borrow_mut().exec(rec, line)),
        #[cfg(feature = "xen")]
        "xbuild" => XB.with(|w| w.borrow_mut().exec(rec, line).0),
        "amem" => AM.with(|w| w.borrow_mut().exec(rec, line)),
        "copy" => CP.with(|w| w.borrow_mut().exec(rec, line)),
        "atomic" => AT.with(|w| w.borrow_mut().exec(rec, line)),
        "gm" => GM.with(|w| w.borrow_mut().exec(rec, line)),
        "slice" => SL.with(|w| {
            // replay: the flavour is named by the `s.new` line
            let mut w = w.borrow_mut();
            if line.starts_with("s.new") {
                let flav = util::Kv::parse(line).s("flav").to_string();
                *w = match flav.as_str() {
                    "arc" => SlAny::Arc(slice::SliceWorld::empty()),
                    "probe" => SlAny::Probe(slice::SliceWorld::empty()),
                    "some" => SlAny::Some(slice::SliceWorld::empty()),
                    "unit" => SlAny::Unit(slice::SliceWorld::empty()),
                    _ => SlAny::Ref(slice::SliceWorld::empty()),
                };
            }
            match &mut *w {
                SlAny::Ref(x) => x.exec(rec, line),
                SlAny::Arc(x) => x.exec(rec, line),
                SlAny::Probe(x) => x.exec(rec, line),
                SlAny::Some(x) => x.exec(rec, line),
                SlAny::Unit(x) => x.exec(rec, line),
            }
        }),
        "bitmap" => BM.with(|w| w.borrow_mut().exec(rec, line)),
        "addr" => pure::exec_addr(rec, line, chk),
        "endian" => pure::exec_endian(rec, line),
        _ => "bad-world".into(),
    }
}
