//! `amem` world (C11): snapshots of the atomically replaceable guest memory.
//! Maps are identified by a number written into their first bytes before publication; the layout
//! (one region at (id % 2) * 0x1000) only tells odd from even ids, so that a replacement may have
//! exactly the layout of the map it replaces over different backing memory.
use crate::rng::Rng;
use crate::util::*;
use std::collections::{BTreeMap, HashMap};
use std::sync::{Arc, Weak};
use vm_memory::atomic::{GuestMemoryExclusiveGuard, GuestMemoryLoadGuard};
#[cfg(not(feature = "xen"))]
use vm_memory::mmap::MmapRegionBuilder;
use vm_memory::{Bytes, GuestAddress, GuestAddressSpace, GuestMemory, GuestMemoryAtomic, GuestMemoryMmap, GuestMemoryRegion, GuestRegionMmap};

type Map = GuestMemoryMmap<()>;

/// every third map does not own its page (it is wrapped around a page of the harness's own that is never unmapped), so
/// that another map may later be wrapped around the very same host memory — see `alias_of`
#[cfg(not(feature = "xen"))]
fn is_raw(id: u64) -> bool {
    id % 3 == 0
}
// (the Xen build has no raw-pointer regions; this world is only run in the standard build)
#[cfg(feature = "xen")]
fn is_raw(_id: u64) -> bool {
    false
}
#[cfg(feature = "xen")]
fn raw_map(_id: u64, _page: *mut u8) -> Map {
    unreachable!()
}
#[cfg(not(feature = "xen"))]
fn raw_map(id: u64, page: *mut u8) -> Map {
    let r = unsafe { MmapRegionBuilder::<()>::new(0x1000).with_raw_mmap_pointer(page).with_mmap_prot(libc::PROT_READ | libc::PROT_WRITE).with_mmap_flags(libc::MAP_ANONYMOUS | libc::MAP_PRIVATE).build() }.unwrap();
    Map::from_regions(vec![GuestRegionMmap::new(r, GuestAddress((id % 2) * 0x1000)).unwrap()]).unwrap()
}
/// a map that owns its page (used by the thread stress: raw maps would never give their pages back)
fn owned_map(id: u64) -> Map {
    let m = Map::from_ranges(&[(GuestAddress((id % 2) * 0x1000), 0x1000)]).unwrap();
    m.write_obj::<u64>(id, GuestAddress((id % 2) * 0x1000)).unwrap();
    m
}
fn make_map(id: u64) -> Map {
    let m = if is_raw(id) {
        let p = unsafe { libc::mmap(std::ptr::null_mut(), 0x1000, libc::PROT_READ | libc::PROT_WRITE, libc::MAP_ANONYMOUS | libc::MAP_PRIVATE, -1, 0) };
        raw_map(id, p as *mut u8)
    } else {
        Map::from_ranges(&[(GuestAddress((id % 2) * 0x1000), 0x1000)]).unwrap()
    };
    m.write_obj::<u64>(id, GuestAddress((id % 2) * 0x1000)).unwrap();
    m
}
/// a different map object with the same layout over the same host memory as `cur` (what a VMM builds when it republishes
/// the same memory, e.g. with fresh dirty bitmaps): same contents, hence the same tag
fn alias_of(cur: &Map, id: u64) -> Map {
    let host = cur.get_host_address(GuestAddress((id % 2) * 0x1000)).unwrap();
    raw_map(id, host)
}
/// the id a holder sees: layout and contents must tell the same story (never a mixture)
fn id_of(m: &Map) -> Result<u64, String> {
    if m.num_regions() != 1 {
        return Err(format!("regions={}", m.num_regions()));
    }
    let r = m.iter().next().unwrap();
    let slot = r.start_addr().0 / 0x1000;
    let tag: u64 = m.read_obj(r.start_addr()).map_err(|e| format!("{:?}", e))?;
    if tag % 2 != slot || r.len() != 0x1000 {
        return Err(format!("layout slot {} tag {}", slot, tag));
    }
    Ok(tag)
}

enum Owner {
    Guard(GuestMemoryLoadGuard<Map>),
    Arc(Arc<Map>),
}
impl Owner {
    fn map(&self) -> &Map {
        match self {
            Owner::Guard(g) => g,
            Owner::Arc(a) => a,
        }
    }
}

pub struct AmemWorld {
    gm: Option<&'static GuestMemoryAtomic<Map>>,
    /// handles cloned from `gm` (index 0 is `gm` itself): every operation may go through any of them
    handles: Vec<&'static GuestMemoryAtomic<Map>>,
    owners: Vec<(u64, Owner)>,
    lock: Option<(u64, GuestMemoryExclusiveGuard<'static, Map>)>,
    /// every map object published under an id (an id has several once it was republished as an alias)
    weak: BTreeMap<u64, Vec<Weak<Map>>>,
    probes: Vec<std::thread::JoinHandle<()>>,
    /// the waiting updater: (go flag, thread returning (its map became visible after its replace, H4 log of its replace))
    waiter: Option<(Arc<std::sync::atomic::AtomicBool>, std::thread::JoinHandle<(bool, Vec<bool>)>)>,
}

impl AmemWorld {
    pub fn new() -> Self {
        AmemWorld { gm: None, handles: vec![], owners: vec![], lock: None, weak: BTreeMap::new(), probes: vec![], waiter: None }
    }
    fn handle(&self, kv: &Kv) -> &'static GuestMemoryAtomic<Map> {
        self.handles[kv.us("h") % self.handles.len()]
    }
    /// blocked probe threads finish as soon as the lock is free
    fn join_probes(&mut self) {
        if self.lock.is_none() {
            for t in self.probes.drain(..) {
                let _ = t.join();
            }
        }
    }
    fn observe(&self, rec: &mut Rec, line: &str, ret: Option<u64>) -> String {
        let gm = self.gm.unwrap();
        let cur = id_of(&gm.memory()).unwrap_or(u64::MAX);
        let mut owners = vec![];
        for (o, w) in &self.owners {
            match id_of(w.map()) {
                Ok(id) => owners.push(format!("{}:{}", o, id)),
                Err(e) => {
                    rec.fail("C11", "snapshot-not-whole", &format!("{} owner={} {}", line, o, e));
                    owners.push(format!("{}:?", o));
                }
            }
        }
        let freed: Vec<String> = self.weak.iter().filter(|(_, ws)| ws.iter().all(|w| w.upgrade().is_none())).map(|(k, _)| k.to_string()).collect();
        format!("ok ret={} cur={} locked={} owners={} freed={}", ret.map(|x| x.to_string()).unwrap_or("-".into()), cur, self.lock.is_some(), owners.join(","), freed.join(","))
    }

    pub fn exec(&mut self, rec: &mut Rec, line: &str) -> String {
        let kv = Kv::parse(line);
        let mut ret = None;
        match kv.op {
            "t.init" => {
                self.lock = None;
                if let Some((go, th)) = self.waiter.take() {
                    go.store(true, std::sync::atomic::Ordering::SeqCst);
                    let _ = th.join();
                }
                self.join_probes();
                self.owners.clear();
                self.weak.clear();
                let id = kv.n("m");
                let a = Arc::new(make_map(id));
                self.weak.entry(id).or_default().push(Arc::downgrade(&a));
                // leaked per case (a few hundred bytes): the exclusive guard borrows it
                let gm: &'static GuestMemoryAtomic<Map> = Box::leak(Box::new(GuestMemoryAtomic::from(a)));
                self.gm = Some(gm);
                self.handles = vec![gm, Box::leak(Box::new(gm.clone())), Box::leak(Box::new(gm.clone()))];
            }
            "t.snapshot" => {
                let g = self.handle(&kv).memory();
                ret = id_of(&g).ok();
                self.owners.push((kv.n("o"), Owner::Guard(g)));
            }
            "t.clone" => {
                let src = kv.n("src");
                let Some((_, w)) = self.owners.iter().find(|(o, _)| *o == src) else { return self.observe(rec, line, None) };
                let new = match (w, kv.s("how")) {
                    (Owner::Guard(g), "inner") => Owner::Arc(g.clone().into_inner()),
                    (Owner::Guard(g), _) => Owner::Guard(g.clone()),
                    (Owner::Arc(a), _) => Owner::Arc(a.clone()),
                };
                ret = id_of(new.map()).ok();
                self.owners.push((kv.n("o"), new));
            }
            "t.drop" => {
                let o = kv.n("o");
                self.owners.retain(|(x, _)| *x != o);
            }
            "t.lock" => {
                if self.lock.is_none() {
                    let g = self.handle(&kv).lock().unwrap();
                    self.lock = Some((kv.n("t"), g));
                } else if kv.n("probe") == 1 && self.waiter.is_none() {
                    // Somebody holds the update lock: a second updater, going through any handle, must wait.
                    // A helper thread calls lock(); if it gets an exclusive guard while ours is alive, mutual exclusion is
                    // broken.  When it blocks, as it should, it gets the lock once ours is released, waits for
                    // `t.probedone`, and then replaces the map (new != 0) or just unlocks.
                    let h = self.handle(&kv);
                    let got = Arc::new(std::sync::atomic::AtomicBool::new(false));
                    let go = Arc::new(std::sync::atomic::AtomicBool::new(false));
                    let (got2, go2, new) = (got.clone(), go.clone(), kv.n("new"));
                    let th = std::thread::spawn(move || {
                        let g = h.lock().unwrap();
                        got2.store(true, std::sync::atomic::Ordering::SeqCst);
                        while !go2.load(std::sync::atomic::Ordering::SeqCst) {
                            std::thread::yield_now();
                        }
                        if new != 0 {
                            let _ = vm_memory::verif_hooks::replace_log_take();
                            g.replace(make_map(new));
                            (id_of(&h.memory()) == Ok(new), vm_memory::verif_hooks::replace_log_take())
                        } else {
                            drop(g);
                            (true, vec![])
                        }
                    });
                    std::thread::sleep(std::time::Duration::from_millis(40));
                    if got.load(std::sync::atomic::Ordering::SeqCst) {
                        rec.fail("C11", "lock/second-exclusive-guard-while-held", line);
                    }
                    rec.note("lock_probes");
                    self.waiter = Some((go, th));
                }
            }
            "t.probedone" => {
                // the waiting updater (see `t.lock probe=1`) now holds the lock: let it replace / unlock, and look
                if let Some((go, th)) = self.waiter.take() {
                    go.store(true, std::sync::atomic::Ordering::SeqCst);
                    let (visible, h4) = th.join().unwrap();
                    let new = kv.n("new");
                    if new != 0 {
                        let a = self.gm.unwrap().memory().into_inner();
                        self.weak.entry(new).or_default().push(Arc::downgrade(&a));
                        if !visible || id_of(&a) != Ok(new) {
                            rec.fail("C11", "replace-by-updater-that-waited-not-visible", line);
                        }
                        if h4 != vec![true] {
                            rec.fail("C11", "replace/new-map-stored-without-holding-the-update-lock", &format!("{} h4={:?}", line, h4));
                        }
                    }
                }
            }
            "t.space" => {
                // GuestAddressSpace for &M, Rc<M>, Arc<M>: `memory()` hands out the very same map
                let m = make_map(kv.n("m"));
                let host = m.get_host_address(GuestAddress((kv.n("m") % 2) * 0x1000)).unwrap() as usize;
                let same = |x: &Map| x.get_host_address(GuestAddress((kv.n("m") % 2) * 0x1000)).map(|p| p as usize == host).unwrap_or(false) && id_of(x) == Ok(kv.n("m"));
                let ok = match kv.s("kind") {
                    "ref" => { let r = &m; let g = GuestAddressSpace::memory(&r); same(&g) }
                    "rc" => { let r = std::rc::Rc::new(m); let g = r.memory(); same(&g) && std::rc::Rc::ptr_eq(&r, &g) }
                    _ => { let r = Arc::new(m); let g = r.memory(); same(&g) && Arc::ptr_eq(&r, &g) }
                };
                if !ok {
                    rec.fail("C11", &format!("space/{}/memory-is-another-map", kv.s("kind")), line);
                }
            }
            "t.replace" => {
                if matches!(&self.lock, Some((t, _)) if *t == kv.n("t")) && !self.weak.contains_key(&kv.n("new")) {
                    let (_, g) = self.lock.take().unwrap();
                    let id = kv.n("new");
                    let _ = vm_memory::verif_hooks::replace_log_take();
                    g.replace(make_map(id));
                    // hook H4: when the new map was stored the update mutex must still have been held (publish, then unlock)
                    let log = vm_memory::verif_hooks::replace_log_take();
                    if log != vec![true] {
                        rec.fail("C11", "replace/new-map-stored-without-holding-the-update-lock", &format!("{} h4={:?}", line, log));
                    }
                    self.join_probes();
                    let a = self.gm.unwrap().memory().into_inner();
                    self.weak.entry(id).or_default().push(Arc::downgrade(&a));
                    // C11: once a replacement has completed every snapshot taken afterwards shows the new map
                    if id_of(&a) != Ok(id) {
                        rec.fail("C11", "replace-not-visible", line);
                    }
                }
            }
            "t.unlock" => {
                if matches!(&self.lock, Some((t, _)) if *t == kv.n("t")) {
                    let cur = self.gm.unwrap().memory().into_inner();
                    let cur_id = id_of(&cur).unwrap_or(u64::MAX);
                    if kv.n("alias") == 1 && is_raw(cur_id) {
                        // not a plain unlock: the holder republishes the same memory as a NEW map object (same layout, same
                        // host memory, hence the same tag: nothing the model distinguishes changes).  The cell must hold the
                        // new object afterwards — a replacement is a replacement even if the two maps look alike.
                        let (_, g) = self.lock.take().unwrap();
                        let _ = vm_memory::verif_hooks::replace_log_take();
                        g.replace(alias_of(&cur, cur_id));
                        let log = vm_memory::verif_hooks::replace_log_take();
                        let now = self.gm.unwrap().memory().into_inner();
                        if Arc::ptr_eq(&cur, &now) {
                            rec.fail("C11", "replace/cell-still-holds-the-old-map-object", line);
                        }
                        if log != vec![true] {
                            rec.fail("C11", "replace/new-map-stored-without-holding-the-update-lock", &format!("{} h4={:?}", line, log));
                        }
                        self.weak.entry(cur_id).or_default().push(Arc::downgrade(&now));
                    } else {
                        self.lock = None;
                    }
                }
                self.join_probes();
            }
            _ => return "bad-op".into(),
        }
        // every owner keeps seeing the map it was given, whole and readable
        self.observe(rec, line, ret)
    }
}

pub fn run(rec: &mut Rec, rng: &mut Rng, n_ops: usize, stress_secs: u64) {
    let mut w = AmemWorld::new();
    let mut go = |w: &mut AmemWorld, rec: &mut Rec, line: String| {
        let out = w.exec(rec, &line);
        rec.push(line, out, true);
    };
    let mut done = 0;
    let mut probes_left = 30usize;
    let mut expected: HashMap<u64, u64> = HashMap::new();
    while done < n_ops {
        rec.cases += 1;
        expected.clear();
        let mut next_map = 1 + rng.below(5);
        go(&mut w, rec, format!("t.init m={}", next_map));
        next_map += 1;
        let mut next_o = 0u64;
        let steps = 10 + rng.below(40);
        let mut pending: Option<(u64, u64)> = None;
        for step_i in 0..steps {
            done += 1;
            // the last step of a case releases the lock if an updater is waiting for it
            if step_i + 1 == steps && pending.is_some() {
                if let Some((t, _)) = &w.lock {
                    let l = format!("t.unlock t={}", t);
                    go(&mut w, rec, l);
                }
            }
            if w.lock.is_none() {
                if let Some((t, new)) = pending.take() {
                    go(&mut w, rec, format!("t.probedone t={} new={}", t, new));
                }
            }
            let owners: Vec<u64> = w.owners.iter().map(|(o, _)| *o).collect();
            let r = rng.below(100);
            let line = if r < 25 || owners.is_empty() && r < 50 {
                next_o += 1;
                format!("t.snapshot o={} h={}", next_o - 1, rng.below(3))
            } else if r < 40 && !owners.is_empty() {
                next_o += 1;
                format!("t.clone o={} src={} how={}", next_o - 1, rng.pick(&owners), rng.pick(&["guard", "inner"]))
            } else if r < 58 && !owners.is_empty() {
                format!("t.drop o={}", rng.pick(&owners))
            } else if r < 72 {
                if w.lock.is_some() {
                    // a second updater arrives while the lock is held (a bounded number of timed probes per run)
                    if probes_left == 0 || pending.is_some() || !rng.chance(1, 3) { continue; }
                    probes_left -= 1;
                    let t = 3 + rng.below(3);
                    let new = if rng.chance(3, 4) { let id = next_map; next_map += 1 + rng.below(2); id } else { 0 };
                    pending = Some((t, new));
                    format!("t.lock t={} h={} probe=1 new={}", t, rng.below(3), new)
                } else {
                    format!("t.lock t={} h={}", rng.below(3), rng.below(3))
                }
            } else if r < 92 {
                match &w.lock {
                    Some((t, _)) => {
                        if rng.chance(4, 5) { let id = next_map; next_map += 1 + rng.below(2); format!("t.replace t={} new={}", t, id) } else { format!("t.unlock t={} alias={}", t, rng.chance(2, 3) as u8) }
                    }
                    None => format!("t.replace t={} new={}", rng.below(3), next_map), // disabled: nobody holds the lock
                }
            } else if r < 97 {
                format!("t.unlock t={}", rng.below(3))
            } else {
                format!("t.space kind={} m={}", rng.pick(&["ref", "rc", "arc"]), rng.below(6))
            };
            go(&mut w, rec, line);
            // oracle: an owner keeps designating the map it got, for as long as it lives
            for (o, own) in &w.owners {
                let id = id_of(own.map()).unwrap_or(u64::MAX);
                match expected.get(o) {
                    Some(e) if *e != id => rec.fail("C11", "snapshot-changed", &format!("owner={} was={} now={}", o, e, id)),
                    None => { expected.insert(*o, id); }
                    _ => {}
                }
            }
        }
    }
    if stress_secs > 0 {
        stress(rec, stress_secs);
    }
}

/// thorough tier: readers and updaters on real threads.  Updaters derive the new map from the
/// one they read under the lock (id + 1); readers must only ever see whole maps with
/// non-decreasing ids; at the end the id equals the number of replacements (none lost).
fn stress(rec: &mut Rec, secs: u64) {
    use std::sync::atomic::{AtomicBool, AtomicU64, Ordering};
    let gm = GuestMemoryAtomic::new(owned_map(1));
    let stop = Arc::new(AtomicBool::new(false));
    let replaces = Arc::new(AtomicU64::new(0));
    let bad = Arc::new(std::sync::Mutex::new(Vec::<String>::new()));
    let mut hs = vec![];
    for _ in 0..2 {
        let (gm, stop, replaces) = (gm.clone(), stop.clone(), replaces.clone());
        hs.push(std::thread::spawn(move || {
            while !stop.load(Ordering::Relaxed) {
                let g = gm.lock().unwrap();
                let cur = id_of(&gm.memory()).unwrap();
                g.replace(owned_map(cur + 1));
                replaces.fetch_add(1, Ordering::SeqCst);
            }
        }));
    }
    for _ in 0..4 {
        let (gm, stop, bad, replaces) = (gm.clone(), stop.clone(), bad.clone(), replaces.clone());
        hs.push(std::thread::spawn(move || {
            let mut last = 0;
            let mut held: Vec<(u64, GuestMemoryLoadGuard<Map>)> = vec![];
            while !stop.load(Ordering::Relaxed) {
                let done_before = replaces.load(Ordering::SeqCst);
                let g = gm.memory();
                match id_of(&g) {
                    Ok(id) => {
                        if id < last { bad.lock().unwrap().push(format!("went-back {} -> {}", last, id)); }
                        if id < 1 + done_before { bad.lock().unwrap().push(format!("stale-after-replace id={} completed={}", id, done_before)); }
                        last = id;
                        if held.len() < 8 { held.push((id, g.clone())); }
                    }
                    Err(e) => bad.lock().unwrap().push(format!("mixture {}", e)),
                }
                for (id, h) in &held {
                    if id_of(h) != Ok(*id) { bad.lock().unwrap().push(format!("held-snapshot-changed {}", id)); }
                }
                if held.len() >= 8 { held.remove(0); }
            }
        }));
    }
    std::thread::sleep(std::time::Duration::from_secs(secs));
    stop.store(true, Ordering::Relaxed);
    for h in hs { h.join().unwrap(); }
    let n = replaces.load(Ordering::SeqCst);
    let fin = id_of(&gm.memory()).unwrap();
    if fin != 1 + n {
        rec.fail("C11", "stress/lost-replace", &format!("final id {} after {} replacements", fin, n));
    }
    for b in bad.lock().unwrap().iter().take(5) {
        rec.fail("C11", &format!("stress/{}", b.split(' ').next().unwrap_or("")), b);
    }
    *rec.notes.entry("stress_replacements".into()).or_default() += n as usize;
}
