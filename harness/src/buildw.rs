//! `build` world (C15): region construction — which requests are accepted, what the built
//! region reports, that a failed construction leaves nothing mapped, and (shared file
//! mappings) that byte i of the region is byte offset+i of the file in both directions.
use crate::rng::Rng;
use crate::util::*;
use std::os::unix::fs::FileExt;
use vm_memory::mmap::{MmapRegionBuilder, MmapRegionError};
use vm_memory::{Bytes, FileOffset, GuestAddress, GuestRegionMmap, MmapRegion, VolatileMemory};

fn maps_lines() -> usize {
    std::fs::read_to_string("/proc/self/maps").map(|s| s.lines().count()).unwrap_or(0)
}

fn err_name(e: &MmapRegionError) -> &'static str {
    match e {
        MmapRegionError::InvalidOffsetLength => "err offlen",
        MmapRegionError::InvalidPointer => "err pointer",
        MmapRegionError::MapFixed => "err mapfixed",
        MmapRegionError::MappingOverlap => "err overlap",
        MmapRegionError::MappingPastEof => "err pasteof",
        MmapRegionError::Mmap(_) => "err mmap",
        MmapRegionError::SeekEnd(_) => "err seekend",
        MmapRegionError::SeekStart(_) => "err seekstart",
    }
}

pub struct BuildWorld {
    /// an aligned mapping of the harness's own, used as the "externally provided" pointer
    ext: *mut u8,
    /// one long-lived backing file whose length changes between requests, and one `FileOffset` per start offset
    /// that is cloned for every request that reuses it (a validation must look at the file as it is *now*)
    shared_file: std::sync::Arc<std::fs::File>,
    shared_off: std::collections::HashMap<u64, FileOffset>,
}

impl BuildWorld {
    pub fn new() -> Self {
        let p = unsafe { libc::mmap(std::ptr::null_mut(), 8192, libc::PROT_READ | libc::PROT_WRITE, libc::MAP_ANONYMOUS | libc::MAP_PRIVATE, -1, 0) };
        BuildWorld { ext: p as *mut u8, shared_file: std::sync::Arc::new(crate::streams::tmpfile_pub()), shared_off: std::collections::HashMap::new() }
    }

    /// runs one request; returns (observation without the kernel field, kernel accepted?)
    pub fn exec(&mut self, rec: &mut Rec, line: &str) -> String {
        let kv = Kv::parse(line);
        match kv.op {
            "k.region" => {
                let (base, size) = (kv.n("base"), kv.us("size"));
                let m = match MmapRegion::<()>::new(size.max(1).min(1 << 20)) {
                    Ok(m) => m,
                    Err(_) => return "err mmap".into(),
                };
                // the size the overflow check sees is the mapping's; build one of exactly `size` when it is small enough
                if size == 0 || size > (1 << 20) {
                    // too big to map: emulate with a raw region of that size (never dereferenced)
                    let r = unsafe { MmapRegionBuilder::<()>::new(size).with_raw_mmap_pointer(self.ext).build() }.unwrap();
                    let res = GuestRegionMmap::new(r, GuestAddress(base));
                    let want_ok = (base as u128 + size as u128) < (1u128 << 64);
                    if res.is_ok() != want_ok {
                        rec.fail("C15", "k.region/overflow-check", line);
                    }
                    return if res.is_ok() { "ok".into() } else { "err invalidregion".into() };
                }
                let res = GuestRegionMmap::new(m, GuestAddress(base));
                let want_ok = (base as u128 + size as u128) < (1u128 << 64);
                if res.is_ok() != want_ok {
                    rec.fail("C15", "k.region/overflow-check", line);
                }
                if res.is_ok() { "ok".into() } else { "err invalidregion".into() }
            }
            "k.build" => self.build(rec, &kv, line),
            "k.overlap" => {
                // two regions over one descriptor (or two), `fds_overlap` against the plain meaning: the file ranges intersect
                let opt = |k: &str| if kv.s(k) == "none" { None } else { Some(kv.n(k)) };
                let same = kv.n("same") == 1;
                let f1 = std::sync::Arc::new(crate::streams::tmpfile_pub());
                let f2 = if same { f1.clone() } else { std::sync::Arc::new(crate::streams::tmpfile_pub()) };
                f1.set_len(1 << 20).unwrap();
                f2.set_len(1 << 20).unwrap();
                let mk = |f: &std::sync::Arc<std::fs::File>, s: Option<u64>, l: usize| {
                    let mut b = MmapRegionBuilder::<()>::new(l).with_mmap_prot(libc::PROT_READ);
                    b = match s {
                        Some(s) => b.with_file_offset(FileOffset::from_arc(f.clone(), s)).with_mmap_flags(libc::MAP_SHARED | libc::MAP_NORESERVE),
                        None => b.with_mmap_flags(libc::MAP_ANONYMOUS | libc::MAP_PRIVATE),
                    };
                    b.build()
                };
                let (s1, s2, l1, l2) = (opt("s1"), opt("s2"), kv.us("l1"), kv.us("l2"));
                match (mk(&f1, s1, l1), mk(&f2, s2, l2)) {
                    (Ok(a), Ok(b)) => {
                        let got = a.fds_overlap(&b);
                        let want = match (s1, s2) {
                            (Some(x), Some(y)) if same => x.max(y) < (x + l1 as u64).min(y + l2 as u64),
                            _ => false,
                        };
                        if got != want || b.fds_overlap(&a) != want {
                            rec.fail("C15", "k.overlap", &format!("{} -> {}", line, got));
                        }
                        format!("ok {}", got)
                    }
                    _ => "err mmap".into(),
                }
            }
            _ => "bad-op".into(),
        }
    }

    fn build(&mut self, rec: &mut Rec, kv: &Kv, line: &str) -> String {
        let (size, prot, flags) = (kv.us("size"), kv.n("prot") as i32, kv.n("flags") as i32);
        let file = if kv.s("flen") == "none" { None } else { Some((kv.n("flen"), kv.n("fstart"))) };
        let raw = if kv.s("raw") == "none" { None } else { Some(kv.us("raw")) };
        let mut keep_file = None;
        let mut fo: Option<FileOffset> = None;
        if let Some((flen, fstart)) = file {
            if kv.n("reuse") == 1 {
                self.shared_file.set_len(flen).unwrap();
                keep_file = Some(self.shared_file.try_clone().unwrap());
                let sf = self.shared_file.clone();
                fo = Some(self.shared_off.entry(fstart).or_insert_with(|| FileOffset::from_arc(sf, fstart)).clone());
            } else {
                let f = crate::streams::tmpfile_pub();
                f.set_len(flen).unwrap();
                keep_file = Some(f.try_clone().unwrap());
                fo = Some(FileOffset::new(f, fstart));
            }
        }
        let before = maps_lines();
        // the same request through the builder or through one of the older constructors that wrap it
        #[allow(deprecated)]
        let res = match (kv.s("via"), raw, fo.clone()) {
            ("from_file", None, Some(f)) => MmapRegion::<()>::from_file(f, size),
            ("build", None, f) => MmapRegion::<()>::build(f, size, prot, flags),
            ("build_raw", Some(off), None) => unsafe { MmapRegion::<()>::build_raw(self.ext.wrapping_add(off), size, prot, flags) },
            _ => {
                let mut b = MmapRegionBuilder::<()>::new(size).with_mmap_prot(prot).with_mmap_flags(flags);
                if let Some(f) = fo.clone() {
                    b = b.with_file_offset(f);
                }
                if let Some(off) = raw {
                    b = unsafe { b.with_raw_mmap_pointer(self.ext.wrapping_add(off)) };
                }
                b.build()
            }
        };
        let after = maps_lines();
        // ---- oracle: the acceptance predicate written directly
        let fixed = flags & libc::MAP_FIXED != 0;
        let want: &str = if let Some(off) = raw {
            if off % 4096 != 0 { "err pointer" } else { "ok" }
        } else if fixed {
            "err mapfixed"
        } else if let Some((flen, fstart)) = file {
            match fstart.checked_add(size as u64) {
                None => "err offlen",
                Some(e) if flen < e => "err pasteof",
                _ => "kernel",
            }
        } else {
            "kernel"
        };
        let got = match &res { Ok(_) => "ok", Err(e) => err_name(e) };
        let consistent = match want { "kernel" => got == "ok" || got == "err mmap", w => w == got };
        if !consistent {
            rec.fail("C15", &format!("k.build/accept/{}", want.replace(' ', "-")), &format!("{} -> {}", line, got));
        }
        if res.is_err() && after != before {
            rec.fail("C15", "k.build/failed-build-left-mapping", &format!("{} maps {} -> {}", line, before, after));
        }
        match res {
            Ok(r) => {
                let fs = r.file_offset().map(|f| f.start());
                if r.size() != size || r.prot() != prot || r.flags() != flags || fs != file.map(|f| f.1) || r.owned() != raw.is_none() {
                    rec.fail("C15", "k.build/reports-request", line);
                }
                // shared file mapping: byte i of the region is byte offset+i of the file, both directions
                // (only when the range really lies inside the file: touching a mapping past EOF is a SIGBUS, and a region that
                //  was wrongly accepted has been reported above)
                if let (Some((_, fstart)), Some(f), true, None) = (file, keep_file.as_ref(), want == "kernel" && flags & libc::MAP_SHARED != 0 && prot & libc::PROT_WRITE != 0 && prot & libc::PROT_READ != 0, raw) {
                    let vs = r.as_volatile_slice();
                    for &i in &[0usize, 1, 4095, 4096, size.saturating_sub(1)] {
                        if i >= size {
                            continue;
                        }
                        let v = (i as u8) ^ 0x3c;
                        vs.write_obj(v, i).unwrap();
                        let mut b = [0u8; 1];
                        f.read_exact_at(&mut b, fstart + i as u64).unwrap();
                        if b[0] != v {
                            rec.fail("C15", "k.build/file-coherence/region-to-file", &format!("{} i={}", line, i));
                        }
                        f.write_all_at(&[!v], fstart + i as u64).unwrap();
                        let back: u8 = vs.read_obj(i).unwrap();
                        if back != !v {
                            rec.fail("C15", "k.build/file-coherence/file-to-region", &format!("{} i={}", line, i));
                        }
                    }
                    rec.note("file_coherence_probes");
                }
                format!("ok size={} prot={} flags={} fstart={} owned={} called={}", r.size(), r.prot(), r.flags(),
                        fs.map(|x| x.to_string()).unwrap_or("none".into()), r.owned(), raw.is_none())
            }
            Err(e) => format!("{} called={}", err_name(&e), matches!(e, MmapRegionError::Mmap(_))),
        }
    }
}

pub fn run(rec: &mut Rec, rng: &mut Rng, n: usize) {
    let mut w = BuildWorld::new();
    let rw = (libc::PROT_READ | libc::PROT_WRITE) as u64;
    let prots = [rw, libc::PROT_READ as u64, 0];
    let anon = (libc::MAP_ANONYMOUS | libc::MAP_PRIVATE) as u64;
    let flagsets = [anon, anon | libc::MAP_NORESERVE as u64, (libc::MAP_SHARED | libc::MAP_NORESERVE) as u64, libc::MAP_PRIVATE as u64,
                    anon | libc::MAP_FIXED as u64, (libc::MAP_SHARED | libc::MAP_FIXED) as u64];
    let mut go = |w: &mut BuildWorld, rec: &mut Rec, line: String| {
        let out = w.exec(rec, &line);
        // the kernel's reply is a parameter of the model: tell it what the kernel said
        let kernel = if out.starts_with("err mmap") { 0 } else { 1 };
        rec.push(format!("{} kernel={}", line, kernel), out, true);
    };
    rec.cases += 1;
    for _ in 0..n {
        let r = rng.below(100);
        if r >= 96 {
            let pick = |rng: &mut Rng| if rng.chance(1, 8) { "none".to_string() } else { (4096 * rng.below(6)).to_string() };
            // lengths: half of them whole pages, so that ranges that merely touch (end == start) are common
            let len = |rng: &mut Rng| if rng.chance(1, 2) { 4096 * (1 + rng.below(3)) } else { 1 + rng.below(3 * 4096) };
            let line = format!("k.overlap s1={} l1={} s2={} l2={} same={}", pick(rng), len(rng), pick(rng), len(rng), rng.chance(3, 4) as u8);
            go(&mut w, rec, line);
            continue;
        }
        if r < 12 {
            let size = *rng.pick(&[1u64, 4096, 5000, 1 << 30, u64::MAX, u64::MAX - 4095, 1 << 63]);
            let base = if rng.chance(1, 2) { (u64::MAX - size.min(u64::MAX - 1)).wrapping_add(rng.below(4)).wrapping_sub(2) } else { rng.boundary(&[1 << 32]) };
            go(&mut w, rec, format!("k.region base={} size={}", base, size));
            continue;
        }
        let size = match rng.below(8) { 0 => 0, 1 => 1, 2 => 4095, 3 => 4096, 4 => 4097, 5 => 8192, 6 => usize::MAX as u64 - rng.below(3), _ => 1 + rng.below(20000) };
        let prot = *rng.pick(&prots);
        let mut flags = *rng.pick(&flagsets);
        let with_file = flags & libc::MAP_ANONYMOUS as u64 == 0 || rng.chance(1, 10);
        let (flen, fstart) = if with_file {
            // (offsets of 2 GiB and 4 GiB and more: sparse files; whatever narrows the offset on the way to mmap shows there)
            let fstart = *rng.pick(&[0u64, 0, 4096, 8192, 1, u64::MAX - 10, u64::MAX - size.min(1 << 40), 1 << 31, 1 << 32, (1 << 32) + 4096, (1 << 33) + (1 << 31)]);
            let end = fstart.saturating_add(size.min(1 << 40));
            let cap = if fstart >= 1 << 31 && fstart < 1 << 40 { 1u64 << 35 } else { 1 << 30 };
            let flen = match rng.below(5) { 0 => end.min(cap), 1 => end.saturating_sub(1).min(cap), 2 => (end.saturating_add(1)).min(cap), 3 => 0, _ => rng.below(20000) };
            (flen.to_string(), fstart)
        } else {
            ("none".to_string(), 0)
        };
        let raw = if rng.chance(1, 8) { (if rng.chance(1, 2) { 0 } else { *rng.pick(&[1u64, 8, 4095, 4096, 2048]) }).to_string() } else { "none".to_string() };
        if raw != "none" && rng.chance(1, 2) {
            flags |= libc::MAP_FIXED as u64; // raw pointers skip the MAP_FIXED check
        }
        // a third of the file-backed requests go through the long-lived file, whose length keeps changing
        let reuse = (flen != "none" && rng.chance(1, 3)) as u8;
        // a third of the requests go through the older constructors (`from_file` fixes prot and flags)
        let (mut prot, mut flags) = (prot, flags);
        let via = match rng.below(6) {
            0 if raw == "none" => "build",
            1 if raw != "none" && flen == "none" => "build_raw",
            2 if raw == "none" && flen != "none" => { prot = rw; flags = (libc::MAP_NORESERVE | libc::MAP_SHARED) as u64; "from_file" }
            _ => "builder",
        };
        go(&mut w, rec, format!("k.build size={} prot={} flags={} flen={} fstart={} raw={} page=4096 reuse={} via={}", size, prot, flags, flen, fstart, raw, reuse, via));
    }
}
