//! `addr` world (C19) and `endian` world (C20): stateless operations.
use crate::rng::Rng;
use crate::util::*;
use vm_memory::{Address, Be16, Be32, Be64, BeSize, ByteValued, Bytes, GuestAddress, Le16, Le32, Le64, LeSize, MemoryRegionAddress, VolatileSlice};

fn fmt_opt(o: Option<u64>) -> String {
    match o {
        Some(x) => format!("some {}", x),
        None => "none".into(),
    }
}

/// run one addr op on address type `$T`
macro_rules! addr_op {
    ($T:ident, $op:expr, $a:expr, $b:expr) => {{
        let a = $T($a);
        let b: u64 = $b;
        match $op {
            "a.cadd" => fmt_opt(a.checked_add(b).map(|x| x.raw_value())),
            "a.csub" => fmt_opt(a.checked_sub(b).map(|x| x.raw_value())),
            "a.coff" => fmt_opt(a.checked_offset_from($T(b))),
            "a.oadd" => {
                let (x, o) = a.overflowing_add(b);
                format!("{} {}", x.raw_value(), o)
            }
            "a.osub" => {
                let (x, o) = a.overflowing_sub(b);
                format!("{} {}", x.raw_value(), o)
            }
            "a.uadd" => match guarded(|| a.unchecked_add(b).raw_value()) {
                Some(x) => format!("ok {}", x),
                None => "panic".into(),
            },
            "a.usub" => match guarded(|| a.unchecked_sub(b).raw_value()) {
                Some(x) => format!("ok {}", x),
                None => "panic".into(),
            },
            "a.uoff" => match guarded(|| a.unchecked_offset_from($T(b))) {
                Some(x) => format!("ok {}", x),
                None => "panic".into(),
            },
            "a.mask" => format!("{}", a.mask(b)),
            "a.and" => format!("{}", (a & b).raw_value()),
            "a.or" => format!("{}", (a | b).raw_value()),
            "a.cmp" => {
                let c = match a.cmp(&$T(b)) {
                    std::cmp::Ordering::Less => -1,
                    std::cmp::Ordering::Equal => 0,
                    std::cmp::Ordering::Greater => 1,
                };
                // PartialOrd / PartialEq must tell the same story
                let c2 = if a < $T(b) { -1 } else if a > $T(b) { 1 } else { 0 };
                if c != c2 {
                    "inconsistent-ord".to_string()
                } else {
                    format!("{} {}", c, a == $T(b))
                }
            }
            "a.calign" => match guarded(|| a.checked_align_up(b).map(|x| x.raw_value())) {
                Some(x) => format!("ok {}", fmt_opt(x)),
                None => "panic".into(),
            },
            "a.ualign" => match guarded(|| a.unchecked_align_up(b).raw_value()) {
                Some(x) => format!("ok {}", x),
                None => "panic".into(),
            },
            _ => "bad-op".into(),
        }
    }};
}

/// the property's own predicate, in u128 arithmetic, independent of the Lean model
fn addr_oracle(op: &str, a: u64, b: u64, chk: bool) -> Option<String> {
    let (x, y) = (a as u128, b as u128);
    let two64 = 1u128 << 64;
    Some(match op {
        "a.cadd" => fmt_opt(if x + y < two64 { Some((x + y) as u64) } else { None }),
        "a.csub" | "a.coff" => fmt_opt(if y <= x { Some((x - y) as u64) } else { None }),
        "a.oadd" => format!("{} {}", ((x + y) % two64) as u64, x + y >= two64),
        "a.osub" => format!("{} {}", ((x + two64 - y) % two64) as u64, x < y),
        "a.uadd" => {
            if x + y < two64 {
                format!("ok {}", x + y)
            } else if chk {
                "panic".into()
            } else {
                format!("ok {}", (x + y) % two64)
            }
        }
        "a.usub" | "a.uoff" => {
            if y <= x {
                format!("ok {}", x - y)
            } else if chk {
                "panic".into()
            } else {
                format!("ok {}", (x + two64 - y) % two64)
            }
        }
        "a.mask" | "a.and" => format!("{}", a & b),
        "a.or" => format!("{}", a | b),
        "a.cmp" => format!("{} {}", if a < b { -1 } else if a == b { 0 } else { 1 }, a == b),
        "a.calign" => {
            if b == 0 || !b.is_power_of_two() {
                "panic".into()
            } else {
                // least multiple of b that is >= a, if it fits
                let m = (x + y - 1) / y * y;
                format!("ok {}", fmt_opt(if m < two64 { Some(m as u64) } else { None }))
            }
        }
        "a.ualign" => {
            if b == 0 || !b.is_power_of_two() {
                return None; // outside the documented domain: not judged
            }
            let m = (x + y - 1) / y * y;
            if x + y - 1 < two64 {
                format!("ok {}", m)
            } else {
                return None; // "Only use this when the result is guaranteed not to overflow"
            }
        }
        _ => return None,
    })
}

pub const ADDR_OPS: &[&str] = &[
    "a.cadd", "a.csub", "a.coff", "a.oadd", "a.osub", "a.uadd", "a.usub", "a.uoff", "a.mask", "a.and", "a.or",
    "a.cmp", "a.calign", "a.ualign",
];

pub fn exec_addr(rec: &mut Rec, line: &str, chk: bool) -> String {
    let kv = Kv::parse(line);
    let (a, b) = (kv.n("a"), kv.n("b"));
    let g = addr_op!(GuestAddress, kv.op, a, b);
    let m = addr_op!(MemoryRegionAddress, kv.op, a, b);
    if g != m {
        rec.fail("C19", &format!("{}/types-differ", kv.op), &format!("a={} b={} guest={} region={}", a, b, g, m));
    }
    if let Some(exp) = addr_oracle(kv.op, a, b, chk) {
        if exp != g {
            rec.fail("C19", &format!("{}/u128", kv.op), &format!("a={} b={} got=[{}] want=[{}]", a, b, g, exp));
        }
    }
    g
}

pub fn structured_vals() -> Vec<u64> {
    let mut v: Vec<u64> = vec![0, 1, 2, 3];
    for c in [1u64 << 32, 1 << 63] {
        for d in -2i64..=2 {
            v.push((c as i128 + d as i128) as u64);
        }
    }
    for d in 0..4 {
        v.push(u64::MAX - d);
    }
    v
}

pub fn run_addr(rec: &mut Rec, rng: &mut Rng, n_random: usize, chk: bool) {
    let sv = structured_vals();
    rec.ops.push(format!("prof chk={}", chk as u8));
    rec.outs.push("ok".into());
    let mut go = |rec: &mut Rec, op: &str, a: u64, b: u64, nt: bool| {
        let line = format!("{} a={} b={}", op, a, b);
        let out = exec_addr(rec, &line, chk);
        rec.push(line, out, nt);
    };
    // all structured pairs, all ops except align
    for &op in ADDR_OPS {
        if op == "a.calign" || op == "a.ualign" {
            continue;
        }
        for &a in &sv {
            for &b in &sv {
                go(rec, op, a, b, true);
            }
        }
    }
    // all 64 power-of-two alignments x structured addresses (+ non powers of two and 0)
    for k in 0..64 {
        for &a in &sv {
            go(rec, "a.calign", a, 1u64 << k, true);
            go(rec, "a.ualign", a, 1u64 << k, true);
        }
    }
    for &a in &sv {
        for p in [0u64, 3, 6, 12, u64::MAX, (1 << 63) + 1] {
            go(rec, "a.calign", a, p, true);
        }
        go(rec, "a.ualign", a, 0, true);
    }
    rec.cases += 1;
    for _ in 0..n_random {
        let op = *rng.pick(ADDR_OPS);
        let a = if rng.chance(1, 2) { rng.next() } else { rng.boundary(&[1 << 32, 1 << 63]) };
        let b = if op == "a.calign" || op == "a.ualign" {
            if rng.chance(9, 10) { 1u64 << rng.below(64) } else { rng.boundary(&[]) }
        } else if rng.chance(1, 2) {
            rng.next()
        } else {
            // operands that land within a few units of the overflow point
            let near = (u64::MAX - a).wrapping_add(rng.below(5)).wrapping_sub(2);
            if rng.chance(1, 2) { near } else { rng.boundary(&[a]) }
        };
        let nt = a > u64::MAX - 8 || b > u64::MAX - 8 || (a as u128 + b as u128) >> 63 != 0;
        go(rec, op, a, b, nt);
    }
}

// ---------------------------------------------------------------------------------------------

macro_rules! endian_case {
    ($W:ty, $N:ty, $v:expr, $n:expr, $wire:ident, $rec:expr, $sig:expr) => {{
        let v: $N = $v as $N;
        let n: $N = $n as $N;
        let w: $W = v.into();
        // store the wrapper into volatile memory and read the raw bytes back
        let mut store = [0u8; 16];
        let vs = VolatileSlice::from(&mut store[..]);
        vs.write_obj(w, 3).unwrap();
        let mut bytes = vec![0u8; std::mem::size_of::<$W>()];
        vs.read_slice(&mut bytes, 3).unwrap();
        let raw: $N = unsafe { std::mem::transmute(w) };
        let native: $N = w.to_native();
        let native2: $N = w.into();
        let eq = w == n;
        let eq2 = n == w;
        // oracle: the property itself
        if bytes != v.$wire().to_vec() {
            $rec.fail("C20", concat!($sig, "/wire-bytes"), &format!("v={} bytes={}", v, hex(&bytes)));
        }
        if w.as_slice() != &bytes[..] {
            $rec.fail("C20", concat!($sig, "/as-slice"), &format!("v={}", v));
        }
        if native != v || native2 != v {
            $rec.fail("C20", concat!($sig, "/round-trip"), &format!("v={} native={}", v, native));
        }
        if eq != (n == v) || eq2 != eq {
            $rec.fail("C20", concat!($sig, "/eq"), &format!("v={} n={} eq={} eq2={}", v, n, eq, eq2));
        }
        if std::mem::size_of::<$W>() != std::mem::size_of::<$N>() || std::mem::align_of::<$W>() != std::mem::align_of::<$N>() {
            $rec.fail("C20", concat!($sig, "/layout"), "");
        }
        format!("raw={} bytes={} native={} eq={}", raw, hex(&bytes), native, eq)
    }};
}

macro_rules! endian_unwrap {
    ($W:ty, $bytes:expr) => {{
        let mut store = [0u8; 16];
        store[5..5 + $bytes.len()].copy_from_slice(&$bytes);
        let vs = VolatileSlice::from(&mut store[..]);
        let w: $W = vs.read_obj(5).unwrap();
        format!("native={}", w.to_native())
    }};
}

pub fn exec_endian(rec: &mut Rec, line: &str) -> String {
    let kv = Kv::parse(line);
    let (o, k, v, n) = (kv.s("o"), kv.n("k"), kv.n("v"), kv.n("n"));
    let sz = kv.s("sz") == "1";
    match kv.op {
        "e.wrap" => match (o, k, sz) {
            ("le", 2, _) => endian_case!(Le16, u16, v, n, to_le_bytes, rec, "Le16"),
            ("be", 2, _) => endian_case!(Be16, u16, v, n, to_be_bytes, rec, "Be16"),
            ("le", 4, _) => endian_case!(Le32, u32, v, n, to_le_bytes, rec, "Le32"),
            ("be", 4, _) => endian_case!(Be32, u32, v, n, to_be_bytes, rec, "Be32"),
            ("le", 8, false) => endian_case!(Le64, u64, v, n, to_le_bytes, rec, "Le64"),
            ("be", 8, false) => endian_case!(Be64, u64, v, n, to_be_bytes, rec, "Be64"),
            ("le", 8, true) => endian_case!(LeSize, usize, v, n, to_le_bytes, rec, "LeSize"),
            ("be", 8, true) => endian_case!(BeSize, usize, v, n, to_be_bytes, rec, "BeSize"),
            _ => "bad-op".into(),
        },
        "e.unwrap" => {
            let b = kv.bytes("bytes");
            match (o, k, sz) {
                ("le", 2, _) => endian_unwrap!(Le16, b),
                ("be", 2, _) => endian_unwrap!(Be16, b),
                ("le", 4, _) => endian_unwrap!(Le32, b),
                ("be", 4, _) => endian_unwrap!(Be32, b),
                ("le", 8, false) => endian_unwrap!(Le64, b),
                ("be", 8, false) => endian_unwrap!(Be64, b),
                ("le", 8, true) => endian_unwrap!(LeSize, b),
                ("be", 8, true) => endian_unwrap!(BeSize, b),
                _ => "bad-op".into(),
            }
        }
        _ => "bad-op".into(),
    }
}

/// structured byte patterns for wide types
fn patterns(k: u64) -> Vec<u64> {
    let mask = if k == 8 { u64::MAX } else { (1u64 << (8 * k)) - 1 };
    let mut v = vec![0, 1, mask, mask - 1, 0x0102030405060708 & mask, 0x8000000000000000u64 >> (64 - 8 * k), 0xff, 0xff00 & mask];
    for i in 0..k {
        v.push((0xa5u64 << (8 * i)) & mask);
        v.push(mask ^ (0xffu64 << (8 * i)));
    }
    v
}

/// byte-structured values (see `run_endian`)
fn structured(rng: &mut Rng, k: u64) -> u64 {
    let b = |rng: &mut Rng| *rng.pick(&[0u64, 0, 1, 0x7f, 0x80, 0xff, 0xa5]) | if rng.chance(1, 3) { rng.below(256) } else { 0 };
    let bytes: Vec<u64> = match rng.below(9) {
        7 => { let x = 1 + rng.below(255); let z = k / 2; let low = rng.chance(1, 2); (0..k).map(|i| if (i < z) == low { x } else { 0 }).collect() }   // one byte repeated over half of the word, zero elsewhere
        8 => { let x = 1 + rng.below(255); let z = 1 + rng.below(k - 1); (0..k).map(|i| if i < z { x } else { 0 }).collect() }                   // a run of one byte, then zeros
        0 => { let h: Vec<u64> = (0..k / 2).map(|_| b(rng)).collect(); h.iter().chain(h.iter()).cloned().collect() }            // identical halves
        1 => { let x = b(rng); let y = b(rng); (0..k).map(|i| if i % 2 == 0 { x } else { y }).collect() }                         // repeated pairs
        2 => { let h: Vec<u64> = (0..k / 2).map(|_| b(rng)).collect(); h.iter().chain(h.iter().rev()).cloned().collect() }      // palindrome
        3 => { let z = 1 + rng.below(k - 1); (0..k).map(|i| if i < z { 0 } else { 1 + rng.below(255) }).collect() }              // zero low bytes
        4 => { let z = 1 + rng.below(k - 1); (0..k).map(|i| if i >= k - z { 0 } else { 1 + rng.below(255) }).collect() }         // zero high bytes
        5 => { let j = rng.below(k); let x = b(rng); (0..k).map(|i| if i == j { 1 + rng.below(255) } else { x }).collect() }     // one odd byte
        _ => (0..k).map(|_| b(rng)).collect(),
    };
    bytes.iter().enumerate().fold(0u64, |acc, (i, x)| acc | ((x & 0xff) << (8 * i)))
}

pub fn run_endian(rec: &mut Rec, rng: &mut Rng, n_random: usize, all16: bool, thorough32: bool) {
    let mut go = |rec: &mut Rec, o: &str, k: u64, sz: bool, v: u64, n: u64, nt: bool| {
        let line = format!("e.wrap o={} k={} sz={} v={} n={}", o, k, sz as u8, v, n);
        let out = exec_endian(rec, &line);
        rec.push(line, out, nt);
    };
    if all16 {
        for o in ["le", "be"] {
            for v in 0..=0xffffu64 {
                // compare against itself, its byte swap and a neighbour
                let n = match v % 3 { 0 => v, 1 => (v as u16).swap_bytes() as u64, _ => v ^ 1 };
                go(rec, o, 2, false, v, n, v > 255 && (v as u16).swap_bytes() as u64 != v);
            }
        }
    }
    for o in ["le", "be"] {
        for (k, sz) in [(2u64, false), (4, false), (8, false), (8, true)] {
            for v in patterns(k) {
                go(rec, o, k, sz, v, v, true);
                go(rec, o, k, sz, v, v.swap_bytes() >> (64 - 8 * k), true);
            }
        }
    }
    for _ in 0..n_random {
        let o = *rng.pick(&["le", "be"]);
        let (k, sz) = *rng.pick(&[(4u64, false), (8, false), (8, true), (2, false)]);
        let mask = if k == 8 { u64::MAX } else { (1u64 << (8 * k)) - 1 };
        // half of the values are structured at the byte level: repeated halves / quarters / bytes, zero low or high
        // bytes, byte palindromes, one odd byte — the shapes for which byte order "does not matter" shortcuts go wrong
        let v = if rng.chance(1, 2) { rng.next() & mask } else { structured(rng, k) & mask };
        let bits = 8 * k as u32;
        let rot = |x: u64, r: u32| if bits == 64 { x.rotate_left(r) } else { ((x << r) | (x >> (bits - r))) & mask };
        let n = match rng.below(6) {
            0 | 1 => v,
            2 => v.swap_bytes() >> (64 - bits),
            3 => rot(v, bits / 2),
            4 => rot(v.swap_bytes() >> (64 - bits), bits / 2),
            _ => rng.next() & mask,
        };
        go(rec, o, k, sz, v, n, true);
        if rng.chance(1, 4) {
            let b = rng.bytes(k as usize);
            let line = format!("e.unwrap o={} k={} sz={} bytes={}", o, k, sz as u8, hex(&b));
            let out = exec_endian(rec, &line);
            rec.push(line, out, true);
        }
    }
    if thorough32 {
        // all 2^32 values of Le32/Be32 against to_le_bytes/to_be_bytes: oracle only (the
        // model is not run 2^32 times; the theorem covers every value).
        let mut bad = 0u64;
        for v in 0..=u32::MAX {
            let l: Le32 = v.into();
            let b: Be32 = v.into();
            if l.as_slice() != v.to_le_bytes() || b.as_slice() != v.to_be_bytes() || l.to_native() != v || b.to_native() != v || !(l == v) || !(b == v) {
                bad += 1;
                if bad < 4 {
                    rec.fail("C20", "X32/exhaustive", &format!("v={}", v));
                }
            }
        }
        *rec.notes.entry("exhaustive32_values".into()).or_default() += 1usize << 32;
    }
    rec.cases += 1;
}
