//! `bitmap` world (C09, parts of C07/C08): AtomicBitmap + nested BaseSlice views.
use crate::rng::Rng;
use crate::util::*;
use std::collections::{BTreeSet, HashMap};
use std::num::NonZeroUsize;
use vm_memory::bitmap::{AtomicBitmap, Bitmap, RefSlice};

/// a bitmap for `size` bytes: built directly, or — for every third size — grown from an empty one in two steps
/// (`new(0)`, `enlarge`, `enlarge`), which must give the same bitmap (C05: tracking must not depend on how the
/// bitmap got its size)
pub fn new_bitmap(size: usize, page: usize) -> AtomicBitmap {
    let pg = NonZeroUsize::new(page).unwrap();
    if size % 3 == 1 {
        let mut b = AtomicBitmap::new(0, pg);
        b.enlarge(size / 2);
        b.enlarge(size - size / 2);
        b
    } else {
        AtomicBitmap::new(size, pg)
    }
}

pub struct BmWorld {
    pub bms: HashMap<u64, AtomicBitmap>,
    /// oracle: the set of dirty page numbers and the page count / page size
    pub sets: HashMap<u64, (BTreeSet<usize>, usize, usize, usize)>, // set, npages, byte_size, page
}

pub fn bm_words(b: &AtomicBitmap) -> Vec<u64> {
    b.clone().get_and_reset()
}

fn set_to_words(s: &BTreeSet<usize>, npages: usize) -> Vec<u64> {
    let mut w = vec![0u64; npages.div_ceil(64)];
    for &p in s {
        w[p / 64] |= 1 << (p % 64);
    }
    w
}

/// pages overlapped by [start, start+len) cut at 2^64, that exist in the bitmap
fn pages_of(start: usize, len: usize, page: usize, npages: usize) -> std::ops::Range<usize> {
    if len == 0 {
        return 0..0;
    }
    let last = (start as u128 + len as u128 - 1).min(u64::MAX as u128) as usize;
    let lo = (start / page).min(npages);
    let hi = (last / page).saturating_add(1).min(npages);
    lo..hi.max(lo)
}

impl BmWorld {
    pub fn new() -> Self {
        BmWorld { bms: HashMap::new(), sets: HashMap::new() }
    }

    fn check(&self, rec: &mut Rec, id: u64, what: &str, detail: &str) {
        let b = &self.bms[&id];
        let (s, np, bs, _) = &self.sets[&id];
        if b.len() != *np || b.byte_size() != *bs {
            rec.fail("C09", &format!("{}/size", what), &format!("{} len={} want={}", detail, b.len(), np));
            return;
        }
        let w = bm_words(b);
        if w != set_to_words(s, *np) {
            rec.fail("C09", &format!("{}/set", what), &format!("{} words={} want={}", detail, words(&w), words(&set_to_words(s, *np))));
        }
    }

    pub fn exec(&mut self, rec: &mut Rec, line: &str) -> String {
        let kv = Kv::parse(line);
        let id = kv.n("id");
        if kv.op == "b.new" {
            let (size, page) = (kv.us("size"), kv.us("page"));
            // (an empty bitmap with 4 KiB pages is what `Default` gives: built that way)
            let b = if size == 0 && page == 4096 { AtomicBitmap::default() } else { AtomicBitmap::new(size, NonZeroUsize::new(page).unwrap()) };
            let out = format!("ok len={} bs={} w={}", b.len(), b.byte_size(), words(&bm_words(&b)));
            self.sets.insert(id, (BTreeSet::new(), size.div_ceil(page), size, page));
            self.bms.insert(id, b);
            self.check(rec, id, "new", line);
            return out;
        }
        if !self.bms.contains_key(&id) {
            return "bad-id".into();
        }
        let chain = kv.list("chain");
        let r = guarded(|| {
            let (set, np, bs, page) = self.sets.get_mut(&id).unwrap();
            let b = self.bms.get(&id).unwrap();
            let via = |f: &mut dyn FnMut(&RefSlice<AtomicBitmap>) -> String| -> String {
                let mut s = RefSlice::new(b, 0);
                for &o in &chain {
                    s = s.slice_at(o as usize);
                }
                f(&s)
            };
            let base = chain.iter().fold(0usize, |a, &o| a.wrapping_add(o as usize));
            match kv.op {
                "b.mark" | "b.clear" => {
                    let (start, len) = (kv.us("start"), kv.us("len"));
                    if kv.op == "b.mark" {
                        b.set_addr_range(start, len);
                    } else {
                        b.reset_addr_range(start, len);
                    }
                    for p in pages_of(start, len, *page, *np) {
                        if kv.op == "b.mark" { set.insert(p); } else { set.remove(&p); }
                    }
                    format!("ok w={}", words(&bm_words(b)))
                }
                "b.setbit" | "b.resetbit" => {
                    let i = kv.us("i");
                    if kv.op == "b.setbit" { b.set_bit(i) } else { b.reset_bit(i) }
                    if i < *np {
                        if kv.op == "b.setbit" { set.insert(i); } else { set.remove(&i); }
                    }
                    format!("ok w={}", words(&bm_words(b)))
                }
                "b.isbit" => {
                    let v = b.is_bit_set(kv.us("i"));
                    if v != set.contains(&kv.us("i")) {
                        rec.fail("C09", "isbit/set", line);
                    }
                    format!("ok {}", v)
                }
                "b.isaddr" => {
                    let v = b.is_addr_set(kv.us("a"));
                    if v != set.contains(&(kv.us("a") / *page)) {
                        rec.fail("C09", "isaddr/set", line);
                    }
                    format!("ok {}", v)
                }
                "b.len" => format!("ok len={} bs={}", b.len(), b.byte_size()),
                "b.gar" => {
                    let r = b.get_and_reset();
                    if r != set_to_words(set, *np) {
                        rec.fail("C09", "gar/returns-set", &format!("{} got={}", line, words(&r)));
                    }
                    for (wi, w) in r.iter().enumerate() {
                        for bit in 0..64 {
                            if w >> bit & 1 == 1 && wi * 64 + bit >= *np {
                                rec.fail("C09", "gar/index-beyond-size", line);
                            }
                        }
                    }
                    set.clear();
                    format!("ok r={} w={}", words(&r), words(&bm_words(b)))
                }
                "b.reset" => {
                    b.reset();
                    set.clear();
                    format!("ok w={}", words(&bm_words(b)))
                }
                "b.smark" => {
                    let (off, len) = (kv.us("off"), kv.us("len"));
                    via(&mut |s| { s.mark_dirty(off, len); String::new() });
                    for p in pages_of(base.wrapping_add(off), len, *page, *np) {
                        set.insert(p);
                    }
                    format!("ok w={}", words(&bm_words(b)))
                }
                "b.sdirty" => {
                    let off = kv.us("off");
                    let mut v = false;
                    // `wrap`: the same query through the other `Bitmap` implementations of bitmap/mod.rs — `Some(slice)` answers
                    // like the slice, `None` and `()` track nothing and answer "clean"
                    let wrap = kv.s("wrap").to_string();
                    via(&mut |s| {
                        v = match wrap.as_str() {
                            "some" => Some(s.clone()).dirty_at(off),
                            "none" => { let n: Option<RefSlice<AtomicBitmap>> = None; let _ = s; n.dirty_at(off) }
                            "unit" => ().dirty_at(off),
                            _ => s.dirty_at(off),
                        };
                        String::new()
                    });
                    let want = if wrap == "none" || wrap == "unit" { false } else { set.contains(&(base.wrapping_add(off) / *page)) };
                    if v != want {
                        rec.fail("C09", "sdirty/set", line);
                        rec.fail("C05", "sdirty/set", line);
                    }
                    format!("ok {}", v)
                }
                "b.clone" | "b.enlarge" => String::from("@"),
                _ => { let _ = bs; "bad-op".into() }
            }
        });
        let out = match r {
            None => {
                rec.fail("C07", &format!("{}/panic", kv.op), line);
                return "panic".into();
            }
            Some(o) => o,
        };
        if out != "@" {
            if out.starts_with("ok w=") || out.starts_with("ok r=") {
                self.check(rec, id, kv.op, line);
            }
            return out;
        }
        match kv.op {
            "b.clone" => {
                let d = kv.n("d");
                // `how=from`: `dst.clone_from(&src)` into an existing bitmap (whatever its size was) instead of `src.clone()`
                let c = match (kv.s("how"), if d != id { self.bms.remove(&d) } else { None }) {
                    ("from", Some(mut dst)) => { dst.clone_from(&self.bms[&id]); dst }
                    _ => self.bms[&id].clone(),
                };
                let out = format!("ok len={} bs={} w={}", c.len(), c.byte_size(), words(&bm_words(&c)));
                let s = self.sets[&id].clone();
                self.bms.insert(d, c);
                self.sets.insert(d, s);
                self.check(rec, d, "clone", line);
                // independence: marking the clone must not change the original (checked on later ops)
                out
            }
            "b.enlarge" => {
                let add = kv.us("add");
                let b = self.bms.get_mut(&id).unwrap();
                let fits = (b.byte_size() as u128 + add as u128) < (1u128 << 64);
                match guarded(|| b.enlarge(add)) {
                    None => {
                        // byte_size += add overflowed (checked build): the bitmap may be poisoned; drop it
                        if fits {
                            rec.fail("C09", "enlarge/panic", line);
                        }
                        self.bms.remove(&id);
                        self.sets.remove(&id);
                        "panic".into()
                    }
                    Some(()) => {
                        let b = &self.bms[&id];
                        let e = self.sets.get_mut(&id).unwrap();
                        let old_np = e.1;
                        e.2 = e.2.wrapping_add(add);
                        e.1 = e.2.div_ceil(e.3);
                        if fits && e.1 < old_np {
                            rec.fail("C09", "enlarge/shrunk", line);
                        }
                        let out = format!("ok len={} bs={} w={}", b.len(), b.byte_size(), words(&bm_words(b)));
                        if fits {
                            self.check(rec, id, "enlarge", line);
                        } else {
                            // wrapped in an unchecked build: outside the property (VMM-chosen operand); drop it
                            self.bms.remove(&id);
                            self.sets.remove(&id);
                        }
                        out
                    }
                }
            }
            _ => "bad-op".into(),
        }
    }
}

const PAGES: &[usize] = &[1, 2, 3, 4, 5, 6, 7, 8, 9, 63, 64, 65, 128];

pub fn run(rec: &mut Rec, rng: &mut Rng, n_random: usize, full_exhaustive: bool) {
    let mut w = BmWorld::new();
    let chk = crate::overflow_checks_on();
    rec.ops.push(format!("prof chk={}", chk as u8));
    rec.outs.push("ok".into());
    let mut go = |w: &mut BmWorld, rec: &mut Rec, line: String, nt: bool| {
        let out = w.exec(rec, &line);
        rec.push(line, out, nt);
    };
    // --- small-universe enumeration: every (size, page) pair, ranges sampled for the model
    //     stream, and (oracle only) every range when `full_exhaustive`
    let sizes: Vec<usize> = if full_exhaustive { (0..=130).collect() } else { vec![0, 1, 2, 7, 63, 64, 65, 127, 128, 129, 130] };
    for &size in &sizes {
        for &page in PAGES {
            go(&mut w, rec, format!("b.new id=0 size={} page={}", size, page), true);
            // model-compared sample
            for _ in 0..(if full_exhaustive { 6 } else { 12 }) {
                let start = rng.below(141) as usize;
                let len = rng.below(141) as usize;
                go(&mut w, rec, format!("b.mark id=0 start={} len={}", start, len), true);
                go(&mut w, rec, format!("b.isaddr id=0 a={}", rng.below(150)), false);
                if rng.chance(1, 2) {
                    go(&mut w, rec, format!("b.clear id=0 start={} len={}", rng.below(141), rng.below(141)), true);
                }
            }
            go(&mut w, rec, "b.gar id=0".into(), true);
            if full_exhaustive {
                // oracle-only: all ranges start 0..140 x len 0..140, mark then clear on the real bitmap
                let b = AtomicBitmap::new(size, NonZeroUsize::new(page).unwrap());
                let np = size.div_ceil(page);
                let mut n = 0usize;
                for start in 0..=140usize {
                    for len in 0..=140usize {
                        b.set_addr_range(start, len);
                        let mut s = BTreeSet::new();
                        for p in pages_of(start, len, page, np) {
                            s.insert(p);
                        }
                        if bm_words(&b) != set_to_words(&s, np) {
                            rec.fail("C09", "exh-mark/set", &format!("size={} page={} start={} len={}", size, page, start, len));
                        }
                        b.reset_addr_range(start, len);
                        if bm_words(&b).iter().any(|&w| w != 0) {
                            rec.fail("C09", "exh-clear/set", &format!("size={} page={} start={} len={}", size, page, start, len));
                        }
                        n += 2;
                    }
                }
                *rec.notes.entry("oracle_only_exhaustive_evals".into()).or_default() += n;
            }
        }
    }
    rec.cases += 1;
    // --- random histories with enlarge / clone / nested slices / extreme ranges
    let mut done = 0;
    while done < n_random {
        rec.cases += 1;
        let size = *rng.pick(&[0usize, 1, 5, 64, 100, 127, 128, 129, 300, 1000, 4096, 4097, 8191]);
        let size = if rng.chance(1, 4) { rng.below(9000) as usize } else { size };
        let page = if size == 0 && rng.chance(1, 2) { 4096 } else if rng.chance(1, 3) { 1 + rng.below(300) as usize } else { *rng.pick(PAGES) };
        go(&mut w, rec, format!("b.new id=0 size={} page={}", size, page), true);
        let mut live: Vec<u64> = vec![0];
        let steps = 8 + rng.below(30);
        for _ in 0..steps {
            done += 1;
            let id = *rng.pick(&live);
            if !w.bms.contains_key(&id) {
                break;
            }
            let bs = w.bms[&id].byte_size() as u64;
            let np = w.bms[&id].len() as u64;
            let marks = [bs, np, page as u64, (np.saturating_sub(1)) * page as u64, 64 * page as u64];
            let a = rng.boundary(&marks);
            let l = if rng.chance(1, 2) { rng.below(3 * page as u64 + 2) } else { rng.boundary(&marks) };
            let nt = a >= bs.saturating_sub(page as u64) || l > page as u64 || a % (page as u64) + l > page as u64;
            let r = rng.below(100);
            let line = if r < 25 {
                format!("b.mark id={} start={} len={}", id, a, l)
            } else if r < 35 {
                format!("b.clear id={} start={} len={}", id, a, l)
            } else if r < 42 {
                format!("b.setbit id={} i={}", id, rng.boundary(&[np, 64, 63]))
            } else if r < 47 {
                format!("b.resetbit id={} i={}", id, rng.boundary(&[np, 64, 63]))
            } else if r < 54 {
                format!("b.isbit id={} i={}", id, rng.boundary(&[np, 64]))
            } else if r < 61 {
                format!("b.isaddr id={} a={}", id, a)
            } else if r < 65 {
                format!("b.gar id={}", id)
            } else if r < 67 {
                format!("b.reset id={}", id)
            } else if r < 72 {
                if live.len() > 1 && rng.chance(1, 3) {
                    // overwrite another live bitmap of this case (it may be larger or smaller: enlarged clones)
                    let d = *rng.pick(&live);
                    if d == id { continue; }
                    format!("b.clone id={} d={} how=from", id, d)
                } else {
                    let d = live.len() as u64;
                    live.push(d);
                    format!("b.clone id={} d={}", id, d)
                }
            } else if r < 79 {
                // either small, or overflowing `byte_size + add` (never a huge non-overflowing size: that is an allocation abort, not modelled)
                let add = if rng.chance(1, 12) && bs > 2 { (u64::MAX - bs + 1) + rng.below(3) } else { rng.below(3 * page as u64 + 70) };
                format!("b.enlarge id={} add={}", id, add)
            } else if r < 92 {
                let depth = 1 + rng.below(3);
                let chain: Vec<String> = (0..depth)
                    .map(|_| (if rng.chance(1, 6) { rng.boundary(&marks) } else { rng.below(bs + 2) }).to_string())
                    .collect();
                format!("b.smark id={} chain={} off={} len={}", id, chain.join(","), rng.below(bs + 2), l)
            } else {
                let depth = 1 + rng.below(3);
                let chain: Vec<String> = (0..depth).map(|_| rng.below(bs + 2).to_string()).collect();
                // a quarter of the queries go through a chain whose offsets add up past 2^64 and wrap back into the bitmap
                let mut chain = chain;
                if rng.chance(1, 4) {
                    let x = rng.boundary(&[u64::MAX, 1 << 63]).max(1);
                    chain = vec![x.to_string(), (0u64.wrapping_sub(x)).wrapping_add(rng.below(bs + 2)).to_string()];
                }
                let wrap = *rng.pick(&["", "", "", "some", "none", "unit"]);
                // … and another quarter wrap at the query itself: a slice based far up, asked about an offset that brings the sum back
                let mut off = rng.below(bs + 2);
                if rng.chance(1, 4) {
                    let x = rng.boundary(&[u64::MAX, 1 << 63]).max(1);
                    chain = vec![x.to_string()];
                    off = 0u64.wrapping_sub(x).wrapping_add(rng.below(bs + 2));
                }
                format!("b.sdirty id={} chain={} off={} wrap={}", id, chain.join(","), off, wrap)
            };
            go(&mut w, rec, line, nt);
        }
    }
}
