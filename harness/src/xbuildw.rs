//! `xbuild` world (C15 Xen half, C12 Xen half; `xen` feature build, hook H3): `MmapRegion::from_range`
//! for every kind of Xen mapping — which requests are accepted, what the built region reports, that
//! a failed construction (refused request, failing `mmap`, failing ioctl — injected through the
//! emulated device) leaves neither a mapping nor a grant mapping behind, and that dropping a region
//! gives back everything it acquired.
//!
//! The kernel's replies are parameters of the model: after each request the harness appends
//! `sc=<replies>` (one 0/1 per fallible system call, in call order) as observed from the device log,
//! the injection flag and the result.
use crate::rng::Rng;
use crate::util::*;
use std::collections::BTreeMap;
use vm_memory::mmap::{MmapRange, MmapRegionError};
use vm_memory::verif_hooks::{xen_fail_next, xen_fail_pending, xen_log_take};
use vm_memory::{FileOffset, GuestAddress, GuestRegionMmap, MmapRegion};

fn err_name(e: &MmapRegionError) -> String {
    match e {
        MmapRegionError::InvalidOffsetLength => "err offlen".into(),
        MmapRegionError::MapFixed => "err mapfixed".into(),
        MmapRegionError::MappingPastEof => "err pasteof".into(),
        MmapRegionError::Mmap(_) => "err mmap".into(),
        MmapRegionError::SeekEnd(_) => "err seekend".into(),
        MmapRegionError::SeekStart(_) => "err seekstart".into(),
        MmapRegionError::InvalidFileOffset => "err nofile".into(),
        MmapRegionError::MappedInAdvance => "err advance".into(),
        MmapRegionError::MmapFlags(w) => format!("err xenflags {}", w),
        MmapRegionError::Fam(_) => "err fam".into(),
        MmapRegionError::UnexpectedError => "err unexpected".into(),
    }
}

fn named_tmpfile() -> (std::fs::File, String) {
    static N: std::sync::atomic::AtomicU64 = std::sync::atomic::AtomicU64::new(0);
    let name = format!("vmverif-x-{}-{}", std::process::id(), N.fetch_add(1, std::sync::atomic::Ordering::SeqCst));
    let p = std::env::temp_dir().join(&name);
    let f = std::fs::OpenOptions::new().read(true).write(true).create(true).truncate(true).open(&p).unwrap();
    let _ = std::fs::remove_file(&p);
    (f, name)
}

fn maps_text() -> String {
    std::fs::read_to_string("/proc/self/maps").unwrap_or_default()
}
/// number of lines of /proc/self/maps that name a backing file of this world
fn file_maps(text: &str) -> usize {
    text.lines().filter(|l| l.contains("vmverif-x-")).count()
}
/// is `addr` inside some mapping?
fn covered(text: &str, addr: usize) -> bool {
    text.lines().any(|l| {
        let Some((r, _)) = l.split_once(' ') else { return false };
        let Some((a, b)) = r.split_once('-') else { return false };
        match (usize::from_str_radix(a, 16), usize::from_str_radix(b, 16)) {
            (Ok(a), Ok(b)) => a <= addr && addr < b,
            _ => false,
        }
    })
}

/// what a successful request leaves alive: the mapping itself, or the guest region built around it
enum Held {
    Map(MmapRegion<()>),
    Guest(GuestRegionMmap<()>),
}
impl Held {
    fn m(&self) -> &MmapRegion<()> {
        match self {
            Held::Map(m) => m,
            Held::Guest(g) => g,
        }
    }
}

struct Live {
    region: Held,
    anon_addr: Option<usize>,
}

pub struct XBuildWorld {
    regs: BTreeMap<u64, Live>,
    grants: Vec<(u64, u32)>,
}

impl XBuildWorld {
    pub fn new() -> Self {
        let _ = xen_log_take();
        XBuildWorld { regs: BTreeMap::new(), grants: vec![] }
    }

    /// fold the device log into the multiset of live grant mappings; false if an unmap had no matching map
    fn absorb_log(&mut self) -> bool {
        let mut ok = true;
        for r in xen_log_take() {
            if r.map {
                self.grants.push((r.index, r.count));
            } else if let Some(i) = self.grants.iter().position(|x| *x == (r.index, r.count)) {
                self.grants.remove(i);
            } else {
                ok = false;
            }
        }
        ok
    }

    fn fmt_state(&self) -> String {
        let text = maps_text();
        let anon = self.regs.values().filter(|l| l.anon_addr.map(|a| covered(&text, a)).unwrap_or(false)).count();
        let mut g = self.grants.clone();
        g.sort();
        format!("maps={} grants={}", file_maps(&text) + anon, g.iter().map(|(i, c)| format!("{}:{}", i, c)).collect::<Vec<_>>().join(","))
    }

    /// returns (observation, script of kernel replies as observed)
    pub fn exec(&mut self, rec: &mut Rec, line: &str) -> (String, String) {
        let r = self.exec1(rec, line);
        let (dbl, at) = crate::interpose::take_double_unmaps();
        if dbl > 0 {
            rec.fail("C12", "x/mapping-unmapped-twice", &format!("{} range at {:#x} released {} more time(s)", line, at, dbl));
        }
        r
    }

    fn exec1(&mut self, rec: &mut Rec, line: &str) -> (String, String) {
        let kv = Kv::parse(line);
        match kv.op {
            "x.reset" => {
                self.regs.clear();
                let _ = self.absorb_log();
                self.grants.clear();
                ("ok".into(), String::new())
            }
            "x.new" => self.new_region(rec, &kv, line),
            "x.drop" => {
                let id = kv.n("id");
                let Some(l) = self.regs.remove(&id) else { return ("bad-op".into(), String::new()) };
                let anon = l.anon_addr;
                drop(l);
                if !self.absorb_log() {
                    rec.fail("C12", "x.drop/unmap-without-map", line);
                }
                if let Some(a) = anon {
                    if covered(&maps_text(), a) {
                        rec.fail("C12", "x.drop/anonymous-mapping-still-there", line);
                    }
                }
                let st = self.fmt_state();
                if self.regs.is_empty() && st != "maps=0 grants=" {
                    rec.fail("C12", "x.drop/leak-after-last-drop", &format!("{} -> {}", line, st));
                }
                (format!("ok {}", st), String::new())
            }
            _ => ("bad-op".into(), String::new()),
        }
    }

    fn new_region(&mut self, rec: &mut Rec, kv: &Kv, line: &str) -> (String, String) {
        let (id, size, w, data, base) = (kv.n("id"), kv.us("size"), kv.n("w") as u32, kv.n("data") as u32, kv.n("base"));
        let opt = |k: &str| if kv.s(k) == "none" { None } else { Some(kv.n(k)) };
        let (flen, fstart) = (opt("flen"), kv.n("fstart"));
        let (prot, flags) = (opt("prot").map(|x| x as i32), opt("flags").map(|x| x as i32));
        let inject = kv.n("fail") == 1;
        let file = flen.map(|l| {
            let (f, name) = named_tmpfile();
            f.set_len(l).unwrap();
            (f, name)
        });
        let mut range = MmapRange::new(size, file.as_ref().map(|(f, _)| FileOffset::new(f.try_clone().unwrap(), fstart)), GuestAddress(base), w, data);
        if let Some(p) = prot {
            range.set_prot(p);
        }
        if let Some(f) = flags {
            range.set_flags(f);
        }
        let before_text = maps_text();
        let (before_files, before_lines) = (file_maps(&before_text), before_text.lines().count());
        let before_grants = { let mut g = self.grants.clone(); g.sort(); g };
        let _ = xen_log_take();
        if inject {
            xen_fail_next();
        }
        // `greg=<guest base>`: the mapping is handed on to `GuestRegionMmap::new`, which refuses it (and drops it) when
        // guest base + size does not fit the address space
        let greg = opt("greg");
        let res: Result<Held, String> = match MmapRegion::<()>::from_range(range) {
            Err(e) => Err(err_name(&e)),
            Ok(m) => match greg {
                None => Ok(Held::Map(m)),
                Some(g) => match GuestRegionMmap::new(m, GuestAddress(g)) {
                    Ok(gr) => Ok(Held::Guest(gr)),
                    Err(_) => Err("err invalidregion".into()),
                },
            },
        };
        // was the injected failure consumed?  (if not, no ioctl was reached)
        let consumed = inject && !xen_fail_pending();
        if inject && !consumed {
            // disarm
            vm_memory::verif_hooks::xen_fail_clear();
        }
        let log_maps = { let l = xen_log_take(); let n = l.iter().filter(|r| r.map).count(); for r in l { if r.map { self.grants.push((r.index, r.count)); } else if let Some(i) = self.grants.iter().position(|x| *x == (r.index, r.count)) { self.grants.remove(i); } else { rec.fail("C15", "x.new/unmap-without-map", line); } } n };

        // ---- oracle: the acceptance predicate written directly from the statement
        let eff_flags = flags.unwrap_or(libc::MAP_NORESERVE | libc::MAP_SHARED);
        let want: String = if flags.map(|f| f & libc::MAP_FIXED != 0).unwrap_or(false) {
            "err mapfixed".into()
        } else if ![0u32, 1, 2, 0xa].contains(&w) {
            format!("err xenflags {}", w)
        } else if w != 0 {
            match flen { None => "err nofile".into(), Some(_) if fstart != 0 => "err offlen".into(), _ => "kernel".into() }
        } else if let Some(l) = flen {
            match fstart.checked_add(size as u64) { None => "err offlen".into(), Some(e) if l < e => "err pasteof".into(), _ => "kernel".into() }
        } else {
            "kernel".into()
        };
        let got = match &res { Ok(_) => "ok".to_string(), Err(e) => e.clone() };
        let overflow = greg.map(|g| g as u128 + size as u128 >= 1u128 << 64).unwrap_or(false);
        let consistent = if want == "kernel" { (got == "ok" && !overflow) || got == "err mmap" || (got == "err invalidregion" && overflow) } else { want == got };
        // for the kernel's replies below: the mapping itself was built when the guest region was refused
        let built = res.is_ok() || got == "err invalidregion";
        if !consistent {
            rec.fail("C15", &format!("x.new/accept/{}", want.split(' ').take(2).collect::<Vec<_>>().join("-")), &format!("{} -> {}", line, got));
        }
        if want != "kernel" && (log_maps != 0 || consumed) {
            rec.fail("C15", "x.new/refused-request-reached-the-device", line);
        }
        // ---- the kernel's replies, in call order, as observed
        let sc: Vec<u8> = if want != "kernel" {
            vec![]
        } else if w == 1 {
            // foreign: mmap, then privcmd ioctl
            if built { vec![1, 1] } else if consumed { vec![1, 0] } else { vec![0] }
        } else if w == 2 {
            // grant mapped in advance: map ioctl, then mmap
            if built { vec![1, 1] } else if consumed { vec![0] } else { vec![1, 0] }
        } else if w == 0xa {
            vec![]
        } else if built { vec![1] } else { vec![0] };
        let sc_s = sc.iter().map(|b| b.to_string()).collect::<Vec<_>>().join(",");

        let out = match res {
            Ok(held) => {
                let r = held.m();
                let fs = r.file_offset().map(|f| f.start());
                if r.size() != size || r.prot() != prot.unwrap_or(libc::PROT_READ | libc::PROT_WRITE) || r.flags() != eff_flags || fs != flen.map(|_| fstart)
                    || r.xen_mmap_flags() != w || r.xen_mmap_data() != data {
                    rec.fail("C15", "x.new/reports-request", line);
                }
                let anon_addr = if flen.is_none() && !r.as_ptr().is_null() { Some(r.as_ptr() as usize) } else { None };
                let s = format!("ok size={} prot={} flags={} fstart={} xf={} xd={}", r.size(), r.prot(), r.flags(), fs.map(|x| x.to_string()).unwrap_or("none".into()), r.xen_mmap_flags(), r.xen_mmap_data());
                self.regs.insert(id, Live { region: held, anon_addr });
                format!("{} {}", s, self.fmt_state())
            }
            Err(e) => {
                let after_text = maps_text();
                if file_maps(&after_text) != before_files || after_text.lines().count() != before_lines {
                    rec.fail("C15", "x.new/failed-build-left-mapping", &format!("{} -> {}", line, e));
                }
                let mut g = self.grants.clone();
                g.sort();
                let obs = format!("{} {}", e, self.fmt_state());
                if g != before_grants {
                    rec.fail("C15", "x.new/failed-build-left-grant-mapping", &format!("{} -> {} grants {:?} -> {:?}", line, e, before_grants, g));
                    // reported once, here: later drops are judged against what the live regions own
                    self.grants = before_grants.clone();
                }
                obs
            }
        };
        let _ = self.regs.get(&id).map(|l| l.region.m().size());
        (out, sc_s)
    }
}

pub fn run(rec: &mut Rec, rng: &mut Rng, n: usize) {
    let mut w = XBuildWorld::new();
    let mut go = |w: &mut XBuildWorld, rec: &mut Rec, line: String, nt: bool| {
        let (out, sc) = w.exec(rec, &line);
        let full = if line.starts_with("x.new") { format!("{} sc={}", line, sc) } else { line };
        rec.push(full, out, nt);
    };
    let shared = (libc::MAP_SHARED | libc::MAP_NORESERVE) as u64;
    let anon = (libc::MAP_ANONYMOUS | libc::MAP_PRIVATE) as u64;
    let mut next_id = 0u64;
    let mut live: Vec<u64> = vec![];
    let mut word = 0u64; // exhaustive sweep of the low flag words, interleaved with the structured requests
    rec.cases += 1;
    go(&mut w, rec, "x.reset".into(), false);
    for i in 0..n {
        if i % 400 == 399 {
            // new case: drop everything in a random order
            while !live.is_empty() {
                let k = rng.below(live.len() as u64) as usize;
                let id = live.remove(k);
                go(&mut w, rec, format!("x.drop id={}", id), true);
            }
            go(&mut w, rec, "x.reset".into(), false);
            rec.cases += 1;
        }
        if !live.is_empty() && rng.chance(1, 4) {
            let k = rng.below(live.len() as u64) as usize;
            let id = live.remove(k);
            go(&mut w, rec, format!("x.drop id={}", id), true);
            continue;
        }
        let r = rng.below(100);
        let xw: u64 = if r < 30 {
            word = (word + 1) & 0xffff;
            word
        } else if r < 36 {
            (1u64 << rng.below(32)) | *rng.pick(&[0u64, 1, 2, 0xa])
        } else if r < 40 {
            rng.next() & 0xffff_ffff
        } else {
            *rng.pick(&[0u64, 1, 2, 0xa, 1, 2, 0xa, 3, 8, 9, 0xb])
        };
        let size = *rng.pick(&[1u64, 4095, 4096, 4097, 8192, 12288, 12293, 100, 0]);
        // base: page aligned or not, sometimes with the grant-address bit
        let base = (rng.below(200) * 4096 + *rng.pick(&[0u64, 0, 0, 8, 4095])) | if rng.chance(1, 5) { 1u64 << 63 } else { 0 };
        let want_file = xw != 0 || rng.chance(1, 2);
        let (flen, fstart) = if want_file && !rng.chance(1, 12) {
            let fstart = *rng.pick(&[0u64, 0, 0, 0, 4096, 8, u64::MAX - 100]);
            // grant mappings are mapped at file offset index = (base & !2^63) / 4096 * 4096
            let need = ((base & !(1u64 << 63)) / 4096) * 4096 + size + 8192;
            let flen = if xw == 0 { match rng.below(4) { 0 => fstart.saturating_add(size).min(1 << 30), 1 => fstart.saturating_add(size).saturating_sub(1).min(1 << 30), _ => (fstart.min(1 << 20) + size + 4096).min(1 << 30) } } else { need };
            (flen.to_string(), fstart)
        } else {
            ("none".to_string(), 0)
        };
        let flags = match rng.below(10) {
            0..=4 => "none".to_string(),
            5 => shared.to_string(),
            6 => (if flen == "none" { anon } else { libc::MAP_PRIVATE as u64 }).to_string(),
            7 => "0".to_string(),                                      // neither SHARED nor PRIVATE: the kernel refuses the mmap
            8 => (shared | libc::MAP_FIXED as u64).to_string(),
            _ => (if flen == "none" { anon } else { shared }).to_string(),
        };
        let prot = *rng.pick(&["none", "none", "3", "1"]);
        let fail = rng.chance(1, 6) as u8;
        let id = next_id;
        next_id += 1;
        // a quarter of the requests go on to `GuestRegionMmap::new`, half of those with a guest base next to 2^64
        let greg = if rng.chance(1, 4) {
            (if rng.chance(1, 2) { (u64::MAX - size).wrapping_add(rng.below(4)).wrapping_sub(1) } else { base & !(1u64 << 63) }).to_string()
        } else { "none".to_string() };
        let line = format!("x.new id={} size={} flen={} fstart={} prot={} flags={} w={} data={} base={} fail={} page=4096 greg={}", id, size, flen, fstart, prot, flags, xw, rng.below(9), base, fail, greg);
        let before = rec.outs.len();
        go(&mut w, rec, line, true);
        if rec.outs[before].starts_with("ok") {
            live.push(id);
        }
    }
    while let Some(id) = live.pop() {
        go(&mut w, rec, format!("x.drop id={}", id), true);
    }
}
