//! `copy` world (C06): the primitive accesses issued by every entry point that funnels into
//! `copy_slice_impl`, observed through hook H1 (`vm_memory::verif_hooks`).
use crate::rng::Rng;
use crate::util::*;
use std::io::Cursor;
use std::sync::atomic::{AtomicBool, AtomicU64, Ordering};
use vm_memory::verif_hooks as hk;
use vm_memory::{Bytes, GuestAddress, GuestMemory, GuestMemoryMmap, GuestMemoryRegion, MemoryRegionAddress, ReadVolatile, VolatileMemory, VolatileSlice, WriteVolatile};

#[repr(C, align(64))]
struct Al([u8; 256]);

pub const HOWS: &[&str] = &[
    "write", "read", "wslice", "rslice", "copyfrom", "copyto", "acopyfrom", "acopyto", "rv_slice", "wv_mutslice", "wv_vec", "wva_vec_tight",
    "rv_cursor", "wv_cursor", "r.write", "r.read", "g.write", "g.read", "g.wslice", "g.rslice",
];
pub const OBJ_HOWS: &[&str] = &["wobj", "robj", "r.wobj", "r.robj", "g.wobj", "g.robj"];

pub struct CopyWorld {
    pub last: (usize, usize),
    guest: Box<Al>,
    local: Box<Al>,
    gm: GuestMemoryMmap<()>,
}

fn fmt_trace(log: &[hk::CopyAccess], src: usize, dst: usize) -> String {
    if log.len() == 1 && log[0].width == 0 {
        if log[0].src != src || log[0].dst != dst {
            return format!("bulk-at-unexpected-address {}", log[0].total);
        }
        return format!("bulk {}", log[0].total);
    }
    let mut out = String::from("v");
    for a in log {
        if a.width == 0 || a.src.wrapping_sub(src) != a.dst.wrapping_sub(dst) {
            return "inconsistent-trace".into();
        }
        out.push_str(&format!(" {}@{}", a.width, a.src.wrapping_sub(src)));
    }
    // the model prints "v " + joined list; an empty plan prints "v "
    if log.is_empty() {
        out.push(' ');
    }
    out
}

impl CopyWorld {
    pub fn new() -> Self {
        CopyWorld { last: (0, 0), guest: Box::new(Al([0; 256])), local: Box::new(Al([0; 256])), gm: GuestMemoryMmap::from_ranges(&[(GuestAddress(0x1000), 0x1000)]).unwrap() }
    }

    /// run `how` moving `total` bytes between a local buffer at 64+ls and guest memory at 64+gs;
    /// returns (src address, dst address, trace)
    pub fn run_one(&mut self, how: &str, total: usize, ls: usize, gs: usize) -> (usize, usize, Vec<hk::CopyAccess>) {
        let gbase = self.guest.0.as_mut_ptr() as usize + 64 + gs;
        let lbase = self.local.0.as_mut_ptr() as usize + 64 + ls;
        for (i, b) in self.local.0.iter_mut().enumerate() {
            *b = i as u8 ^ 0x5a;
        }
        let vs = unsafe { VolatileSlice::new(gbase as *mut u8, total + 16) };
        let lbuf: &mut [u8] = unsafe { std::slice::from_raw_parts_mut(lbase as *mut u8, total) };
        // region / guest-memory targets: host pointer of the region gives the alignment class
        let region = self.gm.iter().next().unwrap();
        let rhost = region.as_ptr() as usize;
        let roff = 64 + gs;
        let to_guest = matches!(how, "write" | "wslice" | "copyfrom" | "acopyfrom" | "rv_slice" | "rv_cursor" | "r.write" | "g.write" | "g.wslice" | "wobj" | "r.wobj" | "g.wobj");
        let g_addr = if how.starts_with("r.") || how.starts_with("g.") { rhost + roff } else { gbase };
        hk::copy_log_start();
        match how {
            "write" => { vs.write(lbuf, 0).unwrap(); }
            "wslice" => vs.write_slice(lbuf, 0).unwrap(),
            "read" => { vs.read(lbuf, 0).unwrap(); }
            "rslice" => vs.read_slice(lbuf, 0).unwrap(),
            "copyfrom" => vs.subslice(0, total).unwrap().copy_from::<u8>(lbuf),
            "copyto" => { vs.subslice(0, total).unwrap().copy_to::<u8>(lbuf); }
            "acopyfrom" => vs.get_array_ref::<u8>(0, total).unwrap().copy_from(lbuf),
            "acopyto" => { vs.get_array_ref::<u8>(0, total).unwrap().copy_to(lbuf); }
            "rv_slice" => { let mut s: &[u8] = lbuf; s.read_volatile(&mut vs.subslice(0, total).unwrap()).unwrap(); }
            "wv_mutslice" => { let mut s: &mut [u8] = lbuf; s.write_volatile(&vs.subslice(0, total).unwrap()).unwrap(); }
            "rv_cursor" => { let mut c = Cursor::new(&lbuf[..]); c.read_volatile(&mut vs.subslice(0, total).unwrap()).unwrap(); }
            "wv_cursor" => { let mut c = Cursor::new(&mut lbuf[..]); c.write_volatile(&vs.subslice(0, total).unwrap()).unwrap(); }
            "r.write" => { region.write(lbuf, MemoryRegionAddress(roff as u64)).unwrap(); }
            "r.read" => { region.read(lbuf, MemoryRegionAddress(roff as u64)).unwrap(); }
            "g.write" => { self.gm.write(lbuf, GuestAddress(0x1000 + roff as u64)).unwrap(); }
            "g.read" => { self.gm.read(lbuf, GuestAddress(0x1000 + roff as u64)).unwrap(); }
            "g.wslice" => self.gm.write_slice(lbuf, GuestAddress(0x1000 + roff as u64)).unwrap(),
            "g.rslice" => self.gm.read_slice(lbuf, GuestAddress(0x1000 + roff as u64)).unwrap(),
            _ => {}
        }
        let mut log = hk::copy_log_take();
        if how == "wv_vec" {
            // Vec<u8>: the destination address is wherever the vector's spare capacity is
            let mut v: Vec<u8> = Vec::with_capacity(64);
            v.extend_from_slice(&[0u8; 3][..ls % 4]);
            let dst = v.as_ptr() as usize + v.len();
            hk::copy_log_start();
            v.write_volatile(&vs.subslice(0, total).unwrap()).unwrap();
            log = hk::copy_log_take();
            return (gbase, dst, log);
        }
        if how == "wva_vec_tight" {
            // Vec<u8> whose spare capacity is smaller than the transfer (it has to grow): `write_all_volatile_to` must still
            // fetch the guest bytes in one piece; the destination is wherever the bytes ended up
            let before = ls % 4;
            let mut v: Vec<u8> = Vec::with_capacity(before + total / 2);
            v.extend_from_slice(&[0u8; 3][..before]);
            hk::copy_log_start();
            vs.write_all_volatile_to(0, &mut v, total).unwrap();
            log = hk::copy_log_take();
            let dst = v.as_ptr() as usize + before;
            return (gbase, dst, log);
        }
        if to_guest { (lbase, g_addr, log) } else { (g_addr, lbase, log) }
    }

    /// whole-object forms: the local value is a naturally aligned `T` owned by the callee
    pub fn run_obj(&mut self, how: &str, size: usize, gs: usize) -> (usize, Vec<hk::CopyAccess>) {
        let gbase = self.guest.0.as_mut_ptr() as usize + 64 + gs;
        let vs = unsafe { VolatileSlice::new(gbase as *mut u8, 32) };
        let region = self.gm.iter().next().unwrap();
        let rhost = region.as_ptr() as usize;
        let roff = 64 + gs;
        let ga = GuestAddress(0x1000 + roff as u64);
        let ra = MemoryRegionAddress(roff as u64);
        macro_rules! obj {
            ($T:ty) => {{
                hk::copy_log_start();
                match how {
                    "wobj" => vs.write_obj::<$T>(7 as $T, 0).unwrap(),
                    "robj" => { vs.read_obj::<$T>(0).unwrap(); }
                    "r.wobj" => region.write_obj::<$T>(7 as $T, ra).unwrap(),
                    "r.robj" => { region.read_obj::<$T>(ra).unwrap(); }
                    "g.wobj" => self.gm.write_obj::<$T>(7 as $T, ga).unwrap(),
                    "g.robj" => { self.gm.read_obj::<$T>(ga).unwrap(); }
                    _ => {}
                }
                hk::copy_log_take()
            }};
        }
        let log = match size { 1 => obj!(u8), 2 => obj!(u16), 4 => obj!(u32), _ => obj!(u64) };
        let g_addr = if how.starts_with("r.") || how.starts_with("g.") { rhost + roff } else { gbase };
        (g_addr, log)
    }

    /// atomic load / store at offset `off` of a slice whose base has skew `gs`: ok iff the real location is aligned
    fn atomic(&mut self, rec: &mut Rec, kv: &Kv, line: &str) -> String {
        use std::sync::atomic::Ordering::SeqCst;
        let (gs, off, ts) = (kv.us("gs"), kv.us("off"), kv.us("ts"));
        let base = self.guest.0.as_mut_ptr() as usize + 64 + gs;
        let vs = unsafe { VolatileSlice::new(base as *mut u8, 40) };
        let store = kv.s("how") == "store";
        macro_rules! at {
            ($T:ty) => {{
                if store { vs.store::<$T>(1 as $T, off, SeqCst).map_err(|e| crate::slice::verr(&e)) } else { vs.load::<$T>(off, SeqCst).map(|_| ()).map_err(|e| crate::slice::verr(&e)) }
            }};
        }
        let r = match ts { 1 => at!(u8), 2 => at!(u16), 4 => at!(u32), _ => at!(u64) };
        let fits = off + ts <= 40;
        let aligned = (base + off) % ts == 0;
        // C06: "the atomic load and store operations ... refuse misaligned addresses"
        if r.is_ok() != (fits && aligned) {
            rec.fail("C06", &format!("atomic-{}/alignment", kv.s("how")), &format!("{} location%{}={} -> {:?}", line, ts, (base + off) % ts, r));
        }
        self.last = (base, 40);
        match r { Ok(()) => "ok".into(), Err(e) => e }
    }

    pub fn exec(&mut self, rec: &mut Rec, line: &str) -> String {
        let kv = Kv::parse(line);
        if kv.op == "c.atomic" || kv.s("how") == "store" || kv.s("how") == "load" {
            return self.atomic(rec, &kv, line);
        }
        let how = kv.s("how");
        let total = kv.us("total");
        if OBJ_HOWS.contains(&how) {
            let gs = kv.us("gs");
            let (g, log) = self.run_obj(how, total, gs);
            // the local address is the callee's; take it from the trace
            let writes = how.ends_with("wobj");
            let (src, dst) = match log.first() {
                Some(a) => (a.src, a.dst),
                None => return "no-trace".into(),
            };
            if (writes && dst != g) || (!writes && src != g) {
                rec.fail("C06", &format!("{}/guest-address", how), line);
            }
            // C06: aligned guest address + naturally aligned value => exactly one access of that width
            if g % total == 0 && !(log.len() == 1 && log[0].width == total) {
                rec.fail("C06", &format!("{}/torn", how), &format!("{} trace={:?}", line, log));
            }
            self.last = (src, dst);
            return fmt_trace(&log, src, dst);
        }
        let (ls, gs) = (kv.us("ls"), kv.us("gs"));
        let (src, dst, log) = self.run_one(how, total, ls, gs);
        if [1usize, 2, 4, 8].contains(&total) && src % total == 0 && dst % total == 0 && !(log.len() == 1 && log[0].width == total) {
            rec.fail("C06", &format!("{}/torn", how), &format!("{} trace={:?}", line, log));
        }
        if total > 0 && log.iter().map(|a| if a.width == 0 { a.total } else { a.width }).sum::<usize>() != total {
            rec.fail("C06", &format!("{}/not-all-bytes", how), &format!("{} trace={:?}", line, log));
        }
        self.last = (src, dst);
        fmt_trace(&log, src, dst)
    }
}

pub fn run(rec: &mut Rec, rng: &mut Rng, n_random: usize, tear_secs: u64) {
    let mut w = CopyWorld::new();
    // The model needs the real addresses: the harness runs the op first, then emits the
    // `c.copy src= dst= total=` line the model replays.
    let mut go = |w: &mut CopyWorld, rec: &mut Rec, line: String| {
        let out = w.exec(rec, &line);
        let model_line = format!("c.copy src={} dst={} {}", w.last.0, w.last.1, line.trim_start_matches("x "));
        rec.push(model_line, out, true);
    };
    // exhaustive: total 1..=17 x local skew 0..8 x guest skew 0..8 x every funnelling entry point
    for &how in HOWS {
        for total in 1..=17usize {
            for ls in 0..8 {
                for gs in 0..8 {
                    go(&mut w, rec, format!("x how={} total={} ls={} gs={}", how, total, ls, gs));
                }
            }
        }
    }
    for &how in OBJ_HOWS {
        for size in [1usize, 2, 4, 8] {
            for gs in 0..8 {
                go(&mut w, rec, format!("x how={} total={} gs={}", how, size, gs));
            }
        }
    }
    // atomic loads/stores refuse misaligned locations: every slice skew x offset x width
    for how in ["store", "load"] {
        for ts in [1usize, 2, 4, 8] {
            for gs in 0..16 {
                for off in 0..=33 {
                    let line = format!("how={} ts={} gs={} off={}", how, ts, gs, off);
                    let out = w.exec(rec, &format!("x {}", line));
                    rec.push(format!("c.atomic base={} size=40 {}", w.last.0, line), out, true);
                }
            }
        }
    }
    rec.cases += 1;
    for _ in 0..n_random {
        let how = *rng.pick(HOWS);
        go(&mut w, rec, format!("x how={} total={} ls={} gs={}", how, 1 + rng.below(40), rng.below(64), rng.below(64)));
    }
    if tear_secs > 0 {
        tearing(rec, tear_secs);
    }
}

/// black-box cross-check (thorough tier): one thread flips an aligned value through the
/// library, another reads it through the library; a mixed value is a torn access.
/// Only ever adds failures it has actually seen.
fn tearing(rec: &mut Rec, secs: u64) {
    macro_rules! tear {
        ($T:ty, $name:expr) => {{
            let mut cell = Box::new(Al([0; 256]));
            let addr = cell.0.as_mut_ptr() as usize + 64;
            let stop = std::sync::Arc::new(AtomicBool::new(false));
            let bad = std::sync::Arc::new(AtomicU64::new(0));
            let iters = std::sync::Arc::new(AtomicU64::new(0));
            let (s2, b2, i2) = (stop.clone(), bad.clone(), iters.clone());
            let reader = std::thread::spawn(move || {
                let vs = unsafe { VolatileSlice::new(addr as *mut u8, 16) };
                while !s2.load(Ordering::Relaxed) {
                    let v: $T = vs.read_obj(0).unwrap();
                    if v != 0 && v != <$T>::MAX {
                        b2.fetch_add(1, Ordering::Relaxed);
                    }
                    i2.fetch_add(1, Ordering::Relaxed);
                }
            });
            let vs = unsafe { VolatileSlice::new(addr as *mut u8, 16) };
            let t0 = std::time::Instant::now();
            let mut v: $T = 0;
            while t0.elapsed().as_secs() < secs {
                for _ in 0..1000 {
                    vs.write_obj(v, 0).unwrap();
                    v = !v;
                }
            }
            stop.store(true, Ordering::Relaxed);
            reader.join().unwrap();
            *rec.notes.entry(format!("tearing_reads_{}", $name)).or_default() += iters.load(Ordering::Relaxed) as usize;
            if bad.load(Ordering::Relaxed) > 0 {
                rec.fail("C06", concat!("tearing/", $name), &format!("mixed values observed: {}", bad.load(Ordering::Relaxed)));
            }
            drop(cell);
        }};
    }
    tear!(u16, "u16");
    tear!(u32, "u32");
    tear!(u64, "u64");
}
