use std::collections::{BTreeMap, HashMap, HashSet};
use std::fmt::Write as _;

pub fn hex(b: &[u8]) -> String {
    let mut s = String::with_capacity(b.len() * 2);
    for x in b {
        let _ = write!(s, "{:02x}", x);
    }
    s
}
pub fn unhex(s: &str) -> Vec<u8> {
    let b = s.as_bytes();
    (0..b.len() / 2)
        .map(|i| u8::from_str_radix(std::str::from_utf8(&b[2 * i..2 * i + 2]).unwrap(), 16).unwrap_or(0))
        .collect()
}
pub fn fnv1a(b: &[u8]) -> u64 {
    let mut h: u64 = 14695981039346656037;
    for x in b {
        h = (h ^ (*x as u64)).wrapping_mul(1099511628211);
    }
    h
}
pub fn words(ws: &[u64]) -> String {
    ws.iter().map(|w| w.to_string()).collect::<Vec<_>>().join(",")
}

pub struct Kv<'a> {
    pub op: &'a str,
    m: HashMap<&'a str, &'a str>,
}
impl<'a> Kv<'a> {
    pub fn parse(line: &'a str) -> Kv<'a> {
        let mut it = line.split_whitespace();
        let op = it.next().unwrap_or("");
        let mut m = HashMap::new();
        for t in it {
            if let Some((k, v)) = t.split_once('=') {
                m.insert(k, v);
            }
        }
        Kv { op, m }
    }
    pub fn s(&self, k: &str) -> &'a str {
        self.m.get(k).copied().unwrap_or("")
    }
    pub fn n(&self, k: &str) -> u64 {
        self.s(k).parse().unwrap_or(0)
    }
    pub fn us(&self, k: &str) -> usize {
        self.n(k) as usize
    }
    pub fn bytes(&self, k: &str) -> Vec<u8> {
        unhex(self.s(k))
    }
    pub fn list(&self, k: &str) -> Vec<u64> {
        self.s(k).split(',').filter_map(|t| t.parse().ok()).collect()
    }
}

/// Everything one harness run records: the op lines, the implementation's observation
/// lines (aligned 1:1), oracle failures, and the input distribution for the evidence file.
#[derive(Default)]
pub struct Rec {
    pub ops: Vec<String>,
    pub outs: Vec<String>,
    pub oracle: Vec<String>,
    pub op_hist: BTreeMap<String, usize>,
    pub outcome_hist: BTreeMap<String, usize>,
    pub err_hist: BTreeMap<String, usize>,
    pub distinct: HashSet<u64>,
    pub nontrivial: HashSet<u64>,
    pub cases: usize,
    pub notes: BTreeMap<String, usize>,
}

impl Rec {
    pub fn push(&mut self, op: String, out: String, nontrivial: bool) {
        let name = op.split_whitespace().next().unwrap_or("").to_string();
        *self.op_hist.entry(name).or_default() += 1;
        let mut it = out.split_whitespace();
        let first = it.next().unwrap_or("");
        let outcome = match first {
            "ok" | "panic" | "err" => first.to_string(),
            _ => "value".to_string(),
        };
        if first == "err" {
            *self.err_hist.entry(it.next().unwrap_or("").to_string()).or_default() += 1;
        }
        *self.outcome_hist.entry(outcome).or_default() += 1;
        let h = fnv1a(op.as_bytes());
        self.distinct.insert(h);
        if nontrivial {
            self.nontrivial.insert(h);
        }
        self.ops.push(op);
        self.outs.push(out);
    }
    pub fn fail(&mut self, prop: &str, sig: &str, detail: &str) {
        // line number = index of the op that was just pushed (or about to be)
        self.oracle
            .push(format!("ORACLE prop={} line={} sig={} {}", prop, self.ops.len(), sig, detail));
    }
    pub fn note(&mut self, k: &str) {
        *self.notes.entry(k.to_string()).or_default() += 1;
    }
    pub fn write(&self, dir: &str) {
        std::fs::create_dir_all(dir).unwrap();
        std::fs::write(format!("{}/ops.txt", dir), self.ops.join("\n") + "\n").unwrap();
        std::fs::write(format!("{}/impl.out", dir), self.outs.join("\n") + "\n").unwrap();
        std::fs::write(
            format!("{}/oracle.txt", dir),
            if self.oracle.is_empty() { String::new() } else { self.oracle.join("\n") + "\n" },
        )
        .unwrap();
        let j = |m: &BTreeMap<String, usize>| {
            format!(
                "{{{}}}",
                m.iter().map(|(k, v)| format!("\"{}\":{}", k, v)).collect::<Vec<_>>().join(",")
            )
        };
        let stats = format!(
            "{{\"ops\":{},\"cases\":{},\"distinct\":{},\"distinct_nontrivial\":{},\"op_hist\":{},\"outcome_hist\":{},\"err_hist\":{},\"notes\":{}}}\n",
            self.ops.len(),
            self.cases,
            self.distinct.len(),
            self.nontrivial.len(),
            j(&self.op_hist),
            j(&self.outcome_hist),
            j(&self.err_hist),
            j(&self.notes)
        );
        std::fs::write(format!("{}/stats.json", dir), stats).unwrap();
    }
}

/// run `f`, turning a panic into `None`
pub fn guarded<T>(f: impl FnOnce() -> T) -> Option<T> {
    std::panic::catch_unwind(std::panic::AssertUnwindSafe(f)).ok()
}
