//! `gm` world: tables of guest memories built from mmap regions (anonymous or file backed,
//! tracked by an AtomicBitmap of arbitrary page size), two implementations of `GuestMemory`
//! (the crate's `GuestMemoryMmap` and a linear-scan one that relies on every provided
//! default method), queries, byte/object/atomic/stream accesses at guest and region level,
//! and insert/remove histories with every earlier map kept alive.
//! Serves C02 C03 C10 C05 C16 C18 C07 C14.
use crate::rng::Rng;
use crate::slice::{from_bytes_pub as from_bytes, ty_of, verr, ATOMICS, TYPES};
use crate::streams::{RdRes, Streams};
use crate::util::*;
use crate::{with_atomic, with_ty};
use std::collections::{BTreeSet, HashMap};
use std::num::NonZeroUsize;
use std::sync::atomic::Ordering;
use std::sync::Arc;
use vm_memory::bitmap::AtomicBitmap;
#[cfg(not(feature = "xen"))]
use vm_memory::mmap::MmapRegionBuilder;
#[cfg(feature = "xen")]
use vm_memory::{MmapRange, MmapRegion};
use vm_memory::{
    Address, Be64, ByteValued, Bytes, FileOffset, GuestAddress, GuestMemory, GuestMemoryError, GuestMemoryMmap,
    GuestMemoryRegion, GuestRegionMmap, Le16, Le32, MemoryRegionAddress,
};

type Reg = GuestRegionMmap<AtomicBitmap>;

/// second implementation of `GuestMemory`: only the required methods, linear scan
pub struct LinearMem {
    regions: Vec<Arc<Reg>>,
}
impl GuestMemory for LinearMem {
    type R = Reg;
    fn num_regions(&self) -> usize {
        self.regions.len()
    }
    fn find_region(&self, addr: GuestAddress) -> Option<&Reg> {
        self.regions
            .iter()
            .map(|r| r.as_ref())
            .find(|r| addr >= r.start_addr() && addr.raw_value() - r.start_addr().raw_value() < r.len())
    }
    fn iter(&self) -> impl Iterator<Item = &Reg> {
        self.regions.iter().map(|r| r.as_ref())
    }
}

pub enum AnyMem {
    Mmap(GuestMemoryMmap<AtomicBitmap>),
    Linear(LinearMem),
}
macro_rules! with_mem {
    ($m:expr, $M:ident => $body:expr) => {
        match $m {
            AnyMem::Mmap($M) => $body,
            AnyMem::Linear($M) => $body,
        }
    };
}

pub fn gerr(e: &GuestMemoryError) -> String {
    match e {
        GuestMemoryError::InvalidGuestAddress(a) => format!("err invalidaddr a={}", a.raw_value()),
        GuestMemoryError::IOError(e) => format!("err io k={}", crate::slice::io_kind(e)),
        GuestMemoryError::PartialBuffer { expected, completed } => format!("err partial exp={} done={}", expected, completed),
        GuestMemoryError::InvalidBackendAddress => "err backend".into(),
        GuestMemoryError::HostAddressNotAvailable => "err nohost".into(),
        GuestMemoryError::CallbackOutOfRange => "err cboor".into(),
        GuestMemoryError::GuestAddressOverflow => "err gaoverflow".into(),
    }
}

#[derive(Clone)]
struct RInfo {
    rid: u64,
    start: u64,
    len: usize,
    page: usize,
}

pub struct GmWorld {
    pending: HashMap<u64, Vec<Arc<Reg>>>,
    pub mems: HashMap<u64, AnyMem>,
    /// oracle: which regions (by rid) each live map holds, in order
    layouts: HashMap<u64, Vec<u64>>,
    info: HashMap<u64, RInfo>,         // by rid
    by_ptr: HashMap<usize, u64>,       // region object address -> rid
    regs: HashMap<u64, Arc<Reg>>,      // keeps every region alive for the case
    mirror: HashMap<u64, Vec<u8>>,     // by rid
    exp_dirty: HashMap<u64, BTreeSet<usize>>,
    pub streams: Streams,
    pub d1_seen: bool,
    /// xen build: backing file and the file offset of region byte 0 (on-demand regions have no host pointer)
    files: HashMap<u64, (std::fs::File, u64, bool)>,
    /// byte ranges (rid, offset, len) the current op was specified to touch (C17 window oracle)
    touched: Vec<(u64, usize, usize)>,
    xen_live: Vec<(u64, u32)>,
}

fn ptr_bytes(r: &Reg) -> &[u8] {
    unsafe { std::slice::from_raw_parts(r.as_ptr(), r.len() as usize) }
}
fn region_dirty(r: &Reg) -> BTreeSet<usize> {
    let b = r.bitmap();
    (0..b.len()).filter(|&p| b.is_bit_set(p)).collect()
}

/// does the request name no bytes at all?
fn zero_len_op(kv: &Kv) -> bool {
    match kv.op {
        "g.rvf" | "g.revf" | "g.wvt" | "g.wavt" | "gr.rvf" | "gr.revf" | "gr.wvt" | "gr.wavt" => kv.us("count") == 0,
        "g.write" | "g.wslice" | "gr.write" | "gr.wslice" => kv.s("data").is_empty(),
        "g.read" | "g.rslice" | "gr.read" | "gr.rslice" => kv.us("len") == 0,
        "g.wobj" | "g.robj" | "gr.wobj" | "gr.robj" => kv.us("ts") == 0,
        "g.slice" | "gr.slice" => kv.us("cnt") == 0,
        _ => false,
    }
}

impl GmWorld {
    pub fn new() -> Self {
        GmWorld { pending: HashMap::new(), mems: HashMap::new(), layouts: HashMap::new(), info: HashMap::new(), by_ptr: HashMap::new(),
                  regs: HashMap::new(), mirror: HashMap::new(), exp_dirty: HashMap::new(), streams: Streams::default(), d1_seen: false, files: HashMap::new(), touched: vec![], xen_live: vec![] }
    }
    pub fn reset(&mut self) {
        *self = GmWorld::new();
        // dropping advance-mapped grant regions unmaps them: not part of the next case's log
        #[cfg(feature = "xen")]
        let _ = vm_memory::verif_hooks::xen_log_take();
    }

    /// current contents of a region: through its host pointer, or (on-demand Xen regions) through the backing file
    fn region_bytes(&self, r: &Reg) -> Vec<u8> {
        let rid = self.rid_of(r);
        match self.files.get(&rid) {
            Some((f, off, true)) => {
                use std::os::unix::fs::FileExt;
                let mut v = vec![0u8; r.len() as usize];
                f.read_exact_at(&mut v, *off).unwrap();
                v
            }
            _ => ptr_bytes(r).to_vec(),
        }
    }
    pub fn is_ondemand(&self, rid: u64) -> bool {
        matches!(self.files.get(&rid), Some((_, _, true)))
    }

    fn rid_of(&self, r: &Reg) -> u64 {
        *self.by_ptr.get(&(r as *const Reg as usize)).unwrap_or(&u64::MAX)
    }

    fn fmt_region(&self, r: &Reg) -> String {
        format!("[{}:{}:{} h={} d={}]", r.start_addr().raw_value(), r.len(), self.rid_of(r), fnv1a(&self.region_bytes(r)),
                words(&crate::bitmap::bm_words(r.bitmap())))
    }
    fn fmt_state(&self, m: &AnyMem) -> String {
        let mut v: Vec<(u64, String)> = with_mem!(m, M => M.iter().map(|r| (r.start_addr().raw_value(), self.fmt_region(r))).collect());
        if matches!(m, AnyMem::Linear(_)) {
            v.sort();
        }
        v.into_iter().map(|x| x.1).collect::<Vec<_>>().join(" ")
    }
    fn fmt_layout(&self, m: &AnyMem) -> String {
        // the mmap collection promises address order; the hand-rolled one iterates in "plug" order, canonicalised here
        let mut v: Vec<(u64, u64, u64)> = with_mem!(m, M => M.iter().map(|r| (r.start_addr().raw_value(), r.len(), self.rid_of(r))).collect());
        if matches!(m, AnyMem::Linear(_)) {
            v.sort();
        }
        v.iter().map(|(s, l, r)| format!("{}:{}:{}", s, l, r)).collect::<Vec<_>>().join(",")
    }

    /// create one region; returns (region or error string, host base)
    fn make_region(&mut self, kv: &Kv) -> Result<Arc<Reg>, String> {
        let (start, len, page, rid) = (kv.n("start"), kv.us("len"), kv.us("page").max(1), kv.n("rid"));
        #[cfg(not(feature = "xen"))]
        let mapping = {
            let bm = crate::bitmap::new_bitmap(len, page);
            let mut b = MmapRegionBuilder::new_with_bitmap(len, bm).with_mmap_prot(libc::PROT_READ | libc::PROT_WRITE);
            if kv.s("back") == "file" && kv.n("foff") == 4096 {
                // every such region maps the same range start of ONE long-lived descriptor (privately, so that the regions
                // do not alias each other's bytes): their file ranges overlap although their guest ranges do not
                thread_local! { static ONE_FD: Arc<std::fs::File> = Arc::new(crate::streams::tmpfile_pub()); }
                let f = ONE_FD.with(|f| f.clone());
                if f.metadata().map(|m| m.len()).unwrap_or(0) < 4096 + len as u64 {
                    f.set_len(4096 + len as u64).unwrap();
                }
                b = b.with_file_offset(FileOffset::from_arc(f, 4096)).with_mmap_flags(libc::MAP_NORESERVE | libc::MAP_PRIVATE);
            } else if kv.s("back") == "file" {
                let f = crate::streams::tmpfile_pub();
                f.set_len(kv.n("foff") + len as u64).unwrap();
                b = b.with_file_offset(FileOffset::new(f, kv.n("foff"))).with_mmap_flags(libc::MAP_NORESERVE | libc::MAP_SHARED);
            } else {
                b = b.with_mmap_flags(libc::MAP_ANONYMOUS | libc::MAP_NORESERVE | libc::MAP_PRIVATE);
            }
            b.build().map_err(|e| format!("err mmap {:?}", e))?
        };
        // Xen build: UNIX, foreign, grant (mapped in advance) and grant on-demand regions through the
        // emulated ioctls of hook H3.  The bitmap page size is the system's (NewBitmap::with_len).
        #[cfg(feature = "xen")]
        let mapping: MmapRegion<AtomicBitmap> = {
            let _ = (page, NonZeroUsize::new(1));
            let xk = kv.s("xk");
            let range = match xk {
                "foreign" | "grant" | "ondemand" => {
                    let f = crate::streams::tmpfile_pub();
                    // grant reference r designates file offset r * 4096; foreign mappings start at file offset 0
                    let fbase = if xk == "foreign" { 0 } else { start & !(1u64 << 63) & !4095 };
                    f.set_len(fbase + len as u64 + 8192).unwrap();
                    self.files.insert(rid, (f.try_clone().unwrap(), if xk == "foreign" { 0 } else { start & !(1u64 << 63) }, xk == "ondemand"));
                    let flags = match xk { "foreign" => 1, "grant" => 2, _ => 0xa };
                    MmapRange::new(len, Some(FileOffset::new(f, 0)), GuestAddress(start), flags, 7)
                }
                _ => {
                    if kv.s("back") == "file" {
                        let f = crate::streams::tmpfile_pub();
                        f.set_len(kv.n("foff") + len as u64).unwrap();
                        MmapRange::new_unix(len, Some(FileOffset::new(f, kv.n("foff"))), GuestAddress(start))
                    } else {
                        MmapRange::new_unix(len, None, GuestAddress(start))
                    }
                }
            };
            MmapRegion::from_range(range).map_err(|e| format!("err mmap {:?}", e))?
        };
        match GuestRegionMmap::new(mapping, GuestAddress(start)) {
            Ok(r) => {
                let r = Arc::new(r);
                self.by_ptr.insert(Arc::as_ptr(&r) as usize, rid);
                #[cfg(feature = "xen")]
                let page = 4096usize;
                self.info.insert(rid, RInfo { rid, start, len, page });
                self.mirror.insert(rid, vec![0u8; len]);
                self.exp_dirty.insert(rid, BTreeSet::new());
                self.regs.insert(rid, r.clone());
                Ok(r)
            }
            Err(_) => Err("err invalidregion".into()),
        }
    }

    // ---------------- oracle helpers over a layout (list of rids) -----------------
    fn lay(&self, mi: u64) -> Vec<RInfo> {
        self.layouts.get(&mi).map(|v| v.iter().map(|r| self.info[r].clone()).collect()).unwrap_or_default()
    }
    fn locate(lay: &[RInfo], a: u64) -> Option<(RInfo, usize)> {
        lay.iter().find(|r| a >= r.start && (a - r.start) < r.len as u64).map(|r| (r.clone(), (a - r.start) as usize))
    }
    /// longest run of consecutively mapped addresses starting at `a`, capped
    fn run_len(lay: &[RInfo], a: u64, cap: usize) -> usize {
        let mut n = 0usize;
        let mut cur = a as u128;
        while n < cap && cur < (1u128 << 64) {
            match Self::locate(lay, cur as u64) {
                Some((r, off)) => {
                    let take = (r.len - off).min(cap - n);
                    n += take;
                    cur += take as u128;
                }
                None => break,
            }
        }
        n
    }
    /// oracle's record of `data` stored at consecutive guest addresses from `a`
    fn expect_write(&mut self, lay: &[RInfo], a: u64, data: &[u8]) {
        let mut cur = a;
        let mut i = 0;
        while i < data.len() {
            let Some((r, off)) = Self::locate(lay, cur) else { break };
            let take = (r.len - off).min(data.len() - i);
            self.touched.push((r.rid, off, take));
            self.mirror.get_mut(&r.rid).unwrap()[off..off + take].copy_from_slice(&data[i..i + take]);
            let set = self.exp_dirty.get_mut(&r.rid).unwrap();
            for p in off / r.page..=(off + take - 1) / r.page {
                set.insert(p);
            }
            i += take;
            cur = cur.wrapping_add(take as u64);
        }
    }
    fn expect_mark(&mut self, rid: u64, off: usize, len: usize) {
        if len == 0 {
            return;
        }
        let page = self.info[&rid].page;
        let set = self.exp_dirty.get_mut(&rid).unwrap();
        for p in off / page..=(off + len - 1) / page {
            set.insert(p);
        }
    }
    fn flat(&self, lay: &[RInfo], a: u64, n: usize) -> Vec<u8> {
        let mut out = Vec::new();
        let mut cur = a;
        while out.len() < n {
            let Some((r, off)) = Self::locate(lay, cur) else { break };
            let take = (r.len - off).min(n - out.len());
            out.extend_from_slice(&self.mirror[&r.rid][off..off + take]);
            cur = cur.wrapping_add(take as u64);
        }
        out
    }

    /// Xen build (C17): every byte range the op touched on an on-demand region lies inside a temporary
    /// mapping requested during the op, and every temporary mapping was released again.
    #[cfg(feature = "xen")]
    fn xen_post(&mut self, rec: &mut Rec, op: &str, line: &str) {
        let log = vm_memory::verif_hooks::xen_log_take();
        let creating = matches!(op, "g.region" | "g.insert" | "g.begin" | "g.drop");
        for (rid, off, n) in std::mem::take(&mut self.touched) {
            if n == 0 { continue; }
            if let Some((_, fbase, true)) = self.files.get(&rid) {
                // one op may be several accesses (a stream that delivers its bytes in pieces gives one window per piece):
                // every page the op touched lies inside a window requested during the op
                let (lo, hi) = (fbase + off as u64, fbase + (off + n) as u64);
                if !(lo / 4096..=(hi - 1) / 4096).all(|p| log.iter().any(|r| r.map && r.index <= p * 4096 && (p + 1) * 4096 <= r.index + r.count as u64 * 4096)) {
                    rec.fail("C17", &format!("{}/xen-window-does-not-cover", op), &format!("{} region={} bytes=[{},{}) log={:?}", line, rid, off, off + n, log));
                }
            }
        }
        let before = self.xen_live.clone();
        for r in &log {
            if r.map {
                self.xen_live.push((r.index, r.count));
            } else if let Some(i) = self.xen_live.iter().position(|x| *x == (r.index, r.count)) {
                self.xen_live.remove(i);
            } else {
                rec.fail("C17", &format!("{}/xen-unmap-without-map", op), &format!("{} {:?}", line, r));
                // the same event read as ownership (C12): what is given back is not what was taken (wrong length)
                rec.fail("C12", &format!("{}/xen-unmap-without-map", op), &format!("{} {:?}", line, r));
            }
        }
        if !creating && self.xen_live != before {
            rec.fail("C17", &format!("{}/xen-window-not-released", op), &format!("{} live={:?}", line, self.xen_live));
            rec.fail("C12", &format!("{}/xen-window-not-released", op), &format!("{} live={:?}", line, self.xen_live));
            self.xen_live = before;
        }
        *rec.notes.entry("xen_ioctls".into()).or_default() += log.len();
    }
    #[cfg(not(feature = "xen"))]
    fn xen_post(&mut self, _rec: &mut Rec, _op: &str, _line: &str) {
        self.touched.clear();
    }

    /// after every op: every region's bytes equal the oracle's flat array (frame), dirty bits sound and precise
    fn post(&mut self, rec: &mut Rec, op: &str, line: &str) {
        self.xen_post(rec, op, line);
        // every mapping — a region's, or the temporary window of an on-demand access — is released once (src/interpose.rs)
        let (dbl, at) = crate::interpose::take_double_unmaps();
        if dbl > 0 {
            rec.fail("C12", &format!("{}/mapping-unmapped-twice", op), &format!("{} range at {:#x} released {} more time(s)", line, at, dbl));
            rec.fail("C17", &format!("{}/window-unmapped-twice", op), &format!("{} range at {:#x} released {} more time(s)", line, at, dbl));
        }
        let rids: Vec<u64> = self.regs.keys().copied().collect();
        for rid in rids {
            let r = self.regs[&rid].clone();
            let now = self.region_bytes(&r);
            if now != self.mirror[&rid] {
                let i = now.iter().zip(self.mirror[&rid].iter()).position(|(a, b)| a != b).unwrap_or(0);
                rec.fail("C03", &format!("{}/bytes", op), &format!("{} region={} first-diff-off={}", line, rid, i));
                self.mirror.insert(rid, now);
            }
            let got = region_dirty(&r);
            let exp = &self.exp_dirty[&rid];
            if !exp.is_subset(&got) {
                rec.fail("C05", &format!("{}/unmarked", op), &format!("{} region={} missing={:?}", line, rid, exp.difference(&got).take(4).collect::<Vec<_>>()));
            }
            if !got.is_subset(exp) {
                rec.fail("C16", &format!("{}/overmarked", op), &format!("{} region={} extra={:?}", line, rid, got.difference(exp).take(4).collect::<Vec<_>>()));
            }
            self.exp_dirty.insert(rid, got);
        }
    }

    /// C10: every live map still lists exactly the regions the oracle recorded for it
    fn check_layouts(&self, rec: &mut Rec, op: &str, line: &str) {
        for (mi, m) in &self.mems {
            let mut got: Vec<(u64, u64)> = with_mem!(m, M => M.iter().map(|r| (r.start_addr().raw_value(), self.rid_of(r))).collect());
            if matches!(m, AnyMem::Linear(_)) {
                got.sort();
            }
            let got: Vec<u64> = got.into_iter().map(|x| x.1).collect();
            if Some(&got) != self.layouts.get(mi) {
                rec.fail("C10", &format!("{}/map-changed", op), &format!("{} map={} got={:?} want={:?}", line, mi, got, self.layouts.get(mi)));
            }
            let mut starts: Vec<(u64, u64)> = with_mem!(m, M => M.iter().map(|r| (r.start_addr().raw_value(), r.len())).collect());
            if matches!(m, AnyMem::Linear(_)) {
                starts.sort();
            }
            for w in starts.windows(2) {
                if w[0].0 as u128 + w[0].1 as u128 > w[1].0 as u128 {
                    rec.fail("C10", &format!("{}/unsorted-or-overlapping", op), &format!("{} map={}", line, mi));
                }
            }
        }
    }

    pub fn exec(&mut self, rec: &mut Rec, line: &str) -> String {
        let kv = Kv::parse(line);
        if kv.op.starts_with("rd.") || kv.op.starts_with("wr.") {
            return self.streams.exec(&kv);
        }
        let op = kv.op.to_string();
        // Xen build: an access that names no bytes must not ask the grant device for anything (C18: "successful
        // no-op ... none of these panics"): the device is told to refuse its next request; a zero-length access
        // must neither consume that refusal nor fall over it.
        let zero_syn = zero_len_op(&kv);
        #[cfg(feature = "xen")]
        if zero_syn {
            let _ = vm_memory::verif_hooks::xen_log_take();
            vm_memory::verif_hooks::xen_fail_next();
        }
        let r = guarded(|| self.exec_inner(rec, &kv, line));
        #[cfg(feature = "xen")]
        if zero_syn {
            if !vm_memory::verif_hooks::xen_fail_pending() {
                rec.fail("C18", &format!("{}/xen-zero-length-access-asked-the-device", op), line);
            }
            vm_memory::verif_hooks::xen_fail_clear();
        }
        let out = match r {
            Some(o) => o,
            None => {
                let zero = zero_syn && (kv.op.ends_with("vf") || kv.op.ends_with("vt"));
                if zero {
                    // a count of 0 is a guest-chosen number like any other: both properties are broken
                    rec.fail("C18", &format!("{}/zero-count/panic", op), line);
                    rec.fail("C07", &format!("{}/zero-count/panic", op), line);
                } else {
                    rec.fail("C07", &format!("{}/panic", op), line);
                }
                "panic".into()
            }
        };
        self.post(rec, &op, line);
        if matches!(kv.op, "g.insert" | "g.remove" | "g.build") {
            self.check_layouts(rec, &op, line);
        }
        out
    }

    fn exec_inner(&mut self, rec: &mut Rec, kv: &Kv, line: &str) -> String {
        let mi = kv.n("m");
        match kv.op {
            "g.begin" => {
                if mi == 0 {
                    self.reset();
                }
                self.pending.insert(mi, vec![]);
                return "ok".into();
            }
            "g.region" => {
                // C10: a region whose end would exceed the address space is refused at creation
                let fits = (kv.n("start") as u128 + kv.n("len") as u128) < (1u128 << 64);
                return match self.make_region(kv) {
                    Ok(r) => {
                        if !fits {
                            rec.fail("C10", "g.region/accepted-past-address-space", line);
                        }
                        self.pending.get_mut(&mi).unwrap().push(r);
                        "ok".into()
                    }
                    Err(e) => {
                        if fits && e == "err invalidregion" {
                            rec.fail("C10", "g.region/refused-fitting-region", line);
                        }
                        e
                    }
                };
            }
            "g.build" => {
                let regs = self.pending.remove(&mi).unwrap_or_default();
                let rids: Vec<u64> = regs.iter().map(|r| self.rid_of(r)).collect();
                // C10 oracle: ok iff non-empty, sorted by start, pairwise disjoint
                let inf: Vec<RInfo> = rids.iter().map(|r| self.info[r].clone()).collect();
                let want = if inf.is_empty() { "err nomem" } else {
                    let mut w = "ok";
                    for p in inf.windows(2) {
                        if p[0].start > p[1].start { w = "err unsorted"; break; }
                        if p[0].start as u128 + p[0].len as u128 > p[1].start as u128 { w = "err overlap"; break; }
                    }
                    w
                };
                let res = GuestMemoryMmap::from_arc_regions(regs.clone());
                let out = match res {
                    Ok(g) => {
                        let m = if kv.s("kind") == "linear" {
                            // "plug order": the hand-rolled implementation does not keep its regions sorted (nothing in
                            // the trait asks for it): the lowest region is iterated last
                            let mut regs = regs;
                            if regs.len() > 1 { regs.rotate_left(1); }
                            AnyMem::Linear(LinearMem { regions: regs })
                        } else { AnyMem::Mmap(g) };
                        let o = format!("ok {}", self.fmt_layout(&m));
                        self.mems.insert(mi, m);
                        self.layouts.insert(mi, rids);
                        o
                    }
                    Err(e) => map_err(&e),
                };
                if !out.starts_with(want) {
                    rec.fail("C10", "g.build/result", &format!("{} got={} want={}", line, out, want));
                }
                return out;
            }
            _ => {}
        }
        if !self.mems.contains_key(&mi) {
            return "bad-id".into();
        }
        let lay = self.lay(mi);
        let a = kv.n("a");
        let ga = GuestAddress(a);
        match kv.op {
            "g.insert" => {
                let AnyMem::Mmap(g) = &self.mems[&mi] else { return "bad-kind".into() };
                let g = g.clone();
                let r = match self.make_region(kv) {
                    Ok(r) => r,
                    Err(e) => return e,
                };
                let ni = self.info[&kv.n("rid")].clone();
                let overlaps = lay.iter().any(|x| (x.start as u128) < ni.start as u128 + ni.len as u128 && (ni.start as u128) < x.start as u128 + x.len as u128);
                let res = g.insert_region(r);
                if res.is_ok() == overlaps {
                    rec.fail("C10", "g.insert/result", line);
                }
                match res {
                    Ok(n) => {
                        let mut rids = self.layouts[&mi].clone();
                        rids.push(ni.rid);
                        rids.sort_by_key(|r| self.info[r].start);
                        let m = AnyMem::Mmap(n);
                        let o = format!("ok {}", self.fmt_layout(&m));
                        self.mems.insert(kv.n("d"), m);
                        self.layouts.insert(kv.n("d"), rids);
                        o
                    }
                    Err(e) => map_err(&e),
                }
            }
            "g.remove" => {
                let AnyMem::Mmap(g) = &self.mems[&mi] else { return "bad-kind".into() };
                let (base, size) = (kv.n("base"), kv.n("size"));
                let hit = lay.iter().find(|x| x.start == base && x.len as u64 == size).cloned();
                let res = g.remove_region(GuestAddress(base), size);
                if res.is_ok() != hit.is_some() {
                    rec.fail("C10", "g.remove/result", line);
                }
                match res {
                    Ok((n, r)) => {
                        let rid = self.rid_of(&r);
                        if Some(rid) != hit.as_ref().map(|h| h.rid) {
                            rec.fail("C10", "g.remove/wrong-region", line);
                        }
                        let rids: Vec<u64> = self.layouts[&mi].iter().copied().filter(|x| *x != rid).collect();
                        let m = AnyMem::Mmap(n);
                        let o = format!("ok rid={} {}", rid, self.fmt_layout(&m));
                        self.mems.insert(kv.n("d"), m);
                        self.layouts.insert(kv.n("d"), rids);
                        o
                    }
                    Err(e) => map_err(&e),
                }
            }
            "g.drop" => {
                self.mems.remove(&mi);
                self.layouts.remove(&mi);
                "ok".into()
            }
            "g.layout" => format!("ok {}", self.fmt_layout(&self.mems[&mi])),
            "g.state" => format!("ok {}", self.fmt_state(&self.mems[&mi])),
            "g.num" => {
                let n = with_mem!(&self.mems[&mi], M => M.num_regions());
                if n != lay.len() {
                    rec.fail("C02", "g.num", line);
                }
                format!("ok {}", n)
            }
            "g.last" => {
                let v = with_mem!(&self.mems[&mi], M => M.last_addr().raw_value());
                let want = lay.iter().map(|r| r.start + (r.len as u64 - 1)).max().unwrap_or(0);
                if v != want {
                    rec.fail("C02", "g.last", &format!("{} got={} want={}", line, v, want));
                }
                format!("ok {}", v)
            }
            "g.find" => {
                let f = with_mem!(&self.mems[&mi], M => M.find_region(ga).map(|r| r.start_addr().raw_value()));
                let want = Self::locate(&lay, a).map(|(r, _)| r.start);
                if f != want {
                    rec.fail("C02", "g.find", &format!("{} got={:?} want={:?}", line, f, want));
                }
                match f { Some(s) => format!("ok some {}", s), None => "ok none".into() }
            }
            "g.tra" => {
                let f = with_mem!(&self.mems[&mi], M => M.to_region_addr(ga).map(|(r, o)| (r.start_addr().raw_value(), o.raw_value())));
                let want = Self::locate(&lay, a).map(|(r, o)| (r.start, o as u64));
                if f != want {
                    rec.fail("C02", "g.tra", &format!("{} got={:?} want={:?}", line, f, want));
                }
                match f { Some((s, o)) => format!("ok some {} {}", s, o), None => "ok none".into() }
            }
            "g.air" => {
                let v = with_mem!(&self.mems[&mi], M => M.address_in_range(ga));
                if v != Self::locate(&lay, a).is_some() {
                    rec.fail("C02", "g.air", line);
                }
                format!("ok {}", v)
            }
            "g.ca" => {
                let v = with_mem!(&self.mems[&mi], M => M.check_address(ga).map(|x| x.raw_value()));
                if v != Self::locate(&lay, a).map(|_| a) {
                    rec.fail("C02", "g.ca", line);
                }
                match v { Some(x) => format!("ok some {}", x), None => "ok none".into() }
            }
            "g.cr" => {
                let len = kv.us("len");
                let v = with_mem!(&self.mems[&mi], M => M.check_range(ga, len));
                // every byte of the range mapped without interruption (an empty range has no unmapped byte)
                let want = Self::run_len(&lay, a, len) == len;
                if v != want {
                    if len == 0 {
                        rec.fail("C02", "g.cr/len=0/unmapped-base", line);
                    } else {
                        rec.fail("C02", "g.cr", &format!("{} got={} want={}", line, v, want));
                    }
                }
                format!("ok {}", v)
            }
            "g.co" => {
                let off = kv.us("off");
                let v = with_mem!(&self.mems[&mi], M => M.checked_offset(ga, off).map(|x| x.raw_value()));
                let want = a.checked_add(off as u64).filter(|x| Self::locate(&lay, *x).is_some());
                if v != want {
                    rec.fail("C02", "g.co", line);
                }
                match v { Some(x) => format!("ok some {}", x), None => "ok none".into() }
            }
            "g.host" => {
                let v = with_mem!(&self.mems[&mi], M => M.get_host_address(ga));
                let want = Self::locate(&lay, a);
                match v {
                    Ok(p) => {
                        let Some((r, off)) = want else { rec.fail("C02", "g.host/unmapped-ok", line); return "ok ?".into() };
                        let base = self.regs[&r.rid].as_ptr() as usize;
                        if p as usize != base + off {
                            rec.fail("C02", "g.host/pointer", line);
                        }
                        format!("ok {} {}", r.start, p as usize - base)
                    }
                    Err(e) => {
                        if want.is_some() {
                            rec.fail("C02", "g.host/mapped-err", line);
                        }
                        gerr(&e)
                    }
                }
            }
            "g.slice" => {
                let cnt = kv.us("cnt");
                let v = with_mem!(&self.mems[&mi], M => M.get_slice(ga, cnt).map(|s| (s.ptr_guard().as_ptr() as usize, s.len())));
                let want = Self::locate(&lay, a).filter(|(r, off)| cnt <= r.len - off);
                match v {
                    Ok((p, l)) => {
                        let Some((r, off)) = want else { rec.fail("C02", "g.slice/granted-misfit", line); return "ok ?".into() };
                        let base = self.regs[&r.rid].as_ptr() as usize;
                        if self.is_ondemand(r.rid) {
                            // the guard points into a temporary window: only the in-page offset is comparable
                            if (l > 0 && p % 4096 != (r.start as usize + off) % 4096) || l != cnt {
                                rec.fail("C01", "g.slice/extent", line);
                            }
                            return format!("ok {} {} {}", r.start, off, l);
                        }
                        if p != base + off || l != cnt {
                            rec.fail("C01", "g.slice/extent", line);
                        }
                        format!("ok {} {} {}", r.start, p - base, l)
                    }
                    Err(e) => {
                        if want.is_some() {
                            rec.fail("C02", "g.slice/refused-fit", line);
                        }
                        gerr(&e)
                    }
                }
            }
            "g.write" | "g.wslice" | "g.wobj" => {
                let data = kv.bytes("data");
                let mapped = Self::locate(&lay, a).is_some();
                let n = Self::run_len(&lay, a, data.len());
                let res: Result<usize, GuestMemoryError> = with_mem!(&self.mems[&mi], M => match kv.op {
                    "g.write" => M.write(&data, ga),
                    "g.wslice" => M.write_slice(&data, ga).map(|_| data.len()),
                    _ => { let t = kv.s("t"); with_ty!(t, T => M.write_obj::<T>(from_bytes::<T>(&data), ga)).map(|_| data.len()) }
                });
                self.expect_write(&lay, a, &data[..n]);
                self.judge_access(rec, kv.op, line, data.len(), mapped, n, res.as_ref().map(|x| *x).map_err(gerr), kv.op == "g.write");
                match res {
                    Ok(k) => if kv.op == "g.write" { format!("ok n={} {}", k, self.fmt_state(&self.mems[&mi])) } else { format!("ok {}", self.fmt_state(&self.mems[&mi])) },
                    Err(e) => format!("{} {}", gerr(&e), self.fmt_state(&self.mems[&mi])),
                }
            }
            "g.read" | "g.rslice" | "g.robj" => {
                let t = kv.s("t");
                let len = if kv.op == "g.robj" { ty_of(t).0 } else { kv.us("len") };
                let mapped = Self::locate(&lay, a).is_some();
                let n = Self::run_len(&lay, a, len);
                let mut buf = vec![0u8; len];
                let res: Result<usize, GuestMemoryError> = with_mem!(&self.mems[&mi], M => match kv.op {
                    "g.read" => M.read(&mut buf, ga),
                    "g.rslice" => M.read_slice(&mut buf, ga).map(|_| len),
                    _ => with_ty!(t, T => M.read_obj::<T>(ga).map(|v| { buf.copy_from_slice(ByteValued::as_slice(&v)); len })),
                });
                self.judge_access(rec, kv.op, line, len, mapped, n, res.as_ref().map(|x| *x).map_err(gerr), kv.op == "g.read");
                match res {
                    Ok(k) => {
                        if buf[..k.min(len)] != self.flat(&lay, a, k.min(len))[..] {
                            rec.fail("C03", &format!("{}/data", kv.op), line);
                        }
                        if kv.op == "g.read" { format!("ok n={} data={}", k, hex(&buf[..k])) } else { format!("ok data={}", hex(&buf[..k])) }
                    }
                    Err(e) => gerr(&e),
                }
            }
            "g.store" | "g.load" => {
                let t = kv.s("t");
                let ts = ty_of(t).0;
                let loc = Self::locate(&lay, a);
                let fits = loc.as_ref().map(|(r, off)| off + ts <= r.len && (self.regs[&r.rid].as_ptr() as usize + off) % ts == 0).unwrap_or(false);
                if kv.op == "g.store" {
                    let data = kv.bytes("data");
                    let res = with_mem!(&self.mems[&mi], M => with_atomic!(t, T => M.store::<T>(from_bytes::<T>(&data), ga, Ordering::SeqCst)));
                    if res.is_ok() != fits {
                        rec.fail("C03", "g.store/result", line);
                    }
                    if fits {
                        self.expect_write(&lay, a, &data[..ts]);
                    }
                    match res {
                        Ok(()) => format!("ok {}", self.fmt_state(&self.mems[&mi])),
                        Err(e) => format!("{} {}", gerr(&e), self.fmt_state(&self.mems[&mi])),
                    }
                } else {
                    let res = with_mem!(&self.mems[&mi], M => with_atomic!(t, T => M.load::<T>(ga, Ordering::SeqCst).map(|v| ByteValued::as_slice(&v).to_vec())));
                    if res.is_ok() != fits {
                        rec.fail("C03", "g.load/result", line);
                    }
                    match res {
                        Ok(v) => {
                            if v != self.flat(&lay, a, ts) {
                                rec.fail("C03", "g.load/data", line);
                            }
                            format!("ok data={}", hex(&v))
                        }
                        Err(e) => gerr(&e),
                    }
                }
            }
            "g.ta" => {
                // try_access with a scripted callback (every branch of the loop: Ok(0), short, too much, error)
                let count = kv.us("count");
                let mut script: std::collections::VecDeque<String> = kv.s("script").split(',').filter(|x| !x.is_empty()).map(|x| x.to_string()).collect();
                let mut seen: Vec<String> = vec![];
                let starts: Vec<u64> = lay.iter().map(|r| r.start).collect();
                let res = with_mem!(&self.mems[&mi], M => M.try_access(count, ga, |total, len, start, region| {
                    let idx = starts.iter().position(|s| *s == region.start_addr().raw_value()).unwrap_or(usize::MAX);
                    seen.push(format!("{}:{}:{}:{}", total, len, start.raw_value(), idx));
                    match script.pop_front().as_deref() {
                        None | Some("f") => Ok(len),
                        Some("e") => Err(GuestMemoryError::HostAddressNotAvailable),
                        Some(x) => Ok(x[1..].parse().unwrap_or(0)),
                    }
                }));
                // oracle: the callback is only ever offered bytes inside the region that owns the current address
                for c in &seen {
                    let f: Vec<u64> = c.split(':').map(|x| x.parse().unwrap_or(u64::MAX)).collect();
                    if let Some(r) = lay.get(f[3] as usize) {
                        if f[2] >= r.len as u64 || f[1] > r.len as u64 - f[2] || f[1] > (count as u64).saturating_sub(f[0]) {
                            rec.fail("C03", "g.ta/callback-offered-range-outside-region", line);
                        }
                    }
                }
                match res {
                    Ok(n) => format!("ok n={} calls={}", n, seen.join(",")),
                    Err(e) => format!("{} calls={}", gerr(&e), seen.join(",")),
                }
            }
            "g.rvf" | "g.revf" => {
                let id = kv.n("rd");
                let count = kv.us("count");
                if !self.streams.rds.contains_key(&id) {
                    return "bad-id".into();
                }
                let exact = kv.op == "g.revf";
                let m = self.mems.remove(&mi).unwrap();
                let RdRes { res, consumed, left, failed_fd, pos: _ } = self.streams.read_into(id, |src| {
                    with_mem!(&m, M => if exact { M.read_exact_volatile_from(ga, src, count).map(|_| count) } else { M.read_volatile_from(ga, src, count) }).map_err(|e| gerr(&e))
                });
                let run = Self::run_len(&lay, a, count);
                let k = consumed.len();
                if k > run {
                    rec.fail("C14", &format!("{}/consumed-beyond-run", kv.op), line);
                } else {
                    self.expect_write(&lay, a, &consumed);
                    // C14: every byte consumed from the reader is stored at the next guest address in order
                    let mut now = Vec::new();
                    let mut cur = a;
                    while now.len() < k {
                        let Some((r, off)) = Self::locate(&lay, cur) else { break };
                        let take = (r.len - off).min(k - now.len());
                        now.extend_from_slice(&self.region_bytes(&self.regs[&r.rid])[off..off + take]);
                        cur = cur.wrapping_add(take as u64);
                    }
                    if now != consumed {
                        rec.fail("C14", &format!("{}/consumed-bytes-not-stored-in-order", kv.op), &format!("{} consumed={}", line, k));
                    }
                }
                if failed_fd {
                    // the failing descriptor read marks the whole slice it was given: the rest of the current region window
                    let cur = a.wrapping_add(k as u64);
                    if let Some((r, off)) = Self::locate(&lay, cur) {
                        let w = (r.len - off).min(count - k);
                        self.expect_mark(r.rid, off, w);
                    }
                }
                self.judge_stream(rec, kv.op, line, count, Self::locate(&lay, a).is_some(), run, k, &res, exact);
                let st = self.fmt_state(&m);
                self.mems.insert(mi, m);
                match res {
                    Ok(n) => if exact { format!("ok {} left={}", st, left) } else { format!("ok n={} {} left={}", n, st, left) },
                    Err(e) => format!("{} {} left={}", e, st, left),
                }
            }
            "g.wvt" | "g.wavt" => {
                let id = kv.n("wr");
                let count = kv.us("count");
                if !self.streams.wrs.contains_key(&id) {
                    return "bad-id".into();
                }
                let exact = kv.op == "g.wavt";
                let m = self.mems.remove(&mi).unwrap();
                let (res, delivered) = self.streams.write_from(id, |dst| {
                    with_mem!(&m, M => if exact { M.write_all_volatile_to(ga, dst, count).map(|_| count) } else { M.write_volatile_to(ga, dst, count) }).map_err(|e| gerr(&e))
                });
                let run = Self::run_len(&lay, a, count);
                let k = delivered.len();
                if k > run || delivered != self.flat(&lay, a, k) {
                    rec.fail("C14", &format!("{}/delivered-not-next-bytes", kv.op), line);
                }
                self.judge_stream(rec, kv.op, line, count, Self::locate(&lay, a).is_some(), run, k, &res, exact);
                self.mems.insert(mi, m);
                let (sink, pos) = self.streams.sink_state(id);
                match res {
                    Ok(n) => if exact { format!("ok sink={} pos={}", hex(&sink), pos) } else { format!("ok n={} sink={} pos={}", n, hex(&sink), pos) },
                    Err(e) => format!("{} sink={} pos={}", e, hex(&sink), pos),
                }
            }
            _ => self.region_op(rec, kv, line, mi),
        }
    }

    /// C03 / C18 verdict for buffer and object accesses at guest level
    #[allow(clippy::too_many_arguments)]
    fn judge_access(&mut self, rec: &mut Rec, op: &str, line: &str, len: usize, mapped: bool, run: usize, res: Result<usize, String>, upto: bool) {
        if len == 0 {
            // C18: an access that names no bytes succeeds at any address
            if res.is_err() {
                rec.fail("C18", &format!("{}/gm/empty-{}", op, if mapped { "mapped" } else { "unmapped-address" }), &format!("{} -> {:?}", line, res));
            }
            return;
        }
        match res {
            Ok(k) => {
                if !mapped || (upto && k != run) || (!upto && run != len) {
                    rec.fail("C03", &format!("{}/count", op), &format!("{} got={} run={}", line, k, run));
                }
            }
            Err(e) => {
                if upto && mapped {
                    rec.fail("C03", &format!("{}/mapped-err", op), &format!("{} -> {}", line, e));
                }
                if !mapped && !e.starts_with("err invalidaddr") {
                    rec.fail("C03", &format!("{}/unmapped-wrong-error", op), &format!("{} -> {}", line, e));
                }
                if !upto && mapped && run == len {
                    rec.fail("C03", &format!("{}/whole-run-err", op), &format!("{} -> {}", line, e));
                }
                if !upto && mapped && run < len && e != format!("err partial exp={} done={}", len, run) {
                    rec.fail("C03", &format!("{}/partial-fields", op), &format!("{} -> {} want done={}", line, e, run));
                }
            }
        }
    }

    #[allow(clippy::too_many_arguments)]
    fn judge_stream(&mut self, rec: &mut Rec, op: &str, line: &str, count: usize, mapped: bool, _run: usize, moved: usize, res: &Result<usize, String>, exact: bool) {
        if count == 0 {
            // a hard error of the stream itself is reported as such (C14); anything else is the library refusing a no-op
            if matches!(res, Err(e) if !e.starts_with("err io")) && mapped {
                rec.fail("C18", &format!("{}/gm/zero-count", op), &format!("{} -> {:?}", line, res));
            }
            return;
        }
        match res {
            Ok(n) => {
                if !exact && *n != moved {
                    rec.fail("C14", &format!("{}/count", op), &format!("{} returned={} moved={}", line, n, moved));
                }
                if exact && moved != count {
                    rec.fail("C14", &format!("{}/ok-but-short", op), line);
                }
            }
            Err(e) => {
                if e.contains("io k=3") {
                    rec.fail("C14", &format!("{}/eintr-reported", op), line);
                }
                if exact && moved == count {
                    rec.fail("C14", &format!("{}/full-but-err", op), &format!("{} -> {}", line, e));
                }
            }
        }
    }

    /// `Bytes<MemoryRegionAddress>` and the region defaults, on region `i` of map `m`
    fn region_op(&mut self, rec: &mut Rec, kv: &Kv, line: &str, mi: u64) -> String {
        let i = kv.us("i");
        let Some(rid) = self.layouts[&mi].get(i).copied() else { return "bad-id".into() };
        let reg = self.regs[&rid].clone();
        let inf = self.info[&rid].clone();
        let a = kv.n("a");
        let ra = MemoryRegionAddress(a);
        let one = vec![inf.clone()];
        let ga = inf.start.wrapping_add(a); // the same access expressed as a guest address (when in range)
        let inr = a < inf.len as u64;
        match kv.op {
            "gr.write" | "gr.wslice" | "gr.wobj" => {
                let data = kv.bytes("data");
                let n = if inr { data.len().min(inf.len - a as usize) } else { 0 };
                let res: Result<usize, GuestMemoryError> = match kv.op {
                    "gr.write" => reg.write(&data, ra),
                    "gr.wslice" => reg.write_slice(&data, ra).map(|_| data.len()),
                    _ => { let t = kv.s("t"); with_ty!(t, T => reg.write_obj::<T>(from_bytes::<T>(&data), ra)).map(|_| data.len()) }
                };
                if n > 0 {
                    self.expect_write(&one, ga, &data[..n]);
                }
                if data.is_empty() && res.is_err() {
                    rec.fail("C18", &format!("{}/region/empty", kv.op), &format!("{} -> {}", line, gerr(res.as_ref().unwrap_err())));
                }
                if !data.is_empty() {
                    let want_ok = inr && (kv.op == "gr.write" || n == data.len());
                    if res.is_ok() != want_ok || (kv.op == "gr.write" && res.as_ref().ok() != Some(&n) && want_ok) {
                        rec.fail("C04", &format!("{}/result", kv.op), line);
                    }
                }
                let st = self.fmt_state(&self.mems[&mi]);
                match res {
                    Ok(k) => if kv.op == "gr.write" { format!("ok n={} {}", k, st) } else { format!("ok {}", st) },
                    Err(e) => format!("{} {}", gerr(&e), st),
                }
            }
            "gr.read" | "gr.rslice" => {
                let len = kv.us("len");
                let n = if inr { len.min(inf.len - a as usize) } else { 0 };
                let mut buf = vec![0u8; len];
                let res = if kv.op == "gr.read" { reg.read(&mut buf, ra) } else { reg.read_slice(&mut buf, ra).map(|_| len) };
                if len == 0 && res.is_err() {
                    rec.fail("C18", &format!("{}/region/empty", kv.op), line);
                }
                match res {
                    Ok(k) => {
                        if len > 0 && (k != n || buf[..k] != self.mirror[&rid][a as usize..a as usize + k]) {
                            rec.fail("C04", &format!("{}/data", kv.op), line);
                        }
                        if kv.op == "gr.read" { format!("ok n={} data={}", k, hex(&buf[..k])) } else { format!("ok data={}", hex(&buf[..k])) }
                    }
                    Err(e) => gerr(&e),
                }
            }
            "gr.store" | "gr.load" => {
                let t = kv.s("t");
                let ts = ty_of(t).0;
                let fits = a as u128 + ts as u128 <= inf.len as u128 && (reg.as_ptr() as usize + a as usize) % ts == 0;
                if kv.op == "gr.store" {
                    let data = kv.bytes("data");
                    let res = with_atomic!(t, T => reg.store::<T>(from_bytes::<T>(&data), ra, Ordering::SeqCst));
                    if res.is_ok() != fits {
                        rec.fail("C04", "gr.store/result", line);
                    }
                    if fits {
                        self.expect_write(&one, ga, &data[..ts]);
                    }
                    let st = self.fmt_state(&self.mems[&mi]);
                    match res { Ok(()) => format!("ok {}", st), Err(e) => format!("{} {}", gerr(&e), st) }
                } else {
                    let res = with_atomic!(t, T => reg.load::<T>(ra, Ordering::SeqCst).map(|v| ByteValued::as_slice(&v).to_vec()));
                    if res.is_ok() != fits {
                        rec.fail("C04", "gr.load/result", line);
                    }
                    match res { Ok(v) => format!("ok data={}", hex(&v)), Err(e) => gerr(&e) }
                }
            }
            "gr.last" => format!("ok {}", reg.last_addr().raw_value()),
            "gr.co" => match reg.checked_offset(ra, kv.us("off")) { Some(v) => format!("ok some {}", v.raw_value()), None => "ok none".into() },
            "gr.tra" => match reg.to_region_addr(GuestAddress(a)) { Some(v) => format!("ok some {}", v.raw_value()), None => "ok none".into() },
            "gr.host" => match reg.get_host_address(ra) {
                Ok(p) => {
                    if !inr || p as usize != reg.as_ptr() as usize + a as usize {
                        rec.fail("C02", "gr.host", line);
                    }
                    format!("ok {}", p as usize - reg.as_ptr() as usize)
                }
                Err(e) => gerr(&e),
            },
            "gr.slice" => {
                let cnt = kv.us("cnt");
                let fits = a as u128 + cnt as u128 <= inf.len as u128;
                match reg.get_slice(ra, cnt) {
                    Ok(s) => {
                        let p = s.ptr_guard().as_ptr() as usize;
                        // C17: a guard reports the bytes its accessor covers — for the slice and for accessors derived from
                        // it at offsets that are not page aligned (on-demand Xen regions map a window per guard)
                        {
                            use vm_memory::VolatileMemory as _;
                            let mut lens: Vec<(&str, usize, usize)> = vec![("slice", s.ptr_guard().len(), cnt), ("slice-mut", s.ptr_guard_mut().len(), cnt)];
                            if cnt >= 6 {
                                if let Ok(x) = s.subslice(1, cnt - 1) { lens.push(("subslice", x.ptr_guard().len(), cnt - 1)); }
                                if let Ok(x) = s.get_ref::<u32>(1) { lens.push(("ref", x.ptr_guard().len(), 4)); }
                                if let Ok(x) = s.get_array_ref::<u16>(1, 2) { lens.push(("array", x.ptr_guard_mut().len(), 4)); }
                            }
                            for (what, got, want) in lens {
                                if got != want {
                                    rec.fail("C17", &format!("gr.slice/guard-len/{}", what), &format!("{} guard reports {} bytes, accessor covers {}", line, got, want));
                                }
                            }
                        }
                        if self.is_ondemand(rid) {
                            if !fits || (cnt > 0 && p % 4096 != (inf.start as usize + a as usize) % 4096) || s.len() != cnt {
                                rec.fail("C01", "gr.slice/outside-parent", line);
                            }
                            return format!("ok {} {}", a, s.len());
                        }
                        if !fits || p != reg.as_ptr() as usize + a as usize || s.len() != cnt {
                            rec.fail("C01", "gr.slice/outside-parent", line);
                        }
                        format!("ok {} {}", p - reg.as_ptr() as usize, s.len())
                    }
                    Err(e) => {
                        if fits {
                            rec.fail("C01", "gr.slice/rejected-fit", line);
                        }
                        gerr(&e)
                    }
                }
            }
            "gr.rvf" | "gr.revf" => {
                let id = kv.n("rd");
                let count = kv.us("count");
                if !self.streams.rds.contains_key(&id) {
                    return "bad-id".into();
                }
                let exact = kv.op == "gr.revf";
                let RdRes { res, consumed, left, failed_fd, pos: _ } = self.streams.read_into(id, |src| {
                    if exact { reg.read_exact_volatile_from(ra, src, count).map(|_| count) } else { reg.read_volatile_from(ra, src, count) }.map_err(|e| gerr(&e))
                });
                let room = if a <= inf.len as u64 { inf.len - a as usize } else { 0 };
                let k = consumed.len();
                if k > room.min(count) {
                    rec.fail("C14", &format!("{}/consumed-beyond-window", kv.op), line);
                } else if k > 0 {
                    self.expect_write(&one, ga, &consumed);
                }
                if failed_fd {
                    self.expect_mark(rid, a as usize, room.min(count));
                }
                if count == 0 && matches!(&res, Err(e) if !e.starts_with("err io")) && a <= inf.len as u64 {
                    rec.fail("C18", &format!("{}/region/zero-count", kv.op), &format!("{} -> {:?}", line, res));
                }
                let st = self.fmt_state(&self.mems[&mi]);
                match res {
                    Ok(n) => if exact { format!("ok {}", st) } else { format!("ok n={} {} left={}", n, st, left) },
                    Err(e) => if exact { format!("{} {}", e, st) } else { format!("{} {} left={}", e, st, left) },
                }
            }
            "gr.wvt" | "gr.wavt" => {
                let id = kv.n("wr");
                let count = kv.us("count");
                if !self.streams.wrs.contains_key(&id) {
                    return "bad-id".into();
                }
                let exact = kv.op == "gr.wavt";
                let (res, delivered) = self.streams.write_from(id, |dst| {
                    if exact { reg.write_all_volatile_to(ra, dst, count).map(|_| count) } else { reg.write_volatile_to(ra, dst, count) }.map_err(|e| gerr(&e))
                });
                let k = delivered.len();
                if k > 0 && ((a as usize).saturating_add(k) > inf.len || delivered[..] != self.mirror[&rid][a as usize..a as usize + k]) {
                    rec.fail("C14", &format!("{}/delivered-not-next-bytes", kv.op), line);
                }
                if count == 0 && matches!(&res, Err(e) if !e.starts_with("err io")) && a <= inf.len as u64 {
                    rec.fail("C18", &format!("{}/region/zero-count", kv.op), &format!("{} -> {:?}", line, res));
                }
                let (sink, pos) = self.streams.sink_state(id);
                match res {
                    Ok(n) => if exact { format!("ok sink={} pos={}", hex(&sink), pos) } else { format!("ok n={} sink={} pos={}", n, hex(&sink), pos) },
                    Err(e) => format!("{} sink={} pos={}", e, hex(&sink), pos),
                }
            }
            _ => "bad-op".into(),
        }
    }
}

fn map_err(e: &vm_memory::mmap::Error) -> String {
    match e {
        vm_memory::mmap::Error::InvalidGuestRegion => "err invalidregion".into(),
        vm_memory::mmap::Error::NoMemoryRegion => "err nomem".into(),
        vm_memory::mmap::Error::MemoryRegionOverlap => "err overlap".into(),
        vm_memory::mmap::Error::UnsortedMemoryRegions => "err unsorted".into(),
        vm_memory::mmap::Error::MmapRegion(e) => format!("err mmap {:?}", e),
    }
}

// ------------------------------------------------------------------------------------------
// generators

struct Gen<'a> {
    w: GmWorld,
    rec: &'a mut Rec,
    next_rid: u64,
    xk: &'static str,
}
impl Gen<'_> {
    fn go(&mut self, line: String, nt: bool) -> String {
        let out = self.w.exec(self.rec, &line);
        self.rec.push(line, out.clone(), nt);
        out
    }
    /// emits a region-creating line; the host base address is known only after the mmap
    fn region_line(&mut self, prefix: &str, start: u64, len: usize, page: usize, file: bool, foff: u64) -> String {
        let rid = self.next_rid;
        self.next_rid += 1;
        let line = format!("{} start={} len={} page={} rid={} back={} foff={} xk={} base={{BASE}}", prefix, start, len, page, rid, if file { "file" } else { "anon" }, foff, self.xk);
        let out = self.w.exec(self.rec, &line);
        let base = self.w.regs.get(&rid).map(|r| r.as_ptr() as usize).unwrap_or(0);
        self.rec.push(line.replace("{BASE}", &base.to_string()), out.clone(), true);
        out
    }
}

/// layouts: (start, len) lists; includes touching regions, 1-byte holes, 1-byte regions, top of the address space
fn gen_layout(rng: &mut Rng, small: bool) -> Vec<(u64, usize)> {
    // mostly 1..4 regions; one layout in eight has many (9..40) small ones: whatever a lookup does differently for large
    // collections (a search instead of a scan, say) has to show there
    let n = if !small && rng.chance(1, 8) { 9 + rng.below(32) as usize } else { 1 + rng.below(4) as usize };
    let mut out = Vec::new();
    let mut cur: u64 = if small { rng.below(4) } else { *rng.pick(&[0u64, 0, 1, 4096, 0x1000_0000, (1 << 32) - 8, 1 << 40]) };
    for k in 0..n {
        let len = if small { 1 + rng.below(5) as usize } else { *rng.pick(&[1usize, 2, 7, 8, 9, 16, 63, 64, 100, 255, 4096, 4097, 5000]) };
        if !small && k + 1 == n && rng.chance(1, 3) {
            // a region ending at the very top: start + len == 2^64 - 1 (largest end the constructor accepts)
            let start = u64::MAX - len as u64;
            if out.last().map(|(s, l): &(u64, usize)| s + *l as u64 <= start).unwrap_or(true) {
                out.push((start, len));
                break;
            }
        }
        out.push((cur, len));
        let gap = match rng.below(4) { 0 => 0, 1 => 1, 2 => rng.below(6), _ => if small { rng.below(3) } else { rng.below(1 << 20) } };
        cur = cur + len as u64 + gap;
    }
    out
}

fn marks_of(lay: &[(u64, usize)]) -> Vec<u64> {
    let mut m = vec![];
    for (s, l) in lay {
        m.push(*s);
        m.push(s.wrapping_add(*l as u64));
        m.push(s.wrapping_add(*l as u64).wrapping_sub(1));
    }
    m
}

/// C14 "any other stream error ends the transfer and is reported" — for an error that is not an `IOError`: a stream whose
/// `read_volatile`/`write_volatile` fails with `PartialBuffer { expected: 77777, completed: 5 }` after some progress.  Every
/// stream entry point, at region and at guest-memory level, must report exactly that error and must not call the stream
/// again.  (Oracle-only probe: the model abstracts from the shape of a stream's error, `Beh.fail`.)
#[cfg(not(feature = "xen"))]
fn foreign_error_probe(rec: &mut Rec) {
    use vm_memory::bitmap::BitmapSlice;
    use vm_memory::{ReadVolatile, VolatileMemoryError, VolatileSlice, WriteVolatile};
    struct S { calls: usize, fail_at: usize, after_failure: usize }
    impl S {
        fn step(&mut self, len: usize) -> Result<usize, VolatileMemoryError> {
            self.calls += 1;
            if self.calls > self.fail_at + 1 { self.after_failure += 1; }
            if self.calls == self.fail_at + 1 {
                Err(VolatileMemoryError::PartialBuffer { expected: 77777, completed: 5 })
            } else {
                Ok(len.min(3))
            }
        }
    }
    impl ReadVolatile for S {
        fn read_volatile<B: BitmapSlice>(&mut self, buf: &mut VolatileSlice<B>) -> Result<usize, VolatileMemoryError> {
            let n = self.step(buf.len())?;
            buf.subslice(0, n)?.copy_from(&vec![0xabu8; n][..]);
            Ok(n)
        }
    }
    impl WriteVolatile for S {
        fn write_volatile<B: BitmapSlice>(&mut self, buf: &VolatileSlice<B>) -> Result<usize, VolatileMemoryError> {
            self.step(buf.len())
        }
    }
    let gm = GuestMemoryMmap::<()>::from_ranges(&[(GuestAddress(0x1000), 0x10), (GuestAddress(0x1010), 0x20)]).unwrap();
    let reg = gm.find_region(GuestAddress(0x1000)).unwrap();
    let is_it = |e: &GuestMemoryError| matches!(e, GuestMemoryError::PartialBuffer { expected: 77777, completed: 5 });
    for fail_at in 0..4usize {
        let mut check = |what: &str, r: Result<usize, GuestMemoryError>, s: &S| {
            let ok = matches!(&r, Err(e) if is_it(e)) && s.after_failure == 0;
            if !ok {
                rec.fail("C14", &format!("foreign-error/{}", what), &format!("stream failing at call {} with PartialBuffer{{77777,5}}: result {:?}, calls after the failure {}", fail_at + 1, r, s.after_failure));
            }
        };
        let mk = || S { calls: 0, fail_at, after_failure: 0 };
        let mut s = mk(); let r = reg.read_volatile_from(MemoryRegionAddress(1), &mut s, 0x1f).map(|n| n + 100000 * (fail_at == usize::MAX) as usize);
        // the up-to forms return after one stream call: they can only report the error when it is the first call
        if fail_at == 0 { check("region-read", r, &s); }
        let mut s = mk(); let r = reg.read_exact_volatile_from(MemoryRegionAddress(1), &mut s, 0xe).map(|_| 0); check("region-read-exact", r, &s);
        let mut s = mk(); let r = reg.write_volatile_to(MemoryRegionAddress(1), &mut s, 0xe); if fail_at == 0 { check("region-write", r, &s); }
        let mut s = mk(); let r = reg.write_all_volatile_to(MemoryRegionAddress(1), &mut s, 0xe).map(|_| 0); check("region-write-all", r, &s);
        let mut s = mk(); let r = gm.read_volatile_from(GuestAddress(0x1008), &mut s, 0x20); if fail_at <= 1 { check("guest-read", r, &s); }
        let mut s = mk(); let r = gm.read_exact_volatile_from(GuestAddress(0x1008), &mut s, 0x20).map(|_| 0); check("guest-read-exact", r, &s);
        let mut s = mk(); let r = gm.write_volatile_to(GuestAddress(0x1008), &mut s, 0x20); if fail_at <= 1 { check("guest-write", r, &s); }
        let mut s = mk(); let r = gm.write_all_volatile_to(GuestAddress(0x1008), &mut s, 0x20).map(|_| 0); check("guest-write-all", r, &s);
    }
    rec.note("foreign_error_probes");
}

pub fn run(rec: &mut Rec, rng: &mut Rng, n_ops: usize, mode: &str) {
    #[cfg(feature = "xen")]
    if mode == "xen" {
        xen_probes(rec);
    }
    #[cfg(not(feature = "xen"))]
    if mode == "mixed" {
        foreign_error_probe(rec);
        top::probe(rec, rng);
    }
    let mut g = Gen { w: GmWorld::new(), rec, next_rid: 0, xk: "unix" };
    let xen = mode == "xen";
    let mut done = 0usize;
    if mode == "exhaustive" {
        // small universe (C02): every query at every address 0..=25 x lengths 0..=26 over small layouts
        for _ in 0..n_ops.max(1) {
            g.rec.cases += 1;
            let lay = gen_layout(rng, true);
            let kind = if rng.chance(1, 2) { "mmap" } else { "linear" };
            g.go("g.begin m=0".into(), false);
            for (s, l) in &lay {
                let page = *rng.pick(&[1usize, 2, 3]);
                g.region_line("g.region m=0", *s, *l, page, false, 0);
            }
            g.go(format!("g.build m=0 kind={}", kind), true);
            g.go("g.last m=0".into(), true);
            g.go("g.num m=0".into(), true);
            for a in 0..=25u64 {
                for op in ["g.find", "g.tra", "g.air", "g.ca", "g.host"] {
                    g.go(format!("{} m=0 a={}", op, a), true);
                }
                for len in 0..=26u64 {
                    g.go(format!("g.cr m=0 a={} len={}", a, len), true);
                    g.go(format!("g.slice m=0 a={} cnt={}", a, len), true);
                    g.go(format!("g.co m=0 a={} off={}", a, len), true);
                }
            }
        }
        return;
    }
    while done < n_ops {
        g.rec.cases += 1;
        let lay = if xen {
            // page-granular layouts at small guest addresses (the guest address selects the grant references)
            let mut cur = 0x10000u64 * (1 + rng.below(4));
            (0..1 + rng.below(3)).map(|_| { let l = *rng.pick(&[4096usize, 8192, 12288, 4096 + 100, 5000]); let s = cur; cur += ((l as u64 + 4095) & !4095) + 4096 * rng.below(2); (s, l) }).collect()
        } else { gen_layout(rng, false) };
        let kind = if mode == "edit" || xen || rng.chance(2, 3) { "mmap" } else { "linear" };
        g.go("g.begin m=0".into(), false);
        let mut defs: Vec<(u64, usize, usize)> = vec![];
        let shuffle = mode == "edit" && rng.chance(1, 6);
        let mut order: Vec<usize> = (0..lay.len()).collect();
        if shuffle && order.len() > 1 {
            order.swap(0, 1);
        }
        for &k in &order {
            let (s, l) = lay[k];
            let page = if xen { 4096 } else { *rng.pick(&[1usize, 2, 3, 7, 64, 128, 4096, 8192]) };
            if xen {
                g.xk = *rng.pick(&["unix", "foreign", "grant", "ondemand", "ondemand"]);
            }
            g.region_line("g.region m=0", s, l, page, rng.chance(1, 4), *rng.pick(&[0u64, 4096]));
            defs.push((s, l, page));
        }
        if mode == "edit" && rng.chance(1, 10) {
            // a region whose end would exceed the address space must be refused at creation
            let len = 1 + rng.below(4096) as usize;
            g.region_line("g.region m=0", (u64::MAX - len as u64 + 1).saturating_add(rng.below(3)), len, 1, false, 0);
        }
        let out = g.go(format!("g.build m=0 kind={}", kind), true);
        if !out.starts_with("ok") {
            done += 1;
            continue;
        }
        if xen {
            // zero-length sweep (C18, C07): accesses that name no bytes at the window boundaries of every region
            // (region offset 0 and page-aligned offsets are the cases a page-granular mapping gets wrong)
            for (i, &(_, l)) in lay.iter().enumerate() {
                for off in [0u64, 4096, 1] {
                    if off >= l as u64 { continue; }
                    for _ in 0..2 {
                        let mut lines: Vec<String> = vec![];
                        let last = crate::streams::gen_stream_ops(g.rec, rng, &mut |_rec, l| lines.push(l), "gr", &format!("m=0 i={} a={}", i, off), 0);
                        for x in lines {
                            g.go(x, true);
                        }
                        g.go(last, true);
                        done += 1;
                    }
                    g.go(format!("gr.slice m=0 i={} a={} cnt=0", i, off), true);
                }
            }
        }
        let marks = marks_of(&lay);
        let mut live: Vec<u64> = vec![0];
        let mut next_m = 1u64;
        let steps = 12 + rng.below(30);
        for _ in 0..steps {
            done += 1;
            let mi = *rng.pick(&live);
            let a = if rng.chance(3, 4) {
                let (s, l) = *rng.pick(&lay);
                if rng.chance(1, 2) { s + rng.below(l as u64) } else { (s + l as u64).wrapping_sub(rng.below(12)) }
            } else {
                rng.boundary(&marks)
            };
            let len = match rng.below(8) { 0 => 0, 1 => rng.below(9), 2 => 8 + rng.below(3), 3 => rng.boundary(&[64, 4096]).min(9000), _ => rng.below(300) } as usize;
            let t = rng.pick(TYPES).clone();
            let r = rng.below(100);
            let nt = true;
            let line = if mode == "edit" && r < 45 {
                // insert / remove histories; earlier maps stay alive
                if rng.chance(3, 5) {
                    let d = next_m;
                    next_m += 1;
                    let (s, l) = match rng.below(5) {
                        0 => { let (s, l) = *rng.pick(&lay); (s + l as u64 - 1, 3usize) }      // overlaps by one byte
                        1 => { let (s, _) = *rng.pick(&lay); (s, 1usize) }                       // duplicate start
                        2 => { let (s, l) = *rng.pick(&lay); (s + l as u64, 1 + rng.below(4) as usize) } // adjacent
                        3 => { let (s, _) = *rng.pick(&lay); (s.saturating_sub(1 + rng.below(3)), 1usize) }
                        _ => (rng.boundary(&marks), 1 + rng.below(64) as usize),
                    };
                    let shared_fd = rng.chance(1, 3);   // file ranges of such regions overlap one another (see make_region)
                    let out = g.region_line(&format!("g.insert d={} m={}", d, mi), s, l, *rng.pick(&[1usize, 64, 4096]), shared_fd, 4096);
                    if out.starts_with("ok") {
                        live.push(d);
                    }
                    continue;
                } else {
                    let d = next_m;
                    next_m += 1;
                    let (s, l) = *rng.pick(&lay);
                    let (base, size) = match rng.below(4) { 0 => (s, l as u64 + 1), 1 => (s + 1, l as u64), _ => (s, l as u64) };
                    let out = g.go(format!("g.remove d={} m={} base={} size={}", d, mi, base, size), true);
                    if out.starts_with("ok") {
                        live.push(d);
                    }
                    continue;
                }
            } else if r < 12 {
                // (host addresses of on-demand Xen regions are not meaningful: not queried in xen mode)
                let q = *rng.pick(&["g.find", "g.tra", "g.air", "g.ca", if xen { "g.find" } else { "g.host" }, "g.last", "g.num", "g.layout"]);
                format!("{} m={} a={}", q, mi, a)
            } else if r < 20 {
                let l = if rng.chance(1, 3) { rng.boundary(&marks) } else { len as u64 };
                match rng.below(3) {
                    0 => format!("g.cr m={} a={} len={}", mi, a, l),
                    1 => format!("g.slice m={} a={} cnt={}", mi, a, l),
                    _ => format!("g.co m={} a={} off={}", mi, a, l),
                }
            } else if r < 48 {
                let data = rng.bytes(len);
                match rng.below(7) {
                    0 | 1 => format!("g.write m={} a={} data={}", mi, a, hex(&data)),
                    2 => format!("g.wslice m={} a={} data={}", mi, a, hex(&data)),
                    3 => format!("g.wobj m={} a={} t={} ts={} ta={} data={}", mi, a, t.0, t.1, t.2, hex(&rng.bytes(t.1))),
                    4 => format!("g.read m={} a={} len={}", mi, a, len),
                    5 => format!("g.rslice m={} a={} len={}", mi, a, len),
                    _ => format!("g.robj m={} a={} t={} ts={} ta={}", mi, a, t.0, t.1, t.2),
                }
            } else if r < 56 {
                if xen { continue; }
                let at = rng.pick(ATOMICS).clone();
                let aa = if rng.chance(3, 4) { a & !(at.1 as u64 - 1) } else { a };
                if rng.chance(1, 2) {
                    format!("g.store m={} a={} t={} ts={} ta={} data={}", mi, aa, at.0, at.1, at.1, hex(&rng.bytes(at.1)))
                } else {
                    format!("g.load m={} a={} t={} ts={} ta={}", mi, aa, at.0, at.1, at.1)
                }
            } else if r < 70 {
                let count = if rng.chance(1, 8) { 0 } else { len as u64 };
                let mut lines: Vec<String> = vec![];
                let l = crate::streams::gen_stream_ops(g.rec, rng, &mut |_rec, l| lines.push(l), "g", &format!("m={} a={}", mi, a), count);
                for x in lines {
                    g.go(x, true);
                }
                l
            } else if r < 92 {
                // region level
                let nreg = g.w.layouts.get(&mi).map(|v| v.len()).unwrap_or(0);
                if nreg == 0 {
                    continue;
                }
                let i = rng.below(nreg as u64);
                let rid = g.w.layouts[&mi][i as usize];
                let rl = g.w.info[&rid].len as u64;
                let ra = if xen && rng.chance(1, 3) {
                    // Xen windows are page granular: page-aligned offsets (0 included) are the boundary cases
                    4096 * rng.below(rl / 4096 + 1) + *rng.pick(&[0u64, 0, 0, 1, 4095])
                } else if rng.chance(3, 4) { rng.below(rl + 2) } else { rng.boundary(&[rl, rl - 1]) };
                let data = rng.bytes(len);
                match rng.below(14) {
                    0 | 1 => format!("gr.write m={} i={} a={} data={}", mi, i, ra, hex(&data)),
                    2 => format!("gr.wslice m={} i={} a={} data={}", mi, i, ra, hex(&data)),
                    3 => format!("gr.wobj m={} i={} a={} t={} ts={} ta={} data={}", mi, i, ra, t.0, t.1, t.2, hex(&rng.bytes(t.1))),
                    4 => format!("gr.read m={} i={} a={} len={}", mi, i, ra, len),
                    5 => format!("gr.rslice m={} i={} a={} len={}", mi, i, ra, len),
                    6 | 7 if xen => continue,
                    6 => { let at = rng.pick(ATOMICS).clone(); format!("gr.store m={} i={} a={} t={} ts={} ta={} data={}", mi, i, ra & !(at.1 as u64 - 1), at.0, at.1, at.1, hex(&rng.bytes(at.1))) }
                    7 => { let at = rng.pick(ATOMICS).clone(); format!("gr.load m={} i={} a={} t={} ts={} ta={}", mi, i, ra, at.0, at.1, at.1) }
                    8 => format!("gr.slice m={} i={} a={} cnt={}", mi, i, ra, if rng.chance(1, 3) { rng.boundary(&[rl]) } else { len as u64 }),
                    9 if !xen => format!("gr.host m={} i={} a={}", mi, i, ra),
                    10 => format!("gr.co m={} i={} a={} off={}", mi, i, ra, rng.boundary(&[rl])),
                    11 => format!("gr.tra m={} i={} a={}", mi, i, a),
                    12 => format!("gr.last m={} i={}", mi, i),
                    _ => {
                        let count = if rng.chance(1, 8) { 0 } else { len as u64 };
                        let mut lines: Vec<String> = vec![];
                        let l = crate::streams::gen_stream_ops(g.rec, rng, &mut |_rec, l| lines.push(l), "gr", &format!("m={} i={} a={}", mi, i, ra), count);
                        for x in lines {
                            g.go(x, true);
                        }
                        l
                    }
                }
            } else if r < 96 {
                let n = rng.below(5);
                let script: Vec<String> = (0..n).map(|_| match rng.below(8) {
                    0 | 1 | 2 => "f".to_string(),
                    3 => "o0".to_string(),
                    4 => format!("o{}", 1 + rng.below(4)),
                    5 => format!("o{}", rng.boundary(&[len as u64, 4096, u64::MAX])),
                    6 => "e".to_string(),
                    _ => format!("o{}", len),
                }).collect();
                format!("g.ta m={} a={} count={} script={}", mi, a, if rng.chance(1, 6) { rng.boundary(&marks) } else { len as u64 }, script.join(","))
            } else {
                format!("g.state m={}", mi)
            };
            g.go(line, nt);
        }
    }
}

/// Xen build: operations that bypass the pointer guard on an on-demand region dereference the
/// region's null-based pointer.  Each probe runs in a forked child so that a crash is an
/// observation, not a dead harness.
#[cfg(feature = "xen")]
pub fn xen_probes(rec: &mut Rec) {
    use vm_memory::{GuestMemoryRegion, VolatileMemory};
    fn in_child(f: impl FnOnce()) -> Result<(), i32> {
        unsafe {
            let pid = libc::fork();
            if pid == 0 {
                f();
                libc::_exit(0);
            }
            let mut st = 0;
            libc::waitpid(pid, &mut st, 0);
            if libc::WIFSIGNALED(st) { Err(libc::WTERMSIG(st)) } else if libc::WEXITSTATUS(st) != 0 { Err(-libc::WEXITSTATUS(st)) } else { Ok(()) }
        }
    }
    let mk = || {
        let f = crate::streams::tmpfile_pub();
        f.set_len(0x40000).unwrap();
        let range = MmapRange::new(8192, Some(FileOffset::new(f, 0)), GuestAddress(0x10000), 0xa, 7);
        let region: MmapRegion<AtomicBitmap> = MmapRegion::from_range(range).unwrap();
        GuestRegionMmap::new(region, GuestAddress(0x10000)).unwrap()
    };
    let probes: Vec<(&str, Box<dyn Fn(&Reg)>)> = vec![
        ("atomic-store", Box::new(|r: &Reg| { let _ = r.store(5u32, MemoryRegionAddress(16), Ordering::SeqCst); })),
        ("atomic-load", Box::new(|r: &Reg| { let _ = r.load::<u32>(MemoryRegionAddress(16), Ordering::SeqCst); })),
        ("write-obj", Box::new(|r: &Reg| { r.write_obj(5u32, MemoryRegionAddress(16)).unwrap(); })),
        ("array-copy-from-u32", Box::new(|r: &Reg| { let s = r.get_slice(MemoryRegionAddress(0), 8192).unwrap(); s.get_array_ref::<u32>(0, 2048).unwrap().copy_from(&[7u32; 2048]); })),
        ("ref-store-u64", Box::new(|r: &Reg| { let s = r.get_slice(MemoryRegionAddress(4090), 64).unwrap(); s.get_ref::<u64>(2).unwrap().store(9); })),
    ];
    for (name, p) in probes {
        let r = mk();
        match in_child(|| p(&r)) {
            Ok(()) => rec.note(&format!("xen_probe_ok_{}", name)),
            Err(sig) => rec.fail("C17", &format!("xen-ondemand/{}/crash", name), &format!("child ended with signal/exit {}", sig)),
        }
        let _ = vm_memory::verif_hooks::xen_log_take();
    }
}

// ------------------------------------------------------------------------------------------------
// C02 (also C03/C07) for another implementation at the very top of the address space: a hand-written
// `GuestMemoryRegion` may end exactly at 2^64 (its last byte is guest address 2^64-1), which `GuestRegionMmap::new`
// never allows.  Every address query and every access of a `GuestMemory` built from such regions — relying on the
// provided methods only — is compared with the plain meaning over the set of mapped addresses (u128 arithmetic).
// Oracle-only probe: the Lean model's layouts satisfy `start + len < 2^64` (what the safe constructor enforces).
#[cfg(not(feature = "xen"))]
pub mod top {
    use super::*;
    use vm_memory::{AtomicAccess, ReadVolatile, VolatileMemory, VolatileSlice, WriteVolatile};
    pub struct TopRegion { start: u64, buf: std::cell::UnsafeCell<Vec<u8>> }
    unsafe impl Sync for TopRegion {}
    impl TopRegion {
        fn vs(&self) -> VolatileSlice<'_, ()> {
            let v = unsafe { &mut *self.buf.get() };
            unsafe { VolatileSlice::new(v.as_mut_ptr(), v.len()) }
        }
    }
    type R<T> = Result<T, GuestMemoryError>;
    impl Bytes<MemoryRegionAddress> for TopRegion {
        type E = GuestMemoryError;
        fn write(&self, buf: &[u8], a: MemoryRegionAddress) -> R<usize> { self.vs().write(buf, a.raw_value() as usize).map_err(Into::into) }
        fn read(&self, buf: &mut [u8], a: MemoryRegionAddress) -> R<usize> { self.vs().read(buf, a.raw_value() as usize).map_err(Into::into) }
        fn write_slice(&self, buf: &[u8], a: MemoryRegionAddress) -> R<()> { self.vs().write_slice(buf, a.raw_value() as usize).map_err(Into::into) }
        fn read_slice(&self, buf: &mut [u8], a: MemoryRegionAddress) -> R<()> { self.vs().read_slice(buf, a.raw_value() as usize).map_err(Into::into) }
        fn read_volatile_from<F: ReadVolatile>(&self, a: MemoryRegionAddress, src: &mut F, count: usize) -> R<usize> { self.vs().read_volatile_from(a.raw_value() as usize, src, count).map_err(Into::into) }
        fn read_exact_volatile_from<F: ReadVolatile>(&self, a: MemoryRegionAddress, src: &mut F, count: usize) -> R<()> { self.vs().read_exact_volatile_from(a.raw_value() as usize, src, count).map_err(Into::into) }
        fn write_volatile_to<F: WriteVolatile>(&self, a: MemoryRegionAddress, dst: &mut F, count: usize) -> R<usize> { self.vs().write_volatile_to(a.raw_value() as usize, dst, count).map_err(Into::into) }
        fn write_all_volatile_to<F: WriteVolatile>(&self, a: MemoryRegionAddress, dst: &mut F, count: usize) -> R<()> { self.vs().write_all_volatile_to(a.raw_value() as usize, dst, count).map_err(Into::into) }
        fn store<T: AtomicAccess>(&self, val: T, a: MemoryRegionAddress, order: Ordering) -> R<()> { self.vs().store(val, a.raw_value() as usize, order).map_err(Into::into) }
        fn load<T: AtomicAccess>(&self, a: MemoryRegionAddress, order: Ordering) -> R<T> { self.vs().load(a.raw_value() as usize, order).map_err(Into::into) }
    }
    impl GuestMemoryRegion for TopRegion {
        type B = ();
        fn len(&self) -> u64 { unsafe { &*self.buf.get() }.len() as u64 }
        fn start_addr(&self) -> GuestAddress { GuestAddress(self.start) }
        fn bitmap(&self) -> &() { &() }
        fn get_slice(&self, offset: MemoryRegionAddress, count: usize) -> R<VolatileSlice<'_, ()>> {
            // bounds as `VolatileSlice::get_slice`; the slice is built over the buffer directly (its lifetime is the region's)
            let (off, len) = (offset.raw_value(), self.len());
            let end = off.checked_add(count as u64).ok_or(GuestMemoryError::InvalidBackendAddress)?;
            if end > len { return Err(GuestMemoryError::InvalidBackendAddress); }
            let v = unsafe { &mut *self.buf.get() };
            Ok(unsafe { VolatileSlice::new(v.as_mut_ptr().add(off as usize), count) })
        }
    }
    pub struct TopMem { pub regions: Vec<TopRegion> }
    impl GuestMemory for TopMem {
        type R = TopRegion;
        fn num_regions(&self) -> usize { self.regions.len() }
        fn find_region(&self, addr: GuestAddress) -> Option<&TopRegion> {
            self.regions.iter().find(|r| addr.0 >= r.start && addr.0 - r.start < r.len())
        }
        fn iter(&self) -> impl Iterator<Item = &TopRegion> { self.regions.iter() }
    }

    pub fn probe(rec: &mut Rec, rng: &mut Rng) {
        // layouts: the last region ends exactly at 2^64; below it a touching region, or a hole, or nothing
        for (k, lay) in [vec![(u64::MAX - 0xfff, 0x1000usize)], vec![(u64::MAX - 0x1fff, 0x1000), (u64::MAX - 0xfff, 0x1000)],
                         vec![(u64::MAX - 0x2fff, 0x800), (u64::MAX - 0xf, 0x10)], vec![(0u64, 0x20), (u64::MAX, 1)]].into_iter().enumerate() {
            let m = TopMem { regions: lay.iter().map(|&(s, l)| TopRegion { start: s, buf: std::cell::UnsafeCell::new(vec![0u8; l]) }).collect() };
            let mapped = |a: u128| lay.iter().any(|&(s, l)| a >= s as u128 && a < s as u128 + l as u128);
            let run_len = |a: u64, cap: usize| { let mut n = 0usize; while n < cap && mapped(a as u128 + n as u128) && (a as u128 + n as u128) < (1u128 << 64) { n += 1; } n };
            let mut addrs: Vec<u64> = vec![0, 1, u64::MAX, u64::MAX - 1, u64::MAX - 7, u64::MAX - 8];
            for &(s, l) in &lay { for d in [0u64, 1, 2] { addrs.push(s.wrapping_sub(d)); addrs.push(s.wrapping_add(d)); addrs.push(s.wrapping_add(l as u64 - 1).wrapping_sub(d)); } }
            for _ in 0..40 { let &(s, l) = rng.pick(&lay); addrs.push(s + rng.below(l as u64)); }
            let lens: Vec<usize> = vec![0, 1, 2, 7, 8, 9, 16, 0x10, 0x11, 0x800, 0x1000, 0x1001, 0x2000, usize::MAX];
            let bad = |rec: &mut Rec, what: &str, detail: String| {
                rec.fail("C02", &format!("top/{}", what), &format!("layout#{} {:?}: {}", k, lay, detail));
                if what.starts_with("write") || what.starts_with("read") {
                    // the same observation read against the flat sparse byte array (C03)
                    rec.fail("C03", &format!("top/{}", what), &format!("layout#{} {:?}: {}", k, lay, detail));
                }
            };
            let want_last = lay.iter().map(|&(s, l)| s as u128 + l as u128 - 1).max().unwrap() as u64;
            if m.last_addr().0 != want_last { bad(rec, "last_addr", format!("{:#x} want {:#x}", m.last_addr().0, want_last)); }
            for &a in &addrs {
                let ga = GuestAddress(a);
                let r = guarded(|| {
                    let mut out: Vec<(&'static str, String)> = vec![];
                    if m.address_in_range(ga) != mapped(a as u128) { out.push(("address_in_range", format!("a={:#x}", a))); }
                    if m.check_address(ga).is_some() != mapped(a as u128) { out.push(("check_address", format!("a={:#x}", a))); }
                    if m.to_region_addr(ga).is_some() != mapped(a as u128) { out.push(("to_region_addr", format!("a={:#x}", a))); }
                    for &n in &lens {
                        let all = n == 0 || (run_len(a, n.min(0x3000)) == n);
                        if m.check_range(ga, n) != all { out.push(("check_range", format!("a={:#x} n={:#x} got {} want {}", a, n, !all, all))); }
                        let end = a as u128 + n as u128;
                        let want_co = end < (1u128 << 64) && mapped(end);
                        if m.checked_offset(ga, n).is_some() != want_co { out.push(("checked_offset", format!("a={:#x} n={:#x}", a, n))); }
                        if n > 0 && n <= 0x2000 {
                            // a write then a read of n bytes: the count is the length of the mapped run, an error iff the first byte is unmapped
                            let data = vec![0xc3u8; n];
                            let k = run_len(a, n);
                            match m.write(&data, ga) { Ok(c) if c == k && k > 0 => {}, Err(GuestMemoryError::InvalidGuestAddress(_)) if k == 0 => {}, other => out.push(("write", format!("a={:#x} n={:#x} run={:#x} -> {:?}", a, n, k, other))) }
                            let mut back = vec![0u8; n];
                            match m.read(&mut back, ga) { Ok(c) if c == k && k > 0 && back[..k] == data[..k] => {}, Err(GuestMemoryError::InvalidGuestAddress(_)) if k == 0 => {}, other => out.push(("read", format!("a={:#x} n={:#x} run={:#x} -> {:?}", a, n, k, other))) }
                            let want_all = k == n;
                            if m.write_slice(&data, ga).is_ok() != want_all { out.push(("write_slice", format!("a={:#x} n={:#x}", a, n))); }
                            if m.read_slice(&mut back, ga).is_ok() != want_all { out.push(("read_slice", format!("a={:#x} n={:#x}", a, n))); }
                        }
                    }
                    out
                });
                match r {
                    None => { rec.fail("C07", "top/panic", &format!("layout#{} {:?} a={:#x}", k, lay, a)); bad(rec, "panic", format!("a={:#x}", a)); }
                    Some(v) => for (w, d) in v.into_iter().take(3) { bad(rec, w, d); },
                }
            }
        }
        rec.note("top_of_address_space_probes");
    }
}
