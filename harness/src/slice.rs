//! `slice` world: one root buffer (any size / base skew / tracking flavour), a table of
//! accessors derived from it, and every data-moving operation of volatile_memory.rs.
//! Serves C01 C04 C05 C16 C17 C18 C07 (and the stream forms for C13/C14 via `streams`).
use crate::rng::Rng;
use crate::streams::{Streams, RdRes};
use crate::util::*;
use std::collections::{BTreeSet, HashMap};
use std::num::NonZeroUsize;
use std::sync::atomic::Ordering;
use std::sync::Arc;
use vm_memory::bitmap::{ArcSlice, AtomicBitmap, Bitmap, BitmapSlice, RefSlice};
use vm_memory::{
    Be64, ByteValued, Bytes, Le16, Le32, VolatileArrayRef, VolatileMemory, VolatileMemoryError, VolatileRef,
    VolatileSlice,
};

const GUARD: usize = 1024; // canary bytes on each side of the root
const CANARY: u8 = 0xA5;

/// tracking flavours of the BitmapSlice carried by the accessors
pub trait Flav: BitmapSlice + 'static {
    fn make(bm: &Arc<AtomicBitmap>, off: usize) -> Self;
    const TRACKS: bool;
    const NAME: &'static str;
}
impl Flav for () {
    fn make(_: &Arc<AtomicBitmap>, _: usize) -> Self {}
    const TRACKS: bool = false;
    const NAME: &'static str = "unit";
}
impl Flav for RefSlice<'static, AtomicBitmap> {
    fn make(bm: &Arc<AtomicBitmap>, off: usize) -> Self {
        // the Arc is kept alive by the world for as long as any accessor exists
        let r: &'static AtomicBitmap = unsafe { &*(Arc::as_ptr(bm)) };
        RefSlice::new(r, off)
    }
    const TRACKS: bool = true;
    const NAME: &'static str = "ref";
}
impl Flav for ArcSlice<AtomicBitmap> {
    fn make(bm: &Arc<AtomicBitmap>, off: usize) -> Self {
        ArcSlice::new(bm.clone(), off)
    }
    const TRACKS: bool = true;
    const NAME: &'static str = "arc";
}
impl Flav for Option<RefSlice<'static, AtomicBitmap>> {
    fn make(bm: &Arc<AtomicBitmap>, off: usize) -> Self {
        Some(<RefSlice<'static, AtomicBitmap> as Flav>::make(bm, off))
    }
    const TRACKS: bool = true;
    const NAME: &'static str = "some";
}

/// A `BitmapSlice` written against the public traits only: an `AtomicBitmap` view that, at every
/// `mark_dirty`, snapshots the bytes of the container it is told were written.  Lets the oracle check
/// the *order* of store and mark: a mark issued before the bytes landed shows the old bytes.
#[derive(Clone, Debug)]
pub struct ProbeSlice {
    inner: RefSlice<'static, AtomicBitmap>,
    base: usize,
}
thread_local! {
    /// (root address, root size, bitmap offset of the root) of the container under test
    pub static PROBE_ROOT: std::cell::Cell<(usize, usize, usize)> = const { std::cell::Cell::new((0, 0, 0)) };
    /// (container offset, bytes found there when the mark was issued)
    pub static PROBE_LOG: std::cell::RefCell<Vec<(usize, Vec<u8>)>> = const { std::cell::RefCell::new(Vec::new()) };
}
impl vm_memory::bitmap::WithBitmapSlice<'_> for ProbeSlice {
    type S = Self;
}
impl BitmapSlice for ProbeSlice {}
impl Bitmap for ProbeSlice {
    fn mark_dirty(&self, offset: usize, len: usize) {
        let (root, size, bmoff) = PROBE_ROOT.with(|r| r.get());
        let o = self.base.wrapping_add(offset).wrapping_sub(bmoff);
        if len > 0 && o <= size && len <= size - o {
            let now = unsafe { std::slice::from_raw_parts((root + o) as *const u8, len) }.to_vec();
            PROBE_LOG.with(|l| l.borrow_mut().push((o, now)));
        }
        self.inner.mark_dirty(offset, len)
    }
    fn dirty_at(&self, offset: usize) -> bool {
        self.inner.dirty_at(offset)
    }
    fn slice_at(&self, offset: usize) -> Self {
        ProbeSlice { inner: self.inner.slice_at(offset), base: self.base.wrapping_add(offset) }
    }
}
impl Flav for ProbeSlice {
    fn make(bm: &Arc<AtomicBitmap>, off: usize) -> Self {
        ProbeSlice { inner: <RefSlice<'static, AtomicBitmap> as Flav>::make(bm, off), base: off }
    }
    const TRACKS: bool = true;
    const NAME: &'static str = "probe";
}

pub fn verr(e: &VolatileMemoryError) -> String {
    match e {
        VolatileMemoryError::OutOfBounds { .. } => "err oob".into(),
        VolatileMemoryError::Overflow { .. } => "err overflow".into(),
        VolatileMemoryError::TooBig { .. } => "err toobig".into(),
        VolatileMemoryError::Misaligned { .. } => "err misaligned".into(),
        VolatileMemoryError::PartialBuffer { expected, completed } => format!("err partial exp={} done={}", expected, completed),
        VolatileMemoryError::IOError(e) => format!("err io k={}", io_kind(e)),
    }
}
pub fn io_kind(e: &std::io::Error) -> u32 {
    match e.kind() {
        std::io::ErrorKind::UnexpectedEof => 1,
        std::io::ErrorKind::WriteZero => 2,
        std::io::ErrorKind::Interrupted => 3,
        _ => 4,
    }
}

// ------------------------------------------------------------------------------------------
// type-erased typed accessors
pub trait RefOps<B> {
    fn addr(&self) -> usize;
    fn size(&self) -> usize;
    fn store(&self, bytes: &[u8]);
    fn load(&self) -> Vec<u8>;
    fn to_slice(&self) -> VolatileSlice<'static, B>;
    fn guard(&self) -> (usize, usize, usize, usize);
}
pub fn from_bytes_pub<T: ByteValued>(bytes: &[u8]) -> T {
    from_bytes(bytes)
}
fn from_bytes<T: ByteValued>(bytes: &[u8]) -> T {
    let mut v = T::zeroed();
    let s = v.as_mut_slice();
    let n = s.len().min(bytes.len());
    s[..n].copy_from_slice(&bytes[..n]);
    v
}
impl<T: ByteValued + 'static, B: Flav> RefOps<B> for VolatileRef<'static, T, B> {
    fn addr(&self) -> usize {
        self.ptr_guard().as_ptr() as usize
    }
    fn size(&self) -> usize {
        std::mem::size_of::<T>()
    }
    fn store(&self, bytes: &[u8]) {
        VolatileRef::store(self, from_bytes::<T>(bytes))
    }
    fn load(&self) -> Vec<u8> {
        VolatileRef::load(self).as_slice().to_vec()
    }
    fn to_slice(&self) -> VolatileSlice<'static, B> {
        VolatileRef::to_slice(self)
    }
    fn guard(&self) -> (usize, usize, usize, usize) {
        let (g, gm) = (self.ptr_guard(), self.ptr_guard_mut());
        (g.as_ptr() as usize, g.len(), gm.as_ptr() as usize, gm.len())
    }
}

pub trait ArrOps<B> {
    fn addr(&self) -> usize;
    fn nelem(&self) -> usize;
    fn esize(&self) -> usize;
    fn ref_at(&self, i: usize) -> Box<dyn RefOps<B>>;
    fn to_slice(&self) -> VolatileSlice<'static, B>;
    fn load(&self, i: usize) -> Vec<u8>;
    fn store(&self, i: usize, bytes: &[u8]);
    fn copy_to(&self, blen: usize) -> (usize, Vec<u8>);
    fn copy_from(&self, blen: usize, bytes: &[u8]);
    fn cts(&self, dst: VolatileSlice<'static, B>);
    fn guard(&self) -> (usize, usize, usize, usize);
}
fn elems<T: ByteValued>(blen: usize, bytes: &[u8]) -> Vec<T> {
    let sz = std::mem::size_of::<T>();
    (0..blen).map(|i| from_bytes::<T>(if sz == 0 { &[] } else { &bytes[(i * sz).min(bytes.len())..] })).collect()
}
fn elem_bytes<T: ByteValued>(v: &[T], n: usize) -> Vec<u8> {
    let mut out = Vec::new();
    for x in v.iter().take(n) {
        out.extend_from_slice(x.as_slice());
    }
    out
}
impl<T: ByteValued + 'static, B: Flav> ArrOps<B> for VolatileArrayRef<'static, T, B> {
    fn addr(&self) -> usize {
        // the guard maps (on Xen) as many bytes as it is told; only its pointer is used here
        VolatileArrayRef::to_slice(self).ptr_guard().as_ptr() as usize
    }
    fn nelem(&self) -> usize {
        self.len()
    }
    fn esize(&self) -> usize {
        self.element_size()
    }
    fn ref_at(&self, i: usize) -> Box<dyn RefOps<B>> {
        Box::new(VolatileArrayRef::ref_at(self, i))
    }
    fn to_slice(&self) -> VolatileSlice<'static, B> {
        VolatileArrayRef::to_slice(self)
    }
    fn load(&self, i: usize) -> Vec<u8> {
        VolatileArrayRef::load(self, i).as_slice().to_vec()
    }
    fn store(&self, i: usize, bytes: &[u8]) {
        VolatileArrayRef::store(self, i, from_bytes::<T>(bytes))
    }
    fn copy_to(&self, blen: usize) -> (usize, Vec<u8>) {
        let mut buf: Vec<T> = (0..blen).map(|_| T::zeroed()).collect();
        let n = VolatileArrayRef::copy_to(self, &mut buf[..]);
        (n, elem_bytes(&buf, n))
    }
    fn copy_from(&self, blen: usize, bytes: &[u8]) {
        let buf: Vec<T> = elems::<T>(blen, bytes);
        VolatileArrayRef::copy_from(self, &buf[..])
    }
    fn cts(&self, dst: VolatileSlice<'static, B>) {
        self.copy_to_volatile_slice(dst)
    }
    fn guard(&self) -> (usize, usize, usize, usize) {
        let (g, gm) = (self.ptr_guard(), self.ptr_guard_mut());
        (g.as_ptr() as usize, g.len(), gm.as_ptr() as usize, gm.len())
    }
}

pub enum Acc<B: Flav> {
    Sl(VolatileSlice<'static, B>),
    Rf(Box<dyn RefOps<B>>),
    Ar(Box<dyn ArrOps<B>>),
}

/// element types the harness instantiates: name, size, align
pub const TYPES: &[(&str, usize, usize)] = &[
    ("u8", 1, 1), ("i8", 1, 1), ("u16", 2, 2), ("u32", 4, 4), ("u64", 8, 8), ("u128", 16, 16), ("usize", 8, 8),
    ("z8", 0, 1), ("z16", 0, 2), ("z64", 0, 8), ("a8x3", 3, 1), ("a16x3", 6, 2), ("a32x3", 12, 4), ("a8x5", 5, 1),
    ("a64x2", 16, 8), ("le16", 2, 2), ("le32", 4, 4), ("be64", 8, 8),
];
pub const ATOMICS: &[(&str, usize)] = &[("u8", 1), ("u16", 2), ("u32", 4), ("u64", 8), ("i8", 1), ("i16", 2), ("i32", 4), ("i64", 8), ("usize", 8), ("isize", 8), ("w32", 4), ("w64", 8)];

/// user-defined `AtomicAccess` types in the packed wire-struct style: their own alignment is 1, the alignment an
/// atomic access needs is that of the backing atomic (C06: "refuse misaligned addresses")
#[derive(Copy, Clone, Default)]
#[repr(C, packed)]
pub struct Wire32(pub u32);
unsafe impl ByteValued for Wire32 {}
impl From<u32> for Wire32 { fn from(v: u32) -> Self { Wire32(v) } }
impl From<Wire32> for u32 { fn from(v: Wire32) -> u32 { v.0 } }
impl vm_memory::AtomicAccess for Wire32 { type A = std::sync::atomic::AtomicU32; }
#[derive(Copy, Clone, Default)]
#[repr(C, packed)]
pub struct Wire64(pub u64);
unsafe impl ByteValued for Wire64 {}
impl From<u64> for Wire64 { fn from(v: u64) -> Self { Wire64(v) } }
impl From<Wire64> for u64 { fn from(v: Wire64) -> u64 { v.0 } }
impl vm_memory::AtomicAccess for Wire64 { type A = std::sync::atomic::AtomicU64; }

#[macro_export]
macro_rules! with_ty {
    ($name:expr, $T:ident => $body:expr) => {
        match $name {
            "u8" => { type $T = u8; $body }
            "i8" => { type $T = i8; $body }
            "u16" => { type $T = u16; $body }
            "u32" => { type $T = u32; $body }
            "u64" => { type $T = u64; $body }
            "u128" => { type $T = u128; $body }
            "usize" => { type $T = usize; $body }
            "z8" => { type $T = [u8; 0]; $body }
            "z16" => { type $T = [u16; 0]; $body }
            "z64" => { type $T = [u64; 0]; $body }
            "a8x3" => { type $T = [u8; 3]; $body }
            "a16x3" => { type $T = [u16; 3]; $body }
            "a32x3" => { type $T = [u32; 3]; $body }
            "a8x5" => { type $T = [u8; 5]; $body }
            "a64x2" => { type $T = [u64; 2]; $body }
            "le16" => { type $T = Le16; $body }
            "le32" => { type $T = Le32; $body }
            "be64" => { type $T = Be64; $body }
            _ => panic!("unknown type {}", $name),
        }
    };
}
#[macro_export]
macro_rules! with_atomic {
    ($name:expr, $T:ident => $body:expr) => {
        match $name {
            "u8" => { type $T = u8; $body }
            "u16" => { type $T = u16; $body }
            "u32" => { type $T = u32; $body }
            "u64" => { type $T = u64; $body }
            "i8" => { type $T = i8; $body }
            "i16" => { type $T = i16; $body }
            "i32" => { type $T = i32; $body }
            "i64" => { type $T = i64; $body }
            "usize" => { type $T = usize; $body }
            "isize" => { type $T = isize; $body }
            "w32" => { type $T = $crate::slice::Wire32; $body }
            "w64" => { type $T = $crate::slice::Wire64; $body }
            _ => panic!("unknown atomic {}", $name),
        }
    };
}

pub fn ty_of(name: &str) -> (usize, usize) {
    TYPES.iter().find(|t| t.0 == name).map(|t| (t.1, t.2)).or_else(|| ATOMICS.iter().find(|t| t.0 == name).map(|t| (t.1, t.1))).unwrap()
}

// ------------------------------------------------------------------------------------------
pub struct SliceWorld<B: Flav> {
    alloc: *mut u8,
    alloc_len: usize,
    pub root: usize, // address of byte 0
    pub size: usize,
    pub bm: Option<Arc<AtomicBitmap>>,
    pub page: usize,
    pub bmoff: usize,
    pub acc: HashMap<u64, Acc<B>>,
    // oracle state
    pub mirror: Vec<u8>,
    pub exp_dirty: BTreeSet<usize>,
    pub dead: bool,
    pub streams: Streams,
}

impl<B: Flav> Drop for SliceWorld<B> {
    fn drop(&mut self) {
        self.acc.clear();
        if !self.alloc.is_null() {
            unsafe { std::alloc::dealloc(self.alloc, std::alloc::Layout::from_size_align(self.alloc_len, 4096).unwrap()) }
        }
    }
}

/// extent of an accessor: (address, number of bytes it designates)
fn extent<B: Flav>(a: &Acc<B>) -> (usize, u128) {
    match a {
        Acc::Sl(s) => (s.ptr_guard().as_ptr() as usize, s.len() as u128),
        Acc::Rf(r) => (r.addr(), r.size() as u128),
        Acc::Ar(x) => (x.addr(), x.nelem() as u128 * x.esize() as u128),
    }
}

impl<B: Flav> SliceWorld<B> {
    pub fn empty() -> Self {
        SliceWorld { alloc: std::ptr::null_mut(), alloc_len: 0, root: 0, size: 0, bm: None, page: 0, bmoff: 0, acc: HashMap::new(),
                     mirror: vec![], exp_dirty: BTreeSet::new(), dead: false, streams: Streams::default() }
    }

    fn mem(&self) -> &[u8] {
        unsafe { std::slice::from_raw_parts(self.root as *const u8, self.size) }
    }
    fn dirty_words(&self) -> String {
        match &self.bm {
            Some(b) if B::TRACKS => words(&crate::bitmap::bm_words(b)),
            _ => "-".into(),
        }
    }
    fn state(&self) -> String {
        format!("h={} d={}", fnv1a(self.mem()), self.dirty_words())
    }
    fn dirty_set(&self) -> BTreeSet<usize> {
        let mut s = BTreeSet::new();
        if let (Some(b), true) = (&self.bm, B::TRACKS) {
            for p in 0..b.len() {
                if b.is_bit_set(p) {
                    s.insert(p);
                }
            }
        }
        s
    }

    /// oracle after every op: frame (memory == mirror), canaries, dirty marks sound (C05) and precise (C16)
    fn post(&mut self, rec: &mut Rec, op: &str, line: &str) {
        // C05 (ordering): when a mark was issued the marked bytes must already have held their final values,
        // otherwise a harvest falling between the mark and the store would leave a changed page clean.
        // (memmove-style copies within the container may legitimately overwrite their own source; skipped.)
        let log = PROBE_LOG.with(|l| std::mem::take(&mut *l.borrow_mut()));
        if !matches!(op, "s.cts" | "s.acts") {
            for (o, then) in log {
                if o + then.len() <= self.size && self.mem()[o..o + then.len()] != then[..] {
                    rec.fail("C05", &format!("{}/marked-before-written", op), &format!("{} window=({},{})", line, o, then.len()));
                    break;
                }
            }
        }
        let all = unsafe { std::slice::from_raw_parts(self.alloc, self.alloc_len) };
        let lo = self.root - self.alloc as usize;
        if all[..lo].iter().chain(all[lo + self.size..].iter()).any(|&b| b != CANARY) {
            rec.fail("C01", &format!("{}/canary", op), line);
            self.dead = true;
        }
        if self.mem() != &self.mirror[..] {
            let i = self.mem().iter().zip(self.mirror.iter()).position(|(a, b)| a != b).unwrap_or(0);
            rec.fail("C04", &format!("{}/bytes", op), &format!("{} first-diff-at={} got={:02x} want={:02x}", line, i, self.mem()[i], self.mirror[i]));
            // resynchronise so that one defect is reported once
            self.mirror = self.mem().to_vec();
        }
        if B::TRACKS && self.bm.is_some() {
            let got = self.dirty_set();
            if !self.exp_dirty.is_subset(&got) {
                let missing: Vec<_> = self.exp_dirty.difference(&got).take(4).collect();
                rec.fail("C05", &format!("{}/unmarked", op), &format!("{} missing-pages={:?}", line, missing));
            }
            if !got.is_subset(&self.exp_dirty) {
                let extra: Vec<_> = got.difference(&self.exp_dirty).take(4).collect();
                rec.fail("C16", &format!("{}/overmarked", op), &format!("{} extra-pages={:?}", line, extra));
            }
            self.exp_dirty = got;
        }
    }

    /// the oracle's record of a write of `data` at absolute offset `o` (relative to the root)
    fn expect_write(&mut self, o: usize, data: &[u8]) {
        self.mirror[o..o + data.len()].copy_from_slice(data);
        if !data.is_empty() && self.page > 0 {
            let b = self.bmoff + o;
            for p in b / self.page..=(b + data.len() - 1) / self.page {
                self.exp_dirty.insert(p);
            }
        }
    }

    fn ext(&self, id: u64) -> Option<(usize, usize)> {
        self.acc.get(&id).map(|a| {
            let (p, n) = extent(a);
            (p.wrapping_sub(self.root), n as usize)
        })
    }

    /// C01 oracle for a freshly derived accessor; returns false if it must not be used
    fn contained(&mut self, rec: &mut Rec, op: &str, line: &str, parent: (usize, u128), child: (usize, u128)) -> bool {
        let ok_parent = child.0 >= parent.0 && (child.0 as u128 + child.1) <= parent.0 as u128 + parent.1;
        let ok_root = child.0 >= self.root && (child.0 as u128 + child.1) <= (self.root + self.size) as u128;
        if !ok_parent || !ok_root {
            rec.fail("C01", &format!("{}/outside-parent", op), &format!("{} parent=({},{}) child=({},{})", line, parent.0 - self.root, parent.1, child.0 as i128 - self.root as i128, child.1));
            self.dead = true;
            return false;
        }
        true
    }
    fn accept_oracle(&self, rec: &mut Rec, op: &str, line: &str, fits: bool, ok: bool) {
        if fits && !ok {
            rec.fail("C01", &format!("{}/rejected-fit", op), line);
        }
        if !fits && ok {
            rec.fail("C01", &format!("{}/accepted-misfit", op), line);
        }
    }

    pub fn exec(&mut self, rec: &mut Rec, line: &str) -> String {
        let kv = Kv::parse(line);
        if kv.op == "s.new" {
            return self.new_root(&kv);
        }
        if self.dead {
            return "dead".into();
        }
        if kv.op.starts_with("rd.") || kv.op.starts_with("wr.") {
            return self.streams.exec(&kv);
        }
        let op = kv.op.to_string();
        let zero_len = is_zero_len(&kv)
            || match (kv.op, self.acc.get(&kv.n("s"))) {
                ("s.acopyto" | "s.acopyfrom" | "s.astore" | "s.aload", Some(Acc::Ar(a))) => a.esize() == 0 && !(matches!(kv.op, "s.astore" | "s.aload") && kv.us("i") >= a.nelem()),
                ("s.rstore" | "s.rload", Some(Acc::Rf(r))) => r.size() == 0,
                _ => false,
            };
        let r = guarded(|| self.exec_inner(rec, &kv, line));
        let out = match r {
            Some(o) => o,
            None => {
                let documented = matches!(kv.op, "s.refat" | "s.aload" | "s.astore") && {
                    match self.acc.get(&kv.n("s")) {
                        Some(Acc::Ar(a)) => kv.us("i") >= a.nelem(),
                        _ => false,
                    }
                };
                if !documented {
                    if zero_len {
                        rec.fail("C18", &format!("{}/slice/panic", op), line);
                    } else {
                        rec.fail("C07", &format!("{}/panic", op), line);
                    }
                }
                "panic".into()
            }
        };
        if zero_len && !out.starts_with("ok") && out != "panic" {
            rec.fail("C18", &format!("{}/slice/not-ok", op), &format!("{} -> {}", line, out));
        }
        self.post(rec, &op, line);
        out
    }

    fn new_root(&mut self, kv: &Kv) -> String {
        self.acc.clear();
        self.streams = Streams::default();
        if !self.alloc.is_null() {
            unsafe { std::alloc::dealloc(self.alloc, std::alloc::Layout::from_size_align(self.alloc_len, 4096).unwrap()) }
        }
        let data = kv.bytes("data");
        let skew = kv.us("skew");
        self.size = data.len();
        self.alloc_len = (2 * GUARD + self.size + 64 + 4095) / 4096 * 4096;
        self.alloc = unsafe { std::alloc::alloc(std::alloc::Layout::from_size_align(self.alloc_len, 4096).unwrap()) };
        unsafe { std::ptr::write_bytes(self.alloc, CANARY, self.alloc_len) };
        self.root = self.alloc as usize + GUARD + skew;
        unsafe { std::ptr::copy_nonoverlapping(data.as_ptr(), self.root as *mut u8, self.size) };
        self.mirror = data;
        self.page = kv.us("page");
        self.bmoff = kv.us("bmoff");
        self.exp_dirty.clear();
        self.dead = false;
        self.bm = if self.page > 0 { Some(Arc::new(crate::bitmap::new_bitmap(self.bmoff + self.size, self.page))) } else { None };
        let dummy = Arc::new(AtomicBitmap::new(0, NonZeroUsize::new(1).unwrap()));
        let b = B::make(self.bm.as_ref().unwrap_or(&dummy), self.bmoff);
        let root = unsafe { VolatileSlice::with_bitmap(self.root as *mut u8, self.size, b, None) };
        PROBE_ROOT.with(|r| r.set((self.root, self.size, self.bmoff)));
        PROBE_LOG.with(|l| l.borrow_mut().clear());
        self.acc.insert(0, Acc::Sl(root));
        format!("ok {}", self.state())
    }

    fn put_slice(&mut self, rec: &mut Rec, op: &str, line: &str, d: u64, parent: (usize, u128), s: VolatileSlice<'static, B>) -> String {
        let child = (s.ptr_guard().as_ptr() as usize, s.len() as u128);
        if !self.contained(rec, op, line, parent, child) {
            return "dead".into();
        }
        let out = format!("ok a={} n={}", child.0 - self.root, child.1);
        self.acc.insert(d, Acc::Sl(s));
        out
    }

    fn exec_inner(&mut self, rec: &mut Rec, kv: &Kv, line: &str) -> String {
        let op = kv.op;
        let d = kv.n("d");
        match op {
            "s.bmreset" => {
                if let Some(b) = &self.bm {
                    b.reset();
                }
                self.exp_dirty.clear();
                return format!("ok {}", self.state());
            }
            "s.state" => return format!("ok {}", self.state()),
            _ => {}
        }
        let sid = kv.n("s");
        let Some(src) = self.acc.get(&sid) else { return "bad-id".into() };
        let parent = extent(src);
        let (po, plen) = (parent.0.wrapping_sub(self.root), parent.1 as usize);
        match src {
            Acc::Sl(s) => {
                let s = s.clone();
                match op {
                    "s.sub" => {
                        let (off, cnt) = (kv.us("off"), kv.us("cnt"));
                        let r = s.subslice(off, cnt);
                        self.accept_oracle(rec, op, line, off as u128 + cnt as u128 <= plen as u128, r.is_ok());
                        match r {
                            Ok(n) => self.put_slice(rec, op, line, d, parent, n),
                            Err(e) => verr(&e),
                        }
                    }
                    "s.gsl" => {
                        // VolatileMemory::get_slice (trait method) — same contract as subslice
                        let (off, cnt) = (kv.us("off"), kv.us("cnt"));
                        let r = VolatileMemory::get_slice(&s, off, cnt);
                        self.accept_oracle(rec, op, line, off as u128 + cnt as u128 <= plen as u128, r.is_ok());
                        match r {
                            Ok(n) => {
                                // the trait method borrows `s`; rebuild an owned copy with the same extent
                                let (p, l) = (n.ptr_guard().as_ptr() as usize, n.len());
                                drop(n);
                                let own = s.subslice(p - parent.0, l).unwrap();
                                self.put_slice(rec, op, line, d, parent, own)
                            }
                            Err(e) => verr(&e),
                        }
                    }
                    "s.off" => {
                        let cnt = kv.us("cnt");
                        let r = s.offset(cnt);
                        self.accept_oracle(rec, op, line, cnt <= plen, r.is_ok());
                        match r {
                            Ok(n) => self.put_slice(rec, op, line, d, parent, n),
                            Err(e) => verr(&e),
                        }
                    }
                    "s.split" => {
                        let mid = kv.us("mid");
                        let r = s.split_at(mid);
                        self.accept_oracle(rec, op, line, mid <= plen, r.is_ok());
                        match r {
                            Ok((l, r)) => {
                                let a = self.put_slice(rec, op, line, d, parent, l);
                                if self.dead {
                                    return a;
                                }
                                let b = self.put_slice(rec, op, line, kv.n("d2"), parent, r);
                                format!("{} | {}", a, b)
                            }
                            Err(e) => verr(&e),
                        }
                    }
                    "s.ref" => {
                        let off = kv.us("off");
                        let t = kv.s("t");
                        let (ts, _) = ty_of(t);
                        with_ty!(t, T => {
                            let r = s.get_ref::<T>(off);
                            self.accept_oracle(rec, op, line, off as u128 + ts as u128 <= plen as u128, r.is_ok());
                            match r {
                                Ok(rf) => {
                                    let rf: VolatileRef<'static, T, B> = unsafe { std::mem::transmute(rf) };
                                    let b: Box<dyn RefOps<B>> = Box::new(rf);
                                    let child = (b.addr(), b.size() as u128);
                                    if !self.contained(rec, op, line, parent, child) { return "dead".into(); }
                                    let out = format!("ok a={} n={}", child.0 - self.root, child.1);
                                    self.acc.insert(d, Acc::Rf(b));
                                    out
                                }
                                Err(e) => verr(&e),
                            }
                        })
                    }
                    "s.arr" => {
                        let (off, n) = (kv.us("off"), kv.us("n"));
                        let t = kv.s("t");
                        let (ts, _) = ty_of(t);
                        let bytes = n as u128 * ts as u128;
                        let fits = n as u128 <= isize::MAX as u128 && bytes <= isize::MAX as u128 && off as u128 + bytes <= plen as u128;
                        with_ty!(t, T => {
                            let r = s.get_array_ref::<T>(off, n);
                            self.accept_oracle(rec, op, line, fits, r.is_ok());
                            match r {
                                Ok(ar) => {
                                    let ar: VolatileArrayRef<'static, T, B> = unsafe { std::mem::transmute(ar) };
                                    let b: Box<dyn ArrOps<B>> = Box::new(ar);
                                    let child = (b.addr(), b.nelem() as u128 * b.esize() as u128);
                                    if !self.contained(rec, op, line, parent, child) { return "dead".into(); }
                                    let out = format!("ok a={} n={}", child.0 - self.root, b.nelem());
                                    self.acc.insert(d, Acc::Ar(b));
                                    out
                                }
                                Err(e) => verr(&e),
                            }
                        })
                    }
                    "s.s2a" => {
                        let a: VolatileArrayRef<'static, u8, B> = s.into();
                        let b: Box<dyn ArrOps<B>> = Box::new(a);
                        let child = (b.addr(), b.nelem() as u128);
                        if !self.contained(rec, op, line, parent, child) {
                            return "dead".into();
                        }
                        let out = format!("ok a={} n={}", child.0 - self.root, b.nelem());
                        self.acc.insert(d, Acc::Ar(b));
                        out
                    }
                    "s.aref" => {
                        // aligned_as_ref / aligned_as_mut (unsafe: exclusive use is guaranteed by the harness) and
                        // get_atomic_ref for the atomic types
                        let off = kv.us("off");
                        let t = kv.s("t");
                        let (ts, ta) = ty_of(t);
                        let fits = off as u128 + ts as u128 <= plen as u128;
                        let aligned = fits && (parent.0 + off) % ta == 0;
                        let r: Result<(usize, usize), VolatileMemoryError> = if kv.s("how") == "atomic" {
                            with_atomic!(t, T => s.get_atomic_ref::<<T as vm_memory::AtomicAccess>::A>(off).map(|r| (r as *const _ as usize, r as *const _ as usize)))
                        } else {
                            with_ty!(t, T => unsafe {
                                let a = s.aligned_as_ref::<T>(off).map(|r| r as *const T as usize);
                                let b = s.aligned_as_mut::<T>(off).map(|r| r as *mut T as usize);
                                match (a, b) { (Ok(x), Ok(y)) => Ok((x, y)), (Err(e), _) | (_, Err(e)) => Err(e) }
                            })
                        };
                        self.accept_oracle(rec, op, line, fits && aligned, r.is_ok());
                        match r {
                            Ok((p, q)) => {
                                if p != q || p % ta != 0 {
                                    rec.fail("C01", "s.aref/misaligned-reference", line);
                                }
                                if !self.contained(rec, op, line, parent, (p, ts as u128)) {
                                    return "dead".into();
                                }
                                format!("ok a={}", p - self.root)
                            }
                            Err(e) => verr(&e),
                        }
                    }
                    "s.bv" => {
                        // ByteValued::from_slice / from_mut_slice on the bytes of this view: a reference is only
                        // produced for exactly size_of::<T>() bytes at a suitably aligned address (C01)
                        let t = kv.s("t");
                        let (ts, ta) = ty_of(t);
                        let (off, len) = (kv.us("off").min(plen), kv.us("len"));
                        let len = len.min(plen - off);
                        let bytes: &mut [u8] = unsafe { std::slice::from_raw_parts_mut((parent.0 + off) as *mut u8, len) };
                        let want = len == ts && ts != 0 && (parent.0 + off) % ta == 0; // (a zero-sized Self never yields a reference: align_to has an empty middle)
                        let (a, b) = with_ty!(t, T => (T::from_slice(bytes).map(|r| r as *const T as usize), T::from_mut_slice(bytes).map(|r| r as *mut T as usize)));
                        if a.is_some() != want || b.is_some() != want {
                            rec.fail("C01", "s.bv/acceptance", &format!("{} got={:?}/{:?} want={}", line, a.is_some(), b.is_some(), want));
                        }
                        if let Some(p) = a {
                            if p % ta != 0 || p != parent.0 + off || b != Some(p) {
                                rec.fail("C01", "s.bv/misaligned-reference", line);
                            }
                        }
                        format!("ok {} off={} len={}", a.is_some(), off, len)
                    }
                    "s.guard" => {
                        let (g, gm) = (s.ptr_guard(), s.ptr_guard_mut());
                        if g.len() != s.len() || gm.len() != s.len() || g.as_ptr() as usize != parent.0 || gm.as_ptr() as usize != parent.0 {
                            rec.fail("C17", "guard/slice", line);
                        }
                        format!("ok a={} n={}", g.as_ptr() as usize - self.root, g.len())
                    }
                    "s.write" | "s.wslice" | "s.wobj" => {
                        let data = kv.bytes("data");
                        let addr = kv.us("addr");
                        let n = if data.is_empty() || addr >= plen { 0 } else { data.len().min(plen - addr) };
                        let (res, exp_ok): (Result<usize, VolatileMemoryError>, bool) = match op {
                            "s.write" => (s.write(&data, addr), data.is_empty() || addr < plen),
                            "s.wslice" => (s.write_slice(&data, addr).map(|_| data.len()), data.is_empty() || (addr < plen && n == data.len())),
                            _ => {
                                let t = kv.s("t");
                                (with_ty!(t, T => s.write_obj::<T>(from_bytes::<T>(&data), addr)).map(|_| data.len()), data.is_empty() || (addr < plen && n == data.len()))
                            }
                        };
                        self.expect_write(po + addr.min(plen), &data[..n]);
                        if res.is_ok() != exp_ok {
                            rec.fail("C04", &format!("{}/result", op), &format!("{} -> {:?}", line, res.as_ref().map_err(verr)));
                        }
                        if let (Ok(k), "s.write") = (&res, op) {
                            if *k != n {
                                rec.fail("C04", "s.write/count", &format!("{} got={} want={}", line, k, n));
                            }
                        }
                        match res {
                            Ok(k) => if op == "s.write" { format!("ok n={} {}", k, self.state()) } else { format!("ok {}", self.state()) },
                            Err(e) => format!("{} {}", verr(&e), self.state()),
                        }
                    }
                    "s.read" | "s.rslice" | "s.robj" => {
                        let addr = kv.us("addr");
                        let t = kv.s("t");
                        let len = if op == "s.robj" { ty_of(t).0 } else { kv.us("len") };
                        let n = if len == 0 || addr >= plen { 0 } else { len.min(plen - addr) };
                        let mut buf = vec![0u8; len];
                        let res: Result<usize, VolatileMemoryError> = match op {
                            "s.read" => s.read(&mut buf, addr),
                            "s.rslice" => s.read_slice(&mut buf, addr).map(|_| len),
                            _ => with_ty!(t, T => s.read_obj::<T>(addr).map(|v| { buf.copy_from_slice(ByteValued::as_slice(&v)); len })),
                        };
                        let exp_ok = len == 0 || (addr < plen && (op == "s.read" || n == len));
                        if res.is_ok() != exp_ok {
                            rec.fail("C04", &format!("{}/result", op), &format!("{} -> {:?}", line, res.as_ref().map_err(verr)));
                        }
                        match res {
                            Ok(k) => {
                                if k != n || buf[..k] != self.mirror[po + addr.min(plen)..][..k] {
                                    rec.fail("C04", &format!("{}/data", op), line);
                                }
                                format!("ok data={}", hex(&buf[..k]))
                            }
                            Err(e) => verr(&e),
                        }
                    }
                    "s.store" | "s.load" => {
                        let addr = kv.us("addr");
                        let t = kv.s("t");
                        let ts = ty_of(t).0;
                        let fits = addr as u128 + ts as u128 <= plen as u128 && (parent.0 + addr) % ts == 0;
                        if op == "s.store" {
                            let data = kv.bytes("data");
                            let res = with_atomic!(t, T => s.store::<T>(from_bytes::<T>(&data), addr, Ordering::SeqCst));
                            if res.is_ok() != fits {
                                rec.fail("C04", "s.store/result", line);
                            }
                            if res.is_ok() && (parent.0 + addr) % ts != 0 {
                                rec.fail("C06", "s.store/accepted-misaligned-address", line);
                            }
                            if fits {
                                self.expect_write(po + addr, &data[..ts]);
                            }
                            match res {
                                Ok(()) => format!("ok {}", self.state()),
                                Err(e) => format!("{} {}", verr(&e), self.state()),
                            }
                        } else {
                            let res = with_atomic!(t, T => s.load::<T>(addr, Ordering::SeqCst).map(|v| ByteValued::as_slice(&v).to_vec()));
                            if res.is_ok() != fits {
                                rec.fail("C04", "s.load/result", line);
                            }
                            if res.is_ok() && (parent.0 + addr) % ts != 0 {
                                rec.fail("C06", "s.load/accepted-misaligned-address", line);
                            }
                            match res {
                                Ok(v) => {
                                    if v[..] != self.mirror[po + addr..po + addr + ts] {
                                        rec.fail("C04", "s.load/data", line);
                                    }
                                    format!("ok data={}", hex(&v))
                                }
                                Err(e) => verr(&e),
                            }
                        }
                    }
                    "s.copyto" => {
                        let t = kv.s("t");
                        let ts = ty_of(t).0;
                        let blen = kv.us("blen");
                        let (n, bytes) = with_ty!(t, T => {
                            let mut buf: Vec<T> = (0..blen).map(|_| T::zeroed()).collect();
                            let n = s.copy_to::<T>(&mut buf[..]);
                            (n, elem_bytes(&buf, n))
                        });
                        if ts > 0 {
                            let want = blen.min(plen / ts);
                            if n != want || bytes[..] != self.mirror[po..po + want * ts] {
                                rec.fail("C04", "s.copyto/data", &format!("{} n={} want={}", line, n, want));
                            }
                        }
                        format!("ok n={} data={}", n, hex(&bytes))
                    }
                    "s.copyfrom" => {
                        let t = kv.s("t");
                        let ts = ty_of(t).0;
                        let blen = kv.us("blen");
                        let data = kv.bytes("data");
                        if ts > 0 {
                            let want = blen.min(plen / ts);
                            self.expect_write(po, &data[..want * ts]);
                        }
                        with_ty!(t, T => { let buf: Vec<T> = elems::<T>(blen, &data); s.copy_from::<T>(&buf[..]) });
                        format!("ok {}", self.state())
                    }
                    "s.cts" => {
                        let Some(Acc::Sl(dst)) = self.acc.get(&kv.n("dst")) else { return "bad-id".into() };
                        let dst = dst.clone();
                        let (dof, dlen) = (dst.ptr_guard().as_ptr() as usize - self.root, dst.len());
                        let n = plen.min(dlen);
                        let srcbytes = self.mirror[po..po + n].to_vec();
                        self.expect_write(dof, &srcbytes);
                        s.copy_to_volatile_slice(dst);
                        format!("ok {}", self.state())
                    }
                    "s.rvf" | "s.revf" | "s.wvt" | "s.wavt" => {
                        let addr = kv.us("addr");
                        let count = kv.us("count");
                        self.stream_op(rec, op, line, kv, &s, po, plen, addr, count)
                    }
                    _ => "bad-op".into(),
                }
            }
            Acc::Rf(r) => match op {
                "s.toslice" => {
                    let n = r.to_slice();
                    self.put_slice(rec, op, line, d, parent, n)
                }
                "s.guard" => {
                    let g = r.guard();
                    if g.1 != r.size() || g.3 != r.size() || g.0 != parent.0 || g.2 != parent.0 {
                        rec.fail("C17", "guard/ref", line);
                    }
                    format!("ok a={} n={}", g.0 - self.root, g.1)
                }
                "s.rstore" => {
                    let data = kv.bytes("data");
                    let ts = r.size();
                    r.store(&data);
                    self.expect_write(po, &data[..ts]);
                    format!("ok {}", self.state())
                }
                "s.rload" => {
                    let v = r.load();
                    if v[..] != self.mirror[po..po + r.size()] {
                        rec.fail("C04", "s.rload/data", line);
                    }
                    format!("ok data={}", hex(&v))
                }
                _ => "bad-op".into(),
            },
            Acc::Ar(a) => match op {
                "s.toslice" => {
                    let n = a.to_slice();
                    self.put_slice(rec, op, line, d, parent, n)
                }
                "s.guard" => {
                    let g = a.guard();
                    let bytes = a.nelem() * a.esize();
                    if g.0 != parent.0 || g.2 != parent.0 {
                        rec.fail("C17", "guard/array-ptr", line);
                    }
                    if g.1 != bytes || g.3 != bytes {
                        rec.fail("C17", "guard/array-len", &format!("{} guard_len={} bytes_covered={}", line, g.1, bytes));
                    }
                    format!("ok a={} n={}", g.0 - self.root, g.1)
                }
                "s.refat" => {
                    let i = kv.us("i");
                    let r = a.ref_at(i);
                    let es = a.esize();
                    let child = (r.addr(), r.size() as u128);
                    if !self.contained(rec, op, line, parent, child) {
                        return "dead".into();
                    }
                    if child.0 != parent.0 + i * es {
                        rec.fail("C04", "s.refat/position", line);
                    }
                    let out = format!("ok a={} n={}", child.0 - self.root, child.1);
                    self.acc.insert(d, Acc::Rf(r));
                    out
                }
                "s.astore" => {
                    let (i, data) = (kv.us("i"), kv.bytes("data"));
                    let es = a.esize();
                    if i < a.nelem() {
                        // record the expectation first: a panic below is then a genuine mismatch
                        let o = po + i * es;
                        let dd = data[..es].to_vec();
                        a.store(i, &data);
                        self.expect_write(o, &dd);
                    } else {
                        a.store(i, &data);
                    }
                    format!("ok {}", self.state())
                }
                "s.aload" => {
                    let i = kv.us("i");
                    let v = a.load(i);
                    if v[..] != self.mirror[po + i * a.esize()..][..a.esize()] {
                        rec.fail("C04", "s.aload/data", line);
                    }
                    format!("ok data={}", hex(&v))
                }
                "s.acopyto" => {
                    let blen = kv.us("blen");
                    let (n, bytes) = a.copy_to(blen);
                    let want = blen.min(a.nelem());
                    if n != want || bytes[..] != self.mirror[po..po + want * a.esize()] {
                        rec.fail("C04", "s.acopyto/data", &format!("{} n={} want={}", line, n, want));
                    }
                    format!("ok n={} data={}", n, hex(&bytes))
                }
                "s.acopyfrom" => {
                    let (blen, data) = (kv.us("blen"), kv.bytes("data"));
                    let want = blen.min(a.nelem()) * a.esize();
                    a.copy_from(blen, &data);
                    let dd = data[..want].to_vec();
                    self.expect_write(po, &dd);
                    format!("ok {}", self.state())
                }
                "s.acts" => {
                    let Some(Acc::Sl(dst)) = self.acc.get(&kv.n("dst")) else { return "bad-id".into() };
                    let dst = dst.clone();
                    let (dof, dlen) = (dst.ptr_guard().as_ptr() as usize - self.root, dst.len());
                    let n = plen.min(dlen);
                    let srcbytes = self.mirror[po..po + n].to_vec();
                    a.cts(dst);
                    self.expect_write(dof, &srcbytes);
                    format!("ok {}", self.state())
                }
                _ => "bad-op".into(),
            },
        }
    }

    #[allow(clippy::too_many_arguments)]
    fn stream_op(&mut self, rec: &mut Rec, op: &str, line: &str, kv: &Kv, s: &VolatileSlice<'static, B>, po: usize, plen: usize, addr: usize, count: usize) -> String {
        match op {
            "s.rvf" | "s.revf" => {
                let id = kv.n("rd");
                if !self.streams.rds.contains_key(&id) {
                    return "bad-id".into();
                }
                let before = self.mem().to_vec();
                let exact = op == "s.revf";
                // C13: the corresponding std::io operation on a twin stream with an ordinary buffer of the same length
                let win = if addr <= plen { if exact { count } else { (plen - addr).min(count) } } else { 0 };
                let twin = if addr <= plen && (!exact || addr.saturating_add(count) <= plen) { self.streams.rds.get_mut(&id).and_then(|r| r.std_twin(win, exact)) } else { None };
                let RdRes { res, consumed, left, failed_fd, pos } = self.streams.read_into(id, |src| {
                    if exact { s.read_exact_volatile_from(addr, src, count).map(|_| count) } else { s.read_volatile_from(addr, src, count) }.map_err(|e| verr(&e))
                });
                // oracle (C13/C14): bytes consumed from the reader are exactly the bytes now stored at
                // consecutive addresses from `addr`; nothing else changed
                let k = consumed.len();
                let start = po + addr.min(plen);
                let room = plen - addr.min(plen);
                if k > room.min(count) {
                    rec.fail("C14", &format!("{}/consumed-more-than-window", op), line);
                } else {
                    let kk = k;
                    let cons = consumed.clone();
                    self.expect_write(start, &cons[..kk]);
                    if failed_fd && self.page > 0 {
                        // documented exception: a failing descriptor read marks its whole target
                        let w = room.min(count);
                        if w > 0 {
                            let b = self.bmoff + start;
                            for p in b / self.page..=(b + w - 1) / self.page {
                                self.exp_dirty.insert(p);
                            }
                        }
                    }
                    let _ = before;
                }
                if let Some(t) = &twin {
                    rec.note("std_twin_reads");
                    let same = match &res {
                        // same count, same bytes and (cursors) the same stream position as std
                        Ok(n) => t.ok && (exact || *n == t.n) && consumed == t.bytes && t.pos.map(|p| p == pos).unwrap_or(true),
                        Err(e) => !t.ok && e.contains(&format!("io k={}", t.err_kind)),
                    };
                    if !same {
                        rec.fail("C13", &format!("{}/differs-from-std", op), &format!("{} crate={:?} consumed={} std_ok={} std_n={} std_kind={}", line, res, consumed.len(), t.ok, t.n, t.err_kind));
                    }
                }
                match &res {
                    Ok(n) => {
                        if !exact && *n != k {
                            rec.fail("C14", &format!("{}/count", op), &format!("{} returned={} consumed={}", line, n, k));
                        }
                        if exact && k != count {
                            rec.fail("C14", &format!("{}/ok-but-short", op), line);
                        }
                    }
                    Err(e) => {
                        if e.contains("k=3") {
                            rec.fail("C14", &format!("{}/eintr-reported", op), line);
                        }
                    }
                }
                match res {
                    Ok(n) => if exact { format!("ok {} left={}", self.state(), left) } else { format!("ok n={} {} left={}", n, self.state(), left) },
                    Err(e) => if exact { format!("{} {}", e, self.state()) } else { format!("{} {} left={}", e, self.state(), left) },
                }
            }
            _ => {
                let id = kv.n("wr");
                if !self.streams.wrs.contains_key(&id) {
                    return "bad-id".into();
                }
                let exact = op == "s.wavt";
                let wtwin = if addr <= plen && (!exact || addr.saturating_add(count) <= plen) {
                    let w = if exact { count } else { (plen - addr).min(count) };
                    let src = self.mirror[po + addr..po + addr + w].to_vec();
                    self.streams.wrs.get_mut(&id).and_then(|x| x.std_twin(&src, exact))
                } else { None };
                let (res, delivered) = self.streams.write_from(id, |dst| {
                    if exact { s.write_all_volatile_to(addr, dst, count).map(|_| count) } else { s.write_volatile_to(addr, dst, count) }.map_err(|e| verr(&e))
                });
                let start = po + addr.min(plen);
                let k = delivered.len();
                if start + k > self.mirror.len() || delivered[..] != self.mirror[start..start + k] {
                    rec.fail("C14", &format!("{}/delivered-not-next-bytes", op), line);
                }
                match &res {
                    Ok(n) => {
                        if !exact && *n != k {
                            rec.fail("C14", &format!("{}/count", op), line);
                        }
                        if exact && k != count {
                            rec.fail("C14", &format!("{}/ok-but-short", op), line);
                        }
                    }
                    Err(e) => {
                        if e.contains("k=3") {
                            rec.fail("C14", &format!("{}/eintr-reported", op), line);
                        }
                    }
                }
                let (sink, pos) = self.streams.sink_state(id);
                if let Some((tok, tn, tsink, tkind)) = &wtwin {
                    rec.note("std_twin_writes");
                    let same = match &res {
                        Ok(n) => *tok && (exact || n == tn) && sink == *tsink,
                        // after a failed write_all the sink contents are compared too (std writes the prefix as well)
                        Err(e) => !*tok && e.contains(&format!("io k={}", tkind)) && sink == *tsink,
                    };
                    if !same {
                        rec.fail("C13", &format!("{}/differs-from-std", op), &format!("{} crate={:?} std_ok={} std_n={} std_kind={}", line, res, tok, tn, tkind));
                    }
                }
                match res {
                    Ok(n) => if exact { format!("ok {} sink={} pos={}", self.state(), hex(&sink), pos) } else { format!("ok n={} {} sink={} pos={}", n, self.state(), hex(&sink), pos) },
                    Err(e) => format!("{} {} sink={} pos={}", e, self.state(), hex(&sink), pos),
                }
            }
        }
    }
}

/// does the op name no bytes? (C18)
fn is_zero_len(kv: &Kv) -> bool {
    match kv.op {
        "s.write" | "s.wslice" => kv.s("data").is_empty(),
        "s.read" | "s.rslice" => kv.us("len") == 0,
        "s.wobj" | "s.robj" | "s.copyto" | "s.copyfrom" => ty_of(kv.s("t")).0 == 0,
        _ => false,
    }
}

// ------------------------------------------------------------------------------------------
// generator
/// C01 for a third-party `VolatileMemory`: two separate host pieces presented as one memory whose `get_slice` hands out only
/// the contiguous part of a range that straddles the internal boundary (fewer bytes than asked — the documentation of
/// `get_slice` allows it and says the length "MUST NOT be relied on for the correctness of unsafe code").  The provided
/// typed accessors must then panic or fail; whatever they hand out must lie inside one piece.  Oracle-only probe; the
/// model of the provided methods over an arbitrary `get_slice` is `C01.typedVia` (`typedVia_within`).
pub fn third_party_probe(rec: &mut Rec) {
    use std::sync::atomic::AtomicU64;
    #[repr(align(64))]
    struct Backing([u8; 256]);
    struct TwoPieces { base: *mut u8, a: (usize, usize), b: (usize, usize) }
    impl VolatileMemory for TwoPieces {
        type B = ();
        fn len(&self) -> usize { self.a.1 + self.b.1 }
        fn get_slice(&self, offset: usize, count: usize) -> vm_memory::volatile_memory::Result<VolatileSlice<()>> {
            let end = offset.checked_add(count).ok_or(VolatileMemoryError::Overflow { base: offset, offset: count })?;
            if end > self.len() { return Err(VolatileMemoryError::OutOfBounds { addr: end }); }
            let (host, avail) = if offset < self.a.1 { (self.a.0 + offset, self.a.1 - offset) } else { (self.b.0 + offset - self.a.1, self.b.1 - (offset - self.a.1)) };
            Ok(unsafe { VolatileSlice::new(self.base.add(host), count.min(avail)) })
        }
    }
    for (alen, off, shapes) in [(16usize, 8usize, true), (12, 4, true), (24, 16, true), (16, 0, false)] {
        let mut back = Box::new(Backing([0x5a; 256]));
        let base = back.0.as_mut_ptr();
        let m = TwoPieces { base, a: (64, alen), b: (128, 40) };
        let inside = |p: usize, n: usize| { let o = p - base as usize; (o >= 64 && o + n <= 64 + alen) || (o >= 128 && o + n <= 168) };
        let mut bad: Vec<String> = vec![];
        let mut run = |what: &str, f: &mut dyn FnMut() -> Option<(usize, usize)>| {
            match guarded(|| f()) {
                None | Some(None) => {}
                Some(Some((p, n))) => if !inside(p, n) { bad.push(format!("{}: accessor [{}+{}) not inside one piece", what, p - base as usize, n)); }
            }
        };
        // requests that straddle the boundary (`shapes`) or lie in the first piece (control)
        run("get_ref<u64>", &mut || m.get_ref::<u64>(off + alen - 8 + if shapes { 4 } else { 0 }).ok().map(|r| { r.store(0x1111_1111_1111_1111); (r.ptr_guard().as_ptr() as usize, 8) }));
        run("get_array_ref<u32>", &mut || m.get_array_ref::<u32>(alen - 4, 3).ok().map(|r| { r.store(2, 0x2222_2222); (r.ptr_guard().as_ptr() as usize, 12) }));
        run("get_atomic_ref<AtomicU64>", &mut || m.get_atomic_ref::<AtomicU64>(alen - 8 + if shapes { 0 } else { 0 }).ok().map(|r| (r as *const _ as usize, 8)));
        run("get_atomic_ref<AtomicU64>@straddle", &mut || m.get_atomic_ref::<AtomicU64>(alen).ok().map(|r| (r as *const _ as usize, 8)));
        run("aligned_as_ref<u64>", &mut || unsafe { m.aligned_as_ref::<u64>(alen - 4) }.ok().map(|r| (r as *const _ as usize, 8)));
        run("aligned_as_mut<u32x>", &mut || unsafe { m.aligned_as_mut::<u32>(alen - 2) }.ok().map(|r| (r as *const _ as usize, 4)));
        // nothing outside the two pieces was written
        for (i, b) in back.0.iter().enumerate() {
            let in_piece = (64..64 + alen).contains(&i) || (128..168).contains(&i);
            if !in_piece && *b != 0x5a {
                bad.push(format!("byte {} of the backing buffer lies outside both pieces and was modified", i));
                break;
            }
        }
        for b in bad {
            rec.fail("C01", "third-party-memory/accessor-outside-its-slice", &b);
        }
    }
    rec.note("third_party_probes");
}

pub fn run<B: Flav>(rec: &mut Rec, rng: &mut Rng, n_ops: usize, with_streams: bool) {
    let mut w = SliceWorld::<B>::empty();
    let mut done = 0;
    while done < n_ops {
        rec.cases += 1;
        let size = match rng.below(10) {
            0 => 0,
            1 => 1 + rng.below(8) as usize,
            2 => 300,
            _ => rng.below(301) as usize,
        };
        let skew = rng.below(16) as usize;
        let page = if B::TRACKS { *rng.pick(&[1usize, 2, 3, 7, 64, 128, 4096, 1, 2, 5, 16, 301, 1000]) } else { 0 };
        let bmoff = if B::TRACKS && rng.chance(1, 3) { rng.below(200) as usize } else { 0 };
        let data = rng.bytes(size);
        let line = format!("s.new skew={} page={} bmoff={} flav={} data={} base={{BASE}}", skew, page, bmoff, B::NAME, hex(&data));
        // the model needs the real base address: it is known only after allocation
        let out = w.exec(rec, &line);
        let line = line.replace("{BASE}", &w.root.to_string());
        rec.push(line, out, true);
        let mut next_id = 1u64;
        let steps = 10 + rng.below(40);
        for _ in 0..steps {
            if w.dead {
                break;
            }
            done += 1;
            let ids: Vec<u64> = w.acc.keys().copied().collect();
            let mut ids = ids;
            ids.sort();
            let sid = if rng.chance(1, 4) { 0 } else { *rng.pick(&ids) };
            let (_, plen) = w.ext(sid).unwrap();
            let base_addr = w.root as u64;
            let marks = [plen as u64, size as u64, 8, page as u64, u64::MAX - base_addr, (u64::MAX - base_addr).wrapping_sub(plen as u64)];
            let kind = match w.acc.get(&sid).unwrap() { Acc::Sl(_) => 0, Acc::Rf(_) => 1, Acc::Ar(_) => 2 };
            let d = next_id;
            let small = |rng: &mut Rng| -> u64 { if rng.chance(4, 5) { rng.below(plen as u64 + 2) } else { rng.boundary(&marks) } };
            let t = rng.pick(TYPES).clone();
            let mut nt = false;
            let line = match kind {
                0 => {
                    let r = rng.below(100);
                    if r < 30 {
                        // derivations
                        let off = small(rng);
                        let cnt = if rng.chance(3, 4) { rng.below((plen as u64).saturating_sub(off.min(plen as u64)) + 2) } else { rng.boundary(&marks) };
                        nt = off.saturating_add(cnt) >= plen as u64 || off > plen as u64;
                        next_id += 2;
                        match rng.below(9) {
                            0 | 1 => format!("s.sub d={} s={} off={} cnt={}", d, sid, off, cnt),
                            2 => format!("s.gsl d={} s={} off={} cnt={}", d, sid, off, cnt),
                            3 => format!("s.off d={} s={} cnt={}", d, sid, off),
                            4 => format!("s.split d={} d2={} s={} mid={}", d, d + 1, sid, off),
                            5 => format!("s.ref d={} s={} off={} t={} ts={} ta={}", d, sid, off, t.0, t.1, t.2),
                            6 | 7 => {
                                let n = if rng.chance(3, 4) { rng.below(plen as u64 / t.1.max(1) as u64 + 2) } else { rng.boundary(&[isize::MAX as u64, isize::MAX as u64 / t.1.max(1) as u64, plen as u64]) };
                                format!("s.arr d={} s={} off={} n={} t={} ts={} ta={}", d, sid, off, n, t.0, t.1, t.2)
                            }
                            _ => format!("s.s2a d={} s={}", d, sid),
                        }
                    } else if r < 36 {
                        let off = small(rng);
                        nt = true;
                        if rng.chance(1, 2) {
                            let a = rng.pick(ATOMICS).clone();
                            format!("s.aref s={} off={} t={} ts={} ta={} how=atomic", sid, off, a.0, a.1, a.1)
                        } else {
                            format!("s.aref s={} off={} t={} ts={} ta={} how=ref", sid, off, t.0, t.1, t.2)
                        }
                    } else if r < 38 {
                        format!("s.guard s={}", sid)
                    } else if r < 39 {
                        nt = true;
                        let off = small(rng);
                        let len = if rng.chance(3, 4) { t.1 as u64 } else { rng.below(20) };
                        format!("s.bv s={} off={} len={} t={} ts={} ta={}", sid, off, len, t.0, t.1, t.2)
                    } else if r < 62 {
                        // buffer / object writes & reads
                        let addr = small(rng);
                        let len = match rng.below(6) { 0 => 0, 1 => rng.below(9), 2 => 8 + rng.below(3), _ => rng.below(plen as u64 + 6) } as usize;
                        nt = (addr as usize).saturating_add(len) >= plen || len <= 9;
                        let data = rng.bytes(len);
                        match rng.below(7) {
                            0 | 1 => format!("s.write s={} addr={} data={}", sid, addr, hex(&data)),
                            2 => format!("s.wslice s={} addr={} data={}", sid, addr, hex(&data)),
                            3 => format!("s.wobj s={} addr={} t={} ts={} ta={} data={}", sid, addr, t.0, t.1, t.2, hex(&rng.bytes(t.1))),
                            4 => format!("s.read s={} addr={} len={}", sid, addr, len),
                            5 => format!("s.rslice s={} addr={} len={}", sid, addr, len),
                            _ => format!("s.robj s={} addr={} t={} ts={} ta={}", sid, addr, t.0, t.1, t.2),
                        }
                    } else if r < 72 {
                        let a = rng.pick(ATOMICS).clone();
                        // mostly aligned addresses
                        let mut addr = small(rng);
                        if rng.chance(3, 4) {
                            let abs = base_addr.wrapping_add(w.ext(sid).unwrap().0 as u64).wrapping_add(addr);
                            addr = addr.wrapping_sub(abs % a.1 as u64);
                            if addr > u64::MAX / 2 { addr = 0; }
                        }
                        nt = true;
                        if rng.chance(1, 2) {
                            format!("s.store s={} addr={} t={} ts={} ta={} data={}", sid, addr, a.0, a.1, a.1, hex(&rng.bytes(a.1)))
                        } else {
                            format!("s.load s={} addr={} t={} ts={} ta={}", sid, addr, a.0, a.1, a.1)
                        }
                    } else if r < 82 {
                        let blen = rng.below(plen as u64 / t.1.max(1) as u64 + 3).min(400) as usize;
                        nt = true;
                        if rng.chance(1, 2) {
                            format!("s.copyto s={} t={} ts={} ta={} blen={}", sid, t.0, t.1, t.2, blen)
                        } else {
                            format!("s.copyfrom s={} t={} ts={} ta={} blen={} data={}", sid, t.0, t.1, t.2, blen, hex(&rng.bytes(blen * t.1)))
                        }
                    } else if r < 90 {
                        let sl: Vec<u64> = ids.iter().copied().filter(|i| matches!(w.acc.get(i), Some(Acc::Sl(_)))).collect();
                        nt = true;
                        format!("s.cts s={} dst={}", sid, rng.pick(&sl))
                    } else if r < 93 {
                        "s.bmreset".to_string()
                    } else if with_streams {
                        nt = true;
                        let addr = small(rng);
                        let count = if rng.chance(4, 5) { rng.below(plen as u64 + 4) } else { rng.boundary(&marks) };
                        crate::streams::gen_stream_ops(rec, rng, &mut |rec, l| { let o = w.exec(rec, &l); rec.push(l, o, true); }, "s", &format!("s={} addr={}", sid, addr), count)
                    } else {
                        format!("s.guard s={}", sid)
                    }
                }
                1 => {
                    nt = true;
                    match rng.below(5) {
                        0 => { next_id += 1; format!("s.toslice d={} s={}", d, sid) }
                        1 => format!("s.guard s={}", sid),
                        2 | 3 => format!("s.rstore s={} data={}", sid, hex(&rng.bytes(plen))),
                        _ => format!("s.rload s={}", sid),
                    }
                }
                _ => {
                    let (nelem, es) = match w.acc.get(&sid).unwrap() { Acc::Ar(a) => (a.nelem(), a.esize()), _ => (0, 0) };
                    let i = if rng.chance(9, 10) { rng.below(nelem as u64 + 0).min(nelem.saturating_sub(1) as u64) } else { rng.boundary(&[nelem as u64]) };
                    let i = if nelem == 0 && rng.chance(9, 10) { u64::MAX } else { i };
                    nt = true;
                    match rng.below(9) {
                        0 => { next_id += 1; format!("s.toslice d={} s={}", d, sid) }
                        1 => format!("s.guard s={}", sid),
                        2 if i != u64::MAX => { next_id += 1; format!("s.refat d={} s={} i={}", d, sid, i) }
                        3 if i != u64::MAX => format!("s.astore s={} i={} data={}", sid, i, hex(&rng.bytes(es))),
                        4 if i != u64::MAX => format!("s.aload s={} i={}", sid, i),
                        5 => { let blen = rng.below(nelem as u64 + 3).min(400); format!("s.acopyto s={} blen={}", sid, blen) }
                        6 | 7 => { let blen = rng.below(nelem as u64 + 3).min(400) as usize; format!("s.acopyfrom s={} blen={} data={}", sid, blen, hex(&rng.bytes(blen * es))) }
                        _ => {
                            let sl: Vec<u64> = ids.iter().copied().filter(|i| matches!(w.acc.get(i), Some(Acc::Sl(_)))).collect();
                            format!("s.acts s={} dst={}", sid, rng.pick(&sl))
                        }
                    }
                }
            };
            if line.is_empty() {
                continue;
            }
            let out = w.exec(rec, &line);
            rec.push(line, out, nt);
        }
    }
}
