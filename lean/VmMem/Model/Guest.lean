/-
  VmMem.Model.Guest — guest_memory.rs (provided methods of `GuestMemoryRegion` and
  `GuestMemory`, `try_access`, `Bytes<GuestAddress> for T: GuestMemory`) and
  mmap/mod.rs (`GuestRegionMmap`, `GuestMemoryMmap::{find_region, from_arc_regions,
  insert_region, remove_region}`).
-/
import VmMem.Model.Io
namespace VmMem

/-- `GuestRegionMmap { mapping, guest_base }`.  `id` is the identity of the
    underlying mapping (used by C10/C12: which mapping a handle reaches). -/
structure Region where
  start : Nat
  mem : Mem
  id : Nat := 0
  deriving Repr, DecidableEq

abbrev GMem := List Region

namespace Region
def len (r : Region) : Nat := r.mem.bytes.length

/-- `GuestRegionMmap::new`: `guest_base.0.checked_add(mapping.size() as u64)` -/
def new (start : Nat) (mem : Mem) (id : Nat := 0) : Option Region :=
  match checkedAdd start mem.bytes.length with
  | none => none
  | some _ => some { start := start, mem := mem, id := id }

/-- `last_addr`: `self.start_addr().unchecked_add(self.len() - 1)` — plain `-` and `+` -/
def lastAddr (r : Region) : Res Nat := do
  let l ← subP r.len 1
  addP r.start l

/-- `address_in_range` -/
def addressInRange (r : Region) (a : Nat) : Bool := a < r.len
/-- `check_address` -/
def checkAddress (r : Region) (a : Nat) : Option Nat := if r.addressInRange a then some a else none
/-- `checked_offset(base, offset)` -/
def checkedOffset (r : Region) (base off : Nat) : Option Nat :=
  (checkedAdd base off).bind r.checkAddress
/-- `to_region_addr(addr)`: `addr.checked_offset_from(start)` then `check_address` -/
def toRegionAddr (r : Region) (a : Nat) : Option Nat :=
  (checkedSub a r.start).bind r.checkAddress

/-- `GuestRegionMmap::get_slice(offset, count)` = `MmapRegion::get_slice` -/
def getSlice (r : Region) (off cnt : Nat) : Res VSlice :=
  (r.mem.root.subslice off cnt).mapErr Res.toGuestErr
/-- `as_volatile_slice()` = `get_slice(0, len)` -/
def asVolatileSlice (r : Region) : Res VSlice := r.getSlice 0 r.len
/-- `get_host_address(addr)`: `check_address` then `as_ptr().wrapping_offset(addr)` -/
def getHostAddress (r : Region) (a : Nat) : Res Nat :=
  match r.checkAddress a with
  | none => .err .invalidBackendAddress
  | some a => .ok (r.mem.base + a)

/-! `Bytes<MemoryRegionAddress> for GuestRegionMmap`: `self.as_volatile_slice().unwrap()`
    then the `VolatileSlice` method, `map_err(Into::into)`. -/
def write (r : Region) (buf : List UInt8) (a : Nat) : Res (Region × Nat) := do
  let s ← Res.unwrapRes r.asVolatileSlice
  let (m', n) ← (s.write r.mem buf a).mapErr Res.toGuestErr
  pure ({ r with mem := m' }, n)
def read (r : Region) (len : Nat) (a : Nat) : Res (List UInt8) := do
  let s ← Res.unwrapRes r.asVolatileSlice
  (s.read r.mem len a).mapErr Res.toGuestErr
def writeSlice (r : Region) (buf : List UInt8) (a : Nat) : Region × Res Unit :=
  match Res.unwrapRes r.asVolatileSlice with
  | .ok s => let (m', x) := s.writeSlice r.mem buf a; ({ r with mem := m' }, x.mapErr Res.toGuestErr)
  | _ => (r, .panic)
def readSlice (r : Region) (len : Nat) (a : Nat) : Res (List UInt8) := do
  let s ← Res.unwrapRes r.asVolatileSlice
  (s.readSlice r.mem len a).mapErr Res.toGuestErr
/-- `store`: `self.as_volatile_slice().and_then(|s| s.store(..).map_err(Into::into))` -/
def store (r : Region) (val : List UInt8) (t : Ty) (a : Nat) : Res Region := do
  let s ← r.asVolatileSlice
  let m' ← (s.store r.mem val t a).mapErr Res.toGuestErr
  pure { r with mem := m' }
def load (r : Region) (t : Ty) (a : Nat) : Res (List UInt8) := do
  let s ← r.asVolatileSlice
  (s.load r.mem t a).mapErr Res.toGuestErr
def readVolatileFrom (r : Region) (a : Nat) (src : Reader) (count : Nat) : Region × Reader × Res Nat :=
  match Res.unwrapRes r.asVolatileSlice with
  | .ok s => let (m', src', x) := s.readVolatileFrom r.mem a src count
             ({ r with mem := m' }, src', x.mapErr Res.toGuestErr)
  | _ => (r, src, .panic)
def readExactVolatileFrom (r : Region) (a : Nat) (src : Reader) (count : Nat) : Region × Reader × Res Unit :=
  match Res.unwrapRes r.asVolatileSlice with
  | .ok s => let (m', src', x) := s.readExactVolatileFrom r.mem a src count
             ({ r with mem := m' }, src', x.mapErr Res.toGuestErr)
  | _ => (r, src, .panic)
def writeVolatileTo (r : Region) (a : Nat) (dst : Writer) (count : Nat) : Writer × Res Nat :=
  match Res.unwrapRes r.asVolatileSlice with
  | .ok s => let (w', x) := s.writeVolatileTo r.mem a dst count; (w', x.mapErr Res.toGuestErr)
  | _ => (dst, .panic)
def writeAllVolatileTo (r : Region) (a : Nat) (dst : Writer) (count : Nat) : Writer × Res Unit :=
  match Res.unwrapRes r.asVolatileSlice with
  | .ok s => let (w', x) := s.writeAllVolatileTo r.mem a dst count; (w', x.mapErr Res.toGuestErr)
  | _ => (dst, .panic)
end Region

namespace GMem

/-- contract of `slice::binary_search_by_key(&key, |x| x.start_addr())` on a slice
    strictly sorted by key: `Ok(i)` iff `key[i] = k`, else `Err(#keys < k)`. -/
def bsearch (m : GMem) (a : Nat) : Except Nat Nat :=
  match m.findIdx? (fun r => r.start == a) with
  | some i => .ok i
  | none => .error (m.countP (fun r => r.start < a))

/-- `GuestMemoryMmap::find_region`, as the index of the region.
    `self.regions[x - 1]` is an indexing operation and `last_addr` has plain arithmetic. -/
def findRegion (m : GMem) (a : Nat) : Res (Option Nat) :=
  match bsearch m a with
  | .ok i => .ok (some i)
  | .error x =>
    if x > 0 then
      match m[x - 1]? with
      | none => .panic
      | some r => do
        let la ← r.lastAddr
        if a ≤ la then pure (some (x - 1)) else pure none
    else .ok none

def numRegions (m : GMem) : Nat := m.length

/-- `last_addr`: fold of `max` over the regions' `last_addr`, starting from 0 -/
def lastAddr (m : GMem) : Res Nat :=
  m.foldlM (fun acc r => do let la ← r.lastAddr; pure (max acc la)) 0

/-- `to_region_addr`: `find_region(addr).map(|r| (r, r.to_region_addr(addr).unwrap()))` -/
def toRegionAddr (m : GMem) (a : Nat) : Res (Option (Nat × Nat)) := do
  match ← m.findRegion a with
  | none => pure none
  | some i =>
    match m[i]? with
    | none => .panic
    | some r => do
      let ra ← Res.unwrap (r.toRegionAddr a)
      pure (some (i, ra))

def addressInRange (m : GMem) (a : Nat) : Res Bool := do
  pure (← m.findRegion a).isSome
def checkAddress (m : GMem) (a : Nat) : Res (Option Nat) := do
  pure ((← m.findRegion a).map (fun _ => a))
def checkedOffset (m : GMem) (base off : Nat) : Res (Option Nat) :=
  match checkedAdd base off with
  | none => .ok none
  | some a => m.checkAddress a

/-- `get_host_address` -/
def getHostAddress (m : GMem) (a : Nat) : Res Nat := do
  match ← m.toRegionAddr a with
  | none => .err (.invalidGuestAddress a)
  | some (i, ra) => match m[i]? with | none => .panic | some r => r.getHostAddress ra

/-- `get_slice(addr, count)`: region index and the slice -/
def getSlice (m : GMem) (a cnt : Nat) : Res (Nat × VSlice) := do
  match ← m.toRegionAddr a with
  | none => .err (.invalidGuestAddress a)
  | some (i, ra) => match m[i]? with
    | none => .panic
    | some r => do let s ← r.getSlice ra cnt; pure (i, s)

/-! ### `try_access` -/

/-- The loop of `try_access(count, addr, f)`.  The callback receives
    `(total, len, region_addr, region_index)` together with the memory and a user
    state `σ` (the stream, for the stream forms) and returns the updated memory /
    state and its result.  The memory and state are returned in every outcome
    because an error can surface after earlier iterations already moved data. -/
def tryAccessLoop {σ : Type} (f : GMem → σ → Nat → Nat → Nat → Nat → GMem × σ × Res Nat)
    (count addr : Nat) (m : GMem) (st : σ) (cur total : Nat) : GMem × σ × Res Nat :=
  match m.findRegion cur with
  | .panic => (m, st, .panic)
  | .err e => (m, st, .err e)
  | .ok none => if total = 0 then (m, st, .err (.invalidGuestAddress addr)) else (m, st, .ok total)
  | .ok (some idx) =>
    match m[idx]? with
    | none => (m, st, .panic)
    | some region =>
      -- `let start = region.to_region_addr(cur).unwrap();`
      match region.toRegionAddr cur with
      | none => (m, st, .panic)
      | some start =>
        -- `let cap = region.len() - start.raw_value();`  `count - total`
        if region.len < start ∨ count < total then (m, st, .panic)
        else
          let cap := region.len - start
          let len := min cap (count - total)
          match f m st total len start idx with
          | (m', st', .ok 0) => (m', st', .ok total)            -- "no more data"
          | (m', st', .ok (k + 1)) =>                            -- "made some progress"
            let n := k + 1
            -- `total.checked_add(len)`: `Some(x) if x < count`, `Some(x) if x == count`, else error
            if total + n < U then
              let x := total + n
              if x < count then
                -- `cur.overflowing_add(len)`: `(x, false) => x`, `(GuestAddress(0), true) => break` (the range reaches
                -- the top of the address space: nothing follows; fix dfb8366 — before it the loop went on at address 0),
                -- `(_, true) => Err(GuestAddressOverflow)`
                let (c', ovf) := overflowingAdd cur n
                if ovf = false then tryAccessLoop f count addr m' st' c' x
                else if c' = 0 then (m', st', .ok x)
                else (m', st', .err .guestAddressOverflow)
              else if x = count then (m', st', .ok x)
              else (m', st', .err .callbackOutOfRange)
            else (m', st', .err .callbackOutOfRange)
          | (m', st', .err e) => (m', st', .err e)
          | (m', st', .panic) => (m', st', .panic)
termination_by count - total
decreasing_by omega

/-- `try_access(count, addr, f)`: `if count == 0 { return Ok(0) }` (an access of zero bytes
    touches no memory and succeeds at any address — added by the `fix:` commit for defect D1;
    before it the loop below fell through to `InvalidGuestAddress` at unmapped addresses),
    then the loop. -/
def tryAccess {σ : Type} (f : GMem → σ → Nat → Nat → Nat → Nat → GMem × σ × Res Nat)
    (m : GMem) (st : σ) (count addr : Nat) : GMem × σ × Res Nat :=
  if count = 0 then (m, st, .ok 0) else tryAccessLoop f count addr m st addr 0

/-- replace region `i` -/
def setRegion (m : GMem) (i : Nat) (r : Region) : GMem := m.set i r

/-- `check_range(base, len)`: `try_access(len, base, |_, count, _, _| Ok(count))` -/
def checkRange (m : GMem) (base len : Nat) : Res Bool :=
  match tryAccess (fun m (_ : Unit) _ len _ _ => (m, (), .ok len)) m () len base with
  | (_, _, .ok n) => .ok (n == len)
  | (_, _, .err _) => .ok false
  | (_, _, .panic) => .panic

/-- `write(buf, addr)`: callback `region.write(&buf[offset..], caddr)` -/
def write (m : GMem) (buf : List UInt8) (addr : Nat) : GMem × Res Nat :=
  let r := tryAccess (fun m (_ : Unit) total _len start idx =>
      if total > buf.length then (m, (), .panic)      -- `&buf[offset..]`
      else match m[idx]? with
        | none => (m, (), .panic)
        | some reg =>
          match reg.write (buf.drop total) start with
          | .ok (reg', n) => (m.setRegion idx reg', (), .ok n)
          | .err e => (m, (), .err e)
          | .panic => (m, (), .panic)) m () buf.length addr
  (r.1, r.2.2)

/-- `read(buf, addr)`: the bytes placed at the front of `buf` -/
def read (m : GMem) (len : Nat) (addr : Nat) : Res (List UInt8) :=
  let r := tryAccess (fun m (acc : List UInt8) total _len start idx =>
      if total > len then (m, acc, .panic)
      else match m[idx]? with
        | none => (m, acc, .panic)
        | some reg =>
          match reg.read (len - total) start with
          | .ok d => (m, acc ++ d, .ok d.length)
          | .err e => (m, acc, .err e)
          | .panic => (m, acc, .panic)) m [] len addr
  match r.2.2 with
  | .ok _ => .ok r.2.1
  | .err e => .err e
  | .panic => .panic

def writeSlice (m : GMem) (buf : List UInt8) (addr : Nat) : GMem × Res Unit :=
  match m.write buf addr with
  | (m', .ok n) => if n ≠ buf.length then (m', .err (.partialBuffer buf.length n)) else (m', .ok ())
  | (m', .err e) => (m', .err e)
  | (m', .panic) => (m', .panic)

def readSlice (m : GMem) (len : Nat) (addr : Nat) : Res (List UInt8) := do
  let d ← m.read len addr
  if d.length ≠ len then .err (.partialBuffer len d.length) else pure d

def writeObj (m : GMem) (val : List UInt8) (addr : Nat) : GMem × Res Unit := m.writeSlice val addr
def readObj (m : GMem) (t : Ty) (addr : Nat) : Res (List UInt8) := m.readSlice t.size addr

/-- `store`: `to_region_addr(addr).ok_or(InvalidGuestAddress).and_then(|(r, a)| r.store(..))` -/
def store (m : GMem) (val : List UInt8) (t : Ty) (addr : Nat) : Res GMem := do
  match ← m.toRegionAddr addr with
  | none => .err (.invalidGuestAddress addr)
  | some (i, ra) => match m[i]? with
    | none => .panic
    | some r => do let r' ← r.store val t ra; pure (m.setRegion i r')

def load (m : GMem) (t : Ty) (addr : Nat) : Res (List UInt8) := do
  match ← m.toRegionAddr addr with
  | none => .err (.invalidGuestAddress addr)
  | some (i, ra) => match m[i]? with
    | none => .panic
    | some r => r.load t ra

/-- `read_volatile_from(addr, src, count)` -/
def readVolatileFrom (m : GMem) (addr : Nat) (src : Reader) (count : Nat) : GMem × Reader × Res Nat :=
  tryAccess (fun m src _total len start idx =>
      match m[idx]? with
      | none => (m, src, .panic)
      | some reg =>
        let (reg', src', x) := reg.readVolatileFrom start src len
        (m.setRegion idx reg', src', x)) m src count addr

def readExactVolatileFrom (m : GMem) (addr : Nat) (src : Reader) (count : Nat) : GMem × Reader × Res Unit :=
  match m.readVolatileFrom addr src count with
  | (m', s', .ok n) => if n ≠ count then (m', s', .err (.partialBuffer count n)) else (m', s', .ok ())
  | (m', s', .err e) => (m', s', .err e)
  | (m', s', .panic) => (m', s', .panic)

/-- `write_volatile_to`: callback `region.write_all_volatile_to(caddr, dst, len).map(|()| len)` -/
def writeVolatileTo (m : GMem) (addr : Nat) (dst : Writer) (count : Nat) : Writer × Res Nat :=
  let r := tryAccess (fun m dst _total len start idx =>
      match m[idx]? with
      | none => (m, dst, .panic)
      | some reg =>
        match reg.writeAllVolatileTo start dst len with
        | (w', .ok ()) => (m, w', .ok len)
        | (w', .err e) => (m, w', .err e)
        | (w', .panic) => (m, w', .panic)) m dst count addr
  (r.2.1, r.2.2)

def writeAllVolatileTo (m : GMem) (addr : Nat) (dst : Writer) (count : Nat) : Writer × Res Unit :=
  match m.writeVolatileTo addr dst count with
  | (w', .ok n) => if n ≠ count then (w', .err (.partialBuffer count n)) else (w', .ok ())
  | (w', .err e) => (w', .err e)
  | (w', .panic) => (w', .panic)

/-! ### building and editing the map (mmap/mod.rs) -/

inductive MapErr | noMemoryRegion | unsorted | overlap | invalidGuestRegion
  deriving Repr, DecidableEq

/-- the `windows(2)` validation loop of `from_arc_regions` -/
def validatePairs : GMem → Res (Option MapErr)
  | [] => .ok none
  | [_] => .ok none
  | prev :: next :: rest =>
    if prev.start > next.start then .ok (some .unsorted)
    else do
      let la ← prev.lastAddr
      if la ≥ next.start then pure (some .overlap)
      else validatePairs (next :: rest)

/-- `from_arc_regions` -/
def fromRegions (rs : GMem) : Res (Except MapErr GMem) :=
  if rs.isEmpty then .ok (.error .noMemoryRegion)
  else do
    match ← validatePairs rs with
    | some e => pure (.error e)
    | none => pure (.ok rs)

/-- stable insertion of `r` into a list sorted by `start` (what `push` + stable
    `sort_by_key` yields when the prefix was already sorted): after every
    element whose start is ≤ `r.start`. -/
def insertSorted (r : Region) : GMem → GMem
  | [] => [r]
  | x :: xs => if x.start ≤ r.start then x :: insertSorted r xs else r :: x :: xs

/-- `insert_region` -/
def insertRegion (m : GMem) (r : Region) : Res (Except MapErr GMem) :=
  fromRegions (insertSorted r m)

/-- `remove_region(base, size)` -/
def removeRegion (m : GMem) (base size : Nat) : Except MapErr (GMem × Region) :=
  match bsearch m base with
  | .ok i =>
    match m[i]? with
    | some r => if r.len = size then .ok (m.eraseIdx i, r) else .error .invalidGuestRegion
    | none => .error .invalidGuestRegion
  | .error _ => .error .invalidGuestRegion

end GMem
end VmMem
