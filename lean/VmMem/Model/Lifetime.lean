/-
  VmMem.Model.Lifetime — ownership of mappings (mmap/unix.rs `Drop for MmapRegion`,
  `Arc<GuestRegionMmap>` inside `GuestMemoryMmap`, clones, removed-region handles,
  snapshots of `GuestMemoryAtomic`).

  A *handle* is anything that owns `Arc` references to regions: a region value, a map, a clone
  of a map, a removed-region handle, a snapshot.  The `Arc` contract: the region (and with it
  its `MmapRegion`) is dropped exactly when its last reference goes away; `Drop for
  MmapRegion` calls `munmap(addr, size)` iff `owned`.
-/
import VmMem.Model.Basic
namespace VmMem
namespace Lifetime

structure Mapping where
  rid : Nat
  owned : Bool          -- false: built around an externally provided pointer (`build_raw`)
  mapped : Bool         -- is the range still mapped (from the library's point of view)
  unmaps : Nat          -- how many times the library called munmap on it
  deriving Repr, DecidableEq

structure Handle where
  hid : Nat
  refs : List Nat       -- region ids this handle holds an `Arc` reference to
  deriving Repr, DecidableEq

structure St where
  maps : List Mapping := []
  handles : List Handle := []
  deriving Repr, DecidableEq

inductive Op where
  | create (hid rid : Nat) (owned : Bool)        -- mmap / build_raw + wrap into a region handle
  | build (hid : Nat) (parts : List Nat)         -- from_regions: consumes the listed region handles
  | insert (hid src reg : Nat)                   -- insert_region: new map = clone of src's Arcs + the region's (consumed)
  | remove (hid hreg src rid : Nat)              -- remove_region: new map without rid, plus a handle on rid
  | clone (hid src : Nat)                        -- map.clone() / guard.clone() / memory()
  | drop (hid : Nat)
  deriving Repr, DecidableEq

def refcount (s : St) (rid : Nat) : Nat := (s.handles.map fun h => h.refs.count rid).sum

def findH (s : St) (hid : Nat) : Option Handle := s.handles.find? (·.hid == hid)
def removeH (s : St) (hid : Nat) : List Handle := s.handles.filter (·.hid != hid)

/-- after some references went away: every owned mapping that is still mapped but no longer
    referenced is unmapped (exactly once); external mappings are left alone -/
def collect (s : St) : St :=
  { s with maps := s.maps.map fun m =>
      if m.mapped && m.owned && refcount s m.rid == 0 then { m with mapped := false, unmaps := m.unmaps + 1 } else m }

def fresh (s : St) (hid : Nat) : Bool := (findH s hid).isNone

def step (s : St) (op : Op) : St :=
  match op with
  | .create hid rid owned =>
    if fresh s hid && (s.maps.find? (·.rid == rid)).isNone then
      { maps := s.maps ++ [{ rid := rid, owned := owned, mapped := true, unmaps := 0 }],
        handles := s.handles ++ [{ hid := hid, refs := [rid] }] }
    else s
  | .build hid parts =>
    if fresh s hid && parts.all (fun p => (findH s p).isSome) && parts.Nodup then
      let refs := parts.flatMap fun p => ((findH s p).map (·.refs)).getD []
      { s with handles := (s.handles.filter fun h => !parts.contains h.hid) ++ [{ hid := hid, refs := refs }] }
    else s
  | .insert hid src reg =>
    match findH s src, findH s reg with
    | some hs, some hr =>
      if fresh s hid && src != reg then
        { s with handles := (removeH s reg) ++ [{ hid := hid, refs := hs.refs ++ hr.refs }] }
      else s
    | _, _ => s
  | .remove hid hreg src rid =>
    match findH s src with
    | some hs =>
      if fresh s hid && fresh s hreg && hid != hreg && hs.refs.contains rid then
        { s with handles := s.handles ++ [{ hid := hid, refs := hs.refs.erase rid }, { hid := hreg, refs := [rid] }] }
      else s
    | none => s
  | .clone hid src =>
    match findH s src with
    | some hs => if fresh s hid then { s with handles := s.handles ++ [{ hid := hid, refs := hs.refs }] } else s
    | none => s
  | .drop hid => collect { s with handles := removeH s hid }

def run (s : St) (ops : List Op) : St := ops.foldl step s

end Lifetime
end VmMem
