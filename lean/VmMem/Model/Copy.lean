/-
  VmMem.Model.Copy — `copy_slice_impl` in volatile_memory.rs: `alignment`,
  `copy_slice_volatile` (the plan of primitive volatile accesses) and `copy_slice`
  (threshold `total <= size_of::<usize>()`).
-/
import VmMem.Model.Basic
namespace VmMem

/-- `alignment(addr) = addr & (!addr + 1)` on a 64-bit word -/
def alignment (a : BitVec 64) : BitVec 64 := a &&& (~~~a + 1)

/-- one primitive access: `width` bytes at byte offset `off` from the start of both buffers -/
structure Access where
  width : Nat
  off : Nat
  deriving Repr, DecidableEq

/-- the `while left >= min_align` loop of the closure `copy_aligned_slice`:
    copy one unit, `left -= min_align`, advance both pointers.
    State: bytes left and current offset.  Returns the accesses and the new state. -/
def copyLoop (w left off : Nat) : List Access × Nat × Nat :=
  if _h : left ≥ w ∧ w > 0 then
    let r := copyLoop w (left - w) (off + w)
    (⟨w, off⟩ :: r.1, r.2.1, r.2.2)
  else ([], left, off)
termination_by left
decreasing_by omega

/-- one call `copy_aligned_slice(min_align)`: `if align < min_align { return }` then the loop -/
def copyPass (align w left off : Nat) : List Access × Nat × Nat :=
  if align < w then ([], left, off) else copyLoop w left off

/-- `copy_slice_volatile(dst, src, total)`: the list of accesses, in order -/
def copyPlan (src dst : BitVec 64) (total : Nat) : List Access :=
  let align := min (alignment src).toNat (alignment dst).toNat
  let p8 := copyPass align 8 total 0
  let p4 := copyPass align 4 p8.2.1 p8.2.2
  let p2 := copyPass align 2 p4.2.1 p4.2.2
  let p1 := copyPass align 1 p2.2.1 p2.2.2
  p8.1 ++ p4.1 ++ p2.1 ++ p1.1

/-- what `copy_slice` does: a volatile plan for `total ≤ 8`, else one bulk
    `copy_nonoverlapping` (encoded as a single access of width `total`, flagged) -/
inductive CopyTrace where
  | volatile (accs : List Access)
  | bulk (total : Nat)
  deriving Repr, DecidableEq

def copySliceTrace (src dst : BitVec 64) (total : Nat) : CopyTrace :=
  if total ≤ 8 then .volatile (copyPlan src dst total) else .bulk total

end VmMem
