/-
  VmMem.Model.Construct — construction of mapped regions: mmap/mod.rs `check_file_offset`,
  mmap/unix.rs `MmapRegionBuilder::{build, build_raw}`, `GuestRegionMmap::new`, and the
  request validation of mmap/xen.rs (`MmapRegion::from_range`, `MmapXenFlags::{from_bits,
  is_valid}`, `validate_file`).  The kernel is a parameter: `mmap` either fails or returns
  the address of a fresh mapping of exactly the requested size/prot/flags/fd/offset.
-/
import VmMem.Model.Basic
namespace VmMem
namespace Construct

def MAP_FIXED : Nat := 0x10
def MAP_SHARED : Nat := 0x01

inductive BErr where
  | invalidOffsetLength | invalidPointer | mapFixed | mappingPastEof
  | mmapFailed | invalidGuestRegion
  | invalidFileOffset | mmapFlags (w : Nat) | ioctlFailed
  deriving Repr, DecidableEq

/-- a backing file as the builder sees it: its length and the requested start offset -/
structure FileReq where
  fileLen : Nat
  start : Nat
  deriving Repr, DecidableEq

structure BuildReq where
  size : Nat
  prot : Nat
  flags : Nat
  file : Option FileReq
  rawPtr : Option Nat
  deriving Repr, DecidableEq

/-- the region that was built: what its accessors report -/
structure Built where
  addr : Nat
  size : Nat
  prot : Nat
  flags : Nat
  fileStart : Option Nat
  owned : Bool
  deriving Repr, DecidableEq

/-- `check_file_offset(file_offset, size)`: `start.checked_add(size)`, then `filesize < end` -/
def checkFileOffset (f : FileReq) (size : Nat) : Except BErr Unit :=
  match checkedAdd f.start size with
  | none => .error .invalidOffsetLength
  | some e => if f.fileLen < e then .error .mappingPastEof else .ok ()

/-- `build_raw`: page alignment of the supplied pointer; never maps, never owns -/
def buildRaw (r : BuildReq) (page : Nat) (p : Nat) : Except BErr Built :=
  if p % page ≠ 0 then .error .invalidPointer
  else .ok { addr := p, size := r.size, prot := r.prot, flags := r.flags, fileStart := r.file.map (·.start), owned := false }

/-- `MmapRegionBuilder::build`.  `kernel` is the reply of `mmap(null, size, prot, flags, fd, offset)`:
    `none` = `MAP_FAILED`, `some a` = a fresh mapping at `a`.  The second component tells
    whether `mmap` was called at all (so "a failed build maps nothing" is checkable). -/
def build (r : BuildReq) (page : Nat) (kernel : Option Nat) : Except BErr Built × Bool :=
  match r.rawPtr with
  | some p => (buildRaw r page p, false)
  | none =>
    if r.flags &&& MAP_FIXED ≠ 0 then (.error .mapFixed, false)
    else
      match (match r.file with | some f => checkFileOffset f r.size | none => .ok ()) with
      | .error e => (.error e, false)
      | .ok () =>
        match kernel with
        | none => (.error .mmapFailed, true)
        | some a => (.ok { addr := a, size := r.size, prot := r.prot, flags := r.flags,
                           fileStart := r.file.map (·.start), owned := true }, true)

/-- `GuestRegionMmap::new(mapping, guest_base)` -/
def guestRegionNew (b : Built) (guestBase : Nat) : Except BErr (Built × Nat) :=
  match checkedAdd guestBase b.size with
  | none => .error .invalidGuestRegion
  | some _ => .ok (b, guestBase)

/-- `MmapRegion::fds_overlap(&self, other)`: both regions file-backed, the same descriptor number, and
    `if s1 < s2 { s1 + l1 > s2 } else { s2 + l2 > s1 }` (plain `+`) -/
def fdsOverlap (sameFd : Bool) (a b : Option (Nat × Nat)) : Res Bool :=
  match a, b with
  | some (s1, l1), some (s2, l2) =>
    if sameFd then
      if s1 < s2 then (addP s1 l1) >>= fun e => pure (decide (e > s2))
      else (addP s2 l2) >>= fun e => pure (decide (e > s1))
    else .ok false
  | _, _ => .ok false

/-! ### Xen request validation -/
abbrev Flags := BitVec 32
def XEN_FOREIGN : Flags := 0x1
def XEN_GRANT : Flags := 0x2
def XEN_NO_ADVANCE_MAP : Flags := 0x8
/-- all bits `bitflags!` knows: UNIX = 0, FOREIGN, GRANT, NO_ADVANCE_MAP, ALL = FOREIGN | GRANT -/
def XEN_KNOWN : Flags := 0xb

/-- `MmapXenFlags::from_bits`: `None` if any unknown bit is set -/
def fromBits (w : Flags) : Option Flags := if w &&& ~~~XEN_KNOWN = 0 then some w else none
def isUnix (f : Flags) : Bool := f = 0
def isForeign (f : Flags) : Bool := f &&& XEN_FOREIGN = XEN_FOREIGN
def isGrant (f : Flags) : Bool := f &&& XEN_GRANT = XEN_GRANT
def mmapInAdvance (f : Flags) : Bool := !(f &&& XEN_NO_ADVANCE_MAP = XEN_NO_ADVANCE_MAP)
/-- `MmapXenFlags::is_valid` -/
def isValid (f : Flags) : Bool :=
  if isGrant f then !isForeign f
  else if isForeign f || isUnix f then mmapInAdvance f
  else false

/-- `MmapXen::new`: flag word accepted? -/
def xenFlagsAccepted (w : Flags) : Bool :=
  match fromBits w with
  | none => false
  | some f => isValid f

/-- `validate_file`: foreign and grant mappings need a backing file with offset 0 -/
def validateFile (file : Option FileReq) : Except BErr Unit :=
  match file with
  | none => .error .invalidFileOffset
  | some f => if f.start ≠ 0 then .error .invalidOffsetLength else .ok ()

structure XenReq where
  size : Nat
  file : Option FileReq
  flags : Option Nat          -- mmap flags (`None` ⇒ MAP_NORESERVE | MAP_SHARED)
  xenFlags : Flags
  deriving Repr, DecidableEq

/-- `MmapRegion::from_range` up to (not including) the system calls: which request is refused, with what -/
def xenValidate (r : XenReq) : Except BErr Unit :=
  match r.flags with
  | some f => if f &&& MAP_FIXED ≠ 0 then .error .mapFixed else xenRest r
  | none => xenRest r
where
  xenRest (r : XenReq) : Except BErr Unit :=
    match fromBits r.xenFlags with
    | none => .error (.mmapFlags r.xenFlags.toNat)
    | some f =>
      if !isValid f then .error (.mmapFlags f.toNat)
      else if isForeign f || isGrant f then validateFile r.file
      else match r.file with
        | some fr => checkFileOffset fr r.size
        | none => .ok ()

end Construct
end VmMem
