/-
  VmMem.Model.Addr — address.rs (`impl_address_ops!` for GuestAddress and
  MemoryRegionAddress, both over u64) and the provided methods of `trait Address`.
  Values are `BitVec 64`: the property (C19) is about the wrapped value itself.
-/
import VmMem.Model.Basic
namespace VmMem
abbrev Word := BitVec 64

namespace Addr
/-- `u64::checked_add(..).map($T)` -/
def checkedAdd (a b : Word) : Option Word :=
  if a.toNat + b.toNat < U then some (a + b) else none
/-- `u64::checked_sub(..).map($T)` -/
def checkedSub (a b : Word) : Option Word :=
  if b.toNat ≤ a.toNat then some (a - b) else none
/-- `self.0.checked_sub(base.0)` -/
def checkedOffsetFrom (a base : Word) : Option Word := checkedSub a base
/-- `u64::overflowing_add` -/
def overflowingAdd (a b : Word) : Word × Bool := (a + b, decide (U ≤ a.toNat + b.toNat))
/-- `u64::overflowing_sub` -/
def overflowingSub (a b : Word) : Word × Bool := (a - b, decide (a.toNat < b.toNat))
/-- `$T(self.0 + offset)`: plain `+`; `chk` = built with overflow checks. -/
def uncheckedAdd (chk : Bool) (a b : Word) : Res Word :=
  if a.toNat + b.toNat < U then .ok (a + b) else if chk then .panic else .ok (a + b)
/-- `$T(self.0 - other)` -/
def uncheckedSub (chk : Bool) (a b : Word) : Res Word :=
  if b.toNat ≤ a.toNat then .ok (a - b) else if chk then .panic else .ok (a - b)
/-- `self.raw_value() - base.raw_value()` -/
def uncheckedOffsetFrom (chk : Bool) (a base : Word) : Res Word := uncheckedSub chk a base
/-- `self.raw_value() & mask` -/
def mask (a m : Word) : Word := a &&& m
def bitAnd (a m : Word) : Word := a &&& m
def bitOr (a m : Word) : Word := a ||| m

/-- `checked_align_up`: `mask = p - 1` (plain `-`), `assert_ne!(p, 0)`,
    `assert_eq!(p & mask, 0)`, `checked_add(mask).map(|x| x & !mask)`.
    With `p = 0` the subtraction panics in a checked build and the first assert
    panics in an unchecked one: `panic` either way. -/
def checkedAlignUp (a p : Word) : Res (Option Word) :=
  if p = 0 then .panic
  else
    let m := p - 1
    if p &&& m ≠ 0 then .panic
    else .ok ((checkedAdd a m).map (fun x => x &&& ~~~m))

/-- `unchecked_align_up`: `mask = p - 1`; `self.unchecked_add(mask) & !mask`. -/
def uncheckedAlignUp (chk : Bool) (a p : Word) : Res Word :=
  if p = 0 ∧ chk then .panic
  else
    let m := p - 1
    match uncheckedAdd chk a m with
    | .ok x => .ok (x &&& ~~~m)
    | .err e => .err e
    | .panic => .panic

/-- derived `Ord`: compares the raw values.  -1 / 0 / 1 -/
def cmp (a b : Word) : Int := if a.toNat < b.toNat then -1 else if a.toNat = b.toNat then 0 else 1
end Addr
end VmMem
