/-
  VmMem.Model.Io — io.rs: `ReadVolatile` / `WriteVolatile`, `retry_eintr!`, the
  default `read_exact_volatile` / `write_all_volatile` loops, the adapters for
  `&[u8]`, `&mut [u8]`, `Vec<u8>`, `Cursor<_>`, raw descriptors — and the stream
  forms of `Bytes<usize> for VolatileSlice`.

  A stream is described by what each successive call to it does (`Beh`): this is
  both the fault script of C14 and, with an empty script, the plain adapters of
  C13 (an exhausted script behaves as `full`, which at end of data is EOF).
-/
import VmMem.Model.Volatile
namespace VmMem

/-- behaviour of one call to the underlying stream -/
inductive Beh where
  | full                -- transfer as much as fits
  | short (k : Nat)     -- transfer at most `k` bytes
  | zero                -- `Ok(0)`
  | eintr               -- `Err(IOError(Interrupted))`
  | fail                -- `Err(IOError(other))`
  deriving Repr, DecidableEq

inductive ReaderKind where
  | slice       -- `&[u8]` (overrides `read_exact_volatile`)
  | cursor      -- `Cursor<T: AsRef<[u8]>>` (overrides `read_exact_volatile`)
  | scripted    -- harness stream obeying `script`, default exact loop
  | fd          -- raw descriptor: `read(2)`; a failing call marks the whole target dirty
  deriving Repr, DecidableEq

/-- a source of bytes -/
structure Reader where
  kind : ReaderKind
  data : List UInt8       -- for `cursor`: the whole inner buffer; else the bytes not yet consumed
  pos : Nat               -- cursor position (u64); unused otherwise
  script : List Beh
  deriving Repr, DecidableEq

inductive WriterKind where
  | mutSlice    -- `&mut [u8]` (overrides `write_all_volatile`)
  | vec         -- `Vec<u8>`
  | cursor      -- `Cursor<&mut [u8]>`
  | scripted
  | fd
  deriving Repr, DecidableEq

/-- a sink of bytes.  `buf` is the whole underlying buffer (`mutSlice`, `cursor`) or
    everything written so far (`vec`, `scripted`, `fd`); `pos` is how far into `buf`
    the remaining `&mut [u8]` starts, or the cursor position. -/
structure Writer where
  kind : WriterKind
  buf : List UInt8
  pos : Nat
  script : List Beh
  deriving Repr, DecidableEq

def ioErr (k : Nat) : Err := .ioError k

/-- overwrite `buf[off .. off + d.length)` -/
def spliceAt (buf : List UInt8) (off : Nat) (d : List UInt8) : List UInt8 :=
  buf.take off ++ d ++ buf.drop (off + d.length)

namespace Reader
/-- bytes still available and the amount a `full` call would move into a buffer of `n` bytes -/
def avail (r : Reader) : List UInt8 :=
  match r.kind with
  | .cursor => r.data.drop (min r.pos r.data.length)
  | _ => r.data

def advance (r : Reader) (n : Nat) : Reader :=
  match r.kind with
  | .cursor => { r with pos := r.pos + n }
  | _ => { r with data := r.data.drop n }

/-- one `read_volatile(&mut slice)` call -/
def readVolatile (r : Reader) (m : Mem) (s : VSlice) : Mem × Reader × Res Nat :=
  let (beh, script) := match r.script with | [] => (Beh.full, []) | b :: bs => (b, bs)
  let r := { r with script := script }
  let go (limit : Nat) : Mem × Reader × Res Nat :=
    let total := min (min s.size r.avail.length) limit
    match copyToVolatileSlice m s r.avail total with
    | .ok (m', n) => (m', r.advance n, .ok n)
    | .err e => (m, r, .err e)
    | .panic => (m, r, .panic)
  let failWith (k : Nat) : Mem × Reader × Res Nat :=
    match r.kind with
    | .fd =>
      -- `read_volatile_raw_fd`: "We don't know if a partial read might have happened,
      -- so mark everything as dirty"
      match m.mark s.bmBase 0 s.size with
      | .ok m' => (m', r, .err (ioErr k))
      | _ => (m, r, .panic)
    | _ => (m, r, .err (ioErr k))
  match beh with
  | .full => go s.size
  | .short k => go k
  | .zero => (m, r, .ok 0)
  | .eintr => failWith IoKind.interrupted
  | .fail => failWith IoKind.other

/-- `retry_eintr!(self.read_volatile(..))`: repeat while the error is `Interrupted`.
    Every retry consumes one script entry, an exhausted script never interrupts. -/
def readRetry (r : Reader) (m : Mem) (s : VSlice) : Mem × Reader × Res Nat :=
  match _h : r.script with
  | [] => r.readVolatile m s
  | _ :: rest =>
    match r.readVolatile m s with
    | (m', r', .err (.ioError k)) =>
      if k = IoKind.interrupted then readRetry { r' with script := rest } m' s else (m', r', .err (.ioError k))
    | out => out
termination_by r.script.length
decreasing_by simp [_h]

/-- default `read_exact_volatile`: `partial = buf.offset(0)?; while !partial.is_empty() { … }`.
    `fuel` bounds the iterations; every iteration that continues consumed ≥ 1 byte, so
    `s.size + 1` is always enough (theorem `readExactLoop_fuel`); running out is `panic`. -/
def readExactLoop (fuel : Nat) (r : Reader) (m : Mem) (p : VSlice) : Mem × Reader × Res Unit :=
  match fuel with
  | 0 => (m, r, .panic)
  | fuel+1 =>
    if p.size = 0 then (m, r, .ok ())
    else
      match r.readRetry m p with
      | (m', r', .ok 0) => (m', r', .err (ioErr IoKind.unexpectedEof))
      | (m', r', .ok n) =>
        match p.offset n with
        | .ok p' => readExactLoop fuel r' m' p'
        | .err e => (m', r', .err e)
        | .panic => (m', r', .panic)
      | (m', r', .err e) => (m', r', .err e)
      | (m', r', .panic) => (m', r', .panic)

/-- `read_exact_volatile(&mut slice)` with the overrides of `&[u8]` and `Cursor` -/
def readExact (r : Reader) (m : Mem) (s : VSlice) : Mem × Reader × Res Unit :=
  match r.kind with
  | .slice | .cursor =>
    -- `if buf.len() > self.len() { return Err(UnexpectedEof) }; self.read_volatile(buf).map(|_| ())`
    -- (Cursor: position advanced by `buf.len()` only on success)
    if s.size > r.avail.length then (m, r, .err (ioErr IoKind.unexpectedEof))
    else
      match r.readVolatile m s with
      | (m', r', .ok _) => (m', r', .ok ())
      | (m', r', .err e) => (m', r', .err e)
      | (m', r', .panic) => (m', r', .panic)
  | _ =>
    match s.offset 0 with
    | .ok p => readExactLoop (s.size + 1) r m p
    | .err e => (m, r, .err e)
    | .panic => (m, r, .panic)
end Reader

namespace Writer
/-- room left in the sink for a `full` call (`none` = unbounded) -/
def room (w : Writer) : Option Nat :=
  match w.kind with
  | .mutSlice => some (w.buf.length - w.pos)
  | .cursor => some (w.buf.length - min w.pos w.buf.length)
  | _ => none

def accept (w : Writer) (d : List UInt8) : Writer :=
  match w.kind with
  | .mutSlice => { w with buf := spliceAt w.buf w.pos d, pos := w.pos + d.length }
  | .cursor => { w with buf := spliceAt w.buf (min w.pos w.buf.length) d, pos := w.pos + d.length }
  | _ => { w with buf := w.buf ++ d }

/-- one `write_volatile(&slice)` call -/
def writeVolatile (w : Writer) (m : Mem) (s : VSlice) : Writer × Res Nat :=
  let (beh, script) := match w.script with | [] => (Beh.full, []) | b :: bs => (b, bs)
  let w := { w with script := script }
  let go (limit : Nat) : Writer × Res Nat :=
    let total := min (match w.room with | some r => min s.size r | none => s.size) limit
    match copyFromVolatileSlice m s total with
    | .ok d => (w.accept d, .ok total)
    | .err e => (w, .err e)
    | .panic => (w, .panic)
  match beh with
  | .full => go s.size
  | .short k => go k
  | .zero => (w, .ok 0)
  | .eintr => (w, .err (ioErr IoKind.interrupted))
  | .fail => (w, .err (ioErr IoKind.other))

def writeRetry (w : Writer) (m : Mem) (s : VSlice) : Writer × Res Nat :=
  match _h : w.script with
  | [] => w.writeVolatile m s
  | _ :: rest =>
    match w.writeVolatile m s with
    | (w', .err (.ioError k)) =>
      if k = IoKind.interrupted then writeRetry { w' with script := rest } m s else (w', .err (.ioError k))
    | out => out
termination_by w.script.length
decreasing_by simp [_h]

/-- default `write_all_volatile` loop -/
def writeAllLoop (fuel : Nat) (w : Writer) (m : Mem) (p : VSlice) : Writer × Res Unit :=
  match fuel with
  | 0 => (w, .panic)
  | fuel+1 =>
    if p.size = 0 then (w, .ok ())
    else
      match w.writeRetry m p with
      | (w', .ok 0) => (w', .err (ioErr IoKind.writeZero))
      | (w', .ok n) =>
        match p.offset n with
        | .ok p' => writeAllLoop fuel w' m p'
        | .err e => (w', .err e)
        | .panic => (w', .panic)
      | (w', .err e) => (w', .err e)
      | (w', .panic) => (w', .panic)

/-- `write_all_volatile(&slice)` with the override of `&mut [u8]` -/
def writeAll (w : Writer) (m : Mem) (s : VSlice) : Writer × Res Unit :=
  match w.kind with
  | .mutSlice =>
    match w.writeVolatile m s with
    | (w', .ok n) => if n = s.size then (w', .ok ()) else (w', .err (ioErr IoKind.writeZero))
    | (w', .err e) => (w', .err e)
    | (w', .panic) => (w', .panic)
  | _ =>
    match s.offset 0 with
    | .ok p => writeAllLoop (s.size + 1) w m p
    | .err e => (w, .err e)
    | .panic => (w, .panic)
end Writer

/-! ### stream forms of `Bytes<usize> for VolatileSlice` -/
namespace VSlice

/-- `read_volatile_from(addr, src, count)` -/
def readVolatileFrom (m : Mem) (s : VSlice) (addr : Nat) (r : Reader) (count : Nat) : Mem × Reader × Res Nat :=
  match s.offset addr with
  | .err e => (m, r, .err e)
  | .panic => (m, r, .panic)
  | .ok s1 =>
    match Res.unwrapRes (s1.subslice 0 (min s1.size count)) with
    | .ok s2 => r.readRetry m s2
    | .err e => (m, r, .err e)
    | .panic => (m, r, .panic)

/-- `read_exact_volatile_from(addr, src, count)` -/
def readExactVolatileFrom (m : Mem) (s : VSlice) (addr : Nat) (r : Reader) (count : Nat) : Mem × Reader × Res Unit :=
  match s.subslice addr count with
  | .ok s1 => r.readExact m s1
  | .err e => (m, r, .err e)
  | .panic => (m, r, .panic)

/-- `write_volatile_to(addr, dst, count)` -/
def writeVolatileTo (m : Mem) (s : VSlice) (addr : Nat) (w : Writer) (count : Nat) : Writer × Res Nat :=
  match s.offset addr with
  | .err e => (w, .err e)
  | .panic => (w, .panic)
  | .ok s1 =>
    match Res.unwrapRes (s1.subslice 0 (min s1.size count)) with
    | .ok s2 => w.writeRetry m s2
    | .err e => (w, .err e)
    | .panic => (w, .panic)

/-- `write_all_volatile_to(addr, dst, count)` -/
def writeAllVolatileTo (m : Mem) (s : VSlice) (addr : Nat) (w : Writer) (count : Nat) : Writer × Res Unit :=
  match s.subslice addr count with
  | .ok s1 => w.writeAll m s1
  | .err e => (w, .err e)
  | .panic => (w, .panic)
end VSlice

end VmMem
