/-
  VmMem.Model.Volatile — volatile_memory.rs (VolatileSlice, VolatileRef,
  VolatileArrayRef, the provided methods of `trait VolatileMemory`,
  `Bytes<usize> for VolatileSlice`, the copy helpers) and the `VolatileMemory`
  implementation of `MmapRegion` (mmap/unix.rs, mmap/xen.rs: same arithmetic).

  A *container* (`Mem`) is one root allocation: its host base address, its bytes,
  and the dirty bitmap that tracks it (if any).  Accessors carry absolute host
  addresses, exactly like the Rust structs carry raw pointers, plus the base
  offset of their `BitmapSlice` (`BaseSlice::base_offset`).

  Touching a byte outside the container is *undefined behaviour* in Rust; the
  model reports it as `panic`, so "no panic" theorems include "no out-of-bounds
  access" and the correspondence run sees a disagreement if the real code ever
  does it inside the harness's guard zone.
-/
import VmMem.Model.Basic
import VmMem.Model.Bitmap
namespace VmMem

/-- a `ByteValued` element type: only size and alignment matter -/
structure Ty where
  size : Nat
  align : Nat
  deriving Repr, DecidableEq, Inhabited

/-- one root allocation with its tracking bitmap -/
structure Mem where
  base : Nat
  bytes : List UInt8
  bm : Option ABitmap
  deriving Repr, DecidableEq

/-- `VolatileSlice { addr, size, bitmap }` -/
structure VSlice where
  addr : Nat
  size : Nat
  bmBase : Nat
  deriving Repr, DecidableEq, Inhabited

/-- `VolatileRef<T> { addr, bitmap }` -/
structure VRef where
  addr : Nat
  bmBase : Nat
  ty : Ty
  deriving Repr, DecidableEq, Inhabited

/-- `VolatileArrayRef<T> { addr, nelem, bitmap }` -/
structure VArr where
  addr : Nat
  nelem : Nat
  bmBase : Nat
  ty : Ty
  deriving Repr, DecidableEq, Inhabited

/-! ### bounds arithmetic -/

/-- `compute_offset` -/
def computeOffset (base off : Nat) : Res Nat :=
  match checkedAdd base off with
  | none => .err .overflow
  | some m => .ok m

/-- `VolatileMemory::compute_end_offset` for a memory of length `len` -/
def computeEndOffset (len base off : Nat) : Res Nat := do
  let e ← computeOffset base off
  if e > len then .err .outOfBounds else pure e

namespace VSlice

/-- `VolatileSlice::subslice` (= `get_slice` for a `VolatileSlice`) -/
def subslice (s : VSlice) (off cnt : Nat) : Res VSlice := do
  let _ ← computeEndOffset s.size off cnt
  pure { addr := s.addr + off, size := cnt, bmBase := sliceAt s.bmBase off }

/-- `VolatileSlice::offset`: `checked_add` on the pointer value, `checked_sub` on the size -/
def offset (s : VSlice) (cnt : Nat) : Res VSlice :=
  match checkedAdd s.addr cnt with
  | none => .err .overflow
  | some _ =>
    match checkedSub s.size cnt with
    | none => .err .outOfBounds
    | some sz => .ok { addr := s.addr + cnt, size := sz, bmBase := sliceAt s.bmBase cnt }

/-- `VolatileSlice::split_at` -/
def splitAt (s : VSlice) (mid : Nat) : Res (VSlice × VSlice) := do
  let e ← s.offset mid
  pure ({ addr := s.addr, size := mid, bmBase := s.bmBase }, e)

/-- `check_alignment` (alignment is a power of two for every real type) -/
def checkAlignment (s : VSlice) (align : Nat) : Res Unit :=
  if s.addr % align ≠ 0 then .err .misaligned else .ok ()

/-- `VolatileMemory::get_ref` -/
def getRef (s : VSlice) (off : Nat) (t : Ty) : Res VRef := do
  let sl ← s.subslice off t.size
  pure { addr := sl.addr, bmBase := sl.bmBase, ty := t }

/-- `VolatileMemory::get_array_ref`: `isize::try_from(n)`, `checked_mul` in `isize` -/
def getArrayRef (s : VSlice) (off n : Nat) (t : Ty) : Res VArr :=
  if n > ISIZE_MAX ∨ n * t.size > ISIZE_MAX then .err .tooBig
  else do
    let sl ← s.subslice off (n * t.size)
    pure { addr := sl.addr, nelem := n, bmBase := sl.bmBase, ty := t }

/-- `aligned_as_ref` / `aligned_as_mut` / `get_atomic_ref`: the address of the reference -/
def alignedRef (s : VSlice) (off : Nat) (t : Ty) : Res Nat := do
  let sl ← s.subslice off t.size
  sl.checkAlignment t.align
  pure sl.addr

/-- `ptr_guard().len()` -/
def guardLen (s : VSlice) : Nat := s.size
end VSlice

namespace VRef
/-- `VolatileRef::to_slice` -/
def toSlice (r : VRef) : VSlice := { addr := r.addr, size := r.ty.size, bmBase := r.bmBase }
/-- `VolatileRef::len` and its guard length -/
def guardLen (r : VRef) : Nat := r.ty.size
end VRef

namespace VArr
/-- `VolatileArrayRef::to_slice`: `self.nelem * self.element_size()` is a plain `*` -/
def toSlice (a : VArr) : Res VSlice := do
  let sz ← mulP a.nelem a.ty.size
  pure { addr := a.addr, size := sz, bmBase := a.bmBase }

/-- `ref_at`: `assert!(index < self.nelem)`; `(element_size * index) as isize`; `slice_at` -/
def refAt (a : VArr) (i : Nat) : Res VRef :=
  if i < a.nelem then do
    let byteofs ← mulP a.ty.size i
    pure { addr := a.addr + byteofs, bmBase := sliceAt a.bmBase byteofs, ty := a.ty }
  else .panic

/-- length handed to `PtrGuard::read/write` by `VolatileArrayRef::ptr_guard{,_mut}`:
    `self.len() * self.element_size()`.  (Before the `fix:` commit in /repo the source
    passed `self.len()`, the element count — defect D3, see Props/C01 and Props/C17.) -/
def guardLen (a : VArr) : Nat := a.nelem * a.ty.size

/-- number of bytes the array designates -/
def byteLen (a : VArr) : Nat := a.nelem * a.ty.size
end VArr

/-- `From<VolatileSlice> for VolatileArrayRef<u8>` -/
def VSlice.toArr (s : VSlice) : VArr :=
  { addr := s.addr, nelem := s.size, bmBase := s.bmBase, ty := ⟨1, 1⟩ }

/-- `ByteValued::from_slice` / `from_mut_slice` on `len` bytes at host address `addr`:
    `data.len() != size_of::<Self>()` ⇒ `None`; otherwise `align_to::<Self>()` must yield exactly
    `([], [mid], [])`, which for a slice of exactly `size_of::<Self>()` bytes happens iff the address
    is aligned (contract of `slice::align_to`).  For a zero-sized `Self`, `align_to` returns the whole
    input as the prefix and an empty middle, so the answer is always `None`. -/
def fromSlice (addr len : Nat) (t : Ty) : Bool := len == t.size && t.size != 0 && addr % t.align == 0

/-- the slice a region hands out for its whole extent; `MmapRegion::get_slice`
    is `compute_end_offset` + `addr.add(offset)` + `bitmap.slice_at(offset)`, i.e.
    `subslice` of this root view. -/
def Mem.root (m : Mem) : VSlice := { addr := m.base, size := m.bytes.length, bmBase := 0 }

/-! ### raw data movement -/

namespace Mem
/-- a transfer of zero bytes touches nothing and is always fine -/
def inBounds (m : Mem) (addr n : Nat) : Bool :=
  n == 0 || (m.base ≤ addr && addr + n ≤ m.base + m.bytes.length)

/-- read `n` bytes at host address `addr` -/
def readAt (m : Mem) (addr n : Nat) : Res (List UInt8) :=
  if m.inBounds addr n then .ok ((m.bytes.drop (addr - m.base)).take n) else .panic

/-- write `d` at host address `addr` -/
def writeAt (m : Mem) (addr : Nat) (d : List UInt8) : Res Mem :=
  if m.inBounds addr d.length then
    let off := addr - m.base
    .ok { m with bytes := m.bytes.take off ++ d ++ m.bytes.drop (off + d.length) }
  else .panic

/-- `bitmap.mark_dirty(off, len)` through a `BitmapSlice` with base offset `bmBase` -/
def mark (m : Mem) (bmBase off len : Nat) : Res Mem :=
  match m.bm with
  | none => .ok m
  | some b => do
    let b' ← markVia b bmBase off len
    pure { m with bm := some b' }
end Mem

/-! ### copy helpers (`copy_slice_impl`) — data effect and dirty marks.
    The primitive-access plan of `copy_slice_volatile` is in `VmMem.Model.Copy`. -/

/-- `copy_to_volatile_slice(slice, src, total)`: store `total` bytes at the start of
    `slice`, then `slice.bitmap.mark_dirty(0, count)`.  Returns `count`. -/
def copyToVolatileSlice (m : Mem) (s : VSlice) (src : List UInt8) (total : Nat) : Res (Mem × Nat) := do
  let m1 ← m.writeAt s.addr (src.take total)
  let m2 ← m1.mark s.bmBase 0 total
  pure (m2, total)

/-- `copy_from_volatile_slice(dst, slice, total)`: the bytes read -/
def copyFromVolatileSlice (m : Mem) (s : VSlice) (total : Nat) : Res (List UInt8) :=
  m.readAt s.addr total

/-! ### `Bytes<usize> for VolatileSlice` -/
namespace VSlice

/-- `write`: empty buffer ⇒ `Ok(0)`; `addr >= size` ⇒ OutOfBounds; else
    `buf.read_volatile(&mut self.offset(addr)?)`, i.e. `ReadVolatile for &[u8]`:
    `total = min(slice.len, buf.len)`. -/
def write (m : Mem) (s : VSlice) (buf : List UInt8) (addr : Nat) : Res (Mem × Nat) :=
  if buf.isEmpty then .ok (m, 0)
  else if addr ≥ s.size then .err .outOfBounds
  else do
    let s' ← s.offset addr
    copyToVolatileSlice m s' buf (min s'.size buf.length)

/-- `read`: dual; returns the bytes placed at the front of the buffer -/
def read (m : Mem) (s : VSlice) (len : Nat) (addr : Nat) : Res (List UInt8) :=
  if len = 0 then .ok []
  else if addr ≥ s.size then .err .outOfBounds
  else do
    let s' ← s.offset addr
    copyFromVolatileSlice m s' (min s'.size len)

/-- `write_slice`.  A `PartialBuffer` error is returned *after* the prefix was
    stored and marked, so the container is returned alongside the result. -/
def writeSlice (m : Mem) (s : VSlice) (buf : List UInt8) (addr : Nat) : Mem × Res Unit :=
  match s.write m buf addr with
  | .ok (m', n) => if n ≠ buf.length then (m', .err (.partialBuffer buf.length n)) else (m', .ok ())
  | .err e => (m, .err e)
  | .panic => (m, .panic)

/-- `read_slice`.  On `PartialBuffer` the caller's buffer has been partly filled;
    the model returns only the error, as the API does. -/
def readSlice (m : Mem) (s : VSlice) (len : Nat) (addr : Nat) : Res (List UInt8) := do
  let d ← s.read m len addr
  if d.length ≠ len then .err (.partialBuffer len d.length) else pure d

/-- `write_obj` (provided method of `Bytes`): `write_slice(val.as_slice(), addr)` -/
def writeObj (m : Mem) (s : VSlice) (val : List UInt8) (addr : Nat) : Mem × Res Unit := s.writeSlice m val addr
/-- `read_obj`: `read_slice` into a zeroed `T` -/
def readObj (m : Mem) (s : VSlice) (t : Ty) (addr : Nat) : Res (List UInt8) := s.readSlice m t.size addr

/-- `store::<T>`: `get_atomic_ref::<T::A>(addr)`, store, `self.bitmap.mark_dirty(addr, size_of::<T>())` -/
def store (m : Mem) (s : VSlice) (val : List UInt8) (t : Ty) (addr : Nat) : Res Mem := do
  let p ← s.alignedRef addr t
  let m1 ← m.writeAt p (val.take t.size)
  m1.mark s.bmBase addr t.size

/-- `load::<T>` -/
def load (m : Mem) (s : VSlice) (t : Ty) (addr : Nat) : Res (List UInt8) := do
  let p ← s.alignedRef addr t
  m.readAt p t.size

/-- `VolatileSlice::copy_to_volatile_slice(dst)`: `ptr::copy` (memmove) of
    `min(self.size, dst.size)` bytes, then `dst.bitmap.mark_dirty(0, count)`.
    `dm` is the container `dst` lives in when it is not `m` itself. -/
def copyToSlice (m : Mem) (s dst : VSlice) : Res Mem := do
  let count := min s.size dst.size
  let d ← m.readAt s.addr count
  let m1 ← m.writeAt dst.addr d
  m1.mark dst.bmBase 0 count
end VSlice

/-! ### VolatileRef / VolatileArrayRef data operations -/
namespace VRef
/-- `VolatileRef::store`: one packed volatile write, `mark_dirty(0, len)` -/
def store (m : Mem) (r : VRef) (val : List UInt8) : Res Mem := do
  let m1 ← m.writeAt r.addr (val.take r.ty.size)
  m1.mark r.bmBase 0 r.ty.size
/-- `VolatileRef::load` -/
def load (m : Mem) (r : VRef) : Res (List UInt8) := m.readAt r.addr r.ty.size
end VRef

namespace VArr
/-- `VolatileArrayRef::store(index, v)` -/
def store (m : Mem) (a : VArr) (i : Nat) (val : List UInt8) : Res Mem := do
  let r ← a.refAt i
  r.store m val
/-- `VolatileArrayRef::load(index)` -/
def load (m : Mem) (a : VArr) (i : Nat) : Res (List UInt8) := do
  let r ← a.refAt i
  r.load m

/-- `VolatileArrayRef::copy_to(buf)` with `buf.len() = blen` elements: returns the
    element count and the bytes stored at the front of `buf`.  Element size 1 takes
    the byte fast path; otherwise a loop of `count = min(blen, nelem)` packed reads,
    returning `count`.  (Before the `fix:` commit the result was computed with
    `ptr.offset_from(start)`, which panics for a zero-sized `T` — defect D2.) -/
def copyTo (m : Mem) (a : VArr) (blen : Nat) : Res (Nat × List UInt8) :=
  if a.ty.size = 1 then do
    let s ← a.toSlice
    let total := min blen s.size
    let d ← copyFromVolatileSlice m s total
    pure (total, d)
  else do
    let k := min blen a.nelem
    let d ← m.readAt a.addr (k * a.ty.size)
    pure (k, d)

/-- `VolatileArrayRef::copy_from(buf)`: `buf` is given as bytes (`blen` elements) -/
def copyFrom (m : Mem) (a : VArr) (blen : Nat) (buf : List UInt8) : Res Mem :=
  if a.ty.size = 1 then do
    let s ← a.toSlice
    let total := min blen s.size
    let (m', _) ← copyToVolatileSlice m s buf total
    pure m'
  else do
    let k := min blen a.nelem
    let m1 ← m.writeAt a.addr (buf.take (k * a.ty.size))
    m1.mark a.bmBase 0 (k * a.ty.size)

/-- `VolatileArrayRef::copy_to_volatile_slice(dst)` -/
def copyToSlice (m : Mem) (a : VArr) (dst : VSlice) : Res Mem := do
  let n ← mulP a.nelem a.ty.size
  let count := min n dst.size
  let d ← m.readAt a.addr count
  let m1 ← m.writeAt dst.addr d
  m1.mark dst.bmBase 0 count
end VArr

namespace VSlice
/-- element count used by `VolatileSlice::copy_to/copy_from::<T>`:
    `self.size.checked_div(size_of::<T>()).unwrap_or(buf.len())` — a zero-sized `T`
    occupies no memory, any number of elements fits.  (Before the `fix:` commit this was
    `self.size / size_of::<T>()`, a division by zero for zero-sized `T` — defect D2.) -/
def elemCount (s : VSlice) (t : Ty) (blen : Nat) : Nat :=
  if t.size = 0 then blen else s.size / t.size

/-- `VolatileSlice::copy_to::<T>(buf)`: size 1 fast path, else
    `get_array_ref(0, count).unwrap()`, `source.copy_to(buf)`. -/
def copyTo (m : Mem) (s : VSlice) (t : Ty) (blen : Nat) : Res (Nat × List UInt8) :=
  if t.size = 1 then do
    let total := min blen s.size
    let d ← copyFromVolatileSlice m s total
    pure (total, d)
  else do
    let a ← Res.unwrapRes (s.getArrayRef 0 (s.elemCount t blen) t)
    a.copyTo m blen

/-- `VolatileSlice::copy_from::<T>(buf)` -/
def copyFrom (m : Mem) (s : VSlice) (t : Ty) (blen : Nat) (buf : List UInt8) : Res Mem :=
  if t.size = 1 then do
    let total := min blen s.size
    let (m', _) ← copyToVolatileSlice m s buf total
    pure m'
  else do
    let a ← Res.unwrapRes (s.getArrayRef 0 (s.elemCount t blen) t)
    a.copyFrom m blen buf
end VSlice

end VmMem
