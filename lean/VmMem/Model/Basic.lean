/-
  VmMem.Model.Basic — shared vocabulary of the executable model of rust-vmm/vm-memory.

  Conventions (DESIGN.md §3): 64-bit target; machine integers are `Nat` values
  that carry `< U` invariants; every Rust arithmetic primitive has one model
  primitive with the same failure behaviour.  Plain `+ - * /` are `addP subP mulP
  divP` and return `panic` on overflow / division by zero: "checked and unchecked
  builds agree" is then the theorem that no `…P` primitive reaches that branch.
  This file imports nothing outside core so that the driver links as an executable.
-/
namespace VmMem

/-- 2^64: one past `usize::MAX` / `u64::MAX`. -/
def U : Nat := 2 ^ 64
/-- `isize::MAX`. -/
def ISIZE_MAX : Nat := 2 ^ 63 - 1

/-- Error values the modelled API can return.  Only the variant (and the fields a
    property statement names) are modelled; payloads such as the offending address
    are kept where the statement mentions them. -/
inductive Err where
  | outOfBounds                         -- volatile_memory::Error::OutOfBounds
  | overflow                            -- volatile_memory::Error::Overflow
  | tooBig                              -- volatile_memory::Error::TooBig
  | misaligned                          -- volatile_memory::Error::Misaligned
  | partialBuffer (expected completed : Nat)
  | ioError (kind : Nat)                -- io::ErrorKind, encoded by the harness (see IoKind)
  | invalidGuestAddress (addr : Nat)
  | invalidBackendAddress
  | hostAddressNotAvailable
  | callbackOutOfRange
  | guestAddressOverflow
  deriving Repr, DecidableEq, Inhabited

/-- Codes for `io::ErrorKind` values that the crate itself produces or inspects. -/
def IoKind.unexpectedEof : Nat := 1
def IoKind.writeZero     : Nat := 2
def IoKind.interrupted   : Nat := 3
def IoKind.other         : Nat := 4

/-- Outcome of a modelled call: a value, an error value, or a panic
    (explicit `panic!`/`assert!`/`unwrap` on `None`, slice index out of range,
    division by zero, or arithmetic overflow in a build with overflow checks). -/
inductive Res (α : Type) where
  | ok (a : α)
  | err (e : Err)
  | panic
  deriving Repr, DecidableEq, Inhabited

namespace Res
@[inline] def bind {α β} (x : Res α) (f : α → Res β) : Res β :=
  match x with
  | ok a => f a
  | err e => err e
  | panic => panic

instance : Monad Res where
  pure := Res.ok
  bind := Res.bind

def isOk {α} : Res α → Bool | ok _ => true | _ => false
def isErr {α} : Res α → Bool | err _ => true | _ => false
def isPanic {α} : Res α → Bool | panic => true | _ => false

@[simp] theorem bind_ok {α β} (a : α) (f : α → Res β) : (Res.ok a >>= f) = f a := rfl
@[simp] theorem bind_err {α β} (e : Err) (f : α → Res β) : (Res.err e >>= f) = Res.err e := rfl
@[simp] theorem bind_panic {α β} (f : α → Res β) : ((Res.panic : Res α) >>= f) = Res.panic := rfl
@[simp] theorem pure_eq {α} (a : α) : (pure a : Res α) = Res.ok a := rfl

theorem bind_eq_ok {α β} (x : Res α) (f : α → Res β) (b : β) :
    (x >>= f) = Res.ok b ↔ ∃ a, x = Res.ok a ∧ f a = Res.ok b := by
  cases x with
  | ok a => simp
  | err e => simp
  | panic => simp

/-- `Option::ok_or(e)?` -/
def ofOption {α} (o : Option α) (e : Err) : Res α :=
  match o with | some a => ok a | none => err e

/-- `Option::unwrap()` -/
def unwrap {α} (o : Option α) : Res α :=
  match o with | some a => ok a | none => panic

/-- `Result::unwrap()` -/
def unwrapRes {α} (r : Res α) : Res α :=
  match r with | ok a => ok a | _ => panic

/-- `map_err(Into::into)` from `volatile_memory::Error` to `guest_memory::Error`
    (guest_memory.rs, `impl From<volatile_memory::Error> for Error`). -/
def toGuestErr : Err → Err
  | .outOfBounds => .invalidBackendAddress
  | .overflow => .invalidBackendAddress
  | .tooBig => .invalidBackendAddress
  | .misaligned => .invalidBackendAddress
  | e => e

def mapErr {α} (r : Res α) (f : Err → Err) : Res α :=
  match r with | ok a => ok a | err e => err (f e) | panic => panic
end Res

/-! Machine arithmetic on `usize`/`u64` values represented as `Nat`. -/

def checkedAdd (a b : Nat) : Option Nat := if a + b < U then some (a + b) else none
def checkedSub (a b : Nat) : Option Nat := if b ≤ a then some (a - b) else none
def checkedMul (a b : Nat) : Option Nat := if a * b < U then some (a * b) else none
def wrappingAdd (a b : Nat) : Nat := (a + b) % U
def wrappingSub (a b : Nat) : Nat := (a + U - b % U) % U
def saturatingAdd (a b : Nat) : Nat := if a + b < U then a + b else U - 1
def overflowingAdd (a b : Nat) : Nat × Bool := ((a + b) % U, decide (U ≤ a + b))
def overflowingSub (a b : Nat) : Nat × Bool := (wrappingSub a b, decide (a < b))

/-- plain `a + b` : panics in a build with overflow checks, wraps otherwise.  The
    model takes the checked reading; `no_panic` theorems show the branch is dead. -/
def addP (a b : Nat) : Res Nat := if a + b < U then .ok (a + b) else .panic
def subP (a b : Nat) : Res Nat := if b ≤ a then .ok (a - b) else .panic
def mulP (a b : Nat) : Res Nat := if a * b < U then .ok (a * b) else .panic
def divP (a b : Nat) : Res Nat := if b = 0 then .panic else .ok (a / b)

/-- `usize::div_ceil` (never overflows for a non-zero divisor). -/
def divCeil (a b : Nat) : Nat := (a + b - 1) / b

/-- FNV-1a over bytes; only used by the driver to print compact observations. -/
def fnv1a (bs : List UInt8) : Nat :=
  bs.foldl (fun h b => ((h ^^^ b.toNat) * 1099511628211) % U) 14695981039346656037

end VmMem
