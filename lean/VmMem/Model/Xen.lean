/-
  VmMem.Model.Xen — mmap/xen.rs: the temporary mappings of on-demand (grant, not mapped in
  advance) regions.  `PtrGuard::new(mmap, addr, write, len)` calls
  `MmapXen::mmap(Some(info), addr, prot, len)` → `MmapXenSlice::new_with(grant, offset = addr, prot, len)`:
  for an on-demand region the region "pointer" is null, so the accessor's address *is*
  its offset inside the region.  Dropping the guard unmaps the window.
-/
import VmMem.Model.Basic
import VmMem.Model.Volatile
namespace VmMem
namespace Xen

/-- a temporary mapping: the window actually mapped and the pointer handed to the access -/
structure Window where
  pageBase : Nat      -- region offset where the mapping starts (page aligned)
  inOff : Nat         -- offset of the requested byte inside the first page
  mapSize : Nat       -- bytes requested from mmap_range: `inOff + len`
  pages : Nat         -- `pages(mapSize).0`
  index : Nat         -- gntdev index of the map ioctl (first grant reference × page)
  deriving Repr, DecidableEq

/-- `MmapXenSlice::new_with`: `page_base = (offset / page) * page; offset -= page_base;
    size = offset + size; mmap_range(guest_base + page_base, size)`, where `mmap_range`
    rounds up to whole pages (`pages(size) = (size.div_ceil(page), page * count)`). -/
def window (page guestBase offset len : Nat) : Window :=
  let pageBase := (offset / page) * page
  let inOff := offset - pageBase
  let mapSize := inOff + len
  { pageBase := pageBase, inOff := inOff, mapSize := mapSize, pages := divCeil mapSize page,
    index := (guestBase + pageBase) / page }

/-- the kernel refuses a zero-length `mmap` (EINVAL) and `MmapXen::mmap` unwraps the result -/
def windowOk (w : Window) : Bool := w.pages > 0

/-- gntdev requests logged by the (emulated) device -/
inductive Req where
  | map (index count : Nat)
  | unmap (index count : Nat)
  deriving Repr, DecidableEq

/-- one access through a guard of `len` bytes at region offset `offset`:
    map the window, use it, unmap it (`Drop for MmapXenSlice` → `unmap_range(size)`) -/
def accessReqs (page guestBase offset len : Nat) : List Req :=
  let w := window page guestBase offset len
  [.map w.index w.pages, .unmap w.index (divCeil w.mapSize page)]

/-- mappings still live after a request log (multiset as a list) -/
def live : List Req → List (Nat × Nat)
  | [] => []
  | .map i c :: rest => (i, c) :: live rest
  | .unmap i c :: rest => (live rest).erase (i, c)

/-- fold the log left to right -/
def liveAfter (log : List Req) : List (Nat × Nat) :=
  log.foldl (fun acc r => match r with | .map i c => (i, c) :: acc | .unmap i c => acc.erase (i, c)) []

/-- guard length requested by each accessor kind (bytes) -/
def guardOfSlice (s : VSlice) : Nat × Nat := (s.addr, s.guardLen)
def guardOfRef (r : VRef) : Nat × Nat := (r.addr, r.guardLen)
def guardOfArr (a : VArr) : Nat × Nat := (a.addr, a.guardLen)

end Xen
end VmMem
