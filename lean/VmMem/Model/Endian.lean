/-
  VmMem.Model.Endian — endian.rs.  A wrapper `LeN`/`BeN` is a native integer
  field holding `to_le(v)` / `to_be(v)`.  `to_le` is the identity on a
  little-endian host and a byte swap on a big-endian one (dually for `to_be`);
  the in-memory image of a native integer is its little-endian byte string on a
  little-endian host and its big-endian byte string on a big-endian host.
  The model is parametric in the host so that the theorems cover both.
-/
import VmMem.Model.Basic
namespace VmMem
namespace Endian

inductive Host | little | big deriving DecidableEq, Repr
inductive Order | le | be deriving DecidableEq, Repr

/-- little-endian byte string (least significant byte first) of the low `k` bytes of `v` -/
def leBytes : (k : Nat) → Nat → List UInt8
  | 0, _ => []
  | k+1, v => UInt8.ofNat (v % 256) :: leBytes k (v / 256)

def beBytes (k : Nat) (v : Nat) : List UInt8 := (leBytes k v).reverse

/-- value of a little-endian byte string -/
def ofLeBytes : List UInt8 → Nat
  | [] => 0
  | b :: bs => b.toNat + 256 * ofLeBytes bs

def ofBeBytes (bs : List UInt8) : Nat := ofLeBytes bs.reverse

/-- `uN::swap_bytes` on a `k`-byte integer -/
def swapBytes (k : Nat) (v : Nat) : Nat := ofLeBytes (beBytes k v)

/-- `uN::to_le` / `uN::to_be` (and `from_le`/`from_be`, which are the same functions) -/
def toOrder (h : Host) (o : Order) (k : Nat) (v : Nat) : Nat :=
  match h, o with
  | .little, .le => v
  | .big, .be => v
  | _, _ => swapBytes k v

/-- in-memory bytes of a native `k`-byte integer `v` on host `h` -/
def hostBytes (h : Host) (k : Nat) (v : Nat) : List UInt8 :=
  match h with
  | .little => leBytes k v
  | .big => beBytes k v

/-- native integer whose in-memory bytes are `bs` on host `h` -/
def ofHostBytes (h : Host) (bs : List UInt8) : Nat :=
  match h with
  | .little => ofLeBytes bs
  | .big => ofBeBytes bs

/-- `From<uN> for XeN`: the stored field -/
def wrap (h : Host) (o : Order) (k : Nat) (v : Nat) : Nat := toOrder h o k v
/-- `XeN::to_native` -/
def toNative (h : Host) (o : Order) (k : Nat) (raw : Nat) : Nat := toOrder h o k raw
/-- `PartialEq<uN> for XeN`: `self.0 == uN::to_x(*other)` -/
def eqNative (h : Host) (o : Order) (k : Nat) (raw : Nat) (n : Nat) : Bool := raw == toOrder h o k n
/-- bytes that the wire format prescribes for value `v` -/
def wireBytes (o : Order) (k : Nat) (v : Nat) : List UInt8 :=
  match o with | .le => leBytes k v | .be => beBytes k v

end Endian
end VmMem
