/-
  VmMem.Model.XenAccess — mmap/xen.rs: one access through a pointer guard of an on-demand grant
  region at the system-call level: `MmapXen::mmap(len > 0)` → `mmap_slice` → `MmapXenSlice::new_with`
  (`mmap_range` on the window) → the access → `Drop for MmapXenSlice` (`unmap_range`).
  Combines the window arithmetic of `Xen` with the kernel-state model of `XenBuild`.
-/
import VmMem.Model.Xen
import VmMem.Model.XenBuild
namespace VmMem
namespace XenAccess
open XenBuild

inductive Outcome where
  | done          -- the guard was obtained, used and dropped
  | raw           -- zero-length access: the raw (unmapped) guard, no system call (fix 62a8d5f)
  | unwrapPanic   -- `mmap_slice(..).unwrap()`: the device or `mmap` refused
  deriving Repr, DecidableEq

/-- an access of `len` bytes at region offset `offset` of an on-demand region based at guest address `guestBase` -/
def access (k : Kernel) (guestBase offset len page : Nat) (sc : Script) : Outcome × Kernel × Script :=
  if len = 0 then (.raw, k, sc)
  else
    let w := Xen.window page guestBase offset len
    match mmapRange k (guestBase + w.pageBase) w.mapSize page sc with
    | (none, k1, sc1) => (.unwrapPanic, k1, sc1)
    | (some (a, ms, idx), k1, sc1) => (.done, unmapRange k1 a ms idx w.mapSize page, sc1)

/-- the gntdev requests such an access makes when the device cooperates -/
def requests (guestBase offset len page : Nat) : List Xen.Req :=
  if len = 0 then [] else
    let w := Xen.window page guestBase offset len
    let idx := grantIndex (guestBase + w.pageBase) page
    [.map idx (pages w.mapSize page).1, .unmap idx (pages w.mapSize page).1]

end XenAccess
end VmMem
