/-
  VmMem.Model.Bitmap — bitmap/backend/atomic_bitmap.rs, bitmap/backend/slice.rs and
  the `()` / `Option<B>` implementations in bitmap/mod.rs.

  Every public operation of `AtomicBitmap` is a *program* of atomic steps on the
  word vector (`fetch_or`, `fetch_and`, `load`, `store`).  The sequential meaning
  of an operation (C09) is the program run without interference; the concurrency
  property (C08) quantifies over arbitrary lists of such steps, which contains
  every interleaving of every set of programs.
-/
import VmMem.Model.Basic
namespace VmMem

/-- One atomic step on the word vector. -/
inductive AStep where
  | fetchOr  (w : Nat) (m : BitVec 64)     -- `map[w].fetch_or(m, SeqCst)`
  | fetchAnd (w : Nat) (m : BitVec 64)     -- `map[w].fetch_and(m, SeqCst)`
  | load     (w : Nat)                     -- `map[w].load(Acquire)`
  | store    (w : Nat) (v : BitVec 64)     -- `map[w].store(v, Release)`
  deriving Repr, DecidableEq

abbrev Words := List (BitVec 64)

def bitMask (i : Nat) : BitVec 64 := 1#64 <<< (i % 64)

namespace AStep
/-- run one step; returns the new words and the value the operation returned
    (the previous word for RMW steps and loads, 0 for a store). -/
def run (s : Words) : AStep → Words × BitVec 64
  | fetchOr w m  => (s.set w (s.getD w 0 ||| m), s.getD w 0)
  | fetchAnd w m => (s.set w (s.getD w 0 &&& m), s.getD w 0)
  | load w       => (s, s.getD w 0)
  | store w v    => (s.set w v, 0)

def isStore : AStep → Bool | store _ _ => true | _ => false
/-- does this step clear bit `bit` of word `w`? (a `fetch_and` on `w` whose mask lacks the bit) -/
def clears (w bit : Nat) : AStep → Bool
  | fetchAnd w' m => w' == w && !(m.getLsbD bit)
  | _ => false
/-- does this step set bit `bit` of word `w`? -/
def sets (w bit : Nat) : AStep → Bool
  | fetchOr w' m => w' == w && m.getLsbD bit
  | _ => false
end AStep

/-- run a list of steps, collecting the returned values -/
def runAll (s : Words) : List AStep → Words × List (BitVec 64)
  | [] => (s, [])
  | a :: rest =>
    let (s1, r) := a.run s
    let (s2, rs) := runAll s1 rest
    (s2, r :: rs)

/-- `AtomicBitmap` -/
structure ABitmap where
  map : Words
  size : Nat          -- number of pages (bits)
  byteSize : Nat
  page : Nat          -- NonZeroUsize
  deriving Repr, DecidableEq

namespace ABitmap

/-- `AtomicBitmap::new` -/
def new (byteSize page : Nat) : ABitmap :=
  let numPages := divCeil byteSize page
  let mapSize := divCeil numPages 64
  { map := List.replicate mapSize 0, size := numPages, byteSize := byteSize, page := page }

/-- `Vec::resize_with(n, Default::default)` -/
def resizeWords (m : Words) (n : Nat) : Words :=
  if n ≤ m.length then m.take n else m ++ List.replicate (n - m.length) 0

/-- `enlarge`: `self.byte_size += additional_size` is a plain `+`. -/
def enlarge (b : ABitmap) (add : Nat) : Res ABitmap := do
  let bs ← addP b.byteSize add
  let size := divCeil bs b.page
  let mapSize := divCeil size 64
  pure { b with byteSize := bs, size := size, map := resizeWords b.map mapSize }

/-- `enlarge` as compiled without overflow checks: `byte_size += additional_size` wraps.
    (A VMM-chosen operand, not a guest one; outside every property's quantifier, kept so
    that the correspondence run can follow the real code in both build profiles.) -/
def enlargeUnchecked (b : ABitmap) (add : Nat) : ABitmap :=
  let bs := wrappingAdd b.byteSize add
  let size := divCeil bs b.page
  { b with byteSize := bs, size := size, map := resizeWords b.map (divCeil size 64) }

/-- `is_bit_set`: program = one load when in range.  `self.map[index >> 6]` is an
    indexing operation: out of range ⇒ panic. -/
def isBitSet (b : ABitmap) (i : Nat) : Res Bool :=
  if i < b.size then
    match b.map[i / 64]? with
    | some w => .ok (w.getLsbD (i % 64))
    | none => .panic
  else .ok false

/-- `is_addr_set` (`addr / page_size`, non-zero divisor) -/
def isAddrSet (b : ABitmap) (addr : Nat) : Res Bool := b.isBitSet (addr / b.page)

/-- the step issued for page `n` by `set_reset_addr_range` / `set_bit` / `reset_bit` -/
def bitStep (n : Nat) (set : Bool) : AStep :=
  if set then .fetchOr (n / 64) (bitMask n) else .fetchAnd (n / 64) (~~~ bitMask n)

/-- `for n in first..=last { if n >= size { break }; … }` as a list of steps. -/
def rangeSteps (size : Nat) (n last : Nat) (set : Bool) : List AStep :=
  if n ≤ last ∧ n < size then bitStep n set :: rangeSteps size (n + 1) last set else []
termination_by size - n

/-- program of `set_reset_addr_range(start, len, set)` -/
def rangeProgram (b : ABitmap) (start len : Nat) (set : Bool) : List AStep :=
  if len = 0 then []
  else rangeSteps b.size (start / b.page) (saturatingAdd start (len - 1) / b.page) set

/-- every step of a program indexes `self.map[..]`: out of range ⇒ panic -/
def stepInRange (m : Words) : AStep → Bool
  | .fetchOr w _ | .fetchAnd w _ | .load w | .store w _ => w < m.length

def runProgram (b : ABitmap) (p : List AStep) : Res ABitmap :=
  if p.all (stepInRange b.map) then .ok { b with map := (runAll b.map p).1 } else .panic

/-- `set_addr_range` / `reset_addr_range` -/
def setResetAddrRange (b : ABitmap) (start len : Nat) (set : Bool) : Res ABitmap :=
  b.runProgram (b.rangeProgram start len set)

/-- `set_bit` / `reset_bit` -/
def bitProgram (b : ABitmap) (i : Nat) (set : Bool) : List AStep :=
  if i ≥ b.size then [] else [bitStep i set]
def setResetBit (b : ABitmap) (i : Nat) (set : Bool) : Res ABitmap :=
  b.runProgram (b.bitProgram i set)

/-- `get_and_reset`: `fetch_and(0)` on every word in order, returning the old words -/
def harvestProgram (b : ABitmap) : List AStep :=
  (List.range b.map.length).map (fun w => .fetchAnd w 0)
def getAndReset (b : ABitmap) : ABitmap × List (BitVec 64) :=
  let r := runAll b.map b.harvestProgram
  ({ b with map := r.1 }, r.2)

/-- `reset`: plain stores of 0 -/
def resetProgram (b : ABitmap) : List AStep :=
  (List.range b.map.length).map (fun w => .store w 0)
def reset (b : ABitmap) : ABitmap := { b with map := (runAll b.map b.resetProgram).1 }

/-- `clone`: loads every word -/
def cloneProgram (b : ABitmap) : List AStep := (List.range b.map.length).map .load
def clone (b : ABitmap) : ABitmap := { b with map := (runAll b.map b.cloneProgram).2 }

/-- `Bitmap::mark_dirty` / `dirty_at` for `AtomicBitmap` -/
def markDirty (b : ABitmap) (off len : Nat) : Res ABitmap := b.setResetAddrRange off len true
def dirtyAt (b : ABitmap) (off : Nat) : Res Bool := b.isAddrSet off

/-- total version used for abstraction in theorems: bit `p` is set (and in range) -/
def bit (b : ABitmap) (p : Nat) : Bool := p < b.size && (b.map.getD (p / 64) 0).getLsbD (p % 64)

end ABitmap

/-- `BaseSlice<B>` (RefSlice / ArcSlice): the inner bitmap is shared, only the
    base offset belongs to the slice.  `slice_at`, `mark_dirty`, `dirty_at` use
    `wrapping_add`. -/
def sliceAt (base off : Nat) : Nat := wrappingAdd base off

/-- A bitmap flavour as seen by an accessor: `()` (`none`-like, never tracks),
    `Option<B>` with `None`, or a tracking bitmap with a base offset. -/
def markVia (b : ABitmap) (base off len : Nat) : Res ABitmap := b.markDirty (wrappingAdd base off) len
def dirtyVia (b : ABitmap) (base off : Nat) : Res Bool := b.dirtyAt (wrappingAdd base off)

end VmMem
