/-
  VmMem.Model.XenBuild — mmap/xen.rs: what `MmapRegion::from_range` (→ `MmapXen::new` →
  `MmapXenUnix::new | MmapXenForeign::new | MmapXenGrant::new`) asks of the kernel, in which
  order, what it gives back on each failure path, and what `Drop` returns.

  The kernel is a parameter: the state it keeps on the library's behalf is the set of live
  `mmap` ranges and the set of live gntdev grant mappings; each *fallible* system call
  (`mmap`, `IOCTL_GNTDEV_MAP_GRANT_REF`, `IOCTL_PRIVCMD_MMAPBATCH_V2`) consumes one entry of a
  reply script (`false` = the call fails; an exhausted script answers "success").  `munmap`
  and `IOCTL_GNTDEV_UNMAP_GRANT_REF` are taken to succeed (the source `unwrap`s the latter).
-/
import VmMem.Model.Basic
import VmMem.Model.Construct
namespace VmMem
namespace XenBuild
open Construct

def MAP_NORESERVE : Nat := 0x4000
def PROT_RW : Nat := 3
/-- `XEN_GRANT_ADDR_OFF = 1 << 63` -/
def GRANT_ADDR_OFF : Nat := 2 ^ 63

/-- kernel-side state held on behalf of the library -/
structure Kernel where
  maps : List (Nat × Nat) := []      -- live `mmap` ranges `(addr, size)`
  grants : List (Nat × Nat) := []    -- live gntdev mappings `(index, count)`
  next : Nat := 0x10000              -- where the next fresh mapping goes
  faults : Nat := 0                  -- releases of something that is not held: a second `munmap` of a range, a second
                                     -- unmap of a grant mapping ("unmapped, exactly once" is `faults = 0`)
  deriving Repr, DecidableEq

/-- replies of the successive fallible system calls -/
abbrev Script := List Bool

/-- `mmap(null, size, prot, flags, fd, off)` -/
def mmapCall (k : Kernel) (size : Nat) (sc : Script) : Option Nat × Kernel × Script :=
  match sc with
  | false :: rest => (none, k, rest)
  | _ => (some k.next, { k with maps := (k.next, size) :: k.maps, next := k.next + size + 4096 }, sc.tail)

def munmapCall (k : Kernel) (addr size : Nat) : Kernel :=
  if (addr, size) ∈ k.maps then { k with maps := k.maps.erase (addr, size) } else { k with faults := k.faults + 1 }

/-- `IOCTL_GNTDEV_MAP_GRANT_REF {count, refs = base ..}`: on success the device remembers
    `(index, count)` and reports `index` (the offset to pass to `mmap`) -/
def grantMapCall (k : Kernel) (index count : Nat) (sc : Script) : Bool × Kernel × Script :=
  match sc with
  | false :: rest => (false, k, rest)
  | _ => (true, { k with grants := (index, count) :: k.grants }, sc.tail)

def grantUnmapCall (k : Kernel) (index count : Nat) : Kernel :=
  if (index, count) ∈ k.grants then { k with grants := k.grants.erase (index, count) } else { k with faults := k.faults + 1 }

/-- `IOCTL_PRIVCMD_MMAPBATCH_V2`: populates an existing mapping; holds no state of its own -/
def privcmdCall (sc : Script) : Bool × Script :=
  match sc with
  | false :: rest => (false, rest)
  | _ => (true, sc.tail)

/-- `pages(size) = (size.div_ceil(page), page * count)` -/
def pages (size page : Nat) : Nat × Nat := (divCeil size page, page * divCeil size page)

/-- the index the device hands out for a grant mapping of guest address `addr`: in the source the
    first grant reference is `((addr & !XEN_GRANT_ADDR_OFF) / page) as u32`; the emulated device
    of hook H3 answers `reference * page` -/
def grantIndex (addr page : Nat) : Nat := (((addr % GRANT_ADDR_OFF) / page) % 2 ^ 32) * page

structure Req where
  size : Nat
  file : Option FileReq
  prot : Option Nat
  flags : Option Nat
  xenFlags : Flags
  xenData : Nat
  guestBase : Nat
  deriving Repr, DecidableEq

/-- the mapping object inside the region (`Box<dyn MmapXenTrait>`) -/
inductive XMap where
  | unix (addr size : Nat)                               -- `MmapXenUnix(MmapUnix{addr,size})`
  | foreign (addr size : Nat)                            -- `MmapXenForeign{unix_mmap}`
  | grantAdvance (addr msize index rsize : Nat)          -- `MmapXenGrant{unix_mmap: Some, index, size}`
  | grantOnDemand                                        -- `MmapXenGrant{unix_mmap: None}`
  deriving Repr, DecidableEq

/-- the region `from_range` returns: what its accessors report, and what it owns -/
structure Region where
  size : Nat
  prot : Nat
  flags : Nat
  fileStart : Option Nat
  xenFlags : Nat
  xenData : Nat
  map : XMap
  deriving Repr, DecidableEq

/-- `MmapXenGrant::mmap_range(addr, size, prot)`: map the grant references, then `mmap` at the index.
    If that `mmap` fails the grant mapping is given back (`unmap_ioctl`) before the error is returned. -/
def mmapRange (k : Kernel) (addr size page : Nat) (sc : Script) : Option (Nat × Nat × Nat) × Kernel × Script :=
  let (count, msize) := pages size page
  let index := grantIndex addr page
  match grantMapCall k index count sc with
  | (false, k1, sc1) => (none, k1, sc1)
  | (true, k1, sc1) =>
    match mmapCall k1 msize sc1 with
    | (none, k2, sc2) => (none, grantUnmapCall k2 index count, sc2)
    | (some a, k2, sc2) => (some (a, msize, index), k2, sc2)

/-- the same function as it stood before the repair (defect D7): the error of `MmapUnix::new` was
    propagated with `?` and the grant mapping made just before stayed behind -/
def mmapRangeBeforeFix (k : Kernel) (addr size page : Nat) (sc : Script) : Option (Nat × Nat × Nat) × Kernel × Script :=
  let (count, msize) := pages size page
  let index := grantIndex addr page
  match grantMapCall k index count sc with
  | (false, k1, sc1) => (none, k1, sc1)
  | (true, k1, sc1) =>
    match mmapCall k1 msize sc1 with
    | (none, k2, sc2) => (none, k2, sc2)
    | (some a, k2, sc2) => (some (a, msize, index), k2, sc2)

/-- `MmapXenGrant::unmap_range(unix_mmap, size, index)`: `drop(unix_mmap)` then `unmap_ioctl(pages(size).0, index)` -/
def unmapRange (k : Kernel) (addr msize index size page : Nat) : Kernel :=
  grantUnmapCall (munmapCall k addr msize) index (pages size page).1

/-- what `MmapXen::new` builds for a request whose flag word was accepted, generic in `mmap_range` -/
def newMapWith (mr : Kernel → Nat → Nat → Nat → Script → Option (Nat × Nat × Nat) × Kernel × Script)
    (r : Req) (f : Flags) (page : Nat) (k : Kernel) (sc : Script) : Except BErr XMap × Kernel × Script :=
  if isForeign f then
    match validateFile r.file with
    | .error e => (.error e, k, sc)
    | .ok () =>
      let (_, msize) := pages r.size page
      match mmapCall k msize sc with
      | (none, k1, sc1) => (.error .mmapFailed, k1, sc1)
      | (some a, k1, sc1) =>
        match privcmdCall sc1 with
        | (false, sc2) => (.error .mmapFailed, munmapCall k1 a msize, sc2)     -- `?` drops `foreign`
        | (true, sc2) => (.ok (.foreign a msize), k1, sc2)
  else if isGrant f then
    match validateFile r.file with
    | .error e => (.error e, k, sc)
    | .ok () =>
      if mmapInAdvance f then
        match mr k r.guestBase r.size page sc with
        | (none, k1, sc1) => (.error .mmapFailed, k1, sc1)
        | (some (a, msize, index), k1, sc1) => (.ok (.grantAdvance a msize index r.size), k1, sc1)
      else (.ok .grantOnDemand, k, sc)
  else
    match (match r.file with | some fr => checkFileOffset fr r.size | none => .ok ()) with
    | .error e => (.error e, k, sc)
    | .ok () =>
      match mmapCall k r.size sc with
      | (none, k1, sc1) => (.error .mmapFailed, k1, sc1)
      | (some a, k1, sc1) => (.ok (.unix a r.size), k1, sc1)

/-- the `flags` the region ends up with: `MAP_FIXED` is refused, `None` becomes `MAP_NORESERVE | MAP_SHARED` -/
def effFlags (r : Req) : Option Nat :=
  match r.flags with
  | some fl => if fl &&& MAP_FIXED ≠ 0 then none else some fl
  | none => some (MAP_NORESERVE ||| MAP_SHARED)

/-- `MmapXen::new(&range)` and the construction of the `MmapRegion` around it -/
def fromRangeCore (mr : Kernel → Nat → Nat → Nat → Script → Option (Nat × Nat × Nat) × Kernel × Script)
    (r : Req) (page : Nat) (k : Kernel) (sc : Script) (prot flags : Nat) : Except BErr Region × Kernel × Script :=
  match fromBits r.xenFlags with
  | none => (.error (.mmapFlags r.xenFlags.toNat), k, sc)
  | some f =>
    if !isValid f then (.error (.mmapFlags f.toNat), k, sc)
    else
      match newMapWith mr r f page k sc with
      | (.error e, k1, sc1) => (.error e, k1, sc1)
      | (.ok m, k1, sc1) =>
        (.ok { size := r.size, prot := prot, flags := flags, fileStart := r.file.map (·.start),
               xenFlags := f.toNat, xenData := r.xenData, map := m }, k1, sc1)

/-- `MmapRegion::from_range`, generic in `mmap_range` -/
def fromRangeWith (mr : Kernel → Nat → Nat → Nat → Script → Option (Nat × Nat × Nat) × Kernel × Script)
    (r : Req) (page : Nat) (k : Kernel) (sc : Script) : Except BErr Region × Kernel × Script :=
  match effFlags r with
  | none => (.error .mapFixed, k, sc)
  | some flags => fromRangeCore mr r page k sc (r.prot.getD PROT_RW) flags

def fromRange := fromRangeWith mmapRange
def fromRangeBeforeFix := fromRangeWith mmapRangeBeforeFix

/-- `Drop` of the region's mapping object -/
def dropMap (k : Kernel) (m : XMap) (page : Nat) : Kernel :=
  match m with
  | .unix a s => munmapCall k a s
  | .foreign a s => munmapCall k a s
  | .grantAdvance a ms idx rs => unmapRange k a ms idx rs page
  | .grantOnDemand => k

/-- `GuestRegionMmap::new(MmapRegion::from_range(range)?, guest_base)`: the region is consumed; when
    `guest_base + size` overflows the error is returned and the region just built is dropped -/
def guestRegionFromRange (r : Req) (guestBase page : Nat) (k : Kernel) (sc : Script) : Except BErr Region × Kernel × Script :=
  match fromRange r page k sc with
  | (.error e, k', sc') => (.error e, k', sc')
  | (.ok reg, k', sc') =>
    match checkedAdd guestBase reg.size with
    | none => (.error .invalidGuestRegion, dropMap k' reg.map page, sc')
    | some _ => (.ok reg, k', sc')

/-- number of fallible system calls a request that passed validation makes when all succeed -/
def callsNeeded (f : Flags) : Nat :=
  if isForeign f then 2 else if isGrant f then (if mmapInAdvance f then 2 else 0) else 1

/-- the request as `Construct.xenValidate` sees it -/
def Req.toXenReq (r : Req) : XenReq := { size := r.size, file := r.file, flags := r.flags, xenFlags := r.xenFlags }

end XenBuild
end VmMem
