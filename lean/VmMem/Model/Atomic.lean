/-
  VmMem.Model.Atomic — atomic.rs: `GuestMemoryAtomic<M>` = `Arc<(ArcSwap<M>, Mutex<()>)>`,
  `memory()` (an `ArcSwap::load` guard), `GuestMemoryLoadGuard::{clone, into_inner}`,
  `lock()`, `GuestMemoryExclusiveGuard::replace(self, map)`.

  Atomic steps (one per `ArcSwap`/`Mutex`/`Arc` operation); a concurrent execution of any
  number of reader and updater threads is *some list of steps*.  Maps are identified by a
  number; a map id always denotes one complete, immutable map (`Arc<M>`), so "a snapshot
  shows a mixture" would have to show up as an id that was never published.
-/
import VmMem.Model.Basic
namespace VmMem
namespace Atomic

structure St where
  cur : Nat                    -- map id stored in the ArcSwap cell
  lock : Option Nat            -- thread holding the mutex
  owners : List (Nat × Nat)    -- (owner id, map id): live guards / owned Arcs (the cell itself is not listed)
  freed : List Nat             -- maps whose last reference went away
  published : List Nat         -- every id ever stored in the cell, oldest first
  deriving Repr, DecidableEq

def init (m0 : Nat) : St := { cur := m0, lock := none, owners := [], freed := [], published := [m0] }

inductive Step where
  | snapshot (o : Nat)              -- `memory()`: load the cell, become an owner of what it held
  | cloneOwner (o src : Nat)        -- `guard.clone()` / `Arc::clone` / `into_inner` (ownership of the same map)
  | dropOwner (o : Nat)
  | lock (t : Nat)                  -- enabled iff the mutex is free
  | replace (t : Nat) (newMap : Nat)-- requires holding the lock; store, drop the cell's old reference, then unlock
  | unlock (t : Nat)                -- drop the exclusive guard without replacing
  deriving Repr, DecidableEq

def refs (s : St) (m : Nat) : Nat := (s.owners.filter (·.2 == m)).length + (if s.cur == m then 1 else 0)

/-- free every published map that has no reference left -/
def collect (s : St) : St :=
  { s with freed := s.freed ++ (s.published.filter fun m => refs s m == 0 && !s.freed.contains m) }

/-- one step; disabled steps leave the state unchanged.  The second component is what
    the step returns to its caller (the map id a snapshot shows). -/
def step (s : St) : Step → St × Option Nat
  | .snapshot o => ({ s with owners := s.owners ++ [(o, s.cur)] }, some s.cur)
  | .cloneOwner o src =>
    match s.owners.find? (·.1 == src) with
    | some (_, m) => ({ s with owners := s.owners ++ [(o, m)] }, some m)
    | none => (s, none)
  | .dropOwner o => (collect { s with owners := s.owners.filter (·.1 != o) }, none)
  | .lock t => if s.lock.isNone then ({ s with lock := some t }, none) else (s, none)
  | .replace t newMap =>
    if s.lock == some t && !s.published.contains newMap then
      (collect { s with cur := newMap, published := s.published ++ [newMap], lock := none }, none)
    else (s, none)
  | .unlock t => if s.lock == some t then ({ s with lock := none }, none) else (s, none)

def run (s : St) : List Step → St × List (Option Nat)
  | [] => (s, [])
  | a :: rest =>
    let (s1, r) := step s a
    let (s2, rs) := run s1 rest
    (s2, r :: rs)

/-- the map an owner currently designates -/
def mapOf (s : St) (o : Nat) : Option Nat := (s.owners.find? (·.1 == o)).map (·.2)

end Atomic
end VmMem
