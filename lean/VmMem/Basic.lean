def hello := "world"
