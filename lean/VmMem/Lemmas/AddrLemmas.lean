/-
  VmMem.Lemmas.AddrLemmas — number-theoretic and bit-level helper lemmas for C19.
-/
import VmMem.Model.Addr
namespace VmMem
namespace AddrLemmas

/-- bit `k` of a number in `[2^k, 2^(k+1))` is set -/
theorem testBit_of_range {x k : Nat} (h1 : 2 ^ k ≤ x) (h2 : x < 2 ^ (k + 1)) :
    x.testBit k = true := by
  have hx : x = 2 ^ k + (x - 2 ^ k) := by omega
  have hlt : x - 2 ^ k < 2 ^ k := by
    have : 2 ^ (k + 1) = 2 * 2 ^ k := by rw [Nat.pow_succ]; omega
    omega
  rw [hx, Nat.testBit_two_pow_add_eq, Nat.testBit_lt_two_pow hlt]; rfl

/-- `n & (n-1) = 0` for positive `n` forces `n` to be a power of two -/
theorem pow2_of_and_pred {n : Nat} (hn : n ≠ 0) (h : n &&& (n - 1) = 0) : n = 2 ^ n.log2 := by
  have hle := Nat.log2_self_le hn
  have hlt := @Nat.lt_log2_self n
  by_cases heq : n = 2 ^ n.log2
  · exact heq
  · exfalso
    have hb1 : n.testBit n.log2 = true := testBit_of_range hle hlt
    have hb2 : (n - 1).testBit n.log2 = true := testBit_of_range (by omega) (by omega)
    have : (n &&& (n - 1)).testBit n.log2 = true := by
      rw [Nat.testBit_and, hb1, hb2]; rfl
    rw [h] at this
    simp at this

theorem and_pred_two_pow (k : Nat) : 2 ^ k &&& (2 ^ k - 1) = 0 := by
  rw [Nat.and_two_pow_sub_one_eq_mod]; exact Nat.mod_self _

/-- clearing the low `k` bits -/
theorem and_not_low (x k n : Nat) (hx : x < 2 ^ n) (hk : k ≤ n) :
    x &&& (2 ^ n - 1 - (2 ^ k - 1)) = x / 2 ^ k * 2 ^ k := by
  have hpk : 0 < 2 ^ k := Nat.two_pow_pos k
  have hkn : 2 ^ k ≤ 2 ^ n := Nat.pow_le_pow_right (by decide) hk
  have e : 2 ^ n - 1 - (2 ^ k - 1) = 2 ^ n - ((2 ^ k - 1) + 1) := by omega
  apply Nat.eq_of_testBit_eq
  intro i
  rw [Nat.testBit_and, e, Nat.testBit_two_pow_sub_succ (by omega), Nat.testBit_two_pow_sub_one,
    Nat.testBit_mul_two_pow, Nat.testBit_div_two_pow]
  by_cases hik : k ≤ i
  · have e2 : i - k + k = i := by omega
    rw [e2]
    by_cases hin : i < n
    · have : ¬ i < k := by omega
      simp [hik, hin, this]
    · have : x.testBit i = false := by
        apply Nat.testBit_lt_two_pow
        exact Nat.lt_of_lt_of_le hx (Nat.pow_le_pow_right (by decide) (by omega))
      simp [this]
  · have : i < k := by omega
    simp [hik, this]

/-- `(a + p - 1) / p * p` is the least multiple of `p` that is `≥ a` -/
theorem alignUp_least (a p : Nat) (hp : 0 < p) :
    p ∣ (a + (p - 1)) / p * p ∧ a ≤ (a + (p - 1)) / p * p ∧ (a + (p - 1)) / p * p ≤ a + (p - 1) ∧
      ∀ m, p ∣ m → a ≤ m → (a + (p - 1)) / p * p ≤ m := by
  have h1 := Nat.div_add_mod (a + (p - 1)) p
  have h2 := Nat.mod_lt (a + (p - 1)) hp
  have hc : p * ((a + (p - 1)) / p) = (a + (p - 1)) / p * p := Nat.mul_comm _ _
  refine ⟨Nat.dvd_mul_left _ _, by omega, by omega, ?_⟩
  intro m ⟨j, hj⟩ ham
  subst hj
  rw [Nat.mul_comm _ p]
  apply Nat.mul_le_mul_left
  apply Nat.le_of_not_lt
  intro hlt
  have : p * (j + 1) ≤ p * ((a + (p - 1)) / p) := Nat.mul_le_mul_left _ hlt
  rw [Nat.mul_add] at this
  omega

/-- least multiples are unique -/
theorem least_unique (a p r r' : Nat)
    (h : p ∣ r ∧ a ≤ r ∧ ∀ m, p ∣ m → a ≤ m → r ≤ m)
    (h' : p ∣ r' ∧ a ≤ r' ∧ ∀ m, p ∣ m → a ≤ m → r' ≤ m) : r = r' :=
  Nat.le_antisymm (h.2.2 r' h'.1 h'.2.1) (h'.2.2 r h.1 h.2.1)

/-- a multiple of `2^k` below `2^n` is at most `2^n - 2^k` -/
theorem multiple_le_top (k n m : Nat) (hk : k ≤ n) (hd : 2 ^ k ∣ m) (hm : m < 2 ^ n) :
    m + 2 ^ k ≤ 2 ^ n := by
  obtain ⟨j, rfl⟩ := hd
  have e : 2 ^ n = 2 ^ k * 2 ^ (n - k) := by rw [← Nat.pow_add]; congr 1; omega
  rw [e] at hm ⊢
  have : j < 2 ^ (n - k) := Nat.lt_of_mul_lt_mul_left hm
  have : 2 ^ k * (j + 1) ≤ 2 ^ k * 2 ^ (n - k) := Nat.mul_le_mul_left _ this
  rw [Nat.mul_add] at this
  omega

end AddrLemmas
end VmMem
