/-
  VmMem.Lemmas.DataLemmas — the data-moving layer of `VmMem.Model.Volatile`.

  * `splice l o d` : `l` with the window `[o, o + d.length)` replaced by `d`; every
    mutating operation of the model produces `splice m.bytes w d` for an explicit
    window, so "exactly the addressed bytes, in order, nothing else" is a fact about
    `splice` (`splice_getElem?`, `splice_read_same`, `splice_read_disjoint`).
  * closed forms of the raw accessors `Mem.readAt / writeAt / mark`.
  * `BmInv m` : the tracking bitmap (if any) satisfies the representation invariant
    of C09, which is exactly what keeps `Mem.mark` from panicking.
  * `Stored m w d bmBase off len m'` : `m'` is `m` after `d` was stored at container
    offset `w` and `mark_dirty(off, len)` was issued through a bitmap slice with base
    `bmBase`: bytes = `splice`, length and base unchanged, window in range (or empty),
    `BmInv` kept, bitmap = that of `m.mark bmBase off len` (so `m'` is unique).
    `store_core` / `store_core_k` are the lemmas all mutating operations reduce to.
-/
import VmMem.Model.Volatile
import VmMem.Lemmas.VolatileLemmas
import VmMem.Props.C09
namespace VmMem
namespace DataLemmas
open VolatileLemmas

/-! ### `splice` -/

/-- `l` with the bytes at `[o, o + d.length)` replaced by `d` -/
def splice (l : List UInt8) (o : Nat) (d : List UInt8) : List UInt8 :=
  l.take o ++ d ++ l.drop (o + d.length)

theorem splice_getElem? (l : List UInt8) (o : Nat) (d : List UInt8)
    (h : o + d.length ≤ l.length) (i : Nat) :
    (splice l o d)[i]? =
      if i < o then l[i]? else if i < o + d.length then d[i - o]? else l[i]? := by
  unfold splice
  simp only [List.getElem?_append, List.length_take, List.length_append, List.getElem?_take,
    List.getElem?_drop]
  have : min o l.length = o := by omega
  rw [this]
  by_cases h1 : i < o
  · simp [h1]; omega
  · by_cases h2 : i < o + d.length
    · simp [h1, h2]
    · simp [h1, h2]
      congr 1; omega

theorem splice_length (l : List UInt8) (o : Nat) (d : List UInt8) (h : o + d.length ≤ l.length) :
    (splice l o d).length = l.length := by
  unfold splice
  simp only [List.length_append, List.length_take, List.length_drop]
  omega

@[simp] theorem splice_nil (l : List UInt8) (o : Nat) : splice l o [] = l := by
  simp [splice]

/-- bytes outside the window are unchanged -/
theorem splice_frame (l : List UInt8) (o : Nat) (d : List UInt8) (h : o + d.length ≤ l.length)
    (i : Nat) (hi : i < o ∨ o + d.length ≤ i) : (splice l o d)[i]? = l[i]? := by
  rw [splice_getElem? l o d h]
  by_cases h1 : i < o
  · rw [if_pos h1]
  · have h2 : ¬ (i < o + d.length) := by omega
    rw [if_neg h1, if_neg h2]

/-- the window holds the data, in order -/
theorem splice_window (l : List UInt8) (o : Nat) (d : List UInt8) (h : o + d.length ≤ l.length)
    (i : Nat) (hi : i < d.length) : (splice l o d)[o + i]? = d[i]? := by
  rw [splice_getElem? l o d h]
  have h1 : ¬ (o + i < o) := by omega
  have h2 : o + i < o + d.length := by omega
  rw [if_neg h1, if_pos h2]
  congr 1; omega

theorem take_drop_getElem? (l : List UInt8) (o n i : Nat) :
    ((l.drop o).take n)[i]? = if i < n then l[o + i]? else none := by
  simp [List.getElem?_take, List.getElem?_drop]

theorem take_drop_length (l : List UInt8) (o n : Nat) (h : o + n ≤ l.length) :
    ((l.drop o).take n).length = n := by
  simp only [List.length_take, List.length_drop]; omega

/-- reading back exactly the window just written returns the data -/
theorem splice_read_same (l : List UInt8) (o : Nat) (d : List UInt8) (h : o + d.length ≤ l.length) :
    ((splice l o d).drop o).take d.length = d := by
  apply List.ext_getElem?
  intro i
  rw [take_drop_getElem?, splice_getElem? l o d h]
  by_cases hi : i < d.length
  · have h1 : ¬ (o + i < o) := by omega
    have h2 : o + i < o + d.length := by omega
    rw [if_pos hi, if_neg h1, if_pos h2]
    congr 1; omega
  · rw [if_neg hi]
    symm; apply List.getElem?_eq_none; omega

/-- reading a window disjoint from the one written returns the old bytes -/
theorem splice_read_disjoint (l : List UInt8) (o : Nat) (d : List UInt8)
    (h : o + d.length ≤ l.length) (o' n : Nat) (hd : o' + n ≤ o ∨ o + d.length ≤ o') :
    ((splice l o d).drop o').take n = (l.drop o').take n := by
  apply List.ext_getElem?
  intro i
  rw [take_drop_getElem?, take_drop_getElem?, splice_getElem? l o d h]
  by_cases hi : i < n
  · rw [if_pos hi, if_pos hi]
    by_cases h1 : o' + i < o
    · rw [if_pos h1]
    · have h2 : ¬ (o' + i < o + d.length) := by omega
      rw [if_neg h1, if_neg h2]
  · rw [if_neg hi, if_neg hi]

/-- storing what is already there changes nothing -/
theorem splice_self (l : List UInt8) (o n : Nat) (h : o + n ≤ l.length) :
    splice l o ((l.drop o).take n) = l := by
  have hl := take_drop_length l o n h
  apply List.ext_getElem?
  intro i
  rw [splice_getElem? l o _ (by omega), hl]
  by_cases h1 : i < o
  · rw [if_pos h1]
  · rw [if_neg h1]
    by_cases h2 : i < o + n
    · rw [if_pos h2, take_drop_getElem?, if_pos (by omega)]
      congr 1; omega
    · rw [if_neg h2]

/-! ### raw accessors -/

theorem inBounds_iff (m : Mem) (addr n : Nat) :
    m.inBounds addr n = true ↔ n = 0 ∨ (m.base ≤ addr ∧ addr + n ≤ m.base + m.bytes.length) := by
  simp [Mem.inBounds]

/-- closed form of `Mem.writeAt` -/
theorem writeAt_eq (m : Mem) (addr : Nat) (d : List UInt8) :
    m.writeAt addr d =
      if d = [] ∨ (m.base ≤ addr ∧ addr + d.length ≤ m.base + m.bytes.length) then
        .ok { m with bytes := splice m.bytes (addr - m.base) d }
      else .panic := by
  unfold Mem.writeAt
  by_cases h : m.inBounds addr d.length = true
  · rw [if_pos h, if_pos (by simpa [inBounds_iff] using h)]; rfl
  · rw [if_neg h, if_neg (by simpa [inBounds_iff] using h)]

theorem writeAt_ok (m : Mem) (addr : Nat) (d : List UInt8)
    (h : m.base ≤ addr ∧ addr + d.length ≤ m.base + m.bytes.length) :
    m.writeAt addr d = .ok { m with bytes := splice m.bytes (addr - m.base) d } := by
  rw [writeAt_eq, if_pos (Or.inr h)]

/-- writing no bytes is a no-op at any address -/
theorem writeAt_nil (m : Mem) (addr : Nat) : m.writeAt addr [] = .ok m := by
  rw [writeAt_eq, if_pos (Or.inl rfl), splice_nil]

theorem writeAt_panic (m : Mem) (addr : Nat) (d : List UInt8) (hd : d ≠ [])
    (h : ¬ (m.base ≤ addr ∧ addr + d.length ≤ m.base + m.bytes.length)) :
    m.writeAt addr d = .panic := by
  rw [writeAt_eq, if_neg (by simp [hd, h])]

/-- inversion: a successful write was in bounds (or empty) and spliced the data in -/
theorem writeAt_inv {m m' : Mem} {addr : Nat} {d : List UInt8} (h : m.writeAt addr d = .ok m') :
    (d = [] ∨ (m.base ≤ addr ∧ addr + d.length ≤ m.base + m.bytes.length)) ∧
      m' = { m with bytes := splice m.bytes (addr - m.base) d } := by
  rw [writeAt_eq] at h
  split at h
  · cases h; exact ⟨by assumption, rfl⟩
  · cases h

theorem writeAt_base_bm {m m' : Mem} {addr : Nat} {d : List UInt8} (h : m.writeAt addr d = .ok m') :
    m'.base = m.base ∧ m'.bm = m.bm := by
  rw [(writeAt_inv h).2]; exact ⟨rfl, rfl⟩

theorem writeAt_length {m m' : Mem} {addr : Nat} {d : List UInt8} (h : m.writeAt addr d = .ok m') :
    m'.bytes.length = m.bytes.length := by
  obtain ⟨hb, rfl⟩ := writeAt_inv h
  show (splice m.bytes (addr - m.base) d).length = m.bytes.length
  rcases hb with rfl | hb
  · rw [splice_nil]
  · exact splice_length _ _ _ (by omega)

theorem writeAt_frame {m m' : Mem} {addr : Nat} {d : List UInt8} (h : m.writeAt addr d = .ok m')
    (i : Nat) (hi : i < addr - m.base ∨ addr - m.base + d.length ≤ i) : m'.bytes[i]? = m.bytes[i]? := by
  obtain ⟨hb, rfl⟩ := writeAt_inv h
  show (splice m.bytes (addr - m.base) d)[i]? = m.bytes[i]?
  rcases hb with rfl | hb
  · rw [splice_nil]
  · exact splice_frame _ _ _ (by omega) i hi

theorem writeAt_window {m m' : Mem} {addr : Nat} {d : List UInt8} (h : m.writeAt addr d = .ok m')
    (i : Nat) (hi : i < d.length) : m'.bytes[addr - m.base + i]? = d[i]? := by
  obtain ⟨hb, rfl⟩ := writeAt_inv h
  show (splice m.bytes (addr - m.base) d)[addr - m.base + i]? = d[i]?
  rcases hb with rfl | hb
  · simp at hi
  · exact splice_window _ _ _ (by omega) i hi

/-- closed form of `Mem.readAt` -/
theorem readAt_eq (m : Mem) (addr n : Nat) :
    m.readAt addr n =
      if n = 0 ∨ (m.base ≤ addr ∧ addr + n ≤ m.base + m.bytes.length) then
        .ok ((m.bytes.drop (addr - m.base)).take n)
      else .panic := by
  unfold Mem.readAt
  by_cases h : m.inBounds addr n = true
  · rw [if_pos h, if_pos (by simpa [inBounds_iff] using h)]
  · rw [if_neg h, if_neg (by simpa [inBounds_iff] using h)]

theorem readAt_ok (m : Mem) (addr n : Nat)
    (h : m.base ≤ addr ∧ addr + n ≤ m.base + m.bytes.length) :
    m.readAt addr n = .ok ((m.bytes.drop (addr - m.base)).take n) := by
  rw [readAt_eq, if_pos (Or.inr h)]

/-- reading no bytes is a no-op at any address -/
theorem readAt_zero (m : Mem) (addr : Nat) : m.readAt addr 0 = .ok [] := by
  rw [readAt_eq, if_pos (Or.inl rfl), List.take_zero]

theorem readAt_panic (m : Mem) (addr n : Nat) (hn : n ≠ 0)
    (h : ¬ (m.base ≤ addr ∧ addr + n ≤ m.base + m.bytes.length)) : m.readAt addr n = .panic := by
  rw [readAt_eq, if_neg (by simp [hn, h])]

theorem readAt_inv {m : Mem} {addr n : Nat} {d : List UInt8} (h : m.readAt addr n = .ok d) :
    (n = 0 ∨ (m.base ≤ addr ∧ addr + n ≤ m.base + m.bytes.length)) ∧
      d = (m.bytes.drop (addr - m.base)).take n := by
  rw [readAt_eq] at h
  split at h
  · cases h; exact ⟨by assumption, rfl⟩
  · cases h

theorem readAt_length {m : Mem} {addr n : Nat} {d : List UInt8} (h : m.readAt addr n = .ok d) :
    d.length = n := by
  obtain ⟨hb, rfl⟩ := readAt_inv h
  rcases hb with rfl | hb
  · simp
  · exact take_drop_length _ _ _ (by omega)

theorem readAt_getElem {m : Mem} {addr n : Nat} {d : List UInt8} (h : m.readAt addr n = .ok d)
    (i : Nat) (hi : i < n) : d[i]? = m.bytes[addr - m.base + i]? := by
  obtain ⟨_, rfl⟩ := readAt_inv h
  rw [take_drop_getElem?, if_pos hi]

/-- reading exactly the window just written returns the data -/
theorem readAt_writeAt_same {m m' : Mem} {addr : Nat} {d : List UInt8}
    (h : m.writeAt addr d = .ok m') : m'.readAt addr d.length = .ok d := by
  obtain ⟨hb, rfl⟩ := writeAt_inv h
  rcases hb with rfl | hb
  · exact readAt_zero _ _
  · have hl : (splice m.bytes (addr - m.base) d).length = m.bytes.length :=
      splice_length _ _ _ (by omega)
    rw [readAt_eq, if_pos (Or.inr (by show m.base ≤ addr ∧ addr + d.length ≤ m.base + _; rw [hl]; exact hb))]
    show Res.ok (((splice m.bytes (addr - m.base) d).drop (addr - m.base)).take d.length) = _
    rw [splice_read_same _ _ _ (by omega)]

/-- reading a window disjoint from the one just written returns what was there before -/
theorem readAt_writeAt_disjoint {m m' : Mem} {addr : Nat} {d : List UInt8}
    (h : m.writeAt addr d = .ok m') (addr' n : Nat)
    (hin : m.base ≤ addr' ∧ addr' + n ≤ m.base + m.bytes.length)
    (hd : addr' + n ≤ addr ∨ addr + d.length ≤ addr') : m'.readAt addr' n = m.readAt addr' n := by
  obtain ⟨hb, rfl⟩ := writeAt_inv h
  rcases hb with rfl | hb
  · rw [splice_nil]
  · have hl : (splice m.bytes (addr - m.base) d).length = m.bytes.length :=
      splice_length _ _ _ (by omega)
    rw [readAt_eq, readAt_eq, if_pos (Or.inr hin),
      if_pos (Or.inr (by show m.base ≤ addr' ∧ addr' + n ≤ m.base + _; rw [hl]; exact hin))]
    show Res.ok (((splice m.bytes (addr - m.base) d).drop (addr' - m.base)).take n) = _
    rw [splice_read_disjoint _ _ _ (by omega) _ _ (by omega)]

/-! ### marking -/

theorem mark_bytes {m m' : Mem} {b o l : Nat} (h : m.mark b o l = .ok m') :
    m'.bytes = m.bytes ∧ m'.base = m.base := by
  unfold Mem.mark at h
  split at h
  · cases h; exact ⟨rfl, rfl⟩
  · obtain ⟨b', _, hb'⟩ := (Res.bind_eq_ok _ _ _).1 h
    cases hb'; exact ⟨rfl, rfl⟩

/-- `mark_dirty(_, 0)` marks nothing: the program of `set_addr_range` is empty -/
theorem mark_zero (m : Mem) (bmBase off : Nat) : m.mark bmBase off 0 = .ok m := by
  unfold Mem.mark
  cases m with
  | mk base bytes bm =>
    cases bm with
    | none => rfl
    | some b => rfl

theorem mark_none (m : Mem) (h : m.bm = none) (b o l : Nat) : m.mark b o l = .ok m := by
  unfold Mem.mark; rw [h]

/-- a mark through `slice_at(0)` of a bitmap slice is a mark through the slice itself -/
theorem mark_sliceAt_zero (m : Mem) (b o l : Nat) : m.mark (sliceAt b 0) o l = m.mark b o l := by
  unfold Mem.mark
  cases m.bm with
  | none => rfl
  | some bm =>
    show (markVia bm (sliceAt b 0) o l >>= _) = (markVia bm b o l >>= _)
    rw [C09.markVia_sliceAt, C09.markVia_spec, C09.markVia_spec]
    have : (b + (0 + o) % U) % U = (b + o) % U := by unfold U; omega
    rw [this]

/-- replace the bytes of a container inside a result -/
def setBytes (bs : List UInt8) : Res Mem → Res Mem
  | .ok m0 => .ok { m0 with bytes := bs }
  | .err e => .err e
  | .panic => .panic

/-- marking does not look at the bytes -/
theorem mark_congr (m : Mem) (bs : List UInt8) (b o l : Nat) :
    ({ m with bytes := bs } : Mem).mark b o l = setBytes bs (m.mark b o l) := by
  unfold Mem.mark
  cases m with
  | mk base bytes bm =>
    cases bm with
    | none => rfl
    | some bmv =>
      show (markVia bmv b o l >>= _) = setBytes bs (markVia bmv b o l >>= _)
      cases markVia bmv b o l <;> rfl

/-- the tracking bitmap (if any) satisfies the representation invariant of C09 -/
def BmInv (m : Mem) : Prop := ∀ b, m.bm = some b → C09.Inv b

theorem BmInv_none (m : Mem) (h : m.bm = none) : BmInv m := by
  intro b hb; rw [h] at hb; cases hb

theorem BmInv_congr {m m' : Mem} (h : m'.bm = m.bm) (hi : BmInv m) : BmInv m' := by
  intro b hb; rw [h] at hb; exact hi b hb

/-- under `BmInv` a mark never panics, keeps `BmInv`, and does not touch bytes or base -/
theorem mark_ok (m : Mem) (hinv : BmInv m) (b o l : Nat) :
    ∃ m', m.mark b o l = .ok m' ∧ BmInv m' ∧ m'.bytes = m.bytes ∧ m'.base = m.base := by
  unfold Mem.mark
  cases hbm : m.bm with
  | none => exact ⟨m, rfl, hinv, rfl, rfl⟩
  | some bm =>
    have hi := hinv bm hbm
    obtain ⟨bm', hok, hinv', _⟩ := C09.markVia_bits bm hi b o l
    refine ⟨{ m with bm := some bm' }, ?_, ?_, rfl, rfl⟩
    · show (markVia bm b o l >>= _) = _
      rw [hok]; rfl
    · intro b' hb'
      cases hb'; exact hinv'

/-! ### `Stored` — the common post-condition of all mutating operations -/

/-- `m'` is `m` after `d` was stored at container offset `w` and `mark_dirty(off, len)`
    went through a bitmap slice with base offset `bmBase`.  The three fields of `m'`
    are determined: bytes by `splice`, base unchanged, bitmap = that of `m.mark …`. -/
structure Stored (m : Mem) (w : Nat) (d : List UInt8) (bmBase off len : Nat) (m' : Mem) : Prop where
  bytes : m'.bytes = splice m.bytes w d
  length_eq : m'.bytes.length = m.bytes.length
  win : d = [] ∨ w + d.length ≤ m.bytes.length
  base : m'.base = m.base
  inv : BmInv m'
  bm : ∃ m0, m.mark bmBase off len = .ok m0 ∧ m'.bm = m0.bm

namespace Stored
variable {m m' : Mem} {w : Nat} {d : List UInt8} {bmBase off len : Nat}

theorem length (h : Stored m w d bmBase off len m') : m'.bytes.length = m.bytes.length := h.length_eq

/-- bytes outside the written window are unchanged -/
theorem frame (h : Stored m w d bmBase off len m')
    (i : Nat) (hi : i < w ∨ w + d.length ≤ i) : m'.bytes[i]? = m.bytes[i]? := by
  rw [h.bytes]
  rcases h.win with h0 | hw
  · rw [h0, splice_nil]
  · exact splice_frame _ _ _ hw i hi

/-- the window holds the data in address order -/
theorem window (h : Stored m w d bmBase off len m')
    (i : Nat) (hi : i < d.length) : m'.bytes[w + i]? = d[i]? := by
  rw [h.bytes]
  rcases h.win with h0 | hw
  · rw [h0] at hi; simp at hi
  · exact splice_window _ _ _ hw i hi

/-- reading the window back gives the data -/
theorem readback (h : Stored m w d bmBase off len m') :
    (m'.bytes.drop w).take d.length = d := by
  rw [h.bytes]
  rcases h.win with h0 | hw
  · rw [h0]; simp
  · exact splice_read_same _ _ _ hw

/-- reading any window disjoint from the one written gives the old bytes -/
theorem readback_disjoint (h : Stored m w d bmBase off len m') (w' n : Nat)
    (hd : w' + n ≤ w ∨ w + d.length ≤ w') :
    (m'.bytes.drop w').take n = (m.bytes.drop w').take n := by
  rw [h.bytes]
  rcases h.win with h0 | hw
  · rw [h0, splice_nil]
  · exact splice_read_disjoint _ _ _ hw _ _ hd

/-- a store of no bytes leaves the bytes alone -/
theorem bytes_nil (h : Stored m w [] bmBase off len m') : m'.bytes = m.bytes := by
  rw [h.bytes, splice_nil]

/-- the result is unique -/
theorem unique {m'' : Mem} (h1 : Stored m w d bmBase off len m')
    (h2 : Stored m w d bmBase off len m'') : m' = m'' := by
  obtain ⟨m0, hm0, hb1⟩ := h1.bm
  obtain ⟨m0', hm0', hb2⟩ := h2.bm
  rw [hm0] at hm0'; cases hm0'
  cases m'; cases m''
  simp only [Mem.mk.injEq]
  exact ⟨h1.base.trans h2.base.symm, h1.bytes.trans h2.bytes.symm, hb1.trans hb2.symm⟩

/-- without a tracking bitmap the result is the spliced container -/
theorem eq_of_bm_none (h : Stored m w d bmBase off len m') (hn : m.bm = none) :
    m' = { m with bytes := splice m.bytes w d } := by
  obtain ⟨m0, hm0, hb⟩ := h.bm
  rw [mark_none m hn] at hm0; cases hm0
  cases m'
  simp only [Mem.mk.injEq]
  exact ⟨h.base, h.bytes, hb⟩
end Stored

theorem splice_length_of {m : Mem} {addr : Nat} {d : List UInt8}
    (hb : d = [] ∨ (m.base ≤ addr ∧ addr + d.length ≤ m.base + m.bytes.length)) :
    (splice m.bytes (addr - m.base) d).length = m.bytes.length := by
  rcases hb with rfl | hb
  · rw [splice_nil]
  · exact splice_length _ _ _ (by omega)

theorem win_of {m : Mem} {addr : Nat} {d : List UInt8}
    (hb : d = [] ∨ (m.base ≤ addr ∧ addr + d.length ≤ m.base + m.bytes.length)) :
    d = [] ∨ addr - m.base + d.length ≤ m.bytes.length := by
  rcases hb with h | hb
  · exact Or.inl h
  · exact Or.inr (by omega)

/-- **the core step**: `writeAt` then `mark` of an in-range window (or of no bytes at
    all, at any address) succeeds under `BmInv` and yields `Stored`. -/
theorem store_core (m : Mem) (hinv : BmInv m) (addr : Nat) (d : List UInt8) (bmBase off len : Nat)
    (hb : d = [] ∨ (m.base ≤ addr ∧ addr + d.length ≤ m.base + m.bytes.length)) :
    ∃ m', (m.writeAt addr d >>= fun m1 => m1.mark bmBase off len) = .ok m' ∧
      Stored m (addr - m.base) d bmBase off len m' := by
  rw [writeAt_eq, if_pos hb, Res.bind_ok]
  obtain ⟨m0, hm0, hinv0, hby0, hba0⟩ := mark_ok m hinv bmBase off len
  rw [mark_congr, hm0]
  exact ⟨_, rfl, ⟨rfl, splice_length_of hb, win_of hb, hba0, BmInv_congr rfl hinv0, m0, hm0, rfl⟩⟩

/-- continuation form of `store_core`, for `do` blocks that go on after the mark -/
theorem store_core_k (m : Mem) (hinv : BmInv m) (addr : Nat) (d : List UInt8) (bmBase off len : Nat)
    (hb : d = [] ∨ (m.base ≤ addr ∧ addr + d.length ≤ m.base + m.bytes.length)) :
    ∃ m', Stored m (addr - m.base) d bmBase off len m' ∧
      ∀ {β : Type} (k : Mem → Res β),
        (m.writeAt addr d >>= fun m1 => m1.mark bmBase off len >>= k) = k m' := by
  obtain ⟨m0, hm0, hinv0, hby0, hba0⟩ := mark_ok m hinv bmBase off len
  refine ⟨{ m0 with bytes := splice m.bytes (addr - m.base) d },
    ⟨rfl, splice_length_of hb, win_of hb, hba0, BmInv_congr rfl hinv0, m0, hm0, rfl⟩, ?_⟩
  intro β k
  rw [writeAt_eq, if_pos hb, Res.bind_ok, mark_congr, hm0]
  rfl

/-- `copy_to_volatile_slice` (the helper): stores `src.take total` at the start of the
    slice and marks `[0, total)` -/
theorem copyToVolatileSlice_spec (m : Mem) (hinv : BmInv m) (s : VSlice) (src : List UInt8)
    (total : Nat)
    (hb : src.take total = [] ∨
      (m.base ≤ s.addr ∧ s.addr + (src.take total).length ≤ m.base + m.bytes.length)) :
    ∃ m', copyToVolatileSlice m s src total = .ok (m', total) ∧
      Stored m (s.addr - m.base) (src.take total) s.bmBase 0 total m' := by
  obtain ⟨m', hst, hk⟩ := store_core_k m hinv s.addr (src.take total) s.bmBase 0 total hb
  refine ⟨m', ?_, hst⟩
  unfold copyToVolatileSlice
  exact hk _

/-- a helper transfer of zero bytes is a no-op wherever the slice points -/
theorem copyToVolatileSlice_zero (m : Mem) (s : VSlice) (src : List UInt8) :
    copyToVolatileSlice m s src 0 = .ok (m, 0) := by
  unfold copyToVolatileSlice
  rw [List.take_zero, writeAt_nil, Res.bind_ok, mark_zero]
  rfl

theorem copyFromVolatileSlice_zero (m : Mem) (s : VSlice) :
    copyFromVolatileSlice m s 0 = .ok [] := readAt_zero m s.addr

/-- the only way `writeAt`-then-`mark` of an in-range window can fail is a panic inside
    the bitmap (an index outside the word vector — excluded by `BmInv`) -/
theorem store_core_cases (m : Mem) (addr : Nat) (d : List UInt8) (bmBase off len : Nat)
    (hb : d = [] ∨ (m.base ≤ addr ∧ addr + d.length ≤ m.base + m.bytes.length)) :
    (m.writeAt addr d >>= fun m1 => m1.mark bmBase off len) = .panic ∧ m.mark bmBase off len = .panic ∨
    ∃ m' m0, (m.writeAt addr d >>= fun m1 => m1.mark bmBase off len) = .ok m' ∧
      m.mark bmBase off len = .ok m0 ∧ m' = { m0 with bytes := splice m.bytes (addr - m.base) d } := by
  rw [writeAt_eq, if_pos hb, Res.bind_ok, mark_congr]
  cases hm : m.mark bmBase off len with
  | ok m0 => exact Or.inr ⟨_, m0, rfl, rfl, rfl⟩
  | panic => exact Or.inl ⟨rfl, rfl⟩
  | err e =>
    exfalso
    unfold Mem.mark at hm
    split at hm
    · cases hm
    · rename_i b _
      unfold markVia ABitmap.markDirty ABitmap.setResetAddrRange ABitmap.runProgram at hm
      split at hm <;> cases hm

/-- the routes-agree lemma at the raw level: if `m'` holds `d` at window `w` then a raw
    read of that window returns `d` -/
theorem readAt_of_splice {m m' : Mem} {w : Nat} {d : List UInt8}
    (hb : m'.bytes = splice m.bytes w d) (hbase : m'.base = m.base)
    (hw : w + d.length ≤ m.bytes.length) : m'.readAt (m.base + w) d.length = .ok d := by
  have hl : m'.bytes.length = m.bytes.length := by rw [hb]; exact splice_length _ _ _ hw
  rw [readAt_ok _ _ _ (by rw [hbase, hl]; omega), hbase, hb]
  have : m.base + w - m.base = w := by omega
  rw [this, splice_read_same _ _ _ hw]

theorem readAt_of_splice_disjoint {m m' : Mem} {w : Nat} {d : List UInt8}
    (hb : m'.bytes = splice m.bytes w d) (hbase : m'.base = m.base)
    (hw : w + d.length ≤ m.bytes.length) (w' n : Nat) (hw' : w' + n ≤ m.bytes.length)
    (hd : w' + n ≤ w ∨ w + d.length ≤ w') :
    m'.readAt (m.base + w') n = m.readAt (m.base + w') n := by
  have hl : m'.bytes.length = m.bytes.length := by rw [hb]; exact splice_length _ _ _ hw
  rw [readAt_ok _ _ _ (by rw [hbase, hl]; omega), readAt_ok _ _ _ (by omega), hbase, hb]
  have : m.base + w' - m.base = w' := by omega
  rw [this, splice_read_disjoint _ _ _ hw _ _ hd]

end DataLemmas
end VmMem
