/-
  VmMem.Lemmas.GuestLemmas — well-formed layouts (`WF`), `mapped`, and the helper
  lemmas about `bsearch`, `findRegion`, `Region` defaults, the `try_access` loop with
  the trivial callback, `validatePairs`, `insertSorted`, used by Props C02 and C10.
-/
import VmMem.Model.Guest
namespace VmMem

/-- What the safe constructors guarantee (`GuestRegionMmap::new` checks
    `start.checked_add(len)`, i.e. `start + len < U`; an mmap of length 0 cannot be
    created; `from_arc_regions` checks order and overlap): every region is non-empty
    and ends below `2^64`, and every earlier region ends at or before the start of
    every later one (so starts are strictly increasing and regions pairwise disjoint;
    adjacency `prev.start + prev.len = next.start` is allowed). -/
def WF (m : GMem) : Prop :=
  (∀ r ∈ m, 0 < r.len ∧ r.start + r.len < U) ∧
  m.Pairwise (fun r s => r.start + r.len ≤ s.start)

instance (m : GMem) : Decidable (WF m) := by unfold WF; infer_instance

/-- address `a` lies inside some region of the layout -/
def mapped (m : GMem) (a : Nat) : Prop := ∃ r ∈ m, r.start ≤ a ∧ a < r.start + r.len

instance (m : GMem) (a : Nat) : Decidable (mapped m a) := by unfold mapped; infer_instance

namespace GuestLemmas

/-! ### WF: recursive reading -/

@[simp] theorem WF_nil : WF [] := by simp [WF]

theorem WF_cons (r : Region) (rest : GMem) :
    WF (r :: rest) ↔
      0 < r.len ∧ r.start + r.len < U ∧ (∀ x ∈ rest, r.start + r.len ≤ x.start) ∧ WF rest := by
  simp only [WF, List.mem_cons, forall_eq_or_imp, List.pairwise_cons]
  constructor
  · rintro ⟨⟨⟨h1, h2⟩, h3⟩, h4, h5⟩; exact ⟨h1, h2, h4, h3, h5⟩
  · rintro ⟨h1, h2, h4, h3, h5⟩; exact ⟨⟨⟨h1, h2⟩, h3⟩, h4, h5⟩

theorem _root_.VmMem.WF.tail {r : Region} {rest : GMem} (h : WF (r :: rest)) : WF rest :=
  ((WF_cons r rest).1 h).2.2.2

theorem _root_.VmMem.WF.mem {m : GMem} (h : WF m) {r : Region} (hr : r ∈ m) :
    0 < r.len ∧ r.start + r.len < U := h.1 r hr

theorem _root_.VmMem.WF.getElem? {m : GMem} (h : WF m) {i : Nat} {r : Region} (hi : m[i]? = some r) :
    0 < r.len ∧ r.start + r.len < U := h.1 r (List.mem_of_getElem? hi)

/-- index form of the ordering -/
theorem _root_.VmMem.WF.lt {m : GMem} (h : WF m) {i j : Nat} {r s : Region}
    (hi : m[i]? = some r) (hj : m[j]? = some s) (hij : i < j) : r.start + r.len ≤ s.start := by
  obtain ⟨hi', rfl⟩ := List.getElem?_eq_some_iff.1 hi
  obtain ⟨hj', rfl⟩ := List.getElem?_eq_some_iff.1 hj
  exact (List.pairwise_iff_getElem.1 h.2) i j hi' hj' hij

theorem _root_.VmMem.WF.sublist {m m' : GMem} (h : WF m) (hs : m'.Sublist m) : WF m' :=
  ⟨fun r hr => h.1 r (hs.subset hr), h.2.sublist hs⟩

/-- starts are strictly increasing -/
theorem _root_.VmMem.WF.starts_lt {m : GMem} (h : WF m) : m.Pairwise (fun r s => r.start < s.start) := by
  have h1 := h.1
  refine (List.Pairwise.imp_of_mem (R := fun (r s : Region) => r.start + r.len ≤ s.start) ?_ h.2)
  intro r s hr _ hrs
  have := h1 r hr
  omega

theorem mapped_iff_getElem? (m : GMem) (a : Nat) :
    mapped m a ↔ ∃ (i : Nat) (r : Region), m[i]? = some r ∧ r.start ≤ a ∧ a < r.start + r.len := by
  unfold mapped
  constructor
  · rintro ⟨r, hr, h⟩
    obtain ⟨i, hi⟩ := List.getElem?_of_mem hr
    exact ⟨i, r, hi, h⟩
  · rintro ⟨i, r, hi, h⟩
    exact ⟨r, List.mem_of_getElem? hi, h⟩

/-- under WF at most one index contains `a` -/
theorem region_unique {m : GMem} (h : WF m) {a i j : Nat} {r s : Region}
    (hi : m[i]? = some r) (hj : m[j]? = some s)
    (hr : r.start ≤ a ∧ a < r.start + r.len) (hs : s.start ≤ a ∧ a < s.start + s.len) :
    i = j := by
  rcases Nat.lt_trichotomy i j with hlt | heq | hgt
  · have := h.lt hi hj hlt; omega
  · exact heq
  · have := h.lt hj hi hgt; omega

/-! ### Region defaults -/

theorem Region.lastAddr_eq {r : Region} (h : 0 < r.len ∧ r.start + r.len < U) :
    r.lastAddr = .ok (r.start + r.len - 1) := by
  unfold Region.lastAddr subP addP
  have h1 : 1 ≤ r.len := h.1
  have h2 : r.start + (r.len - 1) < U := by omega
  simp [h1, h2]
  omega

theorem Region.toRegionAddr_eq {r : Region} {a : Nat} (h : r.start ≤ a ∧ a < r.start + r.len) :
    r.toRegionAddr a = some (a - r.start) := by
  unfold Region.toRegionAddr checkedSub Region.checkAddress Region.addressInRange
  have : a - r.start < r.len := by omega
  simp [h.1, this]

/-! ### bsearch -/

theorem bsearch_ok {m : GMem} {a i : Nat} (h : m.bsearch a = .ok i) :
    ∃ r, m[i]? = some r ∧ r.start = a := by
  unfold GMem.bsearch at h
  split at h
  · rename_i j hj
    cases h
    obtain ⟨hlt, hp, _⟩ := List.findIdx?_eq_some_iff_getElem.1 hj
    exact ⟨m[i], List.getElem?_eq_getElem hlt, by simpa using hp⟩
  · cases h

theorem bsearch_error {m : GMem} {a x : Nat} (h : m.bsearch a = .error x) :
    (∀ r ∈ m, r.start ≠ a) ∧ x = m.countP (fun r => r.start < a) := by
  unfold GMem.bsearch at h
  split at h
  · cases h
  · rename_i hn
    cases h
    refine ⟨?_, rfl⟩
    intro r hr
    have := List.findIdx?_eq_none_iff.1 hn r hr
    simpa using this

/-- under WF (indeed for any layout), `Ok(i)` of the search designates the first index whose start is `a`;
    with strictly increasing starts it is the only one -/
theorem bsearch_ok_iff {m : GMem} (h : WF m) (a i : Nat) :
    m.bsearch a = .ok i ↔ (m[i]?).map (·.start) = some a := by
  constructor
  · intro hb
    obtain ⟨r, hr, hs⟩ := bsearch_ok hb
    simp [hr, hs]
  · intro hi
    obtain ⟨r, hr, hs⟩ : ∃ r, m[i]? = some r ∧ r.start = a := by
      cases hm : m[i]? with
      | none => simp [hm] at hi
      | some r => exact ⟨r, rfl, by simpa [hm] using hi⟩
    cases hb : m.bsearch a with
    | ok j =>
      obtain ⟨s, hs', hss⟩ := bsearch_ok hb
      have hlen := h.getElem? hr
      have hlen' := h.getElem? hs'
      have : j = i := region_unique (a := a) h hs' hr (by omega) (by omega)
      rw [this]
    | error x =>
      exact absurd hs ((bsearch_error hb).1 r (List.mem_of_getElem? hr))

/-- the sorted prefix: with `x = #{start < a}`, exactly the first `x` regions start below `a` -/
theorem countP_prefix {m : GMem} (h : WF m) (a : Nat) :
    ∀ i r, m[i]? = some r → (i < m.countP (fun r => r.start < a) ↔ r.start < a) := by
  induction m with
  | nil => intro i r hi; simp at hi
  | cons x rest ih =>
    obtain ⟨hx1, hx2, hx3, hrest⟩ := (WF_cons x rest).1 h
    intro i r hi
    by_cases hxa : x.start < a
    · rw [List.countP_cons_of_pos (by simpa using hxa)]
      cases i with
      | zero => simp at hi; subst hi; simp [hxa]
      | succ j =>
        simp at hi
        have := ih hrest j r hi
        omega
    · rw [List.countP_cons_of_neg (by simpa using hxa)]
      have hz : rest.countP (fun r => r.start < a) = 0 := by
        rw [List.countP_eq_zero]
        intro y hy
        have := hx3 y hy
        simp; omega
      rw [hz]
      cases i with
      | zero => simp at hi; subst hi; simp [hxa]
      | succ j =>
        simp at hi
        have := hx3 r (List.mem_of_getElem? hi)
        omega

theorem bsearch_error_count {m : GMem} (h : WF m) {a x : Nat} (hb : m.bsearch a = .error x) :
    x = m.countP (fun r => r.start < a) ∧ x ≤ m.length ∧
    (∀ i r, m[i]? = some r → (i < x ↔ r.start < a)) ∧ (∀ r ∈ m, r.start ≠ a) := by
  obtain ⟨h1, h2⟩ := bsearch_error hb
  subst h2
  exact ⟨rfl, List.countP_le_length, countP_prefix h a, h1⟩

/-! ### findRegion -/

/-- `find_region` resolves an address inside region `i` to `i` -/
theorem findRegion_of_getElem? {m : GMem} (h : WF m) {a i : Nat} {r : Region}
    (hi : m[i]? = some r) (hin : r.start ≤ a ∧ a < r.start + r.len) :
    m.findRegion a = .ok (some i) := by
  unfold GMem.findRegion
  cases hb : m.bsearch a with
  | ok j =>
    obtain ⟨s, hs, hss⟩ := bsearch_ok hb
    have hl := h.getElem? hs
    have : j = i := region_unique (a := a) h hs hi (by omega) hin
    simp [this]
  | error x =>
    obtain ⟨_, hxlen, hpre, hne⟩ := bsearch_error_count h hb
    have hra : r.start < a := by
      have := hne r (List.mem_of_getElem? hi); omega
    have hix : i < x := (hpre i r hi).2 hra
    have hx0 : x > 0 := by omega
    have hx1 : x - 1 < m.length := by omega
    simp only [hx0, if_true]
    have hs : m[x - 1]? = some m[x - 1] := List.getElem?_eq_getElem hx1
    have hsl := h.getElem? hs
    have hsa : m[x - 1].start < a := (hpre (x - 1) _ hs).1 (by omega)
    have hxi : x - 1 = i := by
      rcases Nat.lt_or_ge i (x - 1) with hlt | hge
      · have := h.lt hi hs hlt; omega
      · omega
    simp only [hs, Region.lastAddr_eq hsl, Res.bind_ok]
    have hrs : m[x - 1] = r := by
      have : m[x - 1]? = some r := by rw [hxi]; exact hi
      rw [hs] at this; exact Option.some.inj this
    have hle : a ≤ m[x - 1].start + m[x - 1].len - 1 := by rw [hrs]; omega
    rw [if_pos hle, hxi]; rfl

/-- `find_region` resolves an unmapped address to nothing -/
theorem findRegion_of_unmapped {m : GMem} (h : WF m) {a : Nat} (hn : ¬ mapped m a) :
    m.findRegion a = .ok none := by
  unfold GMem.findRegion
  cases hb : m.bsearch a with
  | ok j =>
    obtain ⟨s, hs, hss⟩ := bsearch_ok hb
    have hl := h.getElem? hs
    exact absurd ⟨s, List.mem_of_getElem? hs, by omega, by omega⟩ hn
  | error x =>
    obtain ⟨_, hxlen, hpre, hne⟩ := bsearch_error_count h hb
    by_cases hx0 : x > 0
    · have hx1 : x - 1 < m.length := by omega
      simp only [hx0, if_true]
      have hs : m[x - 1]? = some m[x - 1] := List.getElem?_eq_getElem hx1
      have hsl := h.getElem? hs
      have hsa : m[x - 1].start < a := (hpre (x - 1) _ hs).1 (by omega)
      simp only [hs, Region.lastAddr_eq hsl, Res.bind_ok]
      have hle : ¬ a ≤ m[x - 1].start + m[x - 1].len - 1 := by
        intro hle
        exact hn ⟨m[x - 1], List.mem_of_getElem? hs, by omega, by omega⟩
      simp [hle]
    · simp [hx0]

theorem mapped_or_not (m : GMem) (a : Nat) :
    (∃ (i : Nat) (r : Region), m[i]? = some r ∧ r.start ≤ a ∧ a < r.start + r.len) ∨ ¬ mapped m a := by
  by_cases hm : mapped m a
  · exact Or.inl ((mapped_iff_getElem? m a).1 hm)
  · exact Or.inr hm

/-! ### defaults of `GuestMemory`, evaluated -/

theorem toRegionAddr_of_getElem? {m : GMem} (h : WF m) {a i : Nat} {r : Region}
    (hi : m[i]? = some r) (hin : r.start ≤ a ∧ a < r.start + r.len) :
    m.toRegionAddr a = .ok (some (i, a - r.start)) := by
  unfold GMem.toRegionAddr
  rw [findRegion_of_getElem? h hi hin]
  simp [hi, Region.toRegionAddr_eq hin, Res.unwrap]

theorem toRegionAddr_of_unmapped {m : GMem} (h : WF m) {a : Nat} (hn : ¬ mapped m a) :
    m.toRegionAddr a = .ok none := by
  unfold GMem.toRegionAddr
  rw [findRegion_of_unmapped h hn]
  simp

theorem Region.getSlice_eq (r : Region) (hl : r.len < U) (off cnt : Nat) :
    r.getSlice off cnt =
      if off + cnt ≤ r.len then
        .ok { addr := r.mem.base + off, size := cnt, bmBase := sliceAt 0 off }
      else .err .invalidBackendAddress := by
  unfold Region.len at hl
  unfold Region.getSlice VSlice.subslice computeEndOffset computeOffset checkedAdd Mem.root Region.len
  by_cases h1 : off + cnt < U
  · by_cases h2 : off + cnt ≤ r.mem.bytes.length
    · have : ¬ off + cnt > r.mem.bytes.length := by omega
      simp [h1, h2, this, Res.mapErr]
    · have : off + cnt > r.mem.bytes.length := by omega
      simp [h1, h2, this, Res.mapErr, Res.toGuestErr]
  · have : ¬ off + cnt ≤ r.mem.bytes.length := by omega
    simp [h1, this, Res.mapErr, Res.toGuestErr]

/-! ### the `try_access` loop with the trivial callback of `check_range` -/

/-- `|_, count, _, _| -> Ok(count)` -/
def trivCb : GMem → Unit → Nat → Nat → Nat → Nat → GMem × Unit × Res Nat :=
  fun m _ _ len _ _ => (m, (), .ok len)

theorem checkRange_eq (m : GMem) (base len : Nat) (hpos : 0 < len) :
    m.checkRange base len =
      match GMem.tryAccessLoop trivCb len base m () base 0 with
      | (_, _, .ok n) => .ok (n == len)
      | (_, _, .err _) => .ok false
      | (_, _, .panic) => .panic := by
  have hne : ¬ len = 0 := by omega
  simp only [GMem.checkRange, GMem.tryAccess, hne, if_false]
  rfl

/-- `try_access` returns `Ok(0)` for `count == 0` before looking at any region -/
theorem checkRange_zero_eq (m : GMem) (base : Nat) : m.checkRange base 0 = .ok true := by
  simp [GMem.checkRange, GMem.tryAccess]

/-- The loop started at `cur` with `total < count` bytes done never panics, leaves the map
    alone, and returns `Ok(count)` exactly when the remaining `count - total` addresses from
    `cur` are all mapped; any other `Ok(k)` has `total ≤ k < count`. -/
theorem loop_triv {m : GMem} (h : WF m) {count : Nat} (hc : count < U) (addr : Nat) :
    ∀ (n cur total : Nat), count - total = n → total < count →
      ∃ res, GMem.tryAccessLoop trivCb count addr m () cur total = (m, (), res) ∧ res ≠ .panic ∧
        (res = .ok count ↔ ∀ i, i < count - total → mapped m (cur + i)) ∧
        (∀ k, res = .ok k → total ≤ k ∧ k ≤ count) := by
  intro n
  induction n using Nat.strongRecOn with
  | _ n ih =>
    intro cur total hn htot
    rw [GMem.tryAccessLoop]
    rcases mapped_or_not m cur with ⟨i, r, hi, hin⟩ | hun
    · rw [findRegion_of_getElem? h hi hin]
      simp only [hi, Region.toRegionAddr_eq hin]
      have hcond : ¬ (r.len < cur - r.start ∨ count < total) := by omega
      rw [if_neg hcond]
      obtain ⟨k, hk⟩ : ∃ k, min (r.len - (cur - r.start)) (count - total) = k + 1 :=
        ⟨min (r.len - (cur - r.start)) (count - total) - 1, by omega⟩
      simp only [trivCb, hk]
      have hrl := h.getElem? hi
      have hU : total + (k + 1) < U := by omega
      rw [if_pos hU]
      by_cases hlt : total + (k + 1) < count
      · rw [if_pos hlt]
        have hcap : k + 1 = r.len - (cur - r.start) := by omega
        have hend : cur + (k + 1) = r.start + r.len := by omega
        have hmod : (cur + (k + 1)) % U = cur + (k + 1) := Nat.mod_eq_of_lt (by omega)
        have hov : decide (U ≤ cur + (k + 1)) = false := by simp; omega
        simp only [overflowingAdd, hmod, hov, or_true, if_true]
        obtain ⟨res, hres, hnp, hiff, hle⟩ :=
          ih (count - (total + (k + 1))) (by omega) (cur + (k + 1)) (total + (k + 1)) rfl hlt
        refine ⟨res, hres, hnp, ?_, ?_⟩
        · rw [hiff]
          constructor
          · intro hall j hj
            by_cases hjk : j < k + 1
            · exact ⟨r, List.mem_of_getElem? hi, by omega, by omega⟩
            · have := hall (j - (k + 1)) (by omega)
              have e : cur + (k + 1) + (j - (k + 1)) = cur + j := by omega
              rwa [e] at this
          · intro hall j hj
            have := hall (k + 1 + j) (by omega)
            have e : cur + (k + 1 + j) = cur + (k + 1) + j := by omega
            rwa [e] at this
        · intro k' hk'
          have := hle k' hk'
          omega
      · rw [if_neg hlt]
        have heq : total + (k + 1) = count := by omega
        rw [if_pos heq]
        refine ⟨.ok (total + (k + 1)), rfl, by simp, ?_, ?_⟩
        · rw [heq]
          simp only [true_iff]
          intro j hj
          exact ⟨r, List.mem_of_getElem? hi, by omega, by omega⟩
        · intro k' hk'
          cases hk'
          omega
    · rw [findRegion_of_unmapped h hun]
      simp only
      have hnot : ¬ ∀ i, i < count - total → mapped m (cur + i) := by
        intro hall
        exact hun (by simpa using hall 0 (by omega))
      by_cases ht0 : total = 0
      · rw [if_pos ht0]
        exact ⟨.err (.invalidGuestAddress addr), rfl, by simp, by simp [hnot], by simp⟩
      · rw [if_neg ht0]
        refine ⟨.ok total, rfl, by simp, ?_, ?_⟩
        · constructor
          · intro he; cases he; omega
          · intro hall; exact absurd hall hnot
        · intro k' hk'; cases hk'; omega

/-! ### building and editing the map -/

/-- a region as the safe constructor of a mapping yields it: non-empty, end below `2^64` -/
abbrev RegOk (r : Region) : Prop := 0 < r.len ∧ r.start + r.len < U

theorem validatePairs_none_iff (rs : GMem) (hr : ∀ r ∈ rs, RegOk r) :
    GMem.validatePairs rs = .ok none ↔ WF rs := by
  induction rs with
  | nil => simp [GMem.validatePairs]
  | cons p tl ih =>
    cases tl with
    | nil =>
      have := hr p List.mem_cons_self
      simp [GMem.validatePairs, WF_cons, this.1, this.2]
    | cons n rest =>
      have hp := hr p List.mem_cons_self
      have hn := hr n (List.mem_cons_of_mem _ List.mem_cons_self)
      have ih' := ih (fun r h => hr r (List.mem_cons_of_mem _ h))
      rw [GMem.validatePairs, WF_cons]
      by_cases h1 : p.start > n.start
      · rw [if_pos h1]
        constructor
        · intro e; cases e
        · rintro ⟨_, _, h3, _⟩
          have := h3 n List.mem_cons_self
          omega
      · rw [if_neg h1, Region.lastAddr_eq hp]
        simp only [Res.bind_ok]
        by_cases h2 : p.start + p.len - 1 ≥ n.start
        · rw [if_pos h2]
          constructor
          · intro e; cases e
          · rintro ⟨_, _, h3, _⟩
            have := h3 n List.mem_cons_self
            omega
        · rw [if_neg h2, ih']
          constructor
          · intro hw
            refine ⟨hp.1, hp.2, ?_, hw⟩
            intro x hx
            rcases List.mem_cons.1 hx with rfl | hx
            · omega
            · have := ((WF_cons n rest).1 hw).2.2.1 x hx
              omega
          · rintro ⟨_, _, _, hw⟩; exact hw

theorem validatePairs_no_panic (rs : GMem) (hr : ∀ r ∈ rs, RegOk r) :
    ∃ o, GMem.validatePairs rs = .ok o ∧ o ≠ some .noMemoryRegion ∧ o ≠ some .invalidGuestRegion := by
  induction rs with
  | nil => exact ⟨none, rfl, by simp, by simp⟩
  | cons p tl ih =>
    cases tl with
    | nil => exact ⟨none, rfl, by simp, by simp⟩
    | cons n rest =>
      have hp := hr p List.mem_cons_self
      have ih' := ih (fun r h => hr r (List.mem_cons_of_mem _ h))
      rw [GMem.validatePairs]
      by_cases h1 : p.start > n.start
      · rw [if_pos h1]; exact ⟨_, rfl, by simp, by simp⟩
      · rw [if_neg h1, Region.lastAddr_eq hp]
        simp only [Res.bind_ok]
        by_cases h2 : p.start + p.len - 1 ≥ n.start
        · rw [if_pos h2]; exact ⟨_, rfl, by simp, by simp⟩
        · rw [if_neg h2]; exact ih'

/-- pairs before the first offending one do not matter -/
theorem validatePairs_append (pre : GMem) (prev next : Region) (post : GMem)
    (hwf : WF (pre ++ [prev])) :
    GMem.validatePairs (pre ++ prev :: next :: post) = GMem.validatePairs (prev :: next :: post) := by
  induction pre with
  | nil => rfl
  | cons x pre' ih =>
    obtain ⟨hx1, hx2, hx3, hrest⟩ := (WF_cons x _).1 hwf
    have step : ∀ (y : Region) (l : GMem), x.start + x.len ≤ y.start →
        GMem.validatePairs (x :: y :: l) = GMem.validatePairs (y :: l) := by
      intro y l hy
      rw [GMem.validatePairs]
      rw [if_neg (by omega), Region.lastAddr_eq ⟨hx1, hx2⟩]
      simp only [Res.bind_ok]
      rw [if_neg (by omega)]
    cases pre' with
    | nil =>
      have := hx3 prev (by simp)
      simpa using step prev (next :: post) this
    | cons y pre'' =>
      have := hx3 y (by simp)
      have e : (x :: y :: pre'') ++ prev :: next :: post = x :: y :: (pre'' ++ prev :: next :: post) := rfl
      rw [e, step y _ this]
      exact ih hrest

theorem validatePairs_unsorted (prev next : Region) (post : GMem) (h : prev.start > next.start) :
    GMem.validatePairs (prev :: next :: post) = .ok (some .unsorted) := by
  rw [GMem.validatePairs, if_pos h]

theorem validatePairs_overlap (prev next : Region) (post : GMem) (hp : RegOk prev)
    (h1 : prev.start ≤ next.start) (h2 : next.start < prev.start + prev.len) :
    GMem.validatePairs (prev :: next :: post) = .ok (some .overlap) := by
  rw [GMem.validatePairs, if_neg (by omega), Region.lastAddr_eq hp]
  simp only [Res.bind_ok]
  rw [if_pos (by omega)]; rfl

/-- a list sorted by start (non-strictly) is never reported unsorted -/
theorem validatePairs_sorted (rs : GMem) (hr : ∀ r ∈ rs, RegOk r)
    (hs : rs.Pairwise (fun r s => r.start ≤ s.start)) :
    GMem.validatePairs rs = .ok none ∨ GMem.validatePairs rs = .ok (some .overlap) := by
  induction rs with
  | nil => exact Or.inl rfl
  | cons p tl ih =>
    cases tl with
    | nil => exact Or.inl rfl
    | cons n rest =>
      have hp := hr p List.mem_cons_self
      have hs' := List.pairwise_cons.1 hs
      have hpn := hs'.1 n List.mem_cons_self
      by_cases h2 : n.start < p.start + p.len
      · exact Or.inr (validatePairs_overlap p n rest hp hpn h2)
      · rw [GMem.validatePairs, if_neg (by omega), Region.lastAddr_eq hp]
        simp only [Res.bind_ok]
        rw [if_neg (by omega)]
        exact ih (fun r h => hr r (List.mem_cons_of_mem _ h)) hs'.2

theorem fromRegions_of_ne_nil {rs : GMem} (hne : rs ≠ []) :
    GMem.fromRegions rs =
      (GMem.validatePairs rs >>= fun o =>
        match o with
        | some e => pure (.error e)
        | none => pure (.ok rs)) := by
  unfold GMem.fromRegions
  cases rs with
  | nil => exact absurd rfl hne
  | cons x xs => rfl

theorem mem_insertSorted (r x : Region) (m : GMem) :
    x ∈ GMem.insertSorted r m ↔ x = r ∨ x ∈ m := by
  induction m with
  | nil => simp [GMem.insertSorted]
  | cons y ys ih =>
    unfold GMem.insertSorted
    split
    · simp only [List.mem_cons, ih]
      constructor
      · rintro (h | h | h)
        · exact Or.inr (Or.inl h)
        · exact Or.inl h
        · exact Or.inr (Or.inr h)
      · rintro (h | h | h)
        · exact Or.inr (Or.inl h)
        · exact Or.inl h
        · exact Or.inr (Or.inr h)
    · simp

theorem insertSorted_ne_nil (r : Region) (m : GMem) : GMem.insertSorted r m ≠ [] := by
  cases m with
  | nil => simp [GMem.insertSorted]
  | cons y ys => unfold GMem.insertSorted; split <;> simp

theorem insertSorted_perm (r : Region) (m : GMem) : (GMem.insertSorted r m).Perm (r :: m) := by
  induction m with
  | nil => exact List.Perm.refl _
  | cons y ys ih =>
    unfold GMem.insertSorted
    split
    · exact (List.Perm.cons y ih).trans (List.Perm.swap r y ys)
    · exact List.Perm.refl _

theorem insertSorted_sorted (r : Region) (m : GMem)
    (hs : m.Pairwise (fun r s => r.start ≤ s.start)) :
    (GMem.insertSorted r m).Pairwise (fun r s => r.start ≤ s.start) := by
  induction m with
  | nil => simp [GMem.insertSorted]
  | cons y ys ih =>
    have hs' := List.pairwise_cons.1 hs
    unfold GMem.insertSorted
    split
    · rename_i hle
      refine List.pairwise_cons.2 ⟨?_, ih hs'.2⟩
      intro x hx
      rcases (mem_insertSorted r x ys).1 hx with rfl | hx
      · exact hle
      · exact hs'.1 x hx
    · rename_i hgt
      refine List.pairwise_cons.2 ⟨?_, hs⟩
      intro x hx
      rcases List.mem_cons.1 hx with rfl | hx
      · omega
      · have := hs'.1 x hx; omega

/-- inserting keeps the layout well-formed exactly when the new region is disjoint from
    every old one -/
theorem WF_insertSorted_iff {m : GMem} (h : WF m) {r : Region} (hr : RegOk r) :
    WF (GMem.insertSorted r m) ↔
      ∀ x ∈ m, r.start + r.len ≤ x.start ∨ x.start + x.len ≤ r.start := by
  induction m with
  | nil => simp [GMem.insertSorted, WF_cons, hr.1, hr.2]
  | cons y ys ih =>
    obtain ⟨hy1, hy2, hy3, hys⟩ := (WF_cons y ys).1 h
    unfold GMem.insertSorted
    split
    · rename_i hle
      rw [WF_cons, ih hys]
      constructor
      · rintro ⟨_, _, h3, h4⟩ x hx
        rcases List.mem_cons.1 hx with rfl | hx
        · exact Or.inr (h3 r ((mem_insertSorted r r ys).2 (Or.inl rfl)))
        · exact h4 x hx
      · intro hall
        refine ⟨hy1, hy2, ?_, fun x hx => hall x (List.mem_cons_of_mem _ hx)⟩
        intro x hx
        rcases (mem_insertSorted r x ys).1 hx with rfl | hx
        · have := hall y List.mem_cons_self
          omega
        · exact hy3 x hx
    · rename_i hgt
      rw [WF_cons]
      constructor
      · rintro ⟨_, _, h3, _⟩ x hx
        exact Or.inl (h3 x hx)
      · intro hall
        have hy := hall y List.mem_cons_self
        have hry : r.start + r.len ≤ y.start := by omega
        refine ⟨hr.1, hr.2, ?_, h⟩
        intro x hx
        rcases List.mem_cons.1 hx with rfl | hx
        · exact hry
        · have := hy3 x hx; omega

theorem perm_cons_eraseIdx {α : Type} {l : List α} {i : Nat} {r : α} (h : l[i]? = some r) :
    l.Perm (r :: l.eraseIdx i) := by
  induction l generalizing i with
  | nil => simp at h
  | cons x xs ih =>
    cases i with
    | zero => simp at h; subst h; exact List.Perm.refl _
    | succ j =>
      simp at h
      exact (List.Perm.cons x (ih h)).trans (List.Perm.swap r x _)

end GuestLemmas
end VmMem
