/-
  VmMem.Lemmas.AtomicLemmas — state-independent facts about the atomic-replacement model
  (no invariant needed): `collect` touches only `freed`; a reference count is positive iff
  the cell or some owner designates the map; `published` only grows by appending; `freed`
  only grows; an owner that is not dropped keeps designating the same map.
-/
import VmMem.Model.Atomic
namespace VmMem
namespace Atomic

@[simp] theorem collect_cur (s : St) : (collect s).cur = s.cur := rfl
@[simp] theorem collect_lock (s : St) : (collect s).lock = s.lock := rfl
@[simp] theorem collect_owners (s : St) : (collect s).owners = s.owners := rfl
@[simp] theorem collect_published (s : St) : (collect s).published = s.published := rfl
theorem refs_collect (s : St) (m : Nat) : refs (collect s) m = refs s m := rfl

theorem mem_collect_freed (s : St) (m : Nat) :
    m ∈ (collect s).freed ↔ m ∈ s.freed ∨ (m ∈ s.published ∧ refs s m = 0 ∧ m ∉ s.freed) := by
  simp [collect, List.mem_filter]

theorem refs_pos_iff (s : St) (m : Nat) : refs s m > 0 ↔ s.cur = m ∨ ∃ o, (o, m) ∈ s.owners := by
  unfold refs
  constructor
  · intro h
    by_cases hc : s.cur = m
    · exact Or.inl hc
    · right
      have hlen : (s.owners.filter (·.2 == m)).length > 0 := by
        have : (if (s.cur == m) = true then 1 else 0) = 0 := by simp [hc]
        omega
      obtain ⟨x, hx⟩ := List.exists_mem_of_length_pos hlen
      rw [List.mem_filter] at hx
      have e : x.2 = m := by simpa using hx.2
      exact ⟨x.1, e ▸ hx.1⟩
  · rintro (hc | ⟨o, ho⟩)
    · simp [hc]
    · have hm : (o, m) ∈ s.owners.filter (·.2 == m) := List.mem_filter.2 ⟨ho, by simp⟩
      have := List.length_pos_of_mem hm
      omega

theorem refs_eq_zero_iff (s : St) (m : Nat) : refs s m = 0 ↔ s.cur ≠ m ∧ ∀ o, (o, m) ∉ s.owners := by
  have := refs_pos_iff s m
  constructor
  · intro h
    refine ⟨fun e => ?_, fun o ho => ?_⟩
    · have := this.2 (Or.inl e); omega
    · have := this.2 (Or.inr ⟨o, ho⟩); omega
  · rintro ⟨h1, h2⟩
    by_cases hp : refs s m > 0
    · rcases this.1 hp with e | ⟨o, ho⟩
      · exact absurd e h1
      · exact absurd ho (h2 o)
    · omega

/-! ### `run` -/

@[simp] theorem run_nil (s : St) : run s [] = (s, []) := rfl
theorem run_cons (s : St) (a : Step) (rest : List Step) :
    run s (a :: rest) = ((run (step s a).1 rest).1, (step s a).2 :: (run (step s a).1 rest).2) := rfl
@[simp] theorem run_cons_fst (s : St) (a : Step) (rest : List Step) :
    (run s (a :: rest)).1 = (run (step s a).1 rest).1 := rfl
@[simp] theorem run_cons_snd (s : St) (a : Step) (rest : List Step) :
    (run s (a :: rest)).2 = (step s a).2 :: (run (step s a).1 rest).2 := rfl

theorem run_append_fst (s : St) (σ τ : List Step) : (run s (σ ++ τ)).1 = (run (run s σ).1 τ).1 := by
  induction σ generalizing s with
  | nil => rfl
  | cons a rest ih => simp [ih]

/-! ### the cell's history -/

/-- is this `replace` enabled: the caller holds the lock and publishes a fresh id -/
def replaceEnabled (s : St) (t n : Nat) : Bool := s.lock == some t && !s.published.contains n

theorem replaceEnabled_iff (s : St) (t n : Nat) :
    replaceEnabled s t n = true ↔ s.lock = some t ∧ n ∉ s.published := by
  simp [replaceEnabled]

/-- what one step appends to `published` -/
def enabled1 (s : St) : Step → List Nat
  | .replace t n => if replaceEnabled s t n then [n] else []
  | _ => []

/-- the ids of the enabled `replace` steps of `σ`, in order -/
def enabledReplaces (s : St) : List Step → List Nat
  | [] => []
  | a :: rest => enabled1 s a ++ enabledReplaces (step s a).1 rest

theorem step_published (s : St) (a : Step) : (step s a).1.published = s.published ++ enabled1 s a := by
  cases a with
  | snapshot o => simp [step, enabled1]
  | cloneOwner o src =>
    simp only [step, enabled1]
    split <;> simp
  | dropOwner o => simp [step, enabled1]
  | lock t =>
    simp only [step, enabled1]
    split <;> simp
  | replace t n =>
    simp only [step, enabled1, replaceEnabled]
    split <;> simp_all
  | unlock t =>
    simp only [step, enabled1]
    split <;> simp

theorem run_published (s : St) (σ : List Step) :
    (run s σ).1.published = s.published ++ enabledReplaces s σ := by
  induction σ generalizing s with
  | nil => simp [enabledReplaces]
  | cons a rest ih =>
    rw [run_cons_fst, ih, step_published, enabledReplaces, List.append_assoc]

theorem run_published_prefix (s : St) (σ : List Step) : s.published <+: (run s σ).1.published :=
  ⟨enabledReplaces s σ, (run_published s σ).symm⟩

theorem step_freed_mono (s : St) (a : Step) (m : Nat) (h : m ∈ s.freed) : m ∈ (step s a).1.freed := by
  cases a with
  | snapshot o => exact h
  | cloneOwner o src =>
    simp only [step]
    split <;> exact h
  | dropOwner o =>
    simp only [step]
    exact (mem_collect_freed _ _).2 (Or.inl h)
  | lock t =>
    simp only [step]
    split <;> exact h
  | replace t n =>
    simp only [step]
    split
    · exact (mem_collect_freed _ _).2 (Or.inl h)
    · exact h
  | unlock t =>
    simp only [step]
    split <;> exact h

theorem run_freed_mono (s : St) (σ : List Step) (m : Nat) (h : m ∈ s.freed) : m ∈ (run s σ).1.freed := by
  induction σ generalizing s with
  | nil => exact h
  | cons a rest ih => exact ih _ (step_freed_mono s a m h)

/-! ### owners -/

theorem mapOf_eq_some_iff (s : St) (o m : Nat) :
    mapOf s o = some m ↔ ∃ x, s.owners.find? (·.1 == o) = some x ∧ x.2 = m := by
  simp [mapOf, Option.map_eq_some_iff]

theorem mapOf_mem (s : St) (o m : Nat) (h : mapOf s o = some m) : (o, m) ∈ s.owners := by
  obtain ⟨x, hx, e⟩ := (mapOf_eq_some_iff s o m).1 h
  have h1 := List.mem_of_find?_eq_some hx
  have h2 : x.1 = o := by simpa using List.find?_some hx
  have : x = (o, m) := by rw [← h2, ← e]
  exact this ▸ h1

theorem find_filter_ne (l : List (Nat × Nat)) (o o' : Nat) (hne : o ≠ o') :
    (l.filter (·.1 != o')).find? (·.1 == o) = l.find? (·.1 == o) := by
  induction l with
  | nil => rfl
  | cons a t ih =>
    by_cases h1 : a.1 = o'
    · have h2 : a.1 ≠ o := fun e => hne (e.symm.trans h1)
      rw [List.filter_cons_of_neg (by simp [h1]), List.find?_cons_of_neg (by simpa using h2), ih]
    · rw [List.filter_cons_of_pos (by simpa using h1)]
      by_cases h2 : a.1 = o
      · rw [List.find?_cons_of_pos (by simpa using h2), List.find?_cons_of_pos (by simpa using h2)]
      · rw [List.find?_cons_of_neg (by simpa using h2), List.find?_cons_of_neg (by simpa using h2), ih]

theorem find_append_some (l l' : List (Nat × Nat)) (p : Nat × Nat → Bool) (x : Nat × Nat)
    (h : l.find? p = some x) : (l ++ l').find? p = some x := by
  rw [List.find?_append, h]; rfl

/-- an owner that this step does not drop keeps designating the same map -/
theorem mapOf_step (s : St) (a : Step) (o m : Nat) (h : mapOf s o = some m) (hne : a ≠ .dropOwner o) :
    mapOf (step s a).1 o = some m := by
  obtain ⟨x, hx, e⟩ := (mapOf_eq_some_iff s o m).1 h
  cases a with
  | snapshot o' =>
    exact (mapOf_eq_some_iff _ o m).2 ⟨x, find_append_some _ _ _ _ hx, e⟩
  | cloneOwner o' src =>
    simp only [step]
    split
    · exact (mapOf_eq_some_iff _ o m).2 ⟨x, find_append_some _ _ _ _ hx, e⟩
    · exact h
  | dropOwner o' =>
    have hno : o ≠ o' := fun e' => hne (by rw [e'])
    refine (mapOf_eq_some_iff _ o m).2 ⟨x, ?_, e⟩
    simp only [step, collect_owners]
    rw [find_filter_ne _ _ _ hno]; exact hx
  | lock t =>
    simp only [step]
    split <;> exact h
  | replace t n =>
    simp only [step]
    split <;> exact h
  | unlock t =>
    simp only [step]
    split <;> exact h

theorem mapOf_run (s : St) (σ : List Step) (o m : Nat) (h : mapOf s o = some m)
    (hne : ∀ a ∈ σ, a ≠ .dropOwner o) : mapOf (run s σ).1 o = some m := by
  induction σ generalizing s with
  | nil => exact h
  | cons a rest ih =>
    rw [run_cons_fst]
    exact ih _ (mapOf_step s a o m h (hne a (List.mem_cons_self ..)))
      (fun b hb => hne b (List.mem_cons_of_mem _ hb))

end Atomic
end VmMem
