/-
  VmMem.Lemmas.VolatileLemmas — closed forms and inversion lemmas for the bounds
  arithmetic of `VmMem.Model.Volatile`.

  For every model function `f` there is
    * `f_eq`  : a closed form (nested `if` on the arithmetic conditions), and
    * `f_ok`  : the inversion lemma `f x = .ok y → arithmetic facts about y`,
  so that property proofs reduce to `omega`.
-/
import VmMem.Model.Volatile
namespace VmMem
namespace VolatileLemmas

theorem U_eq : U = 18446744073709551616 := by decide
theorem ISIZE_MAX_eq : ISIZE_MAX = 9223372036854775807 := by decide
theorem ISIZE_MAX_lt_U : ISIZE_MAX < U := by decide

/-! ### machine primitives -/

theorem checkedAdd_eq (a b : Nat) :
    checkedAdd a b = if a + b < U then some (a + b) else none := rfl

theorem checkedSub_eq (a b : Nat) :
    checkedSub a b = if b ≤ a then some (a - b) else none := rfl

theorem mulP_eq (a b : Nat) : mulP a b = if a * b < U then .ok (a * b) else .panic := rfl

theorem mulP_ok {a b r : Nat} (h : mulP a b = .ok r) : a * b < U ∧ r = a * b := by
  unfold mulP at h
  split at h
  · cases h; exact ⟨by assumption, rfl⟩
  · cases h

theorem mulP_of_lt {a b : Nat} (h : a * b < U) : mulP a b = .ok (a * b) := by
  simp [mulP, h]

theorem mulP_panic_iff (a b : Nat) : mulP a b = .panic ↔ U ≤ a * b := by
  unfold mulP
  by_cases h : a * b < U <;> simp [h] <;> omega

/-! ### `compute_offset` / `compute_end_offset` -/

theorem computeOffset_eq (b o : Nat) :
    computeOffset b o = if b + o < U then .ok (b + o) else .err .overflow := by
  by_cases h : b + o < U <;> simp [computeOffset, checkedAdd, h]

theorem computeOffset_ok {b o m : Nat} (h : computeOffset b o = .ok m) :
    b + o < U ∧ m = b + o := by
  rw [computeOffset_eq] at h
  split at h
  · cases h; exact ⟨by assumption, rfl⟩
  · cases h

theorem computeEndOffset_eq (len b o : Nat) :
    computeEndOffset len b o =
      if b + o < U then (if b + o ≤ len then .ok (b + o) else .err .outOfBounds)
      else .err .overflow := by
  unfold computeEndOffset
  rw [computeOffset_eq]
  by_cases h1 : b + o < U
  · by_cases h2 : b + o ≤ len
    · have : ¬ (b + o > len) := by omega
      simp [h1, h2, this]
    · have : b + o > len := by omega
      simp [h1, h2, this]
  · simp [h1]

theorem computeEndOffset_ok {len b o e : Nat} (h : computeEndOffset len b o = .ok e) :
    b + o < U ∧ b + o ≤ len ∧ e = b + o := by
  rw [computeEndOffset_eq] at h
  split at h
  · split at h
    · cases h; exact ⟨by assumption, by assumption, rfl⟩
    · cases h
  · cases h

/-! ### `VolatileSlice` derivations -/

theorem subslice_eq (s : VSlice) (off cnt : Nat) :
    s.subslice off cnt =
      if off + cnt < U then
        (if off + cnt ≤ s.size then
          .ok { addr := s.addr + off, size := cnt, bmBase := sliceAt s.bmBase off }
         else .err .outOfBounds)
      else .err .overflow := by
  unfold VSlice.subslice
  rw [computeEndOffset_eq]
  by_cases h1 : off + cnt < U
  · by_cases h2 : off + cnt ≤ s.size <;> simp [h1, h2]
  · simp [h1]

theorem subslice_ok {s s' : VSlice} {off cnt : Nat} (h : s.subslice off cnt = .ok s') :
    off + cnt < U ∧ off + cnt ≤ s.size ∧
      s'.addr = s.addr + off ∧ s'.size = cnt ∧ s'.bmBase = sliceAt s.bmBase off := by
  rw [subslice_eq] at h
  split at h
  · split at h
    · cases h; exact ⟨by assumption, by assumption, rfl, rfl, rfl⟩
    · cases h
  · cases h

theorem subslice_ne_panic (s : VSlice) (off cnt : Nat) : s.subslice off cnt ≠ .panic := by
  rw [subslice_eq]
  split
  · split <;> simp
  · simp

theorem offset_eq (s : VSlice) (cnt : Nat) :
    s.offset cnt =
      if s.addr + cnt < U then
        (if cnt ≤ s.size then
          .ok { addr := s.addr + cnt, size := s.size - cnt, bmBase := sliceAt s.bmBase cnt }
         else .err .outOfBounds)
      else .err .overflow := by
  unfold VSlice.offset
  by_cases h1 : s.addr + cnt < U
  · by_cases h2 : cnt ≤ s.size <;> simp [checkedAdd, checkedSub, h1, h2]
  · simp [checkedAdd, h1]

theorem offset_ok {s s' : VSlice} {cnt : Nat} (h : s.offset cnt = .ok s') :
    s.addr + cnt < U ∧ cnt ≤ s.size ∧
      s'.addr = s.addr + cnt ∧ s'.size = s.size - cnt ∧ s'.bmBase = sliceAt s.bmBase cnt := by
  rw [offset_eq] at h
  split at h
  · split at h
    · cases h; exact ⟨by assumption, by assumption, rfl, rfl, rfl⟩
    · cases h
  · cases h

theorem offset_ne_panic (s : VSlice) (cnt : Nat) : s.offset cnt ≠ .panic := by
  rw [offset_eq]
  split
  · split <;> simp
  · simp

theorem splitAt_eq (s : VSlice) (mid : Nat) :
    s.splitAt mid =
      if s.addr + mid < U then
        (if mid ≤ s.size then
          .ok ({ addr := s.addr, size := mid, bmBase := s.bmBase },
               { addr := s.addr + mid, size := s.size - mid, bmBase := sliceAt s.bmBase mid })
         else .err .outOfBounds)
      else .err .overflow := by
  unfold VSlice.splitAt
  rw [offset_eq]
  by_cases h1 : s.addr + mid < U
  · by_cases h2 : mid ≤ s.size <;> simp [h1, h2]
  · simp [h1]

theorem splitAt_ok {s l r : VSlice} {mid : Nat} (h : s.splitAt mid = .ok (l, r)) :
    s.addr + mid < U ∧ mid ≤ s.size ∧
      l.addr = s.addr ∧ l.size = mid ∧ l.bmBase = s.bmBase ∧
      r.addr = s.addr + mid ∧ r.size = s.size - mid ∧ r.bmBase = sliceAt s.bmBase mid := by
  rw [splitAt_eq] at h
  split at h
  · split at h
    · cases h; exact ⟨by assumption, by assumption, rfl, rfl, rfl, rfl, rfl, rfl⟩
    · cases h
  · cases h

theorem splitAt_ne_panic (s : VSlice) (mid : Nat) : s.splitAt mid ≠ .panic := by
  rw [splitAt_eq]
  split
  · split <;> simp
  · simp

theorem checkAlignment_eq (s : VSlice) (al : Nat) :
    s.checkAlignment al = if s.addr % al = 0 then .ok () else .err .misaligned := by
  unfold VSlice.checkAlignment
  by_cases h : s.addr % al = 0 <;> simp [h]

theorem getRef_eq (s : VSlice) (off : Nat) (t : Ty) :
    s.getRef off t =
      if off + t.size < U then
        (if off + t.size ≤ s.size then
          .ok { addr := s.addr + off, bmBase := sliceAt s.bmBase off, ty := t }
         else .err .outOfBounds)
      else .err .overflow := by
  unfold VSlice.getRef
  rw [subslice_eq]
  by_cases h1 : off + t.size < U
  · by_cases h2 : off + t.size ≤ s.size <;> simp [h1, h2]
  · simp [h1]

theorem getRef_ok {s : VSlice} {r : VRef} {off : Nat} {t : Ty} (h : s.getRef off t = .ok r) :
    off + t.size < U ∧ off + t.size ≤ s.size ∧
      r.addr = s.addr + off ∧ r.ty = t ∧ r.bmBase = sliceAt s.bmBase off := by
  rw [getRef_eq] at h
  split at h
  · split at h
    · cases h; exact ⟨by assumption, by assumption, rfl, rfl, rfl⟩
    · cases h
  · cases h

theorem getRef_ne_panic (s : VSlice) (off : Nat) (t : Ty) : s.getRef off t ≠ .panic := by
  rw [getRef_eq]
  split
  · split <;> simp
  · simp

theorem getArrayRef_eq (s : VSlice) (off n : Nat) (t : Ty) :
    s.getArrayRef off n t =
      if n ≤ ISIZE_MAX ∧ n * t.size ≤ ISIZE_MAX then
        (if off + n * t.size < U then
          (if off + n * t.size ≤ s.size then
            .ok { addr := s.addr + off, nelem := n, bmBase := sliceAt s.bmBase off, ty := t }
           else .err .outOfBounds)
         else .err .overflow)
      else .err .tooBig := by
  unfold VSlice.getArrayRef
  rw [subslice_eq]
  by_cases h0 : n ≤ ISIZE_MAX ∧ n * t.size ≤ ISIZE_MAX
  · have h0' : ¬ (n > ISIZE_MAX ∨ n * t.size > ISIZE_MAX) := by omega
    rw [if_neg h0', if_pos h0]
    by_cases h1 : off + n * t.size < U
    · by_cases h2 : off + n * t.size ≤ s.size <;> simp [h1, h2]
    · simp [h1]
  · have h0' : n > ISIZE_MAX ∨ n * t.size > ISIZE_MAX := by omega
    rw [if_pos h0', if_neg h0]

theorem getArrayRef_ok {s : VSlice} {a : VArr} {off n : Nat} {t : Ty}
    (h : s.getArrayRef off n t = .ok a) :
    n ≤ ISIZE_MAX ∧ n * t.size ≤ ISIZE_MAX ∧ off + n * t.size < U ∧ off + n * t.size ≤ s.size ∧
      a.addr = s.addr + off ∧ a.nelem = n ∧ a.ty = t ∧ a.bmBase = sliceAt s.bmBase off := by
  rw [getArrayRef_eq] at h
  split at h
  · rename_i h0
    split at h
    · split at h
      · cases h; exact ⟨h0.1, h0.2, by assumption, by assumption, rfl, rfl, rfl, rfl⟩
      · cases h
    · cases h
  · cases h

theorem getArrayRef_ne_panic (s : VSlice) (off n : Nat) (t : Ty) :
    s.getArrayRef off n t ≠ .panic := by
  rw [getArrayRef_eq]
  split
  · split
    · split <;> simp
    · simp
  · simp

theorem alignedRef_eq (s : VSlice) (off : Nat) (t : Ty) :
    s.alignedRef off t =
      if off + t.size < U then
        (if off + t.size ≤ s.size then
          (if (s.addr + off) % t.align = 0 then .ok (s.addr + off) else .err .misaligned)
         else .err .outOfBounds)
      else .err .overflow := by
  unfold VSlice.alignedRef
  rw [subslice_eq]
  by_cases h1 : off + t.size < U
  · by_cases h2 : off + t.size ≤ s.size
    · by_cases h3 : (s.addr + off) % t.align = 0 <;> simp [h1, h2, h3, checkAlignment_eq]
    · simp [h1, h2]
  · simp [h1]

theorem alignedRef_ok {s : VSlice} {off p : Nat} {t : Ty} (h : s.alignedRef off t = .ok p) :
    off + t.size < U ∧ off + t.size ≤ s.size ∧ (s.addr + off) % t.align = 0 ∧ p = s.addr + off := by
  rw [alignedRef_eq] at h
  split at h
  · split at h
    · split at h
      · cases h; exact ⟨by assumption, by assumption, by assumption, rfl⟩
      · cases h
    · cases h
  · cases h

theorem alignedRef_ne_panic (s : VSlice) (off : Nat) (t : Ty) : s.alignedRef off t ≠ .panic := by
  rw [alignedRef_eq]
  split
  · split
    · split <;> simp
    · simp
  · simp

/-! ### `VolatileArrayRef` derivations -/

theorem arrToSlice_eq (a : VArr) :
    a.toSlice =
      if a.nelem * a.ty.size < U then
        .ok { addr := a.addr, size := a.nelem * a.ty.size, bmBase := a.bmBase }
      else .panic := by
  unfold VArr.toSlice
  by_cases h : a.nelem * a.ty.size < U <;> simp [mulP, h]

theorem arrToSlice_ok {a : VArr} {s : VSlice} (h : a.toSlice = .ok s) :
    a.nelem * a.ty.size < U ∧ s.addr = a.addr ∧ s.size = a.nelem * a.ty.size ∧
      s.bmBase = a.bmBase := by
  rw [arrToSlice_eq] at h
  split at h
  · cases h; exact ⟨by assumption, rfl, rfl, rfl⟩
  · cases h

theorem refAt_eq (a : VArr) (i : Nat) :
    a.refAt i =
      if i < a.nelem then
        (if a.ty.size * i < U then
          .ok { addr := a.addr + a.ty.size * i, bmBase := sliceAt a.bmBase (a.ty.size * i),
                ty := a.ty }
         else .panic)
      else .panic := by
  unfold VArr.refAt
  by_cases h1 : i < a.nelem
  · by_cases h2 : a.ty.size * i < U <;> simp [mulP, h1, h2]
  · simp [h1]

theorem refAt_ok {a : VArr} {r : VRef} {i : Nat} (h : a.refAt i = .ok r) :
    i < a.nelem ∧ a.ty.size * i < U ∧ r.addr = a.addr + a.ty.size * i ∧ r.ty = a.ty ∧
      r.bmBase = sliceAt a.bmBase (a.ty.size * i) := by
  rw [refAt_eq] at h
  split at h
  · split at h
    · cases h; exact ⟨by assumption, by assumption, rfl, rfl, rfl⟩
    · cases h
  · cases h

/-- the `i`-th element of an `n`-element array ends inside the array -/
theorem elem_end_le {sz i n : Nat} (h : i < n) : sz * i + sz ≤ n * sz := by
  have h1 : sz * (i + 1) ≤ sz * n := Nat.mul_le_mul_left sz h
  rw [Nat.mul_add, Nat.mul_one, Nat.mul_comm sz n] at h1
  exact h1

theorem elem_ofs_le {sz i n : Nat} (h : i < n) : sz * i ≤ n * sz := by
  have := @elem_end_le sz i n h
  omega

end VolatileLemmas
end VmMem
