/-
  VmMem.Lemmas.BitmapLemmas — helper lemmas about `VmMem.Model.Bitmap` used by
  `VmMem.Props.C08` (concurrency: no dirty mark is lost) and `VmMem.Props.C09`
  (sequential: the bitmap is a set of page numbers).  Core Lean only.
-/
import VmMem.Model.Bitmap
namespace VmMem

/-! ## Lists of words -/

theorem getD_set_words (s : Words) (i j : Nat) (v : BitVec 64) :
    (s.set i v).getD j 0 = if i = j ∧ i < s.length then v else s.getD j 0 := by
  simp only [List.getD_eq_getElem?_getD, List.getElem?_set]
  by_cases hij : i = j
  · subst hij
    by_cases hl : i < s.length
    · simp [hl]
    · simp [hl]
  · simp [hij]

theorem getD_of_length_le (s : Words) (j : Nat) (h : s.length ≤ j) : s.getD j 0 = 0 := by
  simp [List.getD_eq_getElem?_getD, List.getElem?_eq_none h]

theorem words_ext (s t : Words) (hl : s.length = t.length)
    (h : ∀ j, s.getD j 0 = t.getD j 0) : s = t := by
  apply List.ext_getElem hl
  intro i h1 h2
  have := h i
  simpa [List.getD_eq_getElem?_getD, List.getElem?_eq_getElem h1, List.getElem?_eq_getElem h2]
    using this

/-! ## Single bits -/

/-- bit `p` of a word vector (word `p / 64`, bit `p % 64`); `false` beyond the end. -/
def testBit (s : Words) (p : Nat) : Bool := (s.getD (p / 64) 0).getLsbD (p % 64)

theorem bitMask_getLsbD (n i : Nat) : (bitMask n).getLsbD i = decide (i = n % 64) := by
  unfold bitMask
  rw [BitVec.getLsbD_shiftLeft, BitVec.getLsbD_one]
  have : n % 64 < 64 := Nat.mod_lt _ (by decide)
  by_cases h : i = n % 64
  · subst h; simp [this]
  · simp only [h, decide_false]
    by_cases h1 : i < 64 <;> by_cases h2 : i < n % 64 <;> simp [h1, h2] <;> omega

/-! ## Steps -/

namespace AStep

theorem run_length (s : Words) (a : AStep) : (a.run s).1.length = s.length := by
  cases a <;> simp [run]

/-- a step that reads word `w` (an RMW step or a load on `w`): its return value is the word -/
def reads (w : Nat) : AStep → Bool
  | fetchOr w' _ | fetchAnd w' _ | load w' => w' == w
  | store _ _ => false

theorem run_ret_of_reads (s : Words) (w : Nat) (a : AStep) (h : a.reads w = true) :
    (a.run s).2 = s.getD w 0 := by
  cases a <;> simp [reads] at h <;> simp [run, h]

theorem reads_of_clears (w bit : Nat) (a : AStep) (h : a.clears w bit = true) :
    a.reads w = true := by
  cases a <;> simp_all [clears, reads]

theorem reads_of_sets (w bit : Nat) (a : AStep) (h : a.sets w bit = true) :
    a.reads w = true := by
  cases a <;> simp_all [sets, reads]

/-- a non-store step that does not clear `(w, bit)` leaves the bit set -/
theorem run_keeps_set (s : Words) (w bit : Nat) (a : AStep)
    (hset : (s.getD w 0).getLsbD bit = true) (hns : a.isStore = false)
    (hnc : a.clears w bit = false) : ((a.run s).1.getD w 0).getLsbD bit = true := by
  cases a with
  | fetchOr w' m =>
    simp only [run, getD_set_words]
    split
    · next h => obtain ⟨rfl, _⟩ := h; simp only [BitVec.getLsbD_or, hset, Bool.true_or]
    · exact hset
  | fetchAnd w' m =>
    simp only [run, getD_set_words]
    split
    · next h =>
      obtain ⟨rfl, _⟩ := h
      simp [clears] at hnc
      simp only [BitVec.getLsbD_and, hset, hnc, Bool.and_self]
    · exact hset
  | load w' => simpa [run] using hset
  | store w' v => simp [isStore] at hns

/-- a non-store step that does not set `(w, bit)` leaves the bit clear -/
theorem run_keeps_clear (s : Words) (w bit : Nat) (a : AStep)
    (hclr : (s.getD w 0).getLsbD bit = false) (hns : a.isStore = false)
    (hnset : a.sets w bit = false) : ((a.run s).1.getD w 0).getLsbD bit = false := by
  cases a with
  | fetchOr w' m =>
    simp only [run, getD_set_words]
    split
    · next h =>
      obtain ⟨rfl, _⟩ := h
      simp [sets] at hnset
      simp only [BitVec.getLsbD_or, hclr, hnset, Bool.or_self]
    · exact hclr
  | fetchAnd w' m =>
    simp only [run, getD_set_words]
    split
    · next h => obtain ⟨rfl, _⟩ := h; simp only [BitVec.getLsbD_and, hclr, Bool.false_and]
    · exact hclr
  | load w' => simpa [run] using hclr
  | store w' v => simp [isStore] at hns

end AStep

/-! ## `runAll` -/

theorem runAll_nil (s : Words) : runAll s [] = (s, []) := rfl

theorem runAll_cons (s : Words) (a : AStep) (rest : List AStep) :
    runAll s (a :: rest)
      = ((runAll (a.run s).1 rest).1, (a.run s).2 :: (runAll (a.run s).1 rest).2) := rfl

theorem runAll_length (s : Words) (σ : List AStep) : (runAll s σ).1.length = s.length := by
  induction σ generalizing s with
  | nil => rfl
  | cons a rest ih => rw [runAll_cons]; simp [ih, AStep.run_length]

theorem runAll_rets_length (s : Words) (σ : List AStep) : (runAll s σ).2.length = σ.length := by
  induction σ generalizing s with
  | nil => rfl
  | cons a rest ih => rw [runAll_cons]; simp [ih]

theorem runAll_append (s : Words) (σ₁ σ₂ : List AStep) :
    runAll s (σ₁ ++ σ₂)
      = ((runAll (runAll s σ₁).1 σ₂).1, (runAll s σ₁).2 ++ (runAll (runAll s σ₁).1 σ₂).2) := by
  induction σ₁ generalizing s with
  | nil => simp [runAll_nil]
  | cons a rest ih => simp only [List.cons_append, runAll_cons, ih]

theorem runAll_singleton (s : Words) (a : AStep) : runAll s [a] = ((a.run s).1, [(a.run s).2]) := rfl

/-! ## Bit-level effect of `bitStep` and `rangeSteps` -/

open ABitmap

theorem testBit_of_length_le (s : Words) (p : Nat) (h : 64 * s.length ≤ p) : testBit s p = false := by
  unfold testBit
  rw [getD_of_length_le s (p / 64) (by omega)]
  simp

theorem bitStep_index (n : Nat) (set : Bool) (m : Words) :
    stepInRange m (bitStep n set) = decide (n / 64 < m.length) := by
  unfold bitStep; split <;> rfl

theorem bitStep_run_testBit (s : Words) (n : Nat) (set : Bool) (hn : n / 64 < s.length) (p : Nat) :
    testBit ((bitStep n set).run s).1 p = if p = n then set else testBit s p := by
  unfold testBit bitStep
  by_cases hw : n / 64 = p / 64
  · have hc : n / 64 = p / 64 ∧ n / 64 < s.length := ⟨hw, hn⟩
    have hpn : p = n ↔ p % 64 = n % 64 := by omega
    cases set
    · simp only [Bool.false_eq_true, if_false, AStep.run]
      rw [getD_set_words, if_pos hc, BitVec.getLsbD_and, BitVec.getLsbD_not, bitMask_getLsbD, hw]
      have h64 : p % 64 < 64 := Nat.mod_lt _ (by decide)
      by_cases hp : p = n
      · have := hpn.mp hp
        simp [hp]
      · have : ¬ p % 64 = n % 64 := fun h => hp (hpn.mpr h)
        simp [hp, this, h64]
    · simp only [if_true, AStep.run]
      rw [getD_set_words, if_pos hc, BitVec.getLsbD_or, bitMask_getLsbD, hw]
      by_cases hp : p = n
      · have := hpn.mp hp
        simp [hp]
      · have : ¬ p % 64 = n % 64 := fun h => hp (hpn.mpr h)
        simp [hp, this]
  · have hc : ¬ (n / 64 = p / 64 ∧ n / 64 < s.length) := fun h => hw h.1
    have hp : ¬ p = n := fun h => hw (by rw [h])
    cases set
    · simp only [Bool.false_eq_true, if_false, AStep.run]
      rw [getD_set_words, if_neg hc, if_neg hp]
    · simp only [if_true, AStep.run]
      rw [getD_set_words, if_neg hc, if_neg hp]

theorem rangeSteps_inRange (m : Words) (size n last : Nat) (set : Bool)
    (hs : size ≤ 64 * m.length) : (rangeSteps size n last set).all (stepInRange m) = true := by
  fun_induction rangeSteps size n last set with
  | case1 n h ih =>
    simp only [List.all_cons, ih, Bool.and_true, bitStep_index, decide_eq_true_eq]
    omega
  | case2 n h => rfl

theorem rangeSteps_testBit (s : Words) (size n last : Nat) (set : Bool)
    (hs : size ≤ 64 * s.length) (p : Nat) :
    testBit (runAll s (rangeSteps size n last set)).1 p
      = if n ≤ p ∧ p ≤ last ∧ p < size then set else testBit s p := by
  fun_induction rangeSteps size n last set generalizing s with
  | case1 n h ih =>
    rw [runAll_cons]
    have hn : n / 64 < s.length := by omega
    have := ih ((bitStep n set).run s).1 (by rw [AStep.run_length]; exact hs)
    simp only [] at this ⊢
    rw [this, bitStep_run_testBit s n set hn p]
    by_cases hpn : p = n
    · subst hpn
      have h1 : ¬ (p + 1 ≤ p ∧ p ≤ last ∧ p < size) := by omega
      have h2 : (p ≤ p ∧ p ≤ last ∧ p < size) := by omega
      simp [h2]
    · by_cases hc : n + 1 ≤ p ∧ p ≤ last ∧ p < size
      · have h2 : (n ≤ p ∧ p ≤ last ∧ p < size) := by omega
        simp [hc, h2]
      · have h2 : ¬ (n ≤ p ∧ p ≤ last ∧ p < size) := by omega
        simp [hc, h2, hpn]
  | case2 n h =>
    have : ¬ (n ≤ p ∧ p ≤ last ∧ p < size) := by omega
    simp [runAll_nil, this]

/-! ## Programs that visit every word once (`harvest`, `reset`, `clone`) -/

/-- A program `f 0, f 1, …, f (n-1)` where step `f w` replaces word `w` by `g` of it
    and returns `r` of it. -/
theorem runAll_range_map (f : Nat → AStep) (g r : BitVec 64 → BitVec 64)
    (hf1 : ∀ (s : Words) (w : Nat), w < s.length → ∀ j,
      ((f w).run s).1.getD j 0 = if j = w then g (s.getD w 0) else s.getD j 0)
    (hf2 : ∀ (s : Words) (w : Nat), ((f w).run s).2 = r (s.getD w 0))
    (s : Words) (n : Nat) (hn : n ≤ s.length) :
    (∀ j, (runAll s ((List.range n).map f)).1.getD j 0
        = if j < n then g (s.getD j 0) else s.getD j 0)
    ∧ (runAll s ((List.range n).map f)).2 = (s.take n).map r := by
  induction n with
  | zero => simp [runAll_nil]
  | succ n ih =>
    obtain ⟨ih1, ih2⟩ := ih (by omega)
    rw [List.range_succ, List.map_append, runAll_append]
    simp only [List.map_cons, List.map_nil, runAll_singleton]
    have hl : n < (runAll s (List.map f (List.range n))).1.length := by
      rw [runAll_length]; omega
    constructor
    · intro j
      rw [hf1 _ n hl j, ih1 n, ih1 j]
      by_cases hj : j = n
      · subst hj; simp
      · by_cases hj2 : j < n
        · have : j < n + 1 := by omega
          simp [hj, hj2, this]
        · have : ¬ j < n + 1 := by omega
          simp [hj, hj2, this]
    · rw [ih2, hf2, ih1 n, List.take_add_one]
      have : s[n]? = some (s.getD n 0) := by
        rw [List.getD_eq_getElem?_getD, List.getElem?_eq_getElem (by omega)]; rfl
      rw [this]
      simp only [Nat.lt_irrefl, if_false, Option.toList_some, List.map_append, List.map_cons,
        List.map_nil]

theorem harvest_run (s : Words) :
    runAll s ((List.range s.length).map (fun w => AStep.fetchAnd w 0))
      = (List.replicate s.length 0, s) := by
  have h := runAll_range_map (fun w => AStep.fetchAnd w 0) (fun _ => 0) id
    (by
      intro s w hw j
      simp only [AStep.run, getD_set_words]
      by_cases hj : j = w
      · subst hj; simp [hw]
      · have : ¬ (w = j ∧ w < s.length) := fun h => hj h.1.symm
        simp [hj, this])
    (by intro s w; rfl) s s.length (Nat.le_refl _)
  obtain ⟨h1, h2⟩ := h
  apply Prod.ext
  · apply words_ext
    · simp [runAll_length]
    · intro j
      rw [h1 j]
      by_cases hj : j < s.length
      · simp [hj, List.getD_eq_getElem?_getD]
      · rw [getD_of_length_le s j (by omega), getD_of_length_le _ j (by simp; omega)]
        simp
  · simpa using h2

theorem reset_run (s : Words) :
    (runAll s ((List.range s.length).map (fun w => AStep.store w 0))).1
      = List.replicate s.length 0 := by
  have h := runAll_range_map (fun w => AStep.store w 0) (fun _ => 0) (fun _ => 0)
    (by
      intro s w hw j
      simp only [AStep.run, getD_set_words]
      by_cases hj : j = w
      · subst hj; simp [hw]
      · have : ¬ (w = j ∧ w < s.length) := fun h => hj h.1.symm
        simp [hj, this])
    (by intro s w; rfl) s s.length (Nat.le_refl _)
  obtain ⟨h1, _⟩ := h
  apply words_ext
  · simp [runAll_length]
  · intro j
    rw [h1 j]
    by_cases hj : j < s.length
    · simp [hj, List.getD_eq_getElem?_getD]
    · rw [getD_of_length_le s j (by omega), getD_of_length_le _ j (by simp; omega)]
      simp

theorem clone_run (s : Words) :
    runAll s ((List.range s.length).map AStep.load) = (s, s) := by
  have h := runAll_range_map AStep.load id id
    (by intro s w hw j; simp only [AStep.run, id]; split <;> simp_all)
    (by intro s w; rfl) s s.length (Nat.le_refl _)
  obtain ⟨h1, h2⟩ := h
  apply Prod.ext
  · apply words_ext
    · simp [runAll_length]
    · intro j; rw [h1 j]; simp
  · simpa using h2

/-! ## Arithmetic -/

theorem le_mul_divCeil64 (n : Nat) : n ≤ 64 * divCeil n 64 := by
  unfold divCeil; omega

theorem divCeil_mono (a b k : Nat) (h : a ≤ b) : divCeil a k ≤ divCeil b k := by
  unfold divCeil
  exact Nat.div_le_div_right (by omega)

end VmMem
