/-
  VmMem.Lemmas.TopLemmas — the lemmas of GuestLemmas about `findRegion` and the `try_access` loop re-proved for layouts in
  which a region may end exactly at 2^64 (`WFT`: `start + len ≤ U`), which no safe constructor of the crate builds but a
  third-party `GuestMemoryRegion` may (C02's quantifier: "any other implementation of the traits").
-/
import VmMem.Lemmas.GuestLemmas
namespace VmMem

/-- as `WF`, but a region may end exactly at the top of the address space -/
def WFT (m : GMem) : Prop :=
  (∀ r ∈ m, 0 < r.len ∧ r.start + r.len ≤ U) ∧
  m.Pairwise (fun r s => r.start + r.len ≤ s.start)

instance (m : GMem) : Decidable (WFT m) := by unfold WFT; infer_instance

theorem WF.toWFT {m : GMem} (h : WF m) : WFT m :=
  ⟨fun r hr => ⟨(h.1 r hr).1, Nat.le_of_lt (h.1 r hr).2⟩, h.2⟩

namespace TopLemmas
open GuestLemmas (mapped_iff_getElem? mapped_or_not trivCb checkRange_eq checkRange_zero_eq Region.toRegionAddr_eq bsearch_ok bsearch_error Region.getSlice_eq)

/-! ### WFT: recursive reading -/

@[simp] theorem WF_nil : WFT [] := by simp [WFT]

theorem WF_cons (r : Region) (rest : GMem) :
    WFT (r :: rest) ↔
      0 < r.len ∧ r.start + r.len ≤ U ∧ (∀ x ∈ rest, r.start + r.len ≤ x.start) ∧ WFT rest := by
  simp only [WFT, List.mem_cons, forall_eq_or_imp, List.pairwise_cons]
  constructor
  · rintro ⟨⟨⟨h1, h2⟩, h3⟩, h4, h5⟩; exact ⟨h1, h2, h4, h3, h5⟩
  · rintro ⟨h1, h2, h4, h3, h5⟩; exact ⟨⟨⟨h1, h2⟩, h3⟩, h4, h5⟩

theorem _root_.VmMem.WFT.tail {r : Region} {rest : GMem} (h : WFT (r :: rest)) : WFT rest :=
  ((WF_cons r rest).1 h).2.2.2

theorem _root_.VmMem.WFT.mem {m : GMem} (h : WFT m) {r : Region} (hr : r ∈ m) :
    0 < r.len ∧ r.start + r.len ≤ U := h.1 r hr

theorem _root_.VmMem.WFT.getElem? {m : GMem} (h : WFT m) {i : Nat} {r : Region} (hi : m[i]? = some r) :
    0 < r.len ∧ r.start + r.len ≤ U := h.1 r (List.mem_of_getElem? hi)

/-- index form of the ordering -/
theorem _root_.VmMem.WFT.lt {m : GMem} (h : WFT m) {i j : Nat} {r s : Region}
    (hi : m[i]? = some r) (hj : m[j]? = some s) (hij : i < j) : r.start + r.len ≤ s.start := by
  obtain ⟨hi', rfl⟩ := List.getElem?_eq_some_iff.1 hi
  obtain ⟨hj', rfl⟩ := List.getElem?_eq_some_iff.1 hj
  exact (List.pairwise_iff_getElem.1 h.2) i j hi' hj' hij

theorem _root_.VmMem.WFT.sublist {m m' : GMem} (h : WFT m) (hs : m'.Sublist m) : WFT m' :=
  ⟨fun r hr => h.1 r (hs.subset hr), h.2.sublist hs⟩

/-- starts are strictly increasing -/
theorem _root_.VmMem.WFT.starts_lt {m : GMem} (h : WFT m) : m.Pairwise (fun r s => r.start < s.start) := by
  have h1 := h.1
  refine (List.Pairwise.imp_of_mem (R := fun (r s : Region) => r.start + r.len ≤ s.start) ?_ h.2)
  intro r s hr _ hrs
  have := h1 r hr
  omega

/-- under WFT at most one index contains `a` -/
theorem region_unique {m : GMem} (h : WFT m) {a i j : Nat} {r s : Region}
    (hi : m[i]? = some r) (hj : m[j]? = some s)
    (hr : r.start ≤ a ∧ a < r.start + r.len) (hs : s.start ≤ a ∧ a < s.start + s.len) :
    i = j := by
  rcases Nat.lt_trichotomy i j with hlt | heq | hgt
  · have := h.lt hi hj hlt; omega
  · exact heq
  · have := h.lt hj hi hgt; omega

/-! ### Region defaults -/

theorem Region.lastAddr_eq {r : Region} (h : 0 < r.len ∧ r.start + r.len ≤ U) :
    r.lastAddr = .ok (r.start + r.len - 1) := by
  unfold Region.lastAddr subP addP
  have h1 : 1 ≤ r.len := h.1
  have h2 : r.start + (r.len - 1) < U := by omega
  simp [h1, h2]
  omega

/-! ### bsearch -/

/-- under WFT (indeed for any layout), `Ok(i)` of the search designates the first index whose start is `a`;
    with strictly increasing starts it is the only one -/
theorem bsearch_ok_iff {m : GMem} (h : WFT m) (a i : Nat) :
    m.bsearch a = .ok i ↔ (m[i]?).map (·.start) = some a := by
  constructor
  · intro hb
    obtain ⟨r, hr, hs⟩ := bsearch_ok hb
    simp [hr, hs]
  · intro hi
    obtain ⟨r, hr, hs⟩ : ∃ r, m[i]? = some r ∧ r.start = a := by
      cases hm : m[i]? with
      | none => simp [hm] at hi
      | some r => exact ⟨r, rfl, by simpa [hm] using hi⟩
    cases hb : m.bsearch a with
    | ok j =>
      obtain ⟨s, hs', hss⟩ := bsearch_ok hb
      have hlen := h.getElem? hr
      have hlen' := h.getElem? hs'
      have : j = i := region_unique (a := a) h hs' hr (by omega) (by omega)
      rw [this]
    | error x =>
      exact absurd hs ((bsearch_error hb).1 r (List.mem_of_getElem? hr))

/-- the sorted prefix: with `x = #{start < a}`, exactly the first `x` regions start below `a` -/
theorem countP_prefix {m : GMem} (h : WFT m) (a : Nat) :
    ∀ i r, m[i]? = some r → (i < m.countP (fun r => r.start < a) ↔ r.start < a) := by
  induction m with
  | nil => intro i r hi; simp at hi
  | cons x rest ih =>
    obtain ⟨hx1, hx2, hx3, hrest⟩ := (WF_cons x rest).1 h
    intro i r hi
    by_cases hxa : x.start < a
    · rw [List.countP_cons_of_pos (by simpa using hxa)]
      cases i with
      | zero => simp at hi; subst hi; simp [hxa]
      | succ j =>
        simp at hi
        have := ih hrest j r hi
        omega
    · rw [List.countP_cons_of_neg (by simpa using hxa)]
      have hz : rest.countP (fun r => r.start < a) = 0 := by
        rw [List.countP_eq_zero]
        intro y hy
        have := hx3 y hy
        simp; omega
      rw [hz]
      cases i with
      | zero => simp at hi; subst hi; simp [hxa]
      | succ j =>
        simp at hi
        have := hx3 r (List.mem_of_getElem? hi)
        omega

theorem bsearch_error_count {m : GMem} (h : WFT m) {a x : Nat} (hb : m.bsearch a = .error x) :
    x = m.countP (fun r => r.start < a) ∧ x ≤ m.length ∧
    (∀ i r, m[i]? = some r → (i < x ↔ r.start < a)) ∧ (∀ r ∈ m, r.start ≠ a) := by
  obtain ⟨h1, h2⟩ := bsearch_error hb
  subst h2
  exact ⟨rfl, List.countP_le_length, countP_prefix h a, h1⟩

/-! ### findRegion -/

/-- `find_region` resolves an address inside region `i` to `i` -/
theorem findRegion_of_getElem? {m : GMem} (h : WFT m) {a i : Nat} {r : Region}
    (hi : m[i]? = some r) (hin : r.start ≤ a ∧ a < r.start + r.len) :
    m.findRegion a = .ok (some i) := by
  unfold GMem.findRegion
  cases hb : m.bsearch a with
  | ok j =>
    obtain ⟨s, hs, hss⟩ := bsearch_ok hb
    have hl := h.getElem? hs
    have : j = i := region_unique (a := a) h hs hi (by omega) hin
    simp [this]
  | error x =>
    obtain ⟨_, hxlen, hpre, hne⟩ := bsearch_error_count h hb
    have hra : r.start < a := by
      have := hne r (List.mem_of_getElem? hi); omega
    have hix : i < x := (hpre i r hi).2 hra
    have hx0 : x > 0 := by omega
    have hx1 : x - 1 < m.length := by omega
    simp only [hx0, if_true]
    have hs : m[x - 1]? = some m[x - 1] := List.getElem?_eq_getElem hx1
    have hsl := h.getElem? hs
    have hsa : m[x - 1].start < a := (hpre (x - 1) _ hs).1 (by omega)
    have hxi : x - 1 = i := by
      rcases Nat.lt_or_ge i (x - 1) with hlt | hge
      · have := h.lt hi hs hlt; omega
      · omega
    simp only [hs, Region.lastAddr_eq hsl, Res.bind_ok]
    have hrs : m[x - 1] = r := by
      have : m[x - 1]? = some r := by rw [hxi]; exact hi
      rw [hs] at this; exact Option.some.inj this
    have hle : a ≤ m[x - 1].start + m[x - 1].len - 1 := by rw [hrs]; omega
    rw [if_pos hle, hxi]; rfl

/-- `find_region` resolves an unmapped address to nothing -/
theorem findRegion_of_unmapped {m : GMem} (h : WFT m) {a : Nat} (hn : ¬ mapped m a) :
    m.findRegion a = .ok none := by
  unfold GMem.findRegion
  cases hb : m.bsearch a with
  | ok j =>
    obtain ⟨s, hs, hss⟩ := bsearch_ok hb
    have hl := h.getElem? hs
    exact absurd ⟨s, List.mem_of_getElem? hs, by omega, by omega⟩ hn
  | error x =>
    obtain ⟨_, hxlen, hpre, hne⟩ := bsearch_error_count h hb
    by_cases hx0 : x > 0
    · have hx1 : x - 1 < m.length := by omega
      simp only [hx0, if_true]
      have hs : m[x - 1]? = some m[x - 1] := List.getElem?_eq_getElem hx1
      have hsl := h.getElem? hs
      have hsa : m[x - 1].start < a := (hpre (x - 1) _ hs).1 (by omega)
      simp only [hs, Region.lastAddr_eq hsl, Res.bind_ok]
      have hle : ¬ a ≤ m[x - 1].start + m[x - 1].len - 1 := by
        intro hle
        exact hn ⟨m[x - 1], List.mem_of_getElem? hs, by omega, by omega⟩
      simp [hle]
    · simp [hx0]

/-! ### defaults of `GuestMemory`, evaluated -/

theorem toRegionAddr_of_getElem? {m : GMem} (h : WFT m) {a i : Nat} {r : Region}
    (hi : m[i]? = some r) (hin : r.start ≤ a ∧ a < r.start + r.len) :
    m.toRegionAddr a = .ok (some (i, a - r.start)) := by
  unfold GMem.toRegionAddr
  rw [findRegion_of_getElem? h hi hin]
  simp [hi, Region.toRegionAddr_eq hin, Res.unwrap]

theorem toRegionAddr_of_unmapped {m : GMem} (h : WFT m) {a : Nat} (hn : ¬ mapped m a) :
    m.toRegionAddr a = .ok none := by
  unfold GMem.toRegionAddr
  rw [findRegion_of_unmapped h hn]
  simp

/-! ### the `try_access` loop with the trivial callback of `check_range` -/

/-- The loop started at `cur` with `total < count` bytes done never panics, leaves the map
    alone, and returns `Ok(count)` exactly when the remaining `count - total` addresses from
    `cur` are all mapped; any other `Ok(k)` has `total ≤ k < count`. -/
theorem loop_triv {m : GMem} (h : WFT m) {count : Nat} (hc : count < U) (addr : Nat) :
    ∀ (n cur total : Nat), count - total = n → total < count →
      ∃ res, GMem.tryAccessLoop trivCb count addr m () cur total = (m, (), res) ∧ res ≠ .panic ∧
        (res = .ok count ↔ ∀ i, i < count - total → mapped m (cur + i)) ∧
        (∀ k, res = .ok k → total ≤ k ∧ k ≤ count) := by
  intro n
  induction n using Nat.strongRecOn with
  | _ n ih =>
    intro cur total hn htot
    rw [GMem.tryAccessLoop]
    rcases mapped_or_not m cur with ⟨i, r, hi, hin⟩ | hun
    · rw [findRegion_of_getElem? h hi hin]
      simp only [hi, Region.toRegionAddr_eq hin]
      have hcond : ¬ (r.len < cur - r.start ∨ count < total) := by omega
      rw [if_neg hcond]
      obtain ⟨k, hk⟩ : ∃ k, min (r.len - (cur - r.start)) (count - total) = k + 1 :=
        ⟨min (r.len - (cur - r.start)) (count - total) - 1, by omega⟩
      simp only [trivCb, hk]
      have hrl := h.getElem? hi
      have hU : total + (k + 1) < U := by omega
      rw [if_pos hU]
      by_cases hlt : total + (k + 1) < count
      · rw [if_pos hlt]
        have hcap : k + 1 = r.len - (cur - r.start) := by omega
        have hend : cur + (k + 1) = r.start + r.len := by omega
        by_cases htop : cur + (k + 1) = U
        · -- the region ends exactly at 2^64 and more bytes were asked for: the walk stops here (fix dfb8366)
          have ov : overflowingAdd cur (k + 1) = (0, true) := by
            unfold overflowingAdd; rw [htop]; simp [U]
          simp only [ov, Bool.true_eq_false, if_false, if_true]
          refine ⟨.ok (total + (k + 1)), rfl, by simp, ?_, ?_⟩
          · constructor
            · intro he; injection he with he; omega
            · intro hall
              exfalso
              obtain ⟨x, hx, _, hx2⟩ := hall (k + 1) (by omega)
              have := (h.1 x hx).2
              omega
          · intro k' hk'; injection hk' with hk'; omega
        have hmod : (cur + (k + 1)) % U = cur + (k + 1) := Nat.mod_eq_of_lt (by omega)
        have hov : decide (U ≤ cur + (k + 1)) = false := by simp; omega
        simp only [overflowingAdd, hmod, hov, or_true, if_true]
        obtain ⟨res, hres, hnp, hiff, hle⟩ :=
          ih (count - (total + (k + 1))) (by omega) (cur + (k + 1)) (total + (k + 1)) rfl hlt
        refine ⟨res, hres, hnp, ?_, ?_⟩
        · rw [hiff]
          constructor
          · intro hall j hj
            by_cases hjk : j < k + 1
            · exact ⟨r, List.mem_of_getElem? hi, by omega, by omega⟩
            · have := hall (j - (k + 1)) (by omega)
              have e : cur + (k + 1) + (j - (k + 1)) = cur + j := by omega
              rwa [e] at this
          · intro hall j hj
            have := hall (k + 1 + j) (by omega)
            have e : cur + (k + 1 + j) = cur + (k + 1) + j := by omega
            rwa [e] at this
        · intro k' hk'
          have := hle k' hk'
          omega
      · rw [if_neg hlt]
        have heq : total + (k + 1) = count := by omega
        rw [if_pos heq]
        refine ⟨.ok (total + (k + 1)), rfl, by simp, ?_, ?_⟩
        · rw [heq]
          simp only [true_iff]
          intro j hj
          exact ⟨r, List.mem_of_getElem? hi, by omega, by omega⟩
        · intro k' hk'
          cases hk'
          omega
    · rw [findRegion_of_unmapped h hun]
      simp only
      have hnot : ¬ ∀ i, i < count - total → mapped m (cur + i) := by
        intro hall
        exact hun (by simpa using hall 0 (by omega))
      by_cases ht0 : total = 0
      · rw [if_pos ht0]
        exact ⟨.err (.invalidGuestAddress addr), rfl, by simp, by simp [hnot], by simp⟩
      · rw [if_neg ht0]
        refine ⟨.ok total, rfl, by simp, ?_, ?_⟩
        · constructor
          · intro he; cases he; omega
          · intro hall; exact absurd hall hnot
        · intro k' hk'; cases hk'; omega


end TopLemmas
end VmMem
