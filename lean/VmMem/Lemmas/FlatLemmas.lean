/-
  VmMem.Lemmas.FlatLemmas — guest memory as one flat sparse byte array.

  * `GWF m`        : layout `WF` + every region's container is sane (`BmInv`, fits the
                     address space) — what C04 needs of a container
  * `flat m a`     : the byte at guest address `a` (`none` in a hole)
  * `runLen m a c` : length of the longest run of consecutively mapped addresses starting
                     at `a`, capped at `c`
  * `SameLayout`   : same starts / lengths / ids / host bases (only bytes and bitmaps differ)
  * `loop_unmapped` / `loop_step` : one unfolding of `tryAccessLoop` under `WF`, for ANY
                     callback (the wrap-to-zero branch is dead: `no_wrap_step`)
  * `loop_write` / `loop_read` : the loop invariants for the `write` / `read` callbacks
-/
import VmMem.Lemmas.GuestLemmas
import VmMem.Lemmas.DataLemmas
import VmMem.Props.C02
import VmMem.Props.C04
namespace VmMem
namespace FlatLemmas
open GuestLemmas DataLemmas

/-! ### definitions -/

/-- well-formed guest memory: layout `WF`; every region's container has a sane tracking
    bitmap and fits the host address space (`base + len ≤ 2^64`; the length bound of
    `C04.MemWF` follows from `WF`). -/
def GWF (m : GMem) : Prop :=
  WF m ∧ ∀ r ∈ m, BmInv r.mem ∧ r.mem.base + r.mem.bytes.length ≤ U

/-- the flat sparse byte array -/
def flat (m : GMem) (a : Nat) : Option UInt8 :=
  match m.find? (fun r => decide (r.start ≤ a ∧ a < r.start + r.len)) with
  | some r => r.mem.bytes[a - r.start]?
  | none => none

/-- length of the longest run of consecutively mapped addresses starting at `a`, capped at `cap` -/
def runLen (m : GMem) (a : Nat) : Nat → Nat
  | 0 => 0
  | cap + 1 => if mapped m a then 1 + runLen m (a + 1) cap else 0

/-- what identifies a region in the layout: start, length, mapping id, host base -/
def key (r : Region) : Nat × Nat × Nat × Nat := (r.start, r.len, r.id, r.mem.base)

/-- same layout: starts, lengths, ids, host bases unchanged (only bytes / bitmaps may differ) -/
def SameLayout (m m' : GMem) : Prop := m'.map key = m.map key

/-! ### SameLayout -/

theorem SameLayout.refl (m : GMem) : SameLayout m m := rfl
theorem SameLayout.symm {m m' : GMem} (h : SameLayout m m') : SameLayout m' m := Eq.symm h
theorem SameLayout.trans {a b c : GMem} (h1 : SameLayout a b) (h2 : SameLayout b c) :
    SameLayout a c := Eq.trans h2 h1

theorem SameLayout.length {m m' : GMem} (h : SameLayout m m') : m'.length = m.length := by
  have := congrArg List.length h
  simpa using this

theorem SameLayout.getElem? {m m' : GMem} (h : SameLayout m m') {i : Nat} {r : Region}
    (hi : m[i]? = some r) : ∃ r', m'[i]? = some r' ∧ key r' = key r := by
  have h1 : (m'.map key)[i]? = (m.map key)[i]? := by rw [h]
  rw [List.getElem?_map, List.getElem?_map, hi] at h1
  cases hm : m'[i]? with
  | none => rw [hm] at h1; cases h1
  | some r' =>
    rw [hm] at h1
    exact ⟨r', rfl, Option.some.inj h1⟩

theorem key_eq {r r' : Region} (h : key r' = key r) :
    r'.start = r.start ∧ r'.len = r.len ∧ r'.id = r.id ∧ r'.mem.base = r.mem.base := by
  unfold key at h
  injection h with h1 h; injection h with h2 h; injection h with h3 h4
  exact ⟨h1, h2, h3, h4⟩

theorem SameLayout.set {m : GMem} {i : Nat} {r r' : Region} (hi : m[i]? = some r)
    (hk : key r' = key r) : SameLayout m (m.set i r') := by
  unfold SameLayout
  apply List.ext_getElem?
  intro j
  rw [List.map_set, List.getElem?_set]
  split
  · rename_i hij
    subst hij
    rw [List.length_map]
    have hlt : i < m.length := (List.getElem?_eq_some_iff.1 hi).1
    rw [if_pos hlt, List.getElem?_map, hi, hk]; rfl
  · rfl

theorem WF_iff_key (m : GMem) :
    WF m ↔ (∀ k ∈ m.map key, 0 < k.2.1 ∧ k.1 + k.2.1 < U) ∧
      (m.map key).Pairwise (fun k s => k.1 + k.2.1 ≤ s.1) := by
  unfold WF
  rw [List.pairwise_map]
  constructor
  · rintro ⟨h1, h2⟩
    refine ⟨?_, h2⟩
    intro k hk
    obtain ⟨r, hr, rfl⟩ := List.mem_map.1 hk
    exact h1 r hr
  · rintro ⟨h1, h2⟩
    exact ⟨fun r hr => h1 (key r) (List.mem_map.2 ⟨r, hr, rfl⟩), h2⟩

theorem SameLayout.WF {m m' : GMem} (h : SameLayout m m') (hw : WF m) : WF m' := by
  rw [WF_iff_key] at hw ⊢
  rw [h]; exact hw

theorem mapped_iff_key (m : GMem) (a : Nat) :
    mapped m a ↔ ∃ k ∈ m.map key, k.1 ≤ a ∧ a < k.1 + k.2.1 := by
  unfold mapped
  constructor
  · rintro ⟨r, hr, h⟩
    exact ⟨key r, List.mem_map.2 ⟨r, hr, rfl⟩, h⟩
  · rintro ⟨k, hk, h⟩
    obtain ⟨r, hr, rfl⟩ := List.mem_map.1 hk
    exact ⟨r, hr, h⟩

theorem SameLayout.mapped {m m' : GMem} (h : SameLayout m m') (a : Nat) :
    mapped m' a ↔ mapped m a := by
  rw [mapped_iff_key, mapped_iff_key, h]

/-! ### runLen -/

theorem runLen_congr {m m' : GMem} (h : ∀ a, mapped m' a ↔ mapped m a) (a cap : Nat) :
    runLen m' a cap = runLen m a cap := by
  induction cap generalizing a with
  | zero => rfl
  | succ c ih =>
    unfold runLen
    by_cases hm : mapped m a
    · rw [if_pos hm, if_pos ((h a).2 hm), ih]
    · rw [if_neg hm, if_neg (fun x => hm ((h a).1 x))]

theorem SameLayout.runLen {m m' : GMem} (h : SameLayout m m') (a cap : Nat) :
    runLen m' a cap = runLen m a cap := runLen_congr h.mapped a cap

theorem runLen_le (m : GMem) (a cap : Nat) : runLen m a cap ≤ cap := by
  induction cap generalizing a with
  | zero => exact Nat.le_refl _
  | succ c ih =>
    unfold runLen
    split
    · have := ih (a + 1); omega
    · omega

theorem runLen_zero (m : GMem) (a : Nat) : runLen m a 0 = 0 := rfl

theorem runLen_unmapped {m : GMem} {a : Nat} (h : ¬ mapped m a) (cap : Nat) : runLen m a cap = 0 := by
  cases cap with
  | zero => rfl
  | succ c => unfold runLen; rw [if_neg h]

theorem runLen_pos {m : GMem} {a : Nat} (h : mapped m a) {cap : Nat} (hc : 0 < cap) :
    0 < runLen m a cap := by
  cases cap with
  | zero => omega
  | succ c => unfold runLen; rw [if_pos h]; omega

theorem runLen_eq_zero_iff (m : GMem) (a : Nat) {cap : Nat} (hc : 0 < cap) :
    runLen m a cap = 0 ↔ ¬ mapped m a := by
  constructor
  · intro h hm; have := runLen_pos hm hc; omega
  · intro h; exact runLen_unmapped h cap

/-- every address of the run is mapped -/
theorem runLen_mapped (m : GMem) (a cap i : Nat) (hi : i < runLen m a cap) : mapped m (a + i) := by
  induction cap generalizing a i with
  | zero => simp [runLen] at hi
  | succ c ih =>
    unfold runLen at hi
    by_cases hm : mapped m a
    · rw [if_pos hm] at hi
      cases i with
      | zero => exact hm
      | succ j =>
        have := ih (a + 1) j (by omega)
        have e : a + 1 + j = a + (j + 1) := by omega
        rwa [e] at this
    · rw [if_neg hm] at hi; omega

/-- a run shorter than the cap ends at an unmapped address -/
theorem runLen_stop (m : GMem) (a cap : Nat) (h : runLen m a cap < cap) :
    ¬ mapped m (a + runLen m a cap) := by
  induction cap generalizing a with
  | zero => omega
  | succ c ih =>
    unfold runLen at h ⊢
    by_cases hm : mapped m a
    · rw [if_pos hm] at h ⊢
      have := ih (a + 1) (by omega)
      have e : a + 1 + runLen m (a + 1) c = a + (1 + runLen m (a + 1) c) := by omega
      rwa [e] at this
    · rw [if_neg hm]; exact hm

/-- a mapped prefix of length `n` is part of the run -/
theorem runLen_add (m : GMem) (a n cap : Nat) (hn : n ≤ cap) (hall : ∀ j, j < n → mapped m (a + j)) :
    runLen m a cap = n + runLen m (a + n) (cap - n) := by
  induction n generalizing a cap with
  | zero => simp
  | succ k ih =>
    cases cap with
    | zero => omega
    | succ c =>
      have h0 : mapped m a := hall 0 (by omega)
      have hrest := ih (a + 1) c (by omega) (by
        intro j hj
        have := hall (j + 1) (by omega)
        have e : a + (j + 1) = a + 1 + j := by omega
        rwa [e] at this)
      have e1 : a + (k + 1) = a + 1 + k := by omega
      have e2 : c + 1 - (k + 1) = c - k := by omega
      rw [e1, e2]
      conv => lhs; unfold runLen
      rw [if_pos h0, hrest]; omega

/-- the run is characterised by: all mapped, and (if short of the cap) followed by a hole -/
theorem runLen_eq_iff (m : GMem) (a cap k : Nat) :
    runLen m a cap = k ↔
      k ≤ cap ∧ (∀ i, i < k → mapped m (a + i)) ∧ (k < cap → ¬ mapped m (a + k)) := by
  constructor
  · intro h
    subst h
    exact ⟨runLen_le m a cap, fun i hi => runLen_mapped m a cap i hi, runLen_stop m a cap⟩
  · rintro ⟨h1, h2, h3⟩
    rw [runLen_add m a k cap h1 h2]
    by_cases hk : k < cap
    · rw [runLen_unmapped (h3 hk)]; rfl
    · have : cap - k = 0 := by omega
      rw [this]; rfl

theorem runLen_full_iff (m : GMem) (a cap : Nat) :
    runLen m a cap = cap ↔ ∀ i, i < cap → mapped m (a + i) := by
  rw [runLen_eq_iff]
  constructor
  · rintro ⟨_, h, _⟩; exact h
  · intro h; exact ⟨Nat.le_refl _, h, fun hlt => absurd hlt (Nat.lt_irrefl _)⟩

/-- a sub-run: shortening the cap inside the run keeps everything mapped -/
theorem runLen_of_le (m : GMem) (a cap k : Nat) (hk : k ≤ runLen m a cap) : runLen m a k = k := by
  rw [runLen_full_iff]
  intro i hi
  exact runLen_mapped m a cap i (by omega)

/-! ### flat -/

theorem flat_of_getElem? {m : GMem} (h : WF m) {a i : Nat} {r : Region}
    (hi : m[i]? = some r) (hin : r.start ≤ a ∧ a < r.start + r.len) :
    flat m a = r.mem.bytes[a - r.start]? := by
  unfold flat
  cases hf : m.find? (fun r => decide (r.start ≤ a ∧ a < r.start + r.len)) with
  | none =>
    have := List.find?_eq_none.1 hf r (List.mem_of_getElem? hi)
    simp at this
    omega
  | some s =>
    have hs := List.find?_some hf
    have hmem := List.mem_of_find?_eq_some hf
    obtain ⟨j, hj⟩ := List.getElem?_of_mem hmem
    have hs' : s.start ≤ a ∧ a < s.start + s.len := by simpa using hs
    have hij := region_unique h hi hj hin hs'
    subst hij
    rw [hi] at hj; cases hj
    rfl

theorem flat_unmapped {m : GMem} {a : Nat} (hn : ¬ mapped m a) : flat m a = none := by
  unfold flat
  have : m.find? (fun r => decide (r.start ≤ a ∧ a < r.start + r.len)) = none := by
    rw [List.find?_eq_none]
    intro r hr hp
    exact hn ⟨r, hr, by simpa using hp⟩
  rw [this]

/-- `flat` is defined exactly on the mapped addresses -/
theorem flat_isSome_iff {m : GMem} (h : WF m) (a : Nat) : (flat m a).isSome = true ↔ mapped m a := by
  rcases mapped_or_not m a with ⟨i, r, hi, hin⟩ | hn
  · have hm : mapped m a := (mapped_iff_getElem? m a).2 ⟨i, r, hi, hin⟩
    rw [flat_of_getElem? h hi hin]
    have hlt : a - r.start < r.mem.bytes.length := by unfold Region.len at hin; omega
    simp [hm, hlt]
  · rw [flat_unmapped hn]; simp [hn]

/-- replacing region `i` by one with the same extent changes `flat` exactly on that extent -/
theorem flat_set {m : GMem} (h : WF m) {i : Nat} {r r' : Region} (hi : m[i]? = some r)
    (hk : key r' = key r) (a : Nat) :
    flat (m.set i r') a =
      if r.start ≤ a ∧ a < r.start + r.len then r'.mem.bytes[a - r.start]? else flat m a := by
  have hsl : SameLayout m (m.set i r') := SameLayout.set hi hk
  have hw' : WF (m.set i r') := hsl.WF h
  obtain ⟨hk1, hk2, _, _⟩ := key_eq hk
  have hlt : i < m.length := (List.getElem?_eq_some_iff.1 hi).1
  have hi' : (m.set i r')[i]? = some r' := by
    rw [List.getElem?_set]; simp [hlt]
  by_cases hin : r.start ≤ a ∧ a < r.start + r.len
  · rw [if_pos hin, flat_of_getElem? hw' hi' (by rw [hk1, hk2]; exact hin), hk1]
  · rw [if_neg hin]
    rcases mapped_or_not m a with ⟨j, s, hj, hsin⟩ | hn
    · have hne : i ≠ j := by
        intro e; subst e; rw [hi] at hj; cases hj; exact hin hsin
      have hj' : (m.set i r')[j]? = some s := by
        rw [List.getElem?_set, if_neg hne]; exact hj
      rw [flat_of_getElem? hw' hj' hsin, flat_of_getElem? h hj hsin]
    · rw [flat_unmapped hn, flat_unmapped (fun x => hn ((hsl.mapped a).1 x))]

/-! ### GWF -/

theorem GWF.wf {m : GMem} (h : GWF m) : WF m := h.1

theorem GWF.getElem? {m : GMem} (h : GWF m) {i : Nat} {r : Region} (hi : m[i]? = some r) :
    0 < r.len ∧ r.start + r.len < U ∧ BmInv r.mem ∧ C04.MemWF r.mem := by
  have h1 := h.1.getElem? hi
  have h2 := h.2 r (List.mem_of_getElem? hi)
  refine ⟨h1.1, h1.2, h2.1, ⟨h2.2, ?_⟩⟩
  have := h1.2; unfold Region.len at this; omega

theorem GWF.set {m : GMem} (h : GWF m) {i : Nat} {r r' : Region} (hi : m[i]? = some r)
    (hk : key r' = key r) (hinv : BmInv r'.mem) : GWF (m.set i r') := by
  refine ⟨(SameLayout.set hi hk).WF h.1, ?_⟩
  intro x hx
  rcases List.mem_or_eq_of_mem_set hx with hx | rfl
  · exact h.2 x hx
  · obtain ⟨_, hk2, _, hk4⟩ := key_eq hk
    have := (h.2 r (List.mem_of_getElem? hi)).2
    unfold Region.len at hk2
    exact ⟨hinv, by rw [hk2, hk4]; exact this⟩

/-! ### one unfolding of the `try_access` loop, for any callback -/

/-- inside a region of a `WF` layout, advancing by at most the rest of the region neither
    overflows nor wraps to 0: `cur.overflowing_add(n) = (cur + n, false)` -/
theorem no_wrap_step {m : GMem} (h : WF m) {cur i : Nat} {r : Region} (hi : m[i]? = some r)
    (hin : r.start ≤ cur ∧ cur < r.start + r.len) {n : Nat} (hn : n ≤ r.len - (cur - r.start)) :
    overflowingAdd cur n = (cur + n, false) ∧ cur + n ≤ r.start + r.len ∧ r.start + r.len < U := by
  have hr := h.getElem? hi
  have hlt : cur + n < U := by omega
  refine ⟨?_, by omega, hr.2⟩
  unfold overflowingAdd
  rw [Nat.mod_eq_of_lt hlt]
  have : decide (U ≤ cur + n) = false := by simp; omega
  rw [this]

theorem loop_unmapped {σ : Type} (f : GMem → σ → Nat → Nat → Nat → Nat → GMem × σ × Res Nat)
    {m : GMem} (h : WF m) (count addr : Nat) (st : σ) {cur : Nat} (total : Nat)
    (hun : ¬ mapped m cur) :
    GMem.tryAccessLoop f count addr m st cur total =
      if total = 0 then (m, st, .err (.invalidGuestAddress addr)) else (m, st, .ok total) := by
  rw [GMem.tryAccessLoop, findRegion_of_unmapped h hun]

/-- one iteration at a mapped address, for a callback that handles the whole chunk
    `n = min (rest of region) (rest of count)`: either the count is reached, or the loop goes
    on at `cur + n` (which is then the end of the region, `< 2^64`: the wrap branch is dead) -/
theorem loop_step {σ : Type} (f : GMem → σ → Nat → Nat → Nat → Nat → GMem × σ × Res Nat)
    {m : GMem} (h : WF m) {count : Nat} (hc : count < U) (addr : Nat) (st : σ)
    {cur total i : Nat} {r : Region} (hi : m[i]? = some r)
    (hin : r.start ≤ cur ∧ cur < r.start + r.len) (ht : total < count)
    {m1 : GMem} {st1 : σ} {n : Nat} (hn : n = min (r.len - (cur - r.start)) (count - total))
    (hf : f m st total n (cur - r.start) i = (m1, st1, .ok n)) :
    GMem.tryAccessLoop f count addr m st cur total =
      if total + n < count then GMem.tryAccessLoop f count addr m1 st1 (cur + n) (total + n)
      else (m1, st1, .ok count) := by
  rw [GMem.tryAccessLoop, findRegion_of_getElem? h hi hin]
  simp only [hi, Region.toRegionAddr_eq hin]
  have hcond : ¬ (r.len < cur - r.start ∨ count < total) := by omega
  rw [if_neg hcond]
  simp only [← hn, hf]
  obtain ⟨k, hk⟩ : ∃ k, n = k + 1 := ⟨n - 1, by omega⟩
  subst hk
  simp only
  have hU : total + (k + 1) < U := by omega
  rw [if_pos hU]
  by_cases hlt : total + (k + 1) < count
  · rw [if_pos hlt, if_pos hlt]
    have hnw := (no_wrap_step h hi hin (n := k + 1) (by omega)).1
    simp only [hnw, or_true, if_true]
  · rw [if_neg hlt, if_neg hlt]
    have heq : total + (k + 1) = count := by omega
    rw [if_pos heq, heq]

/-! ### region-level operations, evaluated -/

/-- a region whose container is sane -/
structure RegWF (r : Region) : Prop where
  len_lt : r.len < U
  inv : BmInv r.mem
  fits : r.mem.base + r.mem.bytes.length ≤ U

theorem RegWF.memWF {r : Region} (h : RegWF r) : C04.MemWF r.mem :=
  ⟨h.fits, by have := h.len_lt; unfold Region.len at this; exact this⟩

theorem GWF.regWF {m : GMem} (h : GWF m) {i : Nat} {r : Region} (hi : m[i]? = some r) : RegWF r := by
  obtain ⟨_, h2, h3, h4⟩ := h.getElem? hi
  exact ⟨by omega, h3, h4.fits⟩

/-- the slice `as_volatile_slice()` hands out -/
def rootSlice (r : Region) : VSlice :=
  { addr := r.mem.base + 0, size := r.len, bmBase := sliceAt 0 0 }

theorem asVolatileSlice_eq (r : Region) (hl : r.len < U) : r.asVolatileSlice = .ok (rootSlice r) := by
  unfold Region.asVolatileSlice
  rw [Region.getSlice_eq r hl, if_pos (by omega)]
  rfl

theorem rootSlice_inside (r : Region) : C04.Inside r.mem (rootSlice r) := by
  unfold C04.Inside rootSlice Region.len
  exact ⟨by show r.mem.base ≤ r.mem.base + 0; omega,
    by show r.mem.base + 0 + r.mem.bytes.length ≤ r.mem.base + r.mem.bytes.length; omega⟩

theorem rootSlice_ofs (r : Region) : C04.ofs r.mem (rootSlice r) = 0 := by
  unfold C04.ofs rootSlice
  show r.mem.base + 0 - r.mem.base = 0
  omega

/-- byte-wise reading of `Stored` -/
theorem Stored.getElem? {m m' : Mem} {w : Nat} {d : List UInt8} {b o l : Nat}
    (h : Stored m w d b o l m') (j : Nat) :
    m'.bytes[j]? = if w ≤ j ∧ j < w + d.length then d[j - w]? else m.bytes[j]? := by
  rw [h.bytes]
  rcases h.win with h0 | hw
  · subst h0
    rw [splice_nil, if_neg (by simp)]
  · rw [splice_getElem? _ _ _ hw]
    by_cases h1 : j < w
    · rw [if_pos h1, if_neg (by omega)]
    · rw [if_neg h1]
      by_cases h2 : j < w + d.length
      · rw [if_pos h2, if_pos (by omega)]
      · rw [if_neg h2, if_neg (by omega)]

/-- `Region::write` of a non-empty buffer inside the region: the front
    `min buf.len (len - a)` bytes are stored at region offset `a` -/
theorem Region.write_ok (r : Region) (hr : RegWF r) (buf : List UInt8) (hne : buf ≠ []) (a : Nat)
    (ha : a < r.len) :
    ∃ mem', r.write buf a = .ok ({ r with mem := mem' }, min buf.length (r.len - a)) ∧
      Stored r.mem a (buf.take (min buf.length (r.len - a))) (sliceAt (sliceAt 0 0) a) 0
        (min buf.length (r.len - a)) mem' := by
  obtain ⟨mem', hok, hst⟩ := C04.write_ok r.mem (rootSlice r) buf a hr.inv hr.memWF
    (rootSlice_inside r) hne ha
  rw [rootSlice_ofs, Nat.zero_add] at hst
  refine ⟨mem', ?_, hst⟩
  unfold Region.write
  rw [asVolatileSlice_eq r hr.len_lt]
  simp only [Res.unwrapRes, Res.bind_ok]
  rw [hok]
  rfl

/-- `Region::read` of `len > 0` bytes inside the region -/
theorem Region.read_ok (r : Region) (hr : RegWF r) (len : Nat) (hpos : 0 < len) (a : Nat)
    (ha : a < r.len) :
    r.read len a = .ok ((r.mem.bytes.drop a).take (min len (r.len - a))) := by
  unfold Region.read
  rw [asVolatileSlice_eq r hr.len_lt]
  simp only [Res.unwrapRes, Res.bind_ok]
  rw [C04.read_ok r.mem (rootSlice r) len a hr.memWF (rootSlice_inside r) hpos ha, rootSlice_ofs,
    Nat.zero_add]
  rfl

/-- the region after a store into its container has the same key -/
theorem key_with_mem (r : Region) {mem' : Mem} (hlen : mem'.bytes.length = r.mem.bytes.length)
    (hbase : mem'.base = r.mem.base) : key { r with mem := mem' } = key r := by
  unfold key Region.len
  simp only [hlen, hbase]

/-- `flat` after one region's container received `d` at region offset `w` -/
theorem flat_stored {m : GMem} (h : WF m) {i : Nat} {r : Region} (hi : m[i]? = some r)
    {mem' : Mem} {w : Nat} {d : List UInt8} {b o l : Nat} (hst : Stored r.mem w d b o l mem')
    (hw : w + d.length ≤ r.len) (a : Nat) :
    flat (m.set i { r with mem := mem' }) a =
      if r.start + w ≤ a ∧ a < r.start + w + d.length then d[a - (r.start + w)]? else flat m a := by
  rw [flat_set h hi (key_with_mem r hst.length_eq hst.base)]
  by_cases hin : r.start ≤ a ∧ a < r.start + r.len
  · rw [if_pos hin, flat_of_getElem? h hi hin]
    show mem'.bytes[a - r.start]? = _
    rw [Stored.getElem? hst]
    by_cases hc : w ≤ a - r.start ∧ a - r.start < w + d.length
    · rw [if_pos hc, if_pos (by omega)]
      congr 1; omega
    · rw [if_neg hc, if_neg (by omega)]
  · rw [if_neg hin, if_neg (by omega)]

/-! ### the loop with the `write` callback -/

/-- the callback of `GMem.write`: `region.write(&buf[total..], caddr)` -/
def wcb (buf : List UInt8) : GMem → Unit → Nat → Nat → Nat → Nat → GMem × Unit × Res Nat :=
  fun m _ total _len start idx =>
    if total > buf.length then (m, (), .panic)
    else match m[idx]? with
      | none => (m, (), .panic)
      | some reg =>
        match reg.write (buf.drop total) start with
        | .ok (reg', n) => (m.setRegion idx reg', (), .ok n)
        | .err e => (m, (), .err e)
        | .panic => (m, (), .panic)

theorem write_eq_loop (m : GMem) (buf : List UInt8) (addr : Nat) :
    m.write buf addr =
      ((GMem.tryAccess (wcb buf) m () buf.length addr).1,
       (GMem.tryAccess (wcb buf) m () buf.length addr).2.2) := rfl

/-- one call of the write callback at a mapped address -/
theorem wcb_step {m : GMem} (h : GWF m) (buf : List UInt8) {cur total i : Nat} {r : Region}
    (hi : m[i]? = some r) (hin : r.start ≤ cur ∧ cur < r.start + r.len) (ht : total < buf.length)
    {n : Nat} (hn : n = min (r.len - (cur - r.start)) (buf.length - total)) (len : Nat) :
    ∃ mem', wcb buf m () total len (cur - r.start) i = (m.set i { r with mem := mem' }, (), .ok n) ∧
      Stored r.mem (cur - r.start) ((buf.drop total).take n) (sliceAt (sliceAt 0 0) (cur - r.start))
        0 n mem' := by
  have hne : buf.drop total ≠ [] := by
    intro e
    have := congrArg List.length e
    simp only [List.length_drop, List.length_nil] at this
    omega
  obtain ⟨mem', hok, hst⟩ := Region.write_ok r (h.regWF hi) (buf.drop total) hne (cur - r.start)
    (by omega)
  have hmin : min (buf.drop total).length (r.len - (cur - r.start)) = n := by
    rw [List.length_drop, hn, Nat.min_comm]
  rw [hmin] at hok hst
  refine ⟨mem', ?_, hst⟩
  unfold wcb
  rw [if_neg (by omega)]
  simp only [hi, hok]
  rfl

/-- **loop invariant for `write`**: started at `(cur, total)` on a well-formed memory, the
    loop stores `buf[total ..]` along the run of mapped addresses from `cur`, reports
    `total + run`, keeps the layout and well-formedness, and changes no other byte. -/
theorem loop_write (buf : List UInt8) (hl : buf.length < U) (addr : Nat) :
    ∀ (n : Nat) (m : GMem) (cur total : Nat), GWF m → buf.length - total = n → total < buf.length →
      ∃ m', GMem.tryAccessLoop (wcb buf) buf.length addr m () cur total =
          (m', (), if runLen m cur (buf.length - total) = 0 ∧ total = 0
                   then .err (.invalidGuestAddress addr)
                   else .ok (total + runLen m cur (buf.length - total))) ∧
        (runLen m cur (buf.length - total) = 0 → m' = m) ∧
        SameLayout m m' ∧ GWF m' ∧
        ∀ a, flat m' a =
          if cur ≤ a ∧ a < cur + runLen m cur (buf.length - total) then buf[total + (a - cur)]?
          else flat m a := by
  intro n
  induction n using Nat.strongRecOn with
  | _ n ih =>
    intro m cur total h hn ht
    rcases mapped_or_not m cur with ⟨i, r, hi, hin⟩ | hun
    · -- one region
      have hrw := h.1.getElem? hi
      obtain ⟨mem', hcb, hst⟩ := wcb_step h buf hi hin ht (n := min (r.len - (cur - r.start))
        (buf.length - total)) rfl (min (r.len - (cur - r.start)) (buf.length - total))
      generalize hk : min (r.len - (cur - r.start)) (buf.length - total) = k at hcb hst
      have hkpos : 0 < k := by omega
      have hdl : ((buf.drop total).take k).length = k := by
        rw [List.length_take, List.length_drop]; omega
      have hstep := loop_step (wcb buf) h.1 hl addr () hi hin ht hk.symm hcb
      -- the memory after this iteration
      have hkey := key_with_mem r hst.length_eq hst.base
      have hsl1 : SameLayout m (m.set i { r with mem := mem' }) := SameLayout.set hi hkey
      have hg1 : GWF (m.set i { r with mem := mem' }) := h.set hi hkey hst.inv
      have hfl1 : ∀ a, flat (m.set i { r with mem := mem' }) a =
          if cur ≤ a ∧ a < cur + k then buf[total + (a - cur)]? else flat m a := by
        intro a
        rw [flat_stored h.1 hi hst (by rw [hdl]; omega), hdl]
        have e : r.start + (cur - r.start) = cur := by omega
        rw [e]
        by_cases hc : cur ≤ a ∧ a < cur + k
        · rw [if_pos hc, if_pos hc, List.getElem?_take, if_pos (by omega), List.getElem?_drop]
        · rw [if_neg hc, if_neg hc]
      -- the run starts with these k addresses
      have hall : ∀ j, j < k → mapped m (cur + j) := by
        intro j hj
        exact ⟨r, List.mem_of_getElem? hi, by omega, by omega⟩
      have hrun := runLen_add m cur k (buf.length - total) (by omega) hall
      rw [hstep]
      by_cases hlt : total + k < buf.length
      · rw [if_pos hlt]
        obtain ⟨m', hres, _, hsl, hg, hfl⟩ :=
          ih (buf.length - (total + k)) (by omega) _ (cur + k) (total + k) hg1 rfl hlt
        rw [hsl1.runLen] at hres hfl
        have e1 : buf.length - total - k = buf.length - (total + k) := by omega
        rw [e1] at hrun
        generalize runLen m (cur + k) (buf.length - (total + k)) = k1 at hres hfl hrun
        refine ⟨m', ?_, ?_, hsl1.trans hsl, hg, ?_⟩
        · rw [hres, hrun, if_neg (by omega), if_neg (by omega), Nat.add_assoc]
        · intro h0; omega
        · intro a
          rw [hfl a, hfl1 a, hrun]
          by_cases c1 : cur + k ≤ a ∧ a < cur + k + k1
          · rw [if_pos c1, if_pos (by omega)]
            congr 1; omega
          · rw [if_neg c1]
            by_cases c2 : cur ≤ a ∧ a < cur + k
            · rw [if_pos c2, if_pos (by omega)]
            · rw [if_neg c2, if_neg (by omega)]
      · rw [if_neg hlt]
        have hkeq : buf.length - total - k = 0 := by omega
        rw [hkeq, runLen_zero, Nat.add_zero] at hrun
        refine ⟨_, ?_, ?_, hsl1, hg1, ?_⟩
        · rw [hrun, if_neg (by omega)]
          have : total + k = buf.length := by omega
          rw [this]
        · intro h0; omega
        · intro a; rw [hfl1 a, hrun]
    · -- a hole
      have hcap : 0 < buf.length - total := by omega
      rw [loop_unmapped (wcb buf) h.1 buf.length addr () total hun, runLen_unmapped hun]
      refine ⟨m, ?_, fun _ => rfl, SameLayout.refl m, h, ?_⟩
      · by_cases ht0 : total = 0
        · rw [if_pos ht0, if_pos ⟨rfl, ht0⟩]
        · rw [if_neg ht0, if_neg (by simp [ht0])]; rfl
      · intro a
        rw [if_neg (by omega)]

/-! ### the loop with the `read` callback -/

/-- the callback of `GMem.read`: `region.read(&mut buf[total..], caddr)`, the bytes appended -/
def rcb (len : Nat) : GMem → List UInt8 → Nat → Nat → Nat → Nat → GMem × List UInt8 × Res Nat :=
  fun m acc total _len start idx =>
    if total > len then (m, acc, .panic)
    else match m[idx]? with
      | none => (m, acc, .panic)
      | some reg =>
        match reg.read (len - total) start with
        | .ok d => (m, acc ++ d, .ok d.length)
        | .err e => (m, acc, .err e)
        | .panic => (m, acc, .panic)

theorem read_eq_loop (m : GMem) (len addr : Nat) :
    m.read len addr =
      match (GMem.tryAccess (rcb len) m [] len addr).2.2 with
      | .ok _ => .ok (GMem.tryAccess (rcb len) m [] len addr).2.1
      | .err e => .err e
      | .panic => .panic := rfl

/-- one call of the read callback at a mapped address -/
theorem rcb_step {m : GMem} (h : GWF m) (len : Nat) (acc : List UInt8) {cur total i : Nat}
    {r : Region} (hi : m[i]? = some r) (hin : r.start ≤ cur ∧ cur < r.start + r.len)
    (ht : total < len) {n : Nat} (hn : n = min (r.len - (cur - r.start)) (len - total)) (l : Nat) :
    rcb len m acc total l (cur - r.start) i =
      (m, acc ++ (r.mem.bytes.drop (cur - r.start)).take n, .ok n) := by
  have hrd := Region.read_ok r (h.regWF hi) (len - total) (by omega) (cur - r.start) (by omega)
  have hmin : min (len - total) (r.len - (cur - r.start)) = n := by rw [hn, Nat.min_comm]
  rw [hmin] at hrd
  have hlen : ((r.mem.bytes.drop (cur - r.start)).take n).length = n :=
    take_drop_length _ _ _ (by have := Nat.min_le_left (r.len - (cur - r.start)) (len - total)
                               unfold Region.len at *; omega)
  unfold rcb
  rw [if_neg (by omega)]
  simp only [hi, hrd, hlen]

/-- **loop invariant for `read`**: the loop appends the bytes of the run of mapped addresses
    from `cur` (capped at `len - total`), in address order, and leaves the memory alone. -/
theorem loop_read {m : GMem} (h : GWF m) {len : Nat} (hl : len < U) (addr : Nat) :
    ∀ (n : Nat) (acc : List UInt8) (cur total : Nat), len - total = n → total < len →
      ∃ d, GMem.tryAccessLoop (rcb len) len addr m acc cur total =
          (m, acc ++ d, if runLen m cur (len - total) = 0 ∧ total = 0
                        then .err (.invalidGuestAddress addr)
                        else .ok (total + runLen m cur (len - total))) ∧
        d.length = runLen m cur (len - total) ∧
        ∀ j, j < d.length → d[j]? = flat m (cur + j) := by
  intro n
  induction n using Nat.strongRecOn with
  | _ n ih =>
    intro acc cur total hn ht
    rcases mapped_or_not m cur with ⟨i, r, hi, hin⟩ | hun
    · have hrw := h.1.getElem? hi
      have hcb := rcb_step h len acc hi hin ht (n := min (r.len - (cur - r.start)) (len - total)) rfl
        (min (r.len - (cur - r.start)) (len - total))
      generalize hk : min (r.len - (cur - r.start)) (len - total) = k at hcb
      have hkpos : 0 < k := by omega
      have hdl : ((r.mem.bytes.drop (cur - r.start)).take k).length = k :=
        take_drop_length _ _ _ (by unfold Region.len at *; omega)
      have hstep := loop_step (rcb len) h.1 hl addr acc hi hin ht hk.symm hcb
      have hall : ∀ j, j < k → mapped m (cur + j) := by
        intro j hj
        exact ⟨r, List.mem_of_getElem? hi, by omega, by omega⟩
      have hrun := runLen_add m cur k (len - total) (by omega) hall
      -- the chunk just read is the flat content of `[cur, cur + k)`
      have hchunk : ∀ j, j < k →
          ((r.mem.bytes.drop (cur - r.start)).take k)[j]? = flat m (cur + j) := by
        intro j hj
        rw [take_drop_getElem?, if_pos hj, flat_of_getElem? h.1 hi (by omega)]
        congr 1; omega
      rw [hstep]
      by_cases hlt : total + k < len
      · rw [if_pos hlt]
        obtain ⟨d, hres, hdlen, hd⟩ :=
          ih (len - (total + k)) (by omega) (acc ++ (r.mem.bytes.drop (cur - r.start)).take k)
            (cur + k) (total + k) rfl hlt
        have e1 : len - total - k = len - (total + k) := by omega
        rw [e1] at hrun
        generalize runLen m (cur + k) (len - (total + k)) = k1 at hres hdlen hrun
        refine ⟨(r.mem.bytes.drop (cur - r.start)).take k ++ d, ?_, ?_, ?_⟩
        · rw [hres, hrun, if_neg (by omega), if_neg (by omega), Nat.add_assoc, List.append_assoc]
        · rw [List.length_append, hdl, hdlen, hrun]
        · intro j hj
          rw [List.length_append, hdl] at hj
          by_cases hjk : j < k
          · rw [List.getElem?_append_left (by rw [hdl]; exact hjk)]
            exact hchunk j hjk
          · rw [List.getElem?_append_right (by rw [hdl]; omega), hdl, hd (j - k) (by omega)]
            congr 1; omega
      · rw [if_neg hlt]
        have hkeq : len - total - k = 0 := by omega
        rw [hkeq, runLen_zero, Nat.add_zero] at hrun
        refine ⟨(r.mem.bytes.drop (cur - r.start)).take k, ?_, ?_, ?_⟩
        · rw [hrun, if_neg (by omega)]
          have : total + k = len := by omega
          rw [this]
        · rw [hdl, hrun]
        · intro j hj
          rw [hdl] at hj
          exact hchunk j hj
    · rw [loop_unmapped (rcb len) h.1 len addr acc total hun, runLen_unmapped hun]
      refine ⟨[], ?_, rfl, ?_⟩
      · rw [List.append_nil]
        by_cases ht0 : total = 0
        · rw [if_pos ht0, if_pos ⟨rfl, ht0⟩]
        · rw [if_neg ht0, if_neg (by simp [ht0])]; rfl
      · intro j hj; simp at hj

/-! ### `store` / `load` at region level -/

theorem rootSlice_addr (r : Region) (o : Nat) : (rootSlice r).addr + o = r.mem.base + o := by
  show r.mem.base + 0 + o = r.mem.base + o
  omega

theorem Region.store_ok (r : Region) (hr : RegWF r) (val : List UInt8) (t : Ty) (o : Nat)
    (hfit : o + t.size ≤ r.len) (hal : (r.mem.base + o) % t.align = 0) :
    ∃ mem', r.store val t o = .ok { r with mem := mem' } ∧
      Stored r.mem o (val.take t.size) (sliceAt 0 0) o t.size mem' := by
  obtain ⟨mem', hok, hst⟩ := C04.store_ok r.mem (rootSlice r) val t o hr.inv hr.memWF
    (rootSlice_inside r) hfit (by rw [rootSlice_addr]; exact hal)
  rw [rootSlice_ofs, Nat.zero_add] at hst
  refine ⟨mem', ?_, hst⟩
  unfold Region.store
  rw [asVolatileSlice_eq r hr.len_lt, Res.bind_ok, hok]
  rfl

theorem Region.store_err (r : Region) (hr : RegWF r) (val : List UInt8) (t : Ty) (o : Nat)
    (h : ¬ (o + t.size ≤ r.len ∧ (r.mem.base + o) % t.align = 0)) :
    r.store val t o = .err .invalidBackendAddress := by
  have hlen := hr.len_lt
  unfold Region.store
  rw [asVolatileSlice_eq r hr.len_lt, Res.bind_ok]
  by_cases hU : o + t.size < U
  · by_cases hfit : o + t.size ≤ r.len
    · have hal : ((rootSlice r).addr + o) % t.align ≠ 0 := by
        rw [rootSlice_addr]; intro e; exact h ⟨hfit, e⟩
      rw [C04.store_misaligned r.mem (rootSlice r) val t o hU hfit hal]; rfl
    · rw [C04.store_oob r.mem (rootSlice r) val t o hU (by show r.len < _; omega)]; rfl
  · rw [C04.store_overflow r.mem (rootSlice r) val t o (by omega)]; rfl

theorem Region.load_ok (r : Region) (hr : RegWF r) (t : Ty) (o : Nat)
    (hfit : o + t.size ≤ r.len) (hal : (r.mem.base + o) % t.align = 0) :
    r.load t o = .ok ((r.mem.bytes.drop o).take t.size) := by
  unfold Region.load
  rw [asVolatileSlice_eq r hr.len_lt, Res.bind_ok,
    C04.load_ok r.mem (rootSlice r) t o hr.memWF (rootSlice_inside r) hfit
      (by rw [rootSlice_addr]; exact hal), rootSlice_ofs, Nat.zero_add]
  rfl

theorem Region.load_err (r : Region) (hr : RegWF r) (t : Ty) (o : Nat)
    (h : ¬ (o + t.size ≤ r.len ∧ (r.mem.base + o) % t.align = 0)) :
    r.load t o = .err .invalidBackendAddress := by
  have hlen := hr.len_lt
  unfold Region.load
  rw [asVolatileSlice_eq r hr.len_lt, Res.bind_ok]
  by_cases hU : o + t.size < U
  · by_cases hfit : o + t.size ≤ r.len
    · have hal : ((rootSlice r).addr + o) % t.align ≠ 0 := by
        rw [rootSlice_addr]; intro e; exact h ⟨hfit, e⟩
      rw [C04.load_misaligned r.mem (rootSlice r) t o hU hfit hal]; rfl
    · rw [C04.load_oob r.mem (rootSlice r) t o hU (by show r.len < _; omega)]; rfl
  · rw [C04.load_overflow r.mem (rootSlice r) t o (by omega)]; rfl

/-- the bytes of a region window are the flat bytes of the corresponding guest addresses -/
theorem region_window_flat {m : GMem} (h : WF m) {i : Nat} {r : Region} (hi : m[i]? = some r)
    (o n : Nat) (hw : o + n ≤ r.len) :
    ((r.mem.bytes.drop o).take n).length = n ∧
    ∀ j, j < n → ((r.mem.bytes.drop o).take n)[j]? = flat m (r.start + o + j) := by
  refine ⟨take_drop_length _ _ _ (by unfold Region.len at hw; exact hw), ?_⟩
  intro j hj
  rw [take_drop_getElem?, if_pos hj, flat_of_getElem? h hi (by omega)]
  congr 1; omega

/-- the spec-level read-out of `k` flat bytes from `a` -/
def flatRead (fl : Nat → Option UInt8) (a k : Nat) : List UInt8 :=
  (List.range k).map (fun i => (fl (a + i)).getD 0)

theorem flatRead_length (fl : Nat → Option UInt8) (a k : Nat) : (flatRead fl a k).length = k := by
  simp [flatRead]

/-- a list of `k` bytes that agrees entry-wise with `fl` IS the read-out -/
theorem eq_flatRead {fl : Nat → Option UInt8} {a k : Nat} {d : List UInt8} (hl : d.length = k)
    (hd : ∀ i, i < k → d[i]? = fl (a + i)) : d = flatRead fl a k := by
  apply List.ext_getElem?
  intro i
  unfold flatRead
  rw [List.getElem?_map]
  by_cases hi : i < k
  · rw [List.getElem?_range hi]
    show d[i]? = some ((fl (a + i)).getD 0)
    rw [← hd i hi, List.getElem?_eq_getElem (by omega)]
    rfl
  · rw [List.getElem?_eq_none (by omega), List.getElem?_eq_none (by simp; omega)]
    rfl

theorem flatRead_congr {fl fl' : Nat → Option UInt8} {a k : Nat}
    (h : ∀ i, i < k → fl' (a + i) = fl (a + i)) : flatRead fl' a k = flatRead fl a k := by
  unfold flatRead
  apply List.map_congr_left
  intro i hi
  rw [h i (by simpa using hi)]

end FlatLemmas
end VmMem
