/-
  VmMem.Lemmas.ConstructLemmas — helper facts for C15 (region construction, Xen flag words).
-/
import VmMem.Model.Construct
namespace VmMem
namespace Construct

/-- core has no `DecidableEq (Except ε α)`; needed to evaluate closed model terms by `decide` -/
instance exceptDecEq {ε α : Type} [DecidableEq ε] [DecidableEq α] : DecidableEq (Except ε α) :=
  fun a b =>
    match a, b with
    | .ok x, .ok y => if h : x = y then isTrue (by rw [h]) else isFalse (fun e => h (by cases e; rfl))
    | .error x, .error y => if h : x = y then isTrue (by rw [h]) else isFalse (fun e => h (by cases e; rfl))
    | .ok _, .error _ => isFalse (fun e => by cases e)
    | .error _, .ok _ => isFalse (fun e => by cases e)

theorem checkedAdd_eq_some_iff (a b e : Nat) : checkedAdd a b = some e ↔ a + b < U ∧ e = a + b := by
  unfold checkedAdd
  split <;> simp_all <;> omega

theorem checkedAdd_eq_none_iff (a b : Nat) : checkedAdd a b = none ↔ U ≤ a + b := by
  unfold checkedAdd
  split <;> simp_all <;> omega

/-- a word with no bit outside `0xb` is one of at most twelve small numbers (in fact eight) -/
theorem toNat_le_of_and_not_known (w : Flags) (h : w &&& ~~~XEN_KNOWN = 0) : w.toNat ≤ 11 := by
  have hw : w = w &&& XEN_KNOWN := by
    apply BitVec.eq_of_getLsbD_eq
    intro i hi
    have hb := congrArg (fun v => v.getLsbD i) h
    simp only [BitVec.getLsbD_and, BitVec.getLsbD_not] at hb ⊢
    cases hwi : w.getLsbD i <;> simp_all
  have h2 : w.toNat = w.toNat &&& XEN_KNOWN.toNat := by
    have := congrArg BitVec.toNat hw
    simpa [BitVec.toNat_and] using this
  have h3 : w.toNat &&& XEN_KNOWN.toNat ≤ XEN_KNOWN.toNat := Nat.and_le_right
  have h4 : XEN_KNOWN.toNat = 11 := by decide
  omega

theorem fromBits_eq_some_iff (w f : Flags) : fromBits w = some f ↔ w &&& ~~~XEN_KNOWN = 0 ∧ f = w := by
  unfold fromBits
  split <;> simp_all [eq_comm]

theorem fromBits_eq_none_iff (w : Flags) : fromBits w = none ↔ w &&& ~~~XEN_KNOWN ≠ 0 := by
  unfold fromBits
  split <;> simp_all

theorem small_cases (w : Flags) (h : w.toNat ≤ 11) :
    w = 0#32 ∨ w = 1#32 ∨ w = 2#32 ∨ w = 3#32 ∨ w = 4#32 ∨ w = 5#32 ∨ w = 6#32 ∨ w = 7#32 ∨
    w = 8#32 ∨ w = 9#32 ∨ w = 10#32 ∨ w = 11#32 := by
  have e : ∀ k : Nat, w.toNat = k → k < 2 ^ 32 → w = BitVec.ofNat 32 k := by
    intro k hk hlt
    apply BitVec.eq_of_toNat_eq
    simp [hk, Nat.mod_eq_of_lt hlt]
  have : w.toNat = 0 ∨ w.toNat = 1 ∨ w.toNat = 2 ∨ w.toNat = 3 ∨ w.toNat = 4 ∨ w.toNat = 5 ∨
      w.toNat = 6 ∨ w.toNat = 7 ∨ w.toNat = 8 ∨ w.toNat = 9 ∨ w.toNat = 10 ∨ w.toNat = 11 := by omega
  rcases this with h | h | h | h | h | h | h | h | h | h | h | h
  · exact Or.inl (e _ h (by decide))
  · exact Or.inr (Or.inl (e _ h (by decide)))
  · exact Or.inr (Or.inr (Or.inl (e _ h (by decide))))
  · exact Or.inr (Or.inr (Or.inr (Or.inl (e _ h (by decide)))))
  · exact Or.inr (Or.inr (Or.inr (Or.inr (Or.inl (e _ h (by decide))))))
  · exact Or.inr (Or.inr (Or.inr (Or.inr (Or.inr (Or.inl (e _ h (by decide)))))))
  · exact Or.inr (Or.inr (Or.inr (Or.inr (Or.inr (Or.inr (Or.inl (e _ h (by decide))))))))
  · exact Or.inr (Or.inr (Or.inr (Or.inr (Or.inr (Or.inr (Or.inr (Or.inl (e _ h (by decide)))))))))
  · exact Or.inr (Or.inr (Or.inr (Or.inr (Or.inr (Or.inr (Or.inr (Or.inr (Or.inl (e _ h (by decide))))))))))
  · exact Or.inr (Or.inr (Or.inr (Or.inr (Or.inr (Or.inr (Or.inr (Or.inr (Or.inr (Or.inl (e _ h (by decide)))))))))))
  · exact Or.inr (Or.inr (Or.inr (Or.inr (Or.inr (Or.inr (Or.inr (Or.inr (Or.inr (Or.inr (Or.inl (e _ h (by decide))))))))))))
  · exact Or.inr (Or.inr (Or.inr (Or.inr (Or.inr (Or.inr (Or.inr (Or.inr (Or.inr (Or.inr (Or.inr (e _ h (by decide))))))))))))

end Construct
end VmMem
