/-
  VmMem.Lemmas.LifetimeLemmas — list facts for C12 (ownership of mappings).
  The central one: a reference count is positive iff some live handle holds the id.
-/
import VmMem.Model.Lifetime
namespace VmMem
namespace Lifetime

/-- some handle in `hs` holds a reference to `rid` -/
def Reach (hs : List Handle) (rid : Nat) : Prop := ∃ h ∈ hs, rid ∈ h.refs

theorem rc_pos_iff (hs : List Handle) (rid : Nat) :
    0 < (hs.map fun h => h.refs.count rid).sum ↔ Reach hs rid := by
  unfold Reach
  induction hs with
  | nil => simp
  | cons a t ih =>
    simp only [List.map_cons, List.sum_cons, List.mem_cons, exists_eq_or_imp]
    rw [← ih, ← List.count_pos_iff]
    omega

theorem refcount_pos_iff (s : St) (rid : Nat) : refcount s rid > 0 ↔ Reach s.handles rid :=
  rc_pos_iff _ _

theorem refcount_eq_zero_iff (s : St) (rid : Nat) : refcount s rid = 0 ↔ ¬ Reach s.handles rid := by
  rw [← refcount_pos_iff]; omega

theorem fresh_iff (s : St) (hid : Nat) : fresh s hid = true ↔ ∀ h ∈ s.handles, h.hid ≠ hid := by
  unfold fresh findH
  simp [List.find?_eq_none]

theorem findH_some (s : St) (hid : Nat) (h : Handle) (hf : findH s hid = some h) :
    h ∈ s.handles ∧ h.hid = hid := by
  unfold findH at hf
  have h1 := List.mem_of_find?_eq_some hf
  have h2 := List.find?_some hf
  exact ⟨h1, by simpa using h2⟩

/-- with distinct handle ids, looking up the id of a member returns that member -/
theorem find_of_mem_nodup (hs : List Handle) (hnd : (hs.map (·.hid)).Nodup) (h : Handle) (hm : h ∈ hs) :
    hs.find? (·.hid == h.hid) = some h := by
  induction hs with
  | nil => cases hm
  | cons a t ih =>
    simp only [List.map_cons, List.nodup_cons, List.mem_map, not_exists, not_and] at hnd
    rcases List.mem_cons.1 hm with e | hmt
    · subst e; simp
    · have hne : a.hid ≠ h.hid := fun e => hnd.1 h hmt e.symm
      rw [List.find?_cons_of_neg (by simpa using hne)]
      exact ih hnd.2 hmt

theorem findH_of_mem (s : St) (hnd : (s.handles.map (·.hid)).Nodup) (h : Handle) (hm : h ∈ s.handles) :
    findH s h.hid = some h := find_of_mem_nodup _ hnd h hm

theorem nodup_snoc (l : List Handle) (hnd : (l.map (·.hid)).Nodup) (x : Handle)
    (hx : ∀ h ∈ l, h.hid ≠ x.hid) : ((l ++ [x]).map (·.hid)).Nodup := by
  rw [List.map_append, List.nodup_append]
  refine ⟨hnd, by simp, ?_⟩
  intro a ha b hb
  simp only [List.map_cons, List.map_nil, List.mem_singleton] at hb
  obtain ⟨h, hh, rfl⟩ := List.mem_map.1 ha
  subst hb
  exact hx h hh

theorem nodup_filter (l : List Handle) (p : Handle → Bool) (hnd : (l.map (·.hid)).Nodup) :
    ((l.filter p).map (·.hid)).Nodup :=
  List.Nodup.sublist (List.Sublist.map _ List.filter_sublist) hnd

end Lifetime
end VmMem
