/-
  VmMem.Lemmas.DirtyLemmas — dirty-page tracking of writes through volatile accessors:
  shared machinery of `VmMem.Props.C05` (soundness: no tracked write leaves its pages
  clean) and `VmMem.Props.C16` (precision: marks are confined to what was written).

  Layout
    §0  setting (`Setting`), `dirty`, `Acc.bmBase`, `Tracks`
    §1  arithmetic
    §2  "the bitmap offset tracks the address": per-derivation lemmas
    §3  `Mem.mark` through a tracked offset (`mark_effect`), `Mem.writeAt`
    §4  `Effect`: the common shape of every mutating operation
    §5  per-operation effect theorems
    §6  `WOp` / `applyW`: the mutating operations as one step function
  Core Lean only.
-/
import VmMem.Model.Io
import VmMem.Props.C09
import VmMem.Props.C01
namespace VmMem
open VolatileLemmas

/-! ## §0 definitions -/

namespace C01
/-- base offset of the accessor's `BitmapSlice` -/
def Acc.bmBase : Acc → Nat
  | .sl s => s.bmBase
  | .rf r => r.bmBase
  | .ar a => a.bmBase
end C01

namespace Dirty
open C01

/-- the container `m` is tracked by bitmap `b`, and sits at offset `B0` of the tracked area.
    `size` is stated as `≤` (the tracked area may extend beyond this container, e.g. when
    several containers share one bitmap); the case `b.byteSize = B0 + m.bytes.length` of
    a bitmap made for exactly this container is `Setting.of_eq`. -/
structure Setting (m : Mem) (b : ABitmap) (B0 : Nat) : Prop where
  bm : m.bm = some b
  inv : C09.Inv b
  size : B0 + m.bytes.length ≤ b.byteSize
  fitU : B0 + m.bytes.length < U
  baseU : m.base + m.bytes.length ≤ U

theorem Setting.of_eq {m : Mem} {b : ABitmap} {B0 : Nat} (hbm : m.bm = some b) (hinv : C09.Inv b)
    (hsize : b.byteSize = B0 + m.bytes.length) (hfit : B0 + m.bytes.length < U)
    (hbase : m.base + m.bytes.length ≤ U) : Setting m b B0 :=
  ⟨hbm, hinv, Nat.le_of_eq hsize.symm, hfit, hbase⟩

/-- byte `i` of the container lives on a page that is marked dirty -/
def dirty (m : Mem) (B0 i : Nat) : Bool :=
  match m.bm with
  | some b => b.bit ((B0 + i) / b.page)
  | none => false

theorem dirty_of_bm {m : Mem} {b : ABitmap} (h : m.bm = some b) (B0 i : Nat) :
    dirty m B0 i = b.bit ((B0 + i) / b.page) := by
  simp only [dirty, h]

/-- the key invariant of accessors: the bitmap offset tracks the address, and the
    accessor designates bytes of the container only -/
def Tracks (m : Mem) (B0 : Nat) (a : Acc) : Prop :=
  a.bmBase = (B0 + (a.lo - m.base)) % U ∧ m.base ≤ a.lo ∧ a.hi ≤ m.base + m.bytes.length

/-- `Tracks` only looks at the base address and the length of the container -/
theorem Tracks.congr {m m' : Mem} {B0 : Nat} {a : Acc} (h : Tracks m B0 a)
    (hb : m'.base = m.base) (hl : m'.bytes.length = m.bytes.length) : Tracks m' B0 a := by
  unfold Tracks at *
  rw [hb, hl]; exact h

/-- the root accessor of a container placed at offset `B0` of the tracked area -/
def rootAt (m : Mem) (B0 : Nat) : VSlice := { addr := m.base, size := m.bytes.length, bmBase := B0 }

theorem rootAt_zero (m : Mem) : rootAt m 0 = m.root := rfl

/-! ## §1 arithmetic -/

theorem div_lt_divCeil (x n page : Nat) (hp : 0 < page) (h : x < n) : x / page < divCeil n page := by
  unfold divCeil
  rw [Nat.div_lt_iff_lt_mul hp]
  have h1 := Nat.lt_mul_div_succ (n + page - 1) hp
  generalize (n + page - 1) / page = q at *
  rw [Nat.mul_add, Nat.mul_one, Nat.mul_comm] at h1
  omega

/-- the pages `a / page ..= (a + n - 1) / page` are exactly the pages the non-empty
    byte range `[a, a + n)` overlaps -/
theorem pages_overlap_iff (page a n p : Nat) (hp : 0 < page) (hn : 0 < n) :
    (a / page ≤ p ∧ p ≤ (a + n - 1) / page) ↔ ∃ x, a ≤ x ∧ x < a + n ∧ x / page = p := by
  constructor
  · rintro ⟨h1, h2⟩
    have h2' : p * page ≤ a + n - 1 := (Nat.le_div_iff_mul_le hp).mp h2
    have h1' : a < (p + 1) * page := (Nat.div_lt_iff_lt_mul hp).mp (by omega)
    rw [Nat.succ_mul] at h1'
    refine ⟨max a (p * page), Nat.le_max_left _ _, by omega, ?_⟩
    apply Nat.div_eq_of_lt_le
    · exact Nat.le_max_right _ _
    · rw [Nat.succ_mul]; omega
  · rintro ⟨x, h1, h2, rfl⟩
    exact ⟨Nat.div_le_div_right h1, Nat.div_le_div_right (by omega)⟩

theorem sliceAt_tracks {B0 base lo bm off : Nat} (h : bm = (B0 + (lo - base)) % U)
    (hb : base ≤ lo) : sliceAt bm off = (B0 + (lo + off - base)) % U := by
  subst h
  unfold sliceAt wrappingAdd U
  omega

/-! ## §2 the bitmap offset tracks the address -/

section tracks
variable {m : Mem} {B0 : Nat}

/-- 1. the root slice tracks -/
theorem root_tracks (m : Mem) (B0 : Nat) (hB : B0 < U) : Tracks m B0 (.sl (rootAt m B0)) := by
  simp only [Tracks, Acc.bmBase, Acc.lo, Acc.hi, Acc.bytes, rootAt, Nat.sub_self, Nat.add_zero,
    Nat.le_refl, and_self, and_true]
  exact (Nat.mod_eq_of_lt hB).symm

theorem subslice_tracks {s s' : VSlice} {off cnt : Nat} (ht : Tracks m B0 (.sl s))
    (h : s.subslice off cnt = .ok s') : Tracks m B0 (.sl s') := by
  obtain ⟨h1, h2, h3, h4, h5⟩ := subslice_ok h
  obtain ⟨t1, t2, t3⟩ := ht
  simp only [Tracks, Acc.bmBase, Acc.lo, Acc.hi, Acc.bytes] at *
  refine ⟨?_, by omega, by omega⟩
  rw [h5, h3]; exact sliceAt_tracks t1 t2

theorem offset_tracks {s s' : VSlice} {cnt : Nat} (ht : Tracks m B0 (.sl s))
    (h : s.offset cnt = .ok s') : Tracks m B0 (.sl s') := by
  obtain ⟨h1, h2, h3, h4, h5⟩ := offset_ok h
  obtain ⟨t1, t2, t3⟩ := ht
  simp only [Tracks, Acc.bmBase, Acc.lo, Acc.hi, Acc.bytes] at *
  refine ⟨?_, by omega, by omega⟩
  rw [h5, h3]; exact sliceAt_tracks t1 t2

theorem splitAt_tracks {s l r : VSlice} {mid : Nat} (ht : Tracks m B0 (.sl s))
    (h : s.splitAt mid = .ok (l, r)) : Tracks m B0 (.sl l) ∧ Tracks m B0 (.sl r) := by
  obtain ⟨h1, h2, h3, h4, h5, h6, h7, h8⟩ := splitAt_ok h
  obtain ⟨t1, t2, t3⟩ := ht
  simp only [Tracks, Acc.bmBase, Acc.lo, Acc.hi, Acc.bytes] at *
  refine ⟨⟨?_, by omega, by omega⟩, ⟨?_, by omega, by omega⟩⟩
  · rw [h5, h3]; exact t1
  · rw [h8, h6]; exact sliceAt_tracks t1 t2

theorem getRef_tracks {s : VSlice} {r : VRef} {off : Nat} {t : Ty} (ht : Tracks m B0 (.sl s))
    (h : s.getRef off t = .ok r) : Tracks m B0 (.rf r) := by
  obtain ⟨h1, h2, h3, h4, h5⟩ := getRef_ok h
  obtain ⟨t1, t2, t3⟩ := ht
  simp only [Tracks, Acc.bmBase, Acc.lo, Acc.hi, Acc.bytes] at *
  refine ⟨?_, by omega, by rw [h4]; omega⟩
  rw [h5, h3]; exact sliceAt_tracks t1 t2

theorem getArrayRef_tracks {s : VSlice} {a : VArr} {off n : Nat} {t : Ty}
    (ht : Tracks m B0 (.sl s)) (h : s.getArrayRef off n t = .ok a) : Tracks m B0 (.ar a) := by
  obtain ⟨-, -, h1, h2, h3, h4, h5, h6⟩ := getArrayRef_ok h
  obtain ⟨t1, t2, t3⟩ := ht
  simp only [Tracks, Acc.bmBase, Acc.lo, Acc.hi, Acc.bytes] at *
  refine ⟨?_, by omega, by rw [h4, h5]; omega⟩
  rw [h6, h3]; exact sliceAt_tracks t1 t2

theorem refToSlice_tracks {r : VRef} (ht : Tracks m B0 (.rf r)) : Tracks m B0 (.sl r.toSlice) := ht

theorem toArr_tracks {s : VSlice} (ht : Tracks m B0 (.sl s)) : Tracks m B0 (.ar s.toArr) := by
  obtain ⟨t1, t2, t3⟩ := ht
  simp only [Tracks, Acc.bmBase, Acc.lo, Acc.hi, Acc.bytes, VSlice.toArr, Nat.mul_one] at *
  exact ⟨t1, t2, t3⟩

theorem arrToSlice_tracks {a : VArr} {s : VSlice} (ht : Tracks m B0 (.ar a))
    (h : a.toSlice = .ok s) : Tracks m B0 (.sl s) := by
  obtain ⟨-, h2, h3, h4⟩ := arrToSlice_ok h
  obtain ⟨t1, t2, t3⟩ := ht
  simp only [Tracks, Acc.bmBase, Acc.lo, Acc.hi, Acc.bytes] at *
  rw [h2, h3, h4]
  exact ⟨t1, t2, t3⟩

theorem refAt_tracks {a : VArr} {r : VRef} {i : Nat} (ht : Tracks m B0 (.ar a))
    (h : a.refAt i = .ok r) : Tracks m B0 (.rf r) := by
  obtain ⟨h1, h2, h3, h4, h5⟩ := refAt_ok h
  obtain ⟨t1, t2, t3⟩ := ht
  have := @elem_end_le a.ty.size i a.nelem h1
  simp only [Tracks, Acc.bmBase, Acc.lo, Acc.hi, Acc.bytes] at *
  refine ⟨?_, by omega, by rw [h4]; omega⟩
  rw [h5, h3]; exact sliceAt_tracks t1 t2

/-- 2. every derivation step hands the tracking invariant on.  A `slice_at` composition
    that dropped the parent's base offset would fail here. -/
theorem derive_tracks (a a' : Acc) (op : DOp) (h : Tracks m B0 a) (hd : C01.derive a op = .ok a') :
    Tracks m B0 a' := by
  cases a with
  | sl s =>
    cases op with
    | sub off cnt =>
      simp only [derive, mapOk_eq_ok] at hd
      obtain ⟨x, hx, rfl⟩ := hd
      exact subslice_tracks h hx
    | off cnt =>
      simp only [derive, mapOk_eq_ok] at hd
      obtain ⟨x, hx, rfl⟩ := hd
      exact offset_tracks h hx
    | splitL mid =>
      simp only [derive, mapOk_eq_ok] at hd
      obtain ⟨⟨l, r⟩, hx, rfl⟩ := hd
      exact (splitAt_tracks h hx).1
    | splitR mid =>
      simp only [derive, mapOk_eq_ok] at hd
      obtain ⟨⟨l, r⟩, hx, rfl⟩ := hd
      exact (splitAt_tracks h hx).2
    | getRef off t =>
      simp only [derive, mapOk_eq_ok] at hd
      obtain ⟨x, hx, rfl⟩ := hd
      exact getRef_tracks h hx
    | getArr off n t =>
      simp only [derive, mapOk_eq_ok] at hd
      obtain ⟨x, hx, rfl⟩ := hd
      exact getArrayRef_tracks h hx
    | sliceToArr =>
      simp only [derive, Res.ok.injEq] at hd
      subst hd
      exact toArr_tracks h
    | refToSlice => simp [derive] at hd
    | arrToSlice => simp [derive] at hd
    | refAt i => simp [derive] at hd
  | rf r =>
    cases op with
    | refToSlice =>
      simp only [derive, Res.ok.injEq] at hd
      subst hd
      exact refToSlice_tracks h
    | sub off cnt => simp [derive] at hd
    | off cnt => simp [derive] at hd
    | splitL mid => simp [derive] at hd
    | splitR mid => simp [derive] at hd
    | getRef off t => simp [derive] at hd
    | getArr off n t => simp [derive] at hd
    | sliceToArr => simp [derive] at hd
    | arrToSlice => simp [derive] at hd
    | refAt i => simp [derive] at hd
  | ar arr =>
    cases op with
    | arrToSlice =>
      simp only [derive, mapOk_eq_ok] at hd
      obtain ⟨x, hx, rfl⟩ := hd
      exact arrToSlice_tracks h hx
    | refAt i =>
      simp only [derive, mapOk_eq_ok] at hd
      obtain ⟨x, hx, rfl⟩ := hd
      exact refAt_tracks h hx
    | sub off cnt => simp [derive] at hd
    | off cnt => simp [derive] at hd
    | splitL mid => simp [derive] at hd
    | splitR mid => simp [derive] at hd
    | getRef off t => simp [derive] at hd
    | getArr off n t => simp [derive] at hd
    | sliceToArr => simp [derive] at hd
    | refToSlice => simp [derive] at hd

/-- … and so does every chain of any depth -/
theorem chain_tracks (a a' : Acc) (ops : List DOp) (h : Tracks m B0 a)
    (hd : C01.deriveChain a ops = .ok a') : Tracks m B0 a' := by
  induction ops generalizing a with
  | nil =>
    simp only [deriveChain, Res.ok.injEq] at hd
    subst hd; exact h
  | cons op ops ih =>
    obtain ⟨a1, h1, h2⟩ := deriveChain_cons_ok hd
    exact ih a1 (derive_tracks a a1 op h h1) h2

/-- any accessor derived from the root of the container tracks -/
theorem root_chain_tracks (m : Mem) (B0 : Nat) (hB : B0 < U) (ops : List DOp) (a : Acc)
    (hd : C01.deriveChain (.sl (rootAt m B0)) ops = .ok a) : Tracks m B0 a :=
  chain_tracks _ a ops (root_tracks m B0 hB) hd

end tracks

/-! ## §3 marking through a tracked offset; raw writes -/

/-- the bit-level effect of marking `n` bytes at offset `w` of the container -/
def markedBits (b : ABitmap) (B0 w n : Nat) (p : Nat) : Bool :=
  b.bit p || decide (0 < n ∧ (B0 + w) / b.page ≤ p ∧ p ≤ (B0 + w + n - 1) / b.page)

/-- `Mem.mark` through a `BitmapSlice` whose base offset plus `off` is the offset of
    container byte `w` in the tracked area: exactly the pages of `[B0+w, B0+w+n)` are
    added; `saturating_add` does not saturate and no page is cut off by `size`. -/
theorem mark_effect {m : Mem} {b : ABitmap} {B0 : Nat} (hs : Setting m b B0)
    {bmBase off w n : Nat} {m' : Mem} (hbm : wrappingAdd bmBase off = B0 + w)
    (hfit : w + n ≤ m.bytes.length) (h : m.mark bmBase off n = .ok m') :
    m'.bytes = m.bytes ∧ m'.base = m.base ∧
    ∃ b', m'.bm = some b' ∧ C09.Inv b' ∧ b'.page = b.page ∧ b'.byteSize = b.byteSize ∧
      ∀ p, b'.bit p = markedBits b B0 w n p := by
  unfold Mem.mark at h
  rw [hs.bm] at h
  simp only [] at h
  obtain ⟨b', hb', h⟩ := (Res.bind_eq_ok _ _ _).1 h
  simp only [Res.pure_eq, Res.ok.injEq] at h
  subst h
  unfold markVia ABitmap.markDirty at hb'
  rw [hbm] at hb'
  obtain ⟨hi, hsz, hbs, hpg, hbits⟩ := C09.mark_spec b hs.inv (B0 + w) n true b' hb'
  refine ⟨rfl, rfl, b', rfl, hi, hpg, hbs, ?_⟩
  intro p
  rw [hbits p]
  unfold markedBits
  have hU := hs.fitU
  by_cases hn : 0 < n
  · have hsat : saturatingAdd (B0 + w) (n - 1) = B0 + w + n - 1 := by
      unfold saturatingAdd; rw [if_pos (by omega)]; omega
    rw [hsat]
    by_cases hc : (B0 + w) / b.page ≤ p ∧ p ≤ (B0 + w + n - 1) / b.page
    · have hlt : (B0 + w + n - 1) / b.page < b.size := by
        rw [hs.inv.size_eq]
        exact div_lt_divCeil _ _ _ hs.inv.page_pos (by have := hs.size; omega)
      rw [if_pos ⟨hn, by omega, hc.1, hc.2⟩]
      simp [hn, hc]
    · rw [if_neg (fun hh => hc ⟨hh.2.2.1, hh.2.2.2⟩)]
      simp [hc]
  · rw [if_neg (fun hh => hn hh.1)]
    simp [hn]

theorem writeAt_ok_inv {m m1 : Mem} {x : Nat} {d : List UInt8} (h : m.writeAt x d = .ok m1) :
    m1 = { m with bytes := m.bytes.take (x - m.base) ++ d ++ m.bytes.drop (x - m.base + d.length) } := by
  unfold Mem.writeAt at h
  split at h
  · cases h; rfl
  · cases h

theorem splice_length (l d : List UInt8) (w : Nat) (hw : w + d.length ≤ l.length) :
    (l.take w ++ d ++ l.drop (w + d.length)).length = l.length := by
  simp only [List.length_append, List.length_take, List.length_drop]
  omega

theorem splice_getElem?_lt (l d : List UInt8) (w i : Nat) (hi : i < w) (hw : w ≤ l.length) :
    (l.take w ++ d ++ l.drop (w + d.length))[i]? = l[i]? := by
  rw [List.append_assoc, List.getElem?_append_left (by rw [List.length_take]; omega),
    List.getElem?_take_of_lt hi]

theorem splice_getElem?_ge (l d : List UInt8) (w i : Nat) (hi : w + d.length ≤ i)
    (hw : w ≤ l.length) :
    (l.take w ++ d ++ l.drop (w + d.length))[i]? = l[i]? := by
  have hl : (l.take w ++ d).length = w + d.length := by
    rw [List.length_append, List.length_take]; omega
  rw [List.getElem?_append_right (by omega), hl, List.getElem?_drop]
  congr 1
  omega

/-! ## §4 the common shape of every mutating operation -/

/-- `m'` results from `m` by storing bytes inside the window `[w, w + n)` of the
    container and marking exactly the pages of `[B0 + w, B0 + w + n)`. -/
structure Effect (m : Mem) (b : ABitmap) (B0 : Nat) (m' : Mem) (b' : ABitmap) (w n : Nat) : Prop where
  base : m'.base = m.base
  len : m'.bytes.length = m.bytes.length
  outside : ∀ i, (i < w ∨ w + n ≤ i) → m'.bytes[i]? = m.bytes[i]?
  bm : m'.bm = some b'
  inv : C09.Inv b'
  page : b'.page = b.page
  byteSize : b'.byteSize = b.byteSize
  bits : ∀ p, b'.bit p = markedBits b B0 w n p

theorem markedBits_zero (b : ABitmap) (B0 w p : Nat) : markedBits b B0 w 0 p = b.bit p := by
  simp [markedBits]

/-- nothing stored, nothing marked -/
theorem Effect.refl {m : Mem} {b : ABitmap} {B0 : Nat} (hs : Setting m b B0) (w : Nat) :
    Effect m b B0 m b w 0 where
  base := rfl
  len := rfl
  outside := fun _ _ => rfl
  bm := hs.bm
  inv := hs.inv
  page := rfl
  byteSize := rfl
  bits := fun p => (markedBits_zero b B0 w p).symm

/-- an empty window may be placed anywhere -/
theorem Effect.zero_move {m m' : Mem} {b b' : ABitmap} {B0 w : Nat}
    (he : Effect m b B0 m' b' w 0) (w' : Nat) : Effect m b B0 m' b' w' 0 where
  base := he.base
  len := he.len
  outside := fun i _ => he.outside i (by omega)
  bm := he.bm
  inv := he.inv
  page := he.page
  byteSize := he.byteSize
  bits := fun p => by rw [he.bits p, markedBits_zero, markedBits_zero]

theorem Effect.setting {m m' : Mem} {b b' : ABitmap} {B0 w n : Nat} (hs : Setting m b B0)
    (he : Effect m b B0 m' b' w n) : Setting m' b' B0 where
  bm := he.bm
  inv := he.inv
  size := by rw [he.byteSize, he.len]; exact hs.size
  fitU := by rw [he.len]; exact hs.fitU
  baseU := by rw [he.base, he.len]; exact hs.baseU

theorem Effect.tracks {m m' : Mem} {b b' : ABitmap} {B0 w n : Nat}
    (he : Effect m b B0 m' b' w n) {a : Acc} (ht : Tracks m B0 a) : Tracks m' B0 a :=
  ht.congr he.base he.len

/-- marks are monotone -/
theorem Effect.mono {m m' : Mem} {b b' : ABitmap} {B0 w n : Nat}
    (he : Effect m b B0 m' b' w n) (p : Nat) (h : b.bit p = true) : b'.bit p = true := by
  rw [he.bits p]; simp [markedBits, h]

/-- a byte that differs lies in the window, and the window's pages are dirty -/
theorem Effect.sound {m : Mem} {b : ABitmap} {B0 : Nat} {m' : Mem} {b' : ABitmap} {w n : Nat} (he : Effect m b B0 m' b' w n)
    (i : Nat) (hne : m'.bytes[i]? ≠ m.bytes[i]?) : dirty m' B0 i = true := by
  have hin : w ≤ i ∧ i < w + n :=
    Classical.byContradiction fun hc => hne (he.outside i (by omega))
  rw [dirty_of_bm he.bm, he.bits, he.page]
  have h1 : (B0 + w) / b.page ≤ (B0 + i) / b.page := Nat.div_le_div_right (by omega)
  have h2 : (B0 + i) / b.page ≤ (B0 + w + n - 1) / b.page := Nat.div_le_div_right (by omega)
  have h3 : 0 < n := by omega
  simp [markedBits, h1, h2, h3]

/-- marks are monotone -/
theorem Effect.dirty_mono {m : Mem} {b : ABitmap} {B0 : Nat} {m' : Mem} {b' : ABitmap} {w n : Nat} (hs : Setting m b B0)
    (he : Effect m b B0 m' b' w n) (i : Nat) (h : dirty m B0 i = true) : dirty m' B0 i = true := by
  rw [dirty_of_bm hs.bm] at h
  rw [dirty_of_bm he.bm, he.page]
  exact he.mono _ h

/-- the pure mark as an `Effect` -/
theorem mark_Effect {m : Mem} {b : ABitmap} {B0 : Nat} (hs : Setting m b B0)
    {bmBase off w n : Nat} {m' : Mem} (hbm : wrappingAdd bmBase off = B0 + w)
    (hfit : w + n ≤ m.bytes.length) (h : m.mark bmBase off n = .ok m') :
    m'.bytes = m.bytes ∧ ∃ b', Effect m b B0 m' b' w n := by
  obtain ⟨h1, h2, b', h3, h4, h5, h6, h7⟩ := mark_effect hs hbm hfit h
  exact ⟨h1, b', ⟨h2, by rw [h1], fun i _ => by rw [h1], h3, h4, h5, h6, h7⟩⟩

/-- `writeAt x d` followed by `mark bmBase off n` where `x` is byte `w` of the container,
    `d.length ≤ n` and the bitmap offset tracks the address -/
theorem write_mark_effect {m : Mem} {b : ABitmap} {B0 : Nat} (hs : Setting m b B0)
    {x w n bmBase off : Nat} {d : List UInt8} {m1 m' : Mem}
    (hx : x = m.base + w) (hdn : d.length ≤ n) (hfit : w + n ≤ m.bytes.length)
    (hbm : wrappingAdd bmBase off = B0 + w)
    (h1 : m.writeAt x d = .ok m1) (h2 : m1.mark bmBase off n = .ok m') :
    ∃ b', Effect m b B0 m' b' w n := by
  have hm1 := writeAt_ok_inv h1
  have hxw : x - m.base = w := by omega
  rw [hxw] at hm1
  have hl1 : m1.bytes.length = m.bytes.length := by
    rw [hm1]; exact splice_length _ _ _ (by omega)
  have hs1 : Setting m1 b B0 := by
    refine ⟨?_, hs.inv, ?_, ?_, ?_⟩
    · rw [hm1]; exact hs.bm
    · rw [hl1]; exact hs.size
    · rw [hl1]; exact hs.fitU
    · rw [hl1, hm1]; exact hs.baseU
  obtain ⟨hb, hbase, b', h3, h4, h5, h6, h7⟩ := mark_effect hs1 hbm (by rw [hl1]; exact hfit) h2
  refine ⟨b', ⟨?_, ?_, ?_, h3, h4, h5, h6, h7⟩⟩
  · rw [hbase, hm1]
  · rw [hb, hl1]
  · intro i hi
    rw [hb, hm1]
    simp only []
    cases hi with
    | inl hi => exact splice_getElem?_lt _ _ _ _ hi (by omega)
    | inr hi => exact splice_getElem?_ge _ _ _ _ (by omega) (by omega)

/-- tracked accessor ⇒ the `wrapping_add` of its base offset does not wrap -/
theorem tracks_wrap {m : Mem} {b : ABitmap} {B0 : Nat} (hs : Setting m b B0) {a : Acc}
    (ht : Tracks m B0 a) (off : Nat) (h : (a.lo - m.base) + off ≤ m.bytes.length) :
    wrappingAdd a.bmBase off = B0 + ((a.lo - m.base) + off) := by
  have hU := hs.fitU
  rw [ht.1]
  unfold wrappingAdd
  unfold U at *
  omega

/-! ## §5 per-operation effects -/

section ops
variable {m : Mem} {b : ABitmap} {B0 : Nat}

/-- 3. `mark_dirty(off, len)` through a tracked slice, in the requested phrasing -/
theorem mark_pages (hs : Setting m b B0) {s : VSlice} (ht : Tracks m B0 (.sl s)) (off len : Nat)
    (hfit : (s.addr - m.base) + off + len ≤ m.bytes.length) {m' : Mem}
    (h : m.mark s.bmBase off len = .ok m') :
    m'.bytes = m.bytes ∧ ∃ b', m'.bm = some b' ∧ C09.Inv b' ∧ b'.page = b.page ∧
      b'.byteSize = b.byteSize ∧
      ∀ p, b'.bit p = (b.bit p || decide (0 < len ∧ (B0 + (s.addr - m.base) + off) / b.page ≤ p ∧
        p ≤ (B0 + (s.addr - m.base) + off + len - 1) / b.page)) := by
  have hw := tracks_wrap hs ht off (by simp only [Acc.lo]; omega)
  obtain ⟨h1, -, b', h3, h4, h5, h6, h7⟩ := mark_effect hs hw (by simp only [Acc.lo]; omega) h
  refine ⟨h1, b', h3, h4, h5, h6, ?_⟩
  intro p
  rw [h7 p]
  simp only [markedBits, Acc.lo, Nat.add_assoc]

theorem copyToVolatileSlice_effect (hs : Setting m b B0) {s : VSlice} (ht : Tracks m B0 (.sl s))
    {src : List UInt8} {total n : Nat} {m' : Mem} (htot : total ≤ s.size)
    (h : copyToVolatileSlice m s src total = .ok (m', n)) :
    n = total ∧ ∃ b', Effect m b B0 m' b' (s.addr - m.base) total := by
  unfold copyToVolatileSlice at h
  obtain ⟨m1, h1, h⟩ := (Res.bind_eq_ok _ _ _).1 h
  obtain ⟨m2, h2, h⟩ := (Res.bind_eq_ok _ _ _).1 h
  simp only [Res.pure_eq, Res.ok.injEq, Prod.mk.injEq] at h
  obtain ⟨rfl, rfl⟩ := h
  obtain ⟨t1, t2, t3⟩ := id ht
  simp only [Acc.lo, Acc.hi, Acc.bytes] at t2 t3
  refine ⟨rfl, ?_⟩
  have hw := tracks_wrap hs ht 0 (by simp only [Acc.lo]; omega)
  simp only [Acc.lo, Acc.bmBase, Nat.add_zero] at hw
  exact write_mark_effect hs (by omega) (by rw [List.length_take]; omega) (by omega) hw h1 h2

theorem write_effect (hs : Setting m b B0) {s : VSlice} (ht : Tracks m B0 (.sl s))
    {buf : List UInt8} {addr n : Nat} {m' : Mem} (h : s.write m buf addr = .ok (m', n)) :
    n = min (s.size - addr) buf.length ∧
      ∃ b', Effect m b B0 m' b' (s.addr - m.base + addr) n := by
  unfold VSlice.write at h
  split at h
  · rename_i he
    simp only [Res.ok.injEq, Prod.mk.injEq] at h
    obtain ⟨rfl, rfl⟩ := h
    have : buf.length = 0 := by simpa using he
    exact ⟨by rw [this]; simp, b, Effect.refl hs _⟩
  · split at h
    · cases h
    · rename_i hne hlt
      obtain ⟨s', hs', h⟩ := (Res.bind_eq_ok _ _ _).1 h
      have ht' := offset_tracks ht hs'
      obtain ⟨o1, o2, o3, o4, o5⟩ := offset_ok hs'
      obtain ⟨hn, b', he⟩ := copyToVolatileSlice_effect hs ht' (Nat.min_le_left _ _) h
      have t2 := ht.2.1
      simp only [Acc.lo] at t2
      have hw : s'.addr - m.base = s.addr - m.base + addr := by omega
      rw [hw, ← hn] at he
      exact ⟨by rw [hn, o4], b', he⟩

/-- `Mem.mark` never answers with an error value -/
theorem mark_ne_err (m : Mem) (bmBase off len : Nat) (e : Err) : m.mark bmBase off len ≠ .err e := by
  unfold Mem.mark
  split
  · simp
  · unfold markVia ABitmap.markDirty ABitmap.setResetAddrRange ABitmap.runProgram
    split <;> simp

theorem writeAt_ne_err (m : Mem) (x : Nat) (d : List UInt8) (e : Err) : m.writeAt x d ≠ .err e := by
  unfold Mem.writeAt
  split <;> simp

theorem copyToVolatileSlice_ne_err (m : Mem) (s : VSlice) (src : List UInt8) (total : Nat) (e : Err) :
    copyToVolatileSlice m s src total ≠ .err e := by
  unfold copyToVolatileSlice
  cases h1 : m.writeAt s.addr (src.take total) with
  | ok m1 =>
    simp only [Res.bind_ok]
    cases h2 : m1.mark s.bmBase 0 total with
    | ok m2 => simp
    | err e2 => exact absurd h2 (mark_ne_err _ _ _ _ _)
    | panic => simp
  | err e1 => exact absurd h1 (writeAt_ne_err _ _ _ _)
  | panic => simp

/-- the only error values of `write`: both are raised before any byte is stored -/
theorem write_err_kind {m : Mem} {s : VSlice} {buf : List UInt8} {addr : Nat} {e : Err}
    (h : s.write m buf addr = .err e) : e = .outOfBounds ∨ e = .overflow := by
  unfold VSlice.write at h
  split at h
  · cases h
  · split at h
    · cases h; exact .inl rfl
    · cases hoff : s.offset addr with
      | ok s' =>
        rw [hoff] at h
        simp only [Res.bind_ok] at h
        exact absurd h (copyToVolatileSlice_ne_err _ _ _ _ _)
      | err e' =>
        rw [hoff] at h
        simp only [Res.bind_err, Res.err.injEq] at h
        subst h
        rw [offset_eq] at hoff
        split at hoff
        · split at hoff
          · cases hoff
          · cases hoff; exact .inl rfl
        · cases hoff; exact .inr rfl
      | panic => rw [hoff] at h; cases h

/-- `write_slice`: whatever the result, the container returned differs from `m` by the
    stored prefix of `n` bytes, which is marked; `n` is the `completed` field of a
    `PartialBuffer` error, and `buf.length` on success. -/
theorem writeSlice_effect (hs : Setting m b B0) {s : VSlice} (ht : Tracks m B0 (.sl s))
    (buf : List UInt8) (addr : Nat) :
    ∃ n b', Effect m b B0 (s.writeSlice m buf addr).1 b' (s.addr - m.base + addr) n ∧
      n ≤ buf.length ∧
      ((s.writeSlice m buf addr).2 = .ok () → n = buf.length) ∧
      (∀ x c, (s.writeSlice m buf addr).2 = .err (.partialBuffer x c) →
        x = buf.length ∧ c = n ∧ n < buf.length) ∧
      (∀ e, (s.writeSlice m buf addr).2 = .err e → (∀ x c, e ≠ .partialBuffer x c) →
        (s.writeSlice m buf addr).1 = m ∧ n = 0) := by
  unfold VSlice.writeSlice
  cases hw : s.write m buf addr with
  | ok p =>
    obtain ⟨m', n⟩ := p
    obtain ⟨hn, b', he⟩ := write_effect hs ht hw
    have hle : n ≤ buf.length := by rw [hn]; exact Nat.min_le_right _ _
    by_cases hc : n ≠ buf.length
    · simp only [if_pos hc]
      refine ⟨n, b', he, hle, ?_, ?_, ?_⟩
      · intro h; cases h
      · intro x c h
        simp only [Res.err.injEq, Err.partialBuffer.injEq] at h
        exact ⟨h.1.symm, h.2.symm, by omega⟩
      · intro e h hnp
        simp only [Res.err.injEq] at h
        exact absurd h.symm (hnp _ _)
    · simp only [if_neg hc]
      refine ⟨n, b', he, hle, ?_, ?_, ?_⟩
      · intro _; omega
      · intro x c h; cases h
      · intro e h; cases h
  | err e =>
    refine ⟨0, b, Effect.refl hs _, Nat.zero_le _, ?_, ?_, ?_⟩
    · intro h; cases h
    · intro x c h
      simp only [Res.err.injEq] at h
      subst h
      rcases write_err_kind hw with h | h <;> cases h
    · intro e' _ _; exact ⟨rfl, rfl⟩
  | panic =>
    refine ⟨0, b, Effect.refl hs _, Nat.zero_le _, ?_, ?_, ?_⟩
    · intro h; cases h
    · intro x c h; cases h
    · intro e h; cases h

/-- `store::<T>(val, addr)`: the mark is `self.bitmap.mark_dirty(addr, size_of::<T>())` on
    the *parent* slice; the window starts at `addr` inside the slice -/
theorem store_effect (hs : Setting m b B0) {s : VSlice} (ht : Tracks m B0 (.sl s))
    {val : List UInt8} {t : Ty} {addr : Nat} {m' : Mem} (h : s.store m val t addr = .ok m') :
    addr + t.size ≤ s.size ∧ ∃ b', Effect m b B0 m' b' (s.addr - m.base + addr) t.size := by
  unfold VSlice.store at h
  obtain ⟨p, hp, h⟩ := (Res.bind_eq_ok _ _ _).1 h
  obtain ⟨m1, h1, h2⟩ := (Res.bind_eq_ok _ _ _).1 h
  obtain ⟨a1, a2, a3, rfl⟩ := alignedRef_ok hp
  obtain ⟨t1, t2, t3⟩ := id ht
  simp only [Acc.lo, Acc.hi, Acc.bytes] at t2 t3
  have hw := tracks_wrap hs ht addr (by simp only [Acc.lo]; omega)
  simp only [Acc.lo, Acc.bmBase] at hw
  exact ⟨a2, write_mark_effect hs (by omega) (by rw [List.length_take]; omega) (by omega) hw h1 h2⟩

theorem refStore_effect (hs : Setting m b B0) {r : VRef} (ht : Tracks m B0 (.rf r))
    {val : List UInt8} {m' : Mem} (h : r.store m val = .ok m') :
    ∃ b', Effect m b B0 m' b' (r.addr - m.base) r.ty.size := by
  unfold VRef.store at h
  obtain ⟨m1, h1, h2⟩ := (Res.bind_eq_ok _ _ _).1 h
  obtain ⟨t1, t2, t3⟩ := id ht
  simp only [Acc.lo, Acc.hi, Acc.bytes] at t2 t3
  have hw := tracks_wrap hs ht 0 (by simp only [Acc.lo]; omega)
  simp only [Acc.lo, Acc.bmBase, Nat.add_zero] at hw
  exact write_mark_effect hs (by omega) (by rw [List.length_take]; omega) (by omega) hw h1 h2

/-- `VolatileArrayRef::store(i, v)`: through `ref_at(i)`, whose bitmap is
    `self.bitmap.slice_at(i * size_of::<T>())` -/
theorem arrStore_effect (hs : Setting m b B0) {a : VArr} (ht : Tracks m B0 (.ar a))
    {i : Nat} {val : List UInt8} {m' : Mem} (h : a.store m i val = .ok m') :
    i < a.nelem ∧ ∃ b', Effect m b B0 m' b' (a.addr - m.base + a.ty.size * i) a.ty.size := by
  unfold VArr.store at h
  obtain ⟨r, hr, h⟩ := (Res.bind_eq_ok _ _ _).1 h
  have htr := refAt_tracks ht hr
  obtain ⟨r1, r2, r3, r4, r5⟩ := refAt_ok hr
  obtain ⟨b', he⟩ := refStore_effect hs htr h
  have t2 := ht.2.1
  simp only [Acc.lo] at t2
  have hw : r.addr - m.base = a.addr - m.base + a.ty.size * i := by omega
  rw [hw, r4] at he
  exact ⟨r1, b', he⟩

theorem arrCopyFrom_effect (hs : Setting m b B0) {a : VArr} (ht : Tracks m B0 (.ar a))
    {blen : Nat} {buf : List UInt8} {m' : Mem} (h : a.copyFrom m blen buf = .ok m') :
    ∃ b', Effect m b B0 m' b' (a.addr - m.base) (min blen a.nelem * a.ty.size) := by
  unfold VArr.copyFrom at h
  split at h
  · rename_i h1
    obtain ⟨s, hsl, h⟩ := (Res.bind_eq_ok _ _ _).1 h
    obtain ⟨⟨m2, n⟩, hc, h⟩ := (Res.bind_eq_ok _ _ _).1 h
    simp only [Res.pure_eq, Res.ok.injEq] at h
    subst h
    have hts := arrToSlice_tracks ht hsl
    obtain ⟨-, s2, s3, s4⟩ := arrToSlice_ok hsl
    obtain ⟨-, b', he⟩ := copyToVolatileSlice_effect hs hts (Nat.min_le_right _ _) hc
    rw [s2, s3, h1, Nat.mul_one] at he
    rw [h1, Nat.mul_one]
    exact ⟨b', he⟩
  · obtain ⟨m1, h1, h2⟩ := (Res.bind_eq_ok _ _ _).1 h
    obtain ⟨t1, t2, t3⟩ := id ht
    simp only [Acc.lo, Acc.hi, Acc.bytes] at t2 t3
    have hk : min blen a.nelem * a.ty.size ≤ a.nelem * a.ty.size :=
      Nat.mul_le_mul_right _ (Nat.min_le_right _ _)
    have hw := tracks_wrap hs ht 0 (by simp only [Acc.lo]; omega)
    simp only [Acc.lo, Acc.bmBase, Nat.add_zero] at hw
    exact write_mark_effect hs (by omega) (by rw [List.length_take]; omega) (by omega) hw h1 h2

theorem unwrapRes_ok {α} {r : Res α} {a : α} (h : Res.unwrapRes r = .ok a) : r = .ok a := by
  cases r <;> simp [Res.unwrapRes] at h ⊢
  exact h

theorem sliceCopyFrom_effect (hs : Setting m b B0) {s : VSlice} (ht : Tracks m B0 (.sl s))
    {t : Ty} {blen : Nat} {buf : List UInt8} {m' : Mem} (h : s.copyFrom m t blen buf = .ok m') :
    ∃ b', Effect m b B0 m' b' (s.addr - m.base) (min blen (s.elemCount t blen) * t.size) := by
  unfold VSlice.copyFrom at h
  split at h
  · rename_i h1
    obtain ⟨⟨m2, n⟩, hc, h⟩ := (Res.bind_eq_ok _ _ _).1 h
    simp only [Res.pure_eq, Res.ok.injEq] at h
    subst h
    obtain ⟨-, b', he⟩ := copyToVolatileSlice_effect hs ht (Nat.min_le_right _ _) hc
    have : s.elemCount t blen = s.size := by
      unfold VSlice.elemCount; rw [if_neg (by omega), h1, Nat.div_one]
    rw [this, h1, Nat.mul_one]
    exact ⟨b', he⟩
  · obtain ⟨a, ha, h⟩ := (Res.bind_eq_ok _ _ _).1 h
    have ha := unwrapRes_ok ha
    have hta := getArrayRef_tracks ht ha
    obtain ⟨-, -, -, -, a1, a2, a3, -⟩ := getArrayRef_ok ha
    obtain ⟨b', he⟩ := arrCopyFrom_effect hs hta h
    rw [a1, a2, a3, Nat.add_zero] at he
    exact ⟨b', he⟩

/-- the element count `copy_from` settles on fits the slice -/
theorem sliceCopyFrom_fits {m : Mem} {s : VSlice} {t : Ty} {blen : Nat} {buf : List UInt8} {m' : Mem}
    (h : s.copyFrom m t blen buf = .ok m') : min blen (s.elemCount t blen) * t.size ≤ s.size := by
  unfold VSlice.copyFrom at h
  split at h
  · rename_i h1
    have : s.elemCount t blen = s.size := by
      unfold VSlice.elemCount; rw [if_neg (by omega), h1, Nat.div_one]
    rw [this, h1, Nat.mul_one]; exact Nat.min_le_right _ _
  · obtain ⟨a, ha, h⟩ := (Res.bind_eq_ok _ _ _).1 h
    have ha := unwrapRes_ok ha
    obtain ⟨-, -, -, a4, -⟩ := getArrayRef_ok ha
    have : min blen (s.elemCount t blen) * t.size ≤ s.elemCount t blen * t.size :=
      Nat.mul_le_mul_right _ (Nat.min_le_right _ _)
    omega

theorem readAt_length_le {m : Mem} {x n : Nat} {d : List UInt8} (h : m.readAt x n = .ok d) :
    d.length ≤ n := by
  unfold Mem.readAt at h
  split at h
  · cases h; exact List.length_take_le _ _
  · cases h

/-- `src.copy_to_volatile_slice(dst)`: the marks go to the DESTINATION accessor -/
theorem copyToSlice_effect (hs : Setting m b B0) {s dst : VSlice} (ht : Tracks m B0 (.sl dst))
    {m' : Mem} (h : s.copyToSlice m dst = .ok m') :
    ∃ b', Effect m b B0 m' b' (dst.addr - m.base) (min s.size dst.size) := by
  unfold VSlice.copyToSlice at h
  simp only [] at h
  obtain ⟨d, hd, h⟩ := (Res.bind_eq_ok _ _ _).1 h
  obtain ⟨m1, h1, h2⟩ := (Res.bind_eq_ok _ _ _).1 h
  obtain ⟨t1, t2, t3⟩ := id ht
  simp only [Acc.lo, Acc.hi, Acc.bytes] at t2 t3
  have hw := tracks_wrap hs ht 0 (by simp only [Acc.lo]; omega)
  simp only [Acc.lo, Acc.bmBase, Nat.add_zero] at hw
  have hm : min s.size dst.size ≤ dst.size := Nat.min_le_right _ _
  exact write_mark_effect hs (by omega) (readAt_length_le hd) (by omega) hw h1 h2

theorem arrCopyToSlice_effect (hs : Setting m b B0) {a : VArr} {dst : VSlice}
    (ht : Tracks m B0 (.sl dst)) {m' : Mem} (h : a.copyToSlice m dst = .ok m') :
    ∃ b', Effect m b B0 m' b' (dst.addr - m.base) (min (a.nelem * a.ty.size) dst.size) := by
  unfold VArr.copyToSlice at h
  obtain ⟨n, hn, h⟩ := (Res.bind_eq_ok _ _ _).1 h
  obtain ⟨-, rfl⟩ := mulP_ok hn
  simp only [] at h
  obtain ⟨d, hd, h⟩ := (Res.bind_eq_ok _ _ _).1 h
  obtain ⟨m1, h1, h2⟩ := (Res.bind_eq_ok _ _ _).1 h
  obtain ⟨t1, t2, t3⟩ := id ht
  simp only [Acc.lo, Acc.hi, Acc.bytes] at t2 t3
  have hw := tracks_wrap hs ht 0 (by simp only [Acc.lo]; omega)
  simp only [Acc.lo, Acc.bmBase, Nat.add_zero] at hw
  have hm : min (a.nelem * a.ty.size) dst.size ≤ dst.size := Nat.min_le_right _ _
  exact write_mark_effect hs (by omega) (readAt_length_le hd) (by omega) hw h1 h2

/-- under `Setting` a mark never panics (and never errs) -/
theorem mark_ok (hs : Setting m b B0) (bmBase off n : Nat) : ∃ m', m.mark bmBase off n = .ok m' := by
  unfold Mem.mark
  rw [hs.bm]
  obtain ⟨b', hb'⟩ := C09.markDirty_ok b hs.inv (wrappingAdd bmBase off) n
  refine ⟨{ m with bm := some b' }, ?_⟩
  simp only [markVia, hb', Res.bind_ok, Res.pure_eq]

/-! ### one `read_volatile` call of a stream into a tracked slice -/

/-- the transferring branch of `Reader.readVolatile` -/
def rvGo (m : Mem) (s : VSlice) (r : Reader) (limit : Nat) : Mem × Reader × Res Nat :=
  match copyToVolatileSlice m s r.avail (min (min s.size r.avail.length) limit) with
  | .ok (m', n) => (m', r.advance n, .ok n)
  | .err e => (m, r, .err e)
  | .panic => (m, r, .panic)

/-- the failing branch of `Reader.readVolatile` -/
def rvFail (m : Mem) (s : VSlice) (r : Reader) (k : Nat) : Mem × Reader × Res Nat :=
  match r.kind with
  | .fd =>
    match m.mark s.bmBase 0 s.size with
    | .ok m' => (m', r, .err (ioErr k))
    | _ => (m, r, .panic)
  | _ => (m, r, .err (ioErr k))

/-- closed form of one `read_volatile` call -/
theorem readVolatile_eq (r : Reader) (m : Mem) (s : VSlice) :
    r.readVolatile m s =
      match r.script with
      | [] => rvGo m s { r with script := [] } s.size
      | .full :: rest => rvGo m s { r with script := rest } s.size
      | .short k :: rest => rvGo m s { r with script := rest } k
      | .zero :: rest => (m, { r with script := rest }, .ok 0)
      | .eintr :: rest => rvFail m s { r with script := rest } IoKind.interrupted
      | .fail :: rest => rvFail m s { r with script := rest } IoKind.other := by
  unfold Reader.readVolatile
  cases r.script with
  | nil => rfl
  | cons b rest => cases b <;> rfl

theorem rvGo_cases (m : Mem) (s : VSlice) (r : Reader) (limit : Nat) :
    (rvGo m s r limit).1 = m ∨
    ∃ src total n, total ≤ s.size ∧ copyToVolatileSlice m s src total = .ok ((rvGo m s r limit).1, n) := by
  unfold rvGo
  cases hc : copyToVolatileSlice m s r.avail (min (min s.size r.avail.length) limit) with
  | ok p =>
    obtain ⟨m2, n⟩ := p
    exact .inr ⟨_, _, n, Nat.le_trans (Nat.min_le_left _ _) (Nat.min_le_left _ _), hc⟩
  | err e => exact .inl rfl
  | panic => exact .inl rfl

theorem rvFail_cases (m : Mem) (s : VSlice) (r : Reader) (k : Nat) :
    (rvFail m s r k).1 = m ∨
    (r.kind = .fd ∧ m.mark s.bmBase 0 s.size = .ok (rvFail m s r k).1) := by
  unfold rvFail
  cases hk : r.kind
  case fd =>
    cases hmk : m.mark s.bmBase 0 s.size with
    | ok m2 => exact .inr ⟨rfl, rfl⟩
    | err e => exact .inl rfl
    | panic => exact .inl rfl
  all_goals exact .inl rfl

theorem readVolatile_cases (r : Reader) (m : Mem) (s : VSlice) :
    (r.readVolatile m s).1 = m ∨
    (∃ src total n, total ≤ s.size ∧
        copyToVolatileSlice m s src total = .ok ((r.readVolatile m s).1, n)) ∨
    (r.kind = .fd ∧ m.mark s.bmBase 0 s.size = .ok (r.readVolatile m s).1) := by
  rw [readVolatile_eq]
  cases r.script with
  | nil =>
    rcases rvGo_cases m s { r with script := [] } s.size with h | h
    · exact .inl h
    · exact .inr (.inl h)
  | cons beh rest =>
    cases beh with
    | full =>
      rcases rvGo_cases m s { r with script := rest } s.size with h | h
      · exact .inl h
      · exact .inr (.inl h)
    | short k =>
      rcases rvGo_cases m s { r with script := rest } k with h | h
      · exact .inl h
      · exact .inr (.inl h)
    | zero => exact .inl rfl
    | eintr =>
      rcases rvFail_cases m s { r with script := rest } IoKind.interrupted with h | h
      · exact .inl h
      · exact .inr (.inr h)
    | fail =>
      rcases rvFail_cases m s { r with script := rest } IoKind.other with h | h
      · exact .inl h
      · exact .inr (.inr h)

theorem readVolatile_fd_fail (r : Reader) (m : Mem) (s : VSlice) (hk : r.kind = .fd)
    (beh : Beh) (rest : List Beh) (hsc : r.script = beh :: rest) (hb : beh = .fail ∨ beh = .eintr)
    (m' : Mem) (hm : m.mark s.bmBase 0 s.size = .ok m') :
    r.readVolatile m s = (m', { r with script := rest },
      .err (ioErr (if beh = .fail then IoKind.other else IoKind.interrupted))) := by
  rw [readVolatile_eq, hsc]
  rcases hb with rfl | rfl
  · simp only [rvFail, hk, hm]; rfl
  · simp only [rvFail, hk, hm]; rfl

/-- a stream read into a tracked slice: either nothing happens, or a prefix of the
    slice is stored and marked, or (failed descriptor read) the whole slice is marked -/
theorem readVolatile_effect (hs : Setting m b B0) {s : VSlice} (ht : Tracks m B0 (.sl s))
    (r : Reader) :
    ∃ n b', Effect m b B0 (r.readVolatile m s).1 b' (s.addr - m.base) n ∧ n ≤ s.size := by
  rcases readVolatile_cases r m s with h | ⟨src, total, n, htot, hc⟩ | ⟨-, hm⟩
  · rw [h]; exact ⟨0, b, Effect.refl hs _, Nat.zero_le _⟩
  · obtain ⟨-, b', he⟩ := copyToVolatileSlice_effect hs ht htot hc
    exact ⟨total, b', he, htot⟩
  · obtain ⟨t1, t2, t3⟩ := id ht
    simp only [Acc.lo, Acc.hi, Acc.bytes] at t2 t3
    have hw := tracks_wrap hs ht 0 (by simp only [Acc.lo]; omega)
    simp only [Acc.lo, Acc.bmBase, Nat.add_zero] at hw
    obtain ⟨-, b', he⟩ := mark_Effect hs hw (by omega) hm
    exact ⟨s.size, b', he, Nat.le_refl _⟩

end ops

/-! ## §6 the mutating operations as one step function -/

/-- a mutating operation, applied through an accessor of the matching kind -/
inductive WOp where
  | copyIn (src : List UInt8) (total : Nat)         -- `copy_to_volatile_slice(slice, src, total)`
  | write (buf : List UInt8) (addr : Nat)            -- `Bytes::write`
  | writeSlice (buf : List UInt8) (addr : Nat)       -- `Bytes::write_slice` / `write_obj`
  | store (val : List UInt8) (t : Ty) (addr : Nat)   -- `Bytes::store`
  | refStore (val : List UInt8)                      -- `VolatileRef::store`
  | arrStore (i : Nat) (val : List UInt8)            -- `VolatileArrayRef::store`
  | arrCopyFrom (blen : Nat) (buf : List UInt8)      -- `VolatileArrayRef::copy_from`
  | copyFrom (t : Ty) (blen : Nat) (buf : List UInt8) -- `VolatileSlice::copy_from`
  | fromSlice (src : VSlice)                         -- `src.copy_to_volatile_slice(self)`
  | fromArr (src : VArr)                             -- `src.copy_to_volatile_slice(self)`
  | stream (r : Reader)                              -- `r.read_volatile(&mut self)`
  deriving Repr, DecidableEq

/-- apply a mutating operation.  A kind mismatch is a type error in Rust and is answered
    as in `C01.derive`.  `copyIn` carries the precondition of the (private, `unsafe`) helper
    `copy_to_volatile_slice`: `total ≤ slice.len()`.  `writeSlice` and `stream` return
    the container alongside their result, so they always yield a state. -/
def applyW (m : Mem) : Acc → WOp → Res Mem
  | .sl s, .copyIn src total =>
    if total ≤ s.size then mapOk Prod.fst (copyToVolatileSlice m s src total) else .panic
  | .sl s, .write buf addr => mapOk Prod.fst (s.write m buf addr)
  | .sl s, .writeSlice buf addr => .ok (s.writeSlice m buf addr).1
  | .sl s, .store val t addr => s.store m val t addr
  | .rf r, .refStore val => r.store m val
  | .ar a, .arrStore i val => a.store m i val
  | .ar a, .arrCopyFrom blen buf => a.copyFrom m blen buf
  | .sl s, .copyFrom t blen buf => s.copyFrom m t blen buf
  | .sl dst, .fromSlice src => src.copyToSlice m dst
  | .sl dst, .fromArr src => src.copyToSlice m dst
  | .sl s, .stream r => .ok (r.readVolatile m s).1
  | _, _ => .err .hostAddressNotAvailable

/-- offset of the written window inside the accessor -/
def WOp.shift : Acc → WOp → Nat
  | _, .write _ addr => addr
  | _, .writeSlice _ addr => addr
  | _, .store _ _ addr => addr
  | .ar a, .arrStore i _ => a.ty.size * i
  | _, _ => 0

/-- first container byte of the window an operation may store to -/
def winStart (m : Mem) (a : Acc) (op : WOp) : Nat := a.lo - m.base + op.shift a

/-- every mutating operation applied through a tracked accessor: there is a window
    `[winStart, winStart + n)` inside the accessor outside of which no byte changes, and
    the pages of exactly that window are added to the bitmap -/
theorem applyW_effect {m : Mem} {b : ABitmap} {B0 : Nat} (hs : Setting m b B0) {a : Acc}
    (ht : Tracks m B0 a) {op : WOp} {m' : Mem} (h : applyW m a op = .ok m') :
    ∃ b' n, Effect m b B0 m' b' (winStart m a op) n ∧
      (n = 0 ∨ winStart m a op + n ≤ a.lo - m.base + a.bytes) := by
  cases a with
  | sl s =>
    cases op with
    | copyIn src total =>
      simp only [applyW] at h
      split at h
      · rename_i htot
        obtain ⟨⟨m2, n⟩, hc, rfl⟩ := (mapOk_eq_ok _ _ _).1 h
        obtain ⟨-, b', he⟩ := copyToVolatileSlice_effect hs ht htot hc
        exact ⟨b', total, he, .inr (by simp only [winStart, WOp.shift, Acc.lo, Acc.bytes]; omega)⟩
      · cases h
    | write buf addr =>
      simp only [applyW] at h
      obtain ⟨⟨m2, n⟩, hc, rfl⟩ := (mapOk_eq_ok _ _ _).1 h
      obtain ⟨hn, b', he⟩ := write_effect hs ht hc
      exact ⟨b', n, he, by simp only [winStart, WOp.shift, Acc.lo, Acc.bytes]; omega⟩
    | writeSlice buf addr =>
      simp only [applyW, Res.ok.injEq] at h
      subst h
      unfold VSlice.writeSlice
      cases hw : s.write m buf addr with
      | ok p =>
        obtain ⟨m2, n⟩ := p
        obtain ⟨hn, b', he⟩ := write_effect hs ht hw
        refine ⟨b', n, ?_, by simp only [winStart, WOp.shift, Acc.lo, Acc.bytes]; omega⟩
        simp only []
        split <;> exact he
      | err e => exact ⟨b, 0, Effect.refl hs _, .inl rfl⟩
      | panic => exact ⟨b, 0, Effect.refl hs _, .inl rfl⟩
    | store val t addr =>
      simp only [applyW] at h
      obtain ⟨hfit, b', he⟩ := store_effect hs ht h
      exact ⟨b', t.size, he, .inr (by simp only [winStart, WOp.shift, Acc.lo, Acc.bytes]; omega)⟩
    | copyFrom t blen buf =>
      simp only [applyW] at h
      obtain ⟨b', he⟩ := sliceCopyFrom_effect hs ht h
      refine ⟨b', _, he, .inr ?_⟩
      simp only [winStart, WOp.shift, Acc.lo, Acc.bytes, Nat.add_zero, Nat.add_le_add_iff_left]
      exact sliceCopyFrom_fits h
    | fromSlice src =>
      simp only [applyW] at h
      obtain ⟨b', he⟩ := copyToSlice_effect hs ht h
      exact ⟨b', _, he, .inr (by simp only [winStart, WOp.shift, Acc.lo, Acc.bytes]; omega)⟩
    | fromArr src =>
      simp only [applyW] at h
      obtain ⟨b', he⟩ := arrCopyToSlice_effect hs ht h
      exact ⟨b', _, he, .inr (by simp only [winStart, WOp.shift, Acc.lo, Acc.bytes]; omega)⟩
    | stream r =>
      simp only [applyW, Res.ok.injEq] at h
      subst h
      obtain ⟨n, b', he, hn⟩ := readVolatile_effect hs ht r
      exact ⟨b', n, he, .inr (by simp only [winStart, WOp.shift, Acc.lo, Acc.bytes]; omega)⟩
    | _ => simp [applyW] at h
  | rf r =>
    cases op with
    | refStore val =>
      simp only [applyW] at h
      obtain ⟨b', he⟩ := refStore_effect hs ht h
      exact ⟨b', _, he, .inr (by simp only [winStart, WOp.shift, Acc.lo, Acc.bytes]; omega)⟩
    | _ => simp [applyW] at h
  | ar arr =>
    cases op with
    | arrStore i val =>
      simp only [applyW] at h
      obtain ⟨hi, b', he⟩ := arrStore_effect hs ht h
      have := @elem_end_le arr.ty.size i arr.nelem hi
      exact ⟨b', _, he, .inr (by simp only [winStart, WOp.shift, Acc.lo, Acc.bytes]; omega)⟩
    | arrCopyFrom blen buf =>
      simp only [applyW] at h
      obtain ⟨b', he⟩ := arrCopyFrom_effect hs ht h
      have hk : min blen arr.nelem * arr.ty.size ≤ arr.nelem * arr.ty.size :=
        Nat.mul_le_mul_right _ (Nat.min_le_right _ _)
      exact ⟨b', _, he, .inr (by simp only [winStart, WOp.shift, Acc.lo, Acc.bytes]; omega)⟩
    | _ => simp [applyW] at h

/-! ## §7 the hypotheses `… = .ok …` are satisfiable: writes through tracked accessors
       do not panic -/

theorem writeAt_ok {m : Mem} {x : Nat} {d : List UInt8} (h1 : m.base ≤ x)
    (h2 : x + d.length ≤ m.base + m.bytes.length) : ∃ m1, m.writeAt x d = .ok m1 := by
  unfold Mem.writeAt
  have : m.inBounds x d.length = true := by
    simp only [Mem.inBounds, Bool.or_eq_true, beq_iff_eq, Bool.and_eq_true, decide_eq_true_eq]
    exact .inr ⟨h1, h2⟩
  rw [if_pos this]
  exact ⟨_, rfl⟩

theorem writeAt_setting {m : Mem} {b : ABitmap} {B0 : Nat} (hs : Setting m b B0) {x : Nat}
    {d : List UInt8} {m1 : Mem} (hx : m.base ≤ x) (hfit : x + d.length ≤ m.base + m.bytes.length)
    (h1 : m.writeAt x d = .ok m1) : Setting m1 b B0 := by
  have hm1 := writeAt_ok_inv h1
  have hl1 : m1.bytes.length = m.bytes.length := by
    rw [hm1]; exact splice_length _ _ _ (by omega)
  refine ⟨?_, hs.inv, ?_, ?_, ?_⟩
  · rw [hm1]; exact hs.bm
  · rw [hl1]; exact hs.size
  · rw [hl1]; exact hs.fitU
  · rw [hl1, hm1]; exact hs.baseU

theorem copyToVolatileSlice_ok {m : Mem} {b : ABitmap} {B0 : Nat} (hs : Setting m b B0)
    {s : VSlice} (ht : Tracks m B0 (.sl s)) (src : List UInt8) (total : Nat)
    (htot : total ≤ s.size) : ∃ m', copyToVolatileSlice m s src total = .ok (m', total) := by
  obtain ⟨t1, t2, t3⟩ := id ht
  simp only [Acc.lo, Acc.hi, Acc.bytes] at t2 t3
  have hlen : s.addr + (src.take total).length ≤ m.base + m.bytes.length := by
    rw [List.length_take]; omega
  obtain ⟨m1, h1⟩ := writeAt_ok (m := m) (x := s.addr) (d := src.take total) t2 hlen
  have hs1 := writeAt_setting hs t2 hlen h1
  obtain ⟨m2, h2⟩ := mark_ok hs1 s.bmBase 0 total
  exact ⟨m2, by simp only [copyToVolatileSlice, h1, h2, Res.bind_ok, Res.pure_eq]⟩

/-- a write at an offset inside a tracked slice succeeds -/
theorem write_ok {m : Mem} {b : ABitmap} {B0 : Nat} (hs : Setting m b B0) {s : VSlice}
    (ht : Tracks m B0 (.sl s)) (buf : List UInt8) (addr : Nat) (h : addr < s.size) :
    ∃ m', s.write m buf addr = .ok (m', min (s.size - addr) buf.length) := by
  unfold VSlice.write
  split
  · rename_i he
    have : buf.length = 0 := by simpa using he
    exact ⟨m, by rw [this, Nat.min_zero]⟩
  · obtain ⟨t1, t2, t3⟩ := id ht
    simp only [Acc.lo, Acc.hi, Acc.bytes] at t2 t3
    have hU := hs.baseU
    rw [if_neg (by omega), offset_eq, if_pos (by omega), if_pos (by omega)]
    simp only [Res.bind_ok]
    have ht' : Tracks m B0 (.sl (VSlice.mk (s.addr + addr) (s.size - addr) (sliceAt s.bmBase addr))) :=
      offset_tracks (cnt := addr) ht (by rw [offset_eq, if_pos (by omega), if_pos (by omega)])
    exact copyToVolatileSlice_ok hs ht' buf _ (Nat.min_le_left _ _)

/-- a write through a tracked slice never panics -/
theorem write_no_panic {m : Mem} {b : ABitmap} {B0 : Nat} (hs : Setting m b B0) {s : VSlice}
    (ht : Tracks m B0 (.sl s)) (buf : List UInt8) (addr : Nat) : s.write m buf addr ≠ .panic := by
  by_cases h : addr < s.size
  · obtain ⟨m', hm'⟩ := write_ok hs ht buf addr h
    rw [hm']; simp
  · unfold VSlice.write
    split
    · simp
    · rw [if_pos (by omega)]; simp

/-! ### example container: 300 bytes at 0x1000, 128-byte pages, `B0 = 0` -/

def dMem : Mem := { base := 0x1000, bytes := List.replicate 300 0, bm := some (ABitmap.new 300 128) }

theorem dMem_len : dMem.bytes.length = 300 := List.length_replicate

theorem dMem_setting : Setting dMem (ABitmap.new 300 128) 0 :=
  ⟨rfl, C09.new_inv 300 128 (by decide), by rw [dMem_len]; decide, by rw [dMem_len]; decide,
    by rw [dMem_len]; decide⟩

theorem dMem_root : rootAt dMem 0 = { addr := 0x1000, size := 300, bmBase := 0 } := by
  show VSlice.mk 0x1000 dMem.bytes.length 0 = VSlice.mk 0x1000 300 0
  rw [dMem_len]

/-- a depth-3 chain with offsets 5, 130, 7 -/
def dSlice : VSlice := { addr := 0x1000 + 142, size := 10, bmBase := 142 }

theorem dSlice_chain :
    deriveChain (.sl (rootAt dMem 0)) [.sub 5 290, .off 130, .sub 7 10] = .ok (.sl dSlice) := by
  rw [dMem_root]; decide

theorem dSlice_tracks : Tracks dMem 0 (.sl dSlice) :=
  root_chain_tracks dMem 0 (by decide) _ _ dSlice_chain

end Dirty
end VmMem
