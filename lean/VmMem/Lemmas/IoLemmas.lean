/-
  VmMem.Lemmas.IoLemmas — closed forms for `VmMem.Model.Io`: one stream call,
  `retry_eintr!`, the default exact loops, for containers whose dirty marking
  cannot panic (`BmInv`) and target slices inside the container (`InB`).
-/
import VmMem.Model.Io
import VmMem.Lemmas.VolatileLemmas
import VmMem.Props.C09
namespace VmMem
namespace IoLemmas
open VolatileLemmas

/-- overwrite `l[o .. o + d.length)` with `d` -/
def splice (l : List UInt8) (o : Nat) (d : List UInt8) : List UInt8 :=
  l.take o ++ d ++ l.drop (o + d.length)

theorem spliceAt_eq_splice (l : List UInt8) (o : Nat) (d : List UInt8) :
    spliceAt l o d = splice l o d := rfl

/-- every tracking bitmap of the container satisfies the representation invariant -/
def BmInv (m : Mem) : Prop := ∀ b, m.bm = some b → C09.Inv b
/-- the slice lies inside the container -/
def InB (m : Mem) (s : VSlice) : Prop :=
  m.base ≤ s.addr ∧ s.addr + s.size ≤ m.base + m.bytes.length

theorem BmInv_of_none {m : Mem} (h : m.bm = none) : BmInv m := by
  intro b hb; rw [h] at hb; cases hb

/-! ### list facts about `splice` -/

theorem splice_nil (l : List UInt8) (o : Nat) : splice l o [] = l := by
  simp [splice]

theorem splice_length (l : List UInt8) (o : Nat) (d : List UInt8) (h : o + d.length ≤ l.length) :
    (splice l o d).length = l.length := by
  simp [splice]; omega

theorem splice_splice (l : List UInt8) (o : Nat) (d1 d2 : List UInt8) (h : o ≤ l.length) :
    splice (splice l o d1) (o + d1.length) d2 = splice l o (d1 ++ d2) := by
  have hA : (l.take o ++ d1).length = o + d1.length := by simp; omega
  unfold splice
  rw [List.take_left' hA, ← List.drop_drop, List.drop_left' hA, List.drop_drop]
  simp [List.append_assoc, Nat.add_assoc]

theorem splice_frame (l : List UInt8) (o : Nat) (d : List UInt8) (h : o + d.length ≤ l.length)
    (i : Nat) (hi : i < o ∨ o + d.length ≤ i) : (splice l o d)[i]? = l[i]? := by
  unfold splice
  rcases hi with hi | hi
  · rw [List.append_assoc, List.getElem?_append_left (by simp; omega), List.getElem?_take_of_lt hi]
  · have hA : (l.take o ++ d).length = o + d.length := by simp; omega
    rw [List.getElem?_append_right (by omega), hA, List.getElem?_drop]
    congr 1; omega

theorem splice_read (l : List UInt8) (o : Nat) (d : List UInt8) (h : o ≤ l.length) :
    ((splice l o d).drop o).take d.length = d := by
  have hA : (l.take o).length = o := by simp; omega
  unfold splice
  rw [List.append_assoc, List.drop_left' hA, List.take_left' rfl]

/-! ### container primitives -/


theorem mark_ok {m : Mem} (h : BmInv m) (b o l : Nat) :
    ∃ m', m.mark b o l = .ok m' ∧ m'.bytes = m.bytes ∧ m'.base = m.base ∧ BmInv m' := by
  unfold Mem.mark
  cases hbm : m.bm with
  | none => exact ⟨m, rfl, rfl, rfl, h⟩
  | some bm =>
    obtain ⟨b', hb', hinv, _⟩ := C09.markVia_bits bm (h bm hbm) b o l
    refine ⟨{ m with bm := some b' }, ?_, rfl, rfl, ?_⟩
    · simp [hb']
    · intro b2 h2
      simp at h2; subst h2; exact hinv

/-- marking never returns an error value, and never touches bytes -/
theorem mark_cases (m : Mem) (b o l : Nat) :
    (∃ m', m.mark b o l = .ok m' ∧ m'.bytes = m.bytes ∧ m'.base = m.base) ∨ m.mark b o l = .panic := by
  unfold Mem.mark
  cases hbm : m.bm with
  | none => exact .inl ⟨m, rfl, rfl, rfl⟩
  | some bm =>
    simp only []
    unfold markVia ABitmap.markDirty ABitmap.setResetAddrRange ABitmap.runProgram
    split
    · exact .inl ⟨_, rfl, rfl, rfl⟩
    · exact .inr rfl

theorem writeAt_cases (m : Mem) (a : Nat) (d : List UInt8) :
    (m.writeAt a d = .ok { m with bytes := splice m.bytes (a - m.base) d } ∧
      (d.length = 0 ∨ (m.base ≤ a ∧ a + d.length ≤ m.base + m.bytes.length))) ∨
    m.writeAt a d = .panic := by
  unfold Mem.writeAt
  split
  · rename_i hb
    left
    refine ⟨rfl, ?_⟩
    simp only [Mem.inBounds, Bool.or_eq_true, beq_iff_eq, Bool.and_eq_true, decide_eq_true_eq] at hb
    omega
  · exact .inr rfl

theorem writeAt_ok (m : Mem) (a : Nat) (d : List UInt8)
    (h : m.base ≤ a ∧ a + d.length ≤ m.base + m.bytes.length) :
    m.writeAt a d = .ok { m with bytes := splice m.bytes (a - m.base) d } := by
  unfold Mem.writeAt
  have : m.inBounds a d.length = true := by simp [Mem.inBounds]; omega
  rw [if_pos this]; rfl

theorem readAt_ok (m : Mem) (a n : Nat) (h : m.base ≤ a ∧ a + n ≤ m.base + m.bytes.length) :
    m.readAt a n = .ok ((m.bytes.drop (a - m.base)).take n) := by
  unfold Mem.readAt
  have : m.inBounds a n = true := by simp [Mem.inBounds]; omega
  rw [if_pos this]

theorem copyToVolatileSlice_spec {m : Mem} {s : VSlice} (hbm : BmInv m) (hin : InB m s)
    (src : List UInt8) (total : Nat) (h1 : total ≤ s.size) (h2 : total ≤ src.length) :
    ∃ m', copyToVolatileSlice m s src total = .ok (m', total) ∧
      m'.bytes = splice m.bytes (s.addr - m.base) (src.take total) ∧
      m'.base = m.base ∧ BmInv m' := by
  unfold copyToVolatileSlice
  have hl : (src.take total).length = total := by simp; omega
  rw [writeAt_ok m s.addr _ (by unfold InB at hin; omega)]
  have hbm1 : BmInv { m with bytes := splice m.bytes (s.addr - m.base) (src.take total) } := hbm
  obtain ⟨m2, hm2, hb, hbase, hinv⟩ := mark_ok hbm1 s.bmBase 0 total
  refine ⟨m2, ?_, hb, hbase, hinv⟩
  simp [hm2]

theorem copyToVolatileSlice_cases (m : Mem) (s : VSlice) (src : List UInt8) (total : Nat) :
    (∃ m', copyToVolatileSlice m s src total = .ok (m', total) ∧
      m'.bytes = splice m.bytes (s.addr - m.base) (src.take total) ∧ m'.base = m.base ∧
      ((src.take total).length = 0 ∨
        (m.base ≤ s.addr ∧ s.addr + (src.take total).length ≤ m.base + m.bytes.length))) ∨
    copyToVolatileSlice m s src total = .panic := by
  unfold copyToVolatileSlice
  rcases writeAt_cases m s.addr (src.take total) with ⟨hw, hb⟩ | hw
  · rw [hw]
    rcases mark_cases { m with bytes := splice m.bytes (s.addr - m.base) (src.take total) } s.bmBase 0 total
      with ⟨m2, hm2, hb2, hbase⟩ | hp
    · left; exact ⟨m2, by simp [hm2], hb2, hbase, hb⟩
    · right; simp [hp]
  · right; simp [hw]

theorem copyFromVolatileSlice_spec {m : Mem} {s : VSlice} (hin : InB m s) (total : Nat)
    (h1 : total ≤ s.size) :
    copyFromVolatileSlice m s total = .ok ((m.bytes.drop (s.addr - m.base)).take total) := by
  unfold copyFromVolatileSlice
  exact readAt_ok m s.addr total (by unfold InB at hin; omega)

theorem copyFromVolatileSlice_cases (m : Mem) (s : VSlice) (total : Nat) :
    copyFromVolatileSlice m s total = .ok ((m.bytes.drop (s.addr - m.base)).take total) ∨
    copyFromVolatileSlice m s total = .panic := by
  unfold copyFromVolatileSlice Mem.readAt
  split
  · exact .inl rfl
  · exact .inr rfl

/-! ### one stream call -/

/-- behaviour of the next call: head of the script, `full` when exhausted -/
def hd (σ : List Beh) : Beh := match σ with | [] => .full | b :: _ => b

/-- number of bytes a non-failing behaviour moves into a buffer of `size` bytes when
    `avail` bytes are available; `none` for the failing behaviours -/
def xfer (b : Beh) (size avail : Nat) : Option Nat :=
  match b with
  | .full => some (min size avail)
  | .short k => some (min (min size avail) k)
  | .zero => some 0
  | .eintr => none
  | .fail => none

def errKind (b : Beh) : Nat := match b with | .eintr => IoKind.interrupted | _ => IoKind.other

theorem xfer_le {b : Beh} {size avail n : Nat} (h : xfer b size avail = some n) :
    n ≤ size ∧ n ≤ avail := by
  cases b <;> simp [xfer] at h <;> omega

theorem xfer_none_iff (b : Beh) (size avail : Nat) :
    xfer b size avail = none ↔ b = .eintr ∨ b = .fail := by
  cases b <;> simp [xfer]

end IoLemmas

namespace Reader
open IoLemmas VolatileLemmas
/-- the reader after one script entry was consumed -/
def next (r : Reader) : Reader := { r with script := r.script.tail }

@[simp] theorem next_kind (r : Reader) : r.next.kind = r.kind := rfl
@[simp] theorem next_data (r : Reader) : r.next.data = r.data := rfl
@[simp] theorem next_pos (r : Reader) : r.next.pos = r.pos := rfl
@[simp] theorem next_script (r : Reader) : r.next.script = r.script.tail := rfl
@[simp] theorem next_avail (r : Reader) : r.next.avail = r.avail := rfl

@[simp] theorem advance_kind (r : Reader) (n : Nat) : (r.advance n).kind = r.kind := by
  cases r with | mk k d p sc => cases k <;> rfl
@[simp] theorem advance_script (r : Reader) (n : Nat) : (r.advance n).script = r.script := by
  cases r with | mk k d p sc => cases k <;> rfl
theorem advance_zero (r : Reader) : r.advance 0 = r := by
  cases r with | mk k d p sc => cases k <;> rfl

theorem advance_avail (r : Reader) (n : Nat) : (r.advance n).avail = r.avail.drop n := by
  cases r with
  | mk k d p sc =>
    cases k <;> simp [advance, avail]
    -- cursor
    omega

theorem advance_advance (r : Reader) (a b : Nat) : (r.advance a).advance b = r.advance (a + b) := by
  cases r with
  | mk k d p sc =>
    cases k <;> simp [advance] <;> omega

/-- `go limit` of `readVolatile` -/
def rvGo (r0 : Reader) (m : Mem) (s : VSlice) (limit : Nat) : Mem × Reader × Res Nat :=
  match copyToVolatileSlice m s r0.avail (min (min s.size r0.avail.length) limit) with
  | .ok (m', n) => (m', r0.advance n, .ok n)
  | .err e => (m, r0, .err e)
  | .panic => (m, r0, .panic)

/-- `failWith k` of `readVolatile` -/
def rvFail (r0 : Reader) (m : Mem) (s : VSlice) (k : Nat) : Mem × Reader × Res Nat :=
  match r0.kind with
  | .fd =>
    match m.mark s.bmBase 0 s.size with
    | .ok m' => (m', r0, .err (ioErr k))
    | _ => (m, r0, .panic)
  | _ => (m, r0, .err (ioErr k))

theorem readVolatile_eq (r : Reader) (m : Mem) (s : VSlice) :
    r.readVolatile m s =
      match hd r.script with
      | .full => rvGo r.next m s s.size
      | .short k => rvGo r.next m s k
      | .zero => (m, r.next, .ok 0)
      | .eintr => rvFail r.next m s IoKind.interrupted
      | .fail => rvFail r.next m s IoKind.other := by
  unfold readVolatile next
  cases hs : r.script with
  | nil => rfl
  | cons b bs => cases b <;> rfl


theorem rvGo_spec {m : Mem} {s : VSlice} (hbm : BmInv m) (hin : InB m s) (r0 : Reader) (limit : Nat) :
    ∃ m', rvGo r0 m s limit =
        (m', r0.advance (min (min s.size r0.avail.length) limit),
          .ok (min (min s.size r0.avail.length) limit)) ∧
      m'.bytes = splice m.bytes (s.addr - m.base)
        (r0.avail.take (min (min s.size r0.avail.length) limit)) ∧
      m'.base = m.base ∧ BmInv m' := by
  obtain ⟨m', h, hb, hbase, hinv⟩ := copyToVolatileSlice_spec hbm hin r0.avail
    (min (min s.size r0.avail.length) limit) (by omega) (by omega)
  exact ⟨m', by unfold rvGo; rw [h], hb, hbase, hinv⟩

/-- a non-failing call: moves `n` bytes, in order, to the front of the slice -/
theorem readVolatile_ok {r : Reader} {m : Mem} {s : VSlice} {n : Nat} (hbm : BmInv m) (hin : InB m s)
    (hx : xfer (hd r.script) s.size r.avail.length = some n) :
    ∃ m', r.readVolatile m s = (m', r.next.advance n, .ok n) ∧
      m'.bytes = splice m.bytes (s.addr - m.base) (r.avail.take n) ∧
      m'.base = m.base ∧ BmInv m' := by
  rw [readVolatile_eq]
  cases hb : hd r.script with
  | full =>
    obtain ⟨m', h, h2⟩ := rvGo_spec hbm hin r.next s.size
    have : n = min (min s.size r.next.avail.length) s.size := by
      simp [hb, xfer] at hx; simp; omega
    rw [← this] at h h2
    exact ⟨m', h, h2⟩
  | short k =>
    obtain ⟨m', h, h2⟩ := rvGo_spec hbm hin r.next k
    have : n = min (min s.size r.next.avail.length) k := by
      simp [hb, xfer] at hx; simp; omega
    rw [← this] at h h2
    exact ⟨m', h, h2⟩
  | zero =>
    have : n = 0 := by simp [hb, xfer] at hx; omega
    subst this
    exact ⟨m, by simp [advance_zero], by simp [splice_nil], rfl, hbm⟩
  | eintr => simp [hb, xfer] at hx
  | fail => simp [hb, xfer] at hx

/-- a failing call of a stream that is not a raw descriptor: nothing but the script moves -/
theorem readVolatile_err {r : Reader} (m : Mem) (s : VSlice) (hk : r.kind ≠ .fd)
    (hx : hd r.script = .eintr ∨ hd r.script = .fail) :
    r.readVolatile m s = (m, r.next, .err (.ioError (errKind (hd r.script)))) := by
  rw [readVolatile_eq]
  have hk' : r.next.kind ≠ .fd := hk
  rcases hx with hx | hx <;> rw [hx] <;> simp only [rvFail, errKind, ioErr] <;>
    cases hkk : r.next.kind <;> simp_all

theorem rvGo_cases (r0 : Reader) (m : Mem) (s : VSlice) (limit : Nat) :
    (∃ m' n, rvGo r0 m s limit = (m', r0.advance n, .ok n)) ∨ rvGo r0 m s limit = (m, r0, .panic) := by
  unfold rvGo
  rcases copyToVolatileSlice_cases m s r0.avail (min (min s.size r0.avail.length) limit) with
    ⟨m', h, _⟩ | h
  · rw [h]; exact .inl ⟨m', _, rfl⟩
  · rw [h]; exact .inr rfl

theorem rvFail_cases (r0 : Reader) (m : Mem) (s : VSlice) (k : Nat) :
    (∃ m', rvFail r0 m s k = (m', r0, .err (.ioError k))) ∨ rvFail r0 m s k = (m, r0, .panic) := by
  unfold rvFail
  cases r0.kind
  case fd =>
    simp only []
    rcases mark_cases m s.bmBase 0 s.size with ⟨m', h, _⟩ | h
    · rw [h]; exact .inl ⟨m', rfl⟩
    · rw [h]; exact .inr rfl
  all_goals exact .inl ⟨m, rfl⟩

/-- the shape of every result of one call, for every kind, script and container -/
theorem readVolatile_shape (r : Reader) (m : Mem) (s : VSlice) :
    (∃ m' n, r.readVolatile m s = (m', r.next.advance n, .ok n)) ∨
    (∃ m', r.readVolatile m s = (m', r.next, .err (.ioError (errKind (hd r.script)))) ∧
      (hd r.script = .eintr ∨ hd r.script = .fail)) ∨
    r.readVolatile m s = (m, r.next, .panic) := by
  rw [readVolatile_eq]
  cases hb : hd r.script with
  | full =>
    rcases rvGo_cases r.next m s s.size with h | h
    · exact .inl h
    · exact .inr (.inr h)
  | short k =>
    rcases rvGo_cases r.next m s k with h | h
    · exact .inl h
    · exact .inr (.inr h)
  | zero => exact .inl ⟨m, 0, by simp [advance_zero]⟩
  | eintr =>
    rcases rvFail_cases r.next m s IoKind.interrupted with ⟨m', h⟩ | h
    · exact .inr (.inl ⟨m', h, .inl rfl⟩)
    · exact .inr (.inr h)
  | fail =>
    rcases rvFail_cases r.next m s IoKind.other with ⟨m', h⟩ | h
    · exact .inr (.inl ⟨m', h, .inr rfl⟩)
    · exact .inr (.inr h)

theorem readRetry_nil {r : Reader} (m : Mem) (s : VSlice) (hs : r.script = []) :
    r.readRetry m s = r.readVolatile m s := by
  unfold readRetry
  split
  · rfl
  · simp_all

theorem readRetry_eintr {r : Reader} (m : Mem) (s : VSlice) (hs : hd r.script = .eintr)
    (hne : r.script ≠ []) (hk : r.kind ≠ .fd) :
    r.readRetry m s = r.next.readRetry m s := by
  have hv := readVolatile_err m s hk (.inl hs)
  rw [hs] at hv
  conv => lhs; unfold readRetry
  split
  · simp_all
  · rename_i b rest hsc
    rw [hv]
    simp only [errKind, ↓reduceIte]
    congr 1
    simp [next, hsc]

theorem readRetry_not_eintr {r : Reader} (m : Mem) (s : VSlice) (hs : hd r.script ≠ .eintr) :
    r.readRetry m s = r.readVolatile m s := by
  conv => lhs; unfold readRetry
  split
  · rfl
  · rcases readVolatile_shape r m s with ⟨m', n, h⟩ | ⟨m', h, hh⟩ | h
    · rw [h]
    · rcases hh with hh | hh
      · exact absurd hh hs
      · rw [h, hh]; simp [errKind, IoKind.other, IoKind.interrupted]
    · rw [h]

/-- `retry_eintr!` = one call on the script with its leading `eintr` entries deleted -/
theorem readRetry_drop_eintr (r : Reader) (m : Mem) (s : VSlice) (hk : r.kind ≠ .fd) :
    r.readRetry m s =
      ({ r with script := r.script.dropWhile (· = .eintr) } : Reader).readVolatile m s := by
  generalize hσ : r.script = σ
  induction σ generalizing r with
  | nil =>
    rw [readRetry_nil m s hσ]
    simp only [List.dropWhile_nil]
    rw [← hσ]
  | cons b rest ih =>
    by_cases hb : b = .eintr
    · subst hb
      rw [readRetry_eintr m s (by simp [hd, hσ]) (by simp [hσ]) hk,
        ih r.next hk (by simp [hσ])]
      simp [List.dropWhile, next]
    · rw [readRetry_not_eintr m s (by simpa [hd, hσ] using hb)]
      simp only [List.dropWhile, hb, decide_false]
      rw [← hσ]

theorem readRetry_eintr_any {r : Reader} (m : Mem) (s : VSlice) (hs : hd r.script = .eintr)
    (hne : r.script ≠ []) :
    (∃ m', r.readRetry m s = r.next.readRetry m' s) ∨ r.readRetry m s = (m, r.next, .panic) := by
  conv => enter [1, 1, m', 1]; unfold readRetry
  conv => enter [2, 1]; unfold readRetry
  split
  · simp_all
  · rename_i b rest hsc
    have hn : ({ r.next with script := rest } : Reader) = r.next := by simp [next, hsc]
    rcases readVolatile_shape r m s with ⟨m', n, h⟩ | ⟨m', h, _⟩ | h
    · rw [readVolatile_eq, hs] at h
      rcases rvFail_cases r.next m s IoKind.interrupted with ⟨m2, h2⟩ | h2 <;> rw [h2] at h <;>
        · have := congrArg (·.2.2) h; simp at this
    · left; refine ⟨m', ?_⟩
      rw [h, hs]; simp only [errKind, ↓reduceIte]; rw [hn]
    · right; rw [h]

/-- `Interrupted` never escapes `retry_eintr!` — any kind, any script, any container -/
theorem readRetry_ne_interrupted (r : Reader) (m : Mem) (s : VSlice) :
    (r.readRetry m s).2.2 ≠ .err (.ioError IoKind.interrupted) := by
  generalize hσ : r.script = σ
  induction σ generalizing r m with
  | nil =>
    rw [readRetry_nil m s hσ]
    rcases readVolatile_shape r m s with ⟨m', n, h⟩ | ⟨m', h, hh⟩ | h
    · rw [h]; simp
    · simp [hd, hσ] at hh
    · rw [h]; simp
  | cons b rest ih =>
    by_cases hb : b = .eintr
    · subst hb
      rcases readRetry_eintr_any m s (r := r) (by simp [hd, hσ]) (by simp [hσ]) with ⟨m', h⟩ | h
      · rw [h]; exact ih r.next m' (by simp [hσ])
      · rw [h]; simp
    · have hb' : hd r.script ≠ .eintr := by simpa [hd, hσ] using hb
      rw [readRetry_not_eintr m s hb']
      rcases readVolatile_shape r m s with ⟨m', n, h⟩ | ⟨m', h, hh⟩ | h
      · rw [h]; simp
      · rcases hh with hh | hh
        · exact absurd hh hb'
        · rw [h, hh]; simp [errKind, IoKind.other, IoKind.interrupted]
      · rw [h]; simp

theorem hd_dropWhile (σ : List Beh) : hd (σ.dropWhile (· = .eintr)) ≠ .eintr := by
  induction σ with
  | nil => simp [hd]
  | cons b rest ih =>
    by_cases hb : b = .eintr
    · simpa [List.dropWhile, hb] using ih
    · simp [List.dropWhile, hb, hd]

/-- the script with its leading `eintr` entries deleted -/
def skipEintr (r : Reader) : Reader := { r with script := r.script.dropWhile (· = .eintr) }
@[simp] theorem skipEintr_kind (r : Reader) : r.skipEintr.kind = r.kind := rfl
@[simp] theorem skipEintr_data (r : Reader) : r.skipEintr.data = r.data := rfl
@[simp] theorem skipEintr_pos (r : Reader) : r.skipEintr.pos = r.pos := rfl
@[simp] theorem skipEintr_avail (r : Reader) : r.skipEintr.avail = r.avail := rfl
theorem skipEintr_hd (r : Reader) : hd r.skipEintr.script ≠ .eintr := hd_dropWhile _

/-- `k` bytes were consumed from the reader, in order, and stored contiguously at offset `o` -/
structure Moved (r : Reader) (m : Mem) (o : Nat) (r' : Reader) (m' : Mem) (k : Nat) : Prop where
  avail : r'.avail = r.avail.drop k
  kind : r'.kind = r.kind
  le : k ≤ r.avail.length
  bytes : m'.bytes = splice m.bytes o (r.avail.take k)
  base : m'.base = m.base
  bm : BmInv m'

theorem Moved.zero {r r' : Reader} {m : Mem} (o : Nat) (hbm : BmInv m) (ha : r'.avail = r.avail)
    (hk : r'.kind = r.kind) : Moved r m o r' m 0 :=
  ⟨by simp [ha], hk, Nat.zero_le _, by simp [splice_nil], rfl, hbm⟩

theorem Moved.length {r r' : Reader} {m m' : Mem} {o k : Nat} (h : Moved r m o r' m' k)
    (ho : o + k ≤ m.bytes.length) : m'.bytes.length = m.bytes.length := by
  rw [h.bytes, splice_length]
  rw [List.length_take_of_le h.le]; exact ho

theorem Moved.trans {r r1 r2 : Reader} {m m1 m2 : Mem} {o k1 k2 : Nat}
    (h1 : Moved r m o r1 m1 k1) (h2 : Moved r1 m1 (o + k1) r2 m2 k2) (ho : o ≤ m.bytes.length) :
    Moved r m o r2 m2 (k1 + k2) where
  avail := by rw [h2.avail, h1.avail, List.drop_drop]
  kind := h2.kind.trans h1.kind
  le := by have := h2.le; rw [h1.avail] at this; simp at this; have := h1.le; omega
  bytes := by
    have hl : (r.avail.take k1).length = k1 := List.length_take_of_le h1.le
    rw [h2.bytes, h1.bytes, h1.avail]
    have := splice_splice m.bytes o (r.avail.take k1) ((r.avail.drop k1).take k2) ho
    rw [hl] at this
    rw [this, List.take_add]
  base := h2.base.trans h1.base
  bm := h2.bm

theorem Moved.frame {r r' : Reader} {m m' : Mem} {o k : Nat} (h : Moved r m o r' m' k)
    (ho : o + k ≤ m.bytes.length) (i : Nat) (hi : i < o ∨ o + k ≤ i) : m'.bytes[i]? = m.bytes[i]? := by
  have hl : (r.avail.take k).length = k := List.length_take_of_le h.le
  rw [h.bytes]
  exact splice_frame _ _ _ (by omega) i (by omega)

/-- the bytes now in the window are the bytes consumed -/
theorem Moved.stored {r r' : Reader} {m m' : Mem} {o k : Nat} (h : Moved r m o r' m' k)
    (ho : o ≤ m.bytes.length) : (m'.bytes.drop o).take k = r.avail.take k := by
  have hl : (r.avail.take k).length = k := List.length_take_of_le h.le
  rw [h.bytes]
  have := splice_read m.bytes o (r.avail.take k) ho
  rw [hl] at this
  exact this

theorem readVolatile_moved {r : Reader} {m : Mem} {s : VSlice} {n : Nat} (hbm : BmInv m) (hin : InB m s)
    (hx : xfer (hd r.script) s.size r.avail.length = some n) :
    ∃ m', r.readVolatile m s = (m', r.next.advance n, .ok n) ∧
      Moved r m (s.addr - m.base) (r.next.advance n) m' n := by
  obtain ⟨m', h, hb, hbase, hinv⟩ := readVolatile_ok hbm hin hx
  exact ⟨m', h, ⟨by rw [advance_avail]; rfl, by simp, (xfer_le hx).2, hb, hbase, hinv⟩⟩

theorem readRetry_eq_skip (r : Reader) (m : Mem) (s : VSlice) (hk : r.kind ≠ .fd) :
    r.readRetry m s = r.skipEintr.readVolatile m s := readRetry_drop_eintr r m s hk

/-- The default `read_exact_volatile` loop, for every script: `k` bytes were consumed in order
    and stored contiguously from the start of `p`; `Ok` iff `k = p.size`; otherwise the error is
    `UnexpectedEof` or the stream's own error; never `Interrupted`, never a panic: the fuel
    `p.size + 1` suffices. -/
theorem readExactLoop_spec (fuel : Nat) (r : Reader) (m : Mem) (p : VSlice) (hk : r.kind ≠ .fd)
    (hbm : BmInv m) (hin : InB m p) (hU : m.base + m.bytes.length < U) (hf : p.size < fuel) :
    ∃ m' r' res k, r.readExactLoop fuel m p = (m', r', res) ∧ k ≤ p.size ∧
      Moved r m (p.addr - m.base) r' m' k ∧
      ((res = .ok () ∧ k = p.size) ∨
       (k < p.size ∧ (res = .err (.ioError IoKind.unexpectedEof) ∨
                      res = .err (.ioError IoKind.other)))) := by
  induction fuel generalizing r m p with
  | zero => omega
  | succ fuel ih =>
    unfold readExactLoop
    by_cases hz : p.size = 0
    · rw [if_pos hz]
      exact ⟨m, r, .ok (), 0, rfl, Nat.zero_le _, Moved.zero _ hbm rfl rfl, .inl ⟨rfl, hz.symm⟩⟩
    · rw [if_neg hz, readRetry_eq_skip r m p hk]
      have hk1 : r.skipEintr.kind ≠ .fd := hk
      cases hx : xfer (hd r.skipEintr.script) p.size r.skipEintr.avail.length with
      | none =>
        have he := (xfer_none_iff _ _ _).1 hx
        have hf' : hd r.skipEintr.script = .fail := by
          rcases he with he | he
          · exact absurd he (skipEintr_hd r)
          · exact he
        rw [readVolatile_err m p hk1 he, hf']
        exact ⟨m, r.skipEintr.next, _, 0, rfl, Nat.zero_le _, Moved.zero _ hbm rfl rfl,
          .inr ⟨by omega, .inr rfl⟩⟩
      | some n =>
        obtain ⟨m', hrv, hmv⟩ := readVolatile_moved hbm hin hx
        have hmv : Moved r m (p.addr - m.base) (r.skipEintr.next.advance n) m' n :=
          ⟨hmv.avail, hmv.kind, hmv.le, hmv.bytes, hmv.base, hmv.bm⟩
        have hn := (xfer_le hx).1
        rw [hrv]
        cases n with
        | zero =>
          exact ⟨m', _, _, 0, rfl, Nat.zero_le _, hmv, .inr ⟨by omega, .inl rfl⟩⟩
        | succ n =>
          have hin' := hin
          unfold InB at hin'
          obtain ⟨p', hoff⟩ : ∃ p', p.offset (n + 1) = .ok p' := by
            rw [offset_eq, if_pos (by omega), if_pos hn]; exact ⟨_, rfl⟩
          obtain ⟨_, _, hpa, hps, _⟩ := offset_ok hoff
          simp only [hoff]
          have hlen := hmv.length (by omega)
          obtain ⟨m2, r2, res, k, h2, hk2, hmv2, hres⟩ :=
            ih (r.skipEintr.next.advance (n + 1)) m' p'
              (by simpa using hk) hmv.bm
              (by unfold InB; simp only [hmv.base, hlen]; omega)
              (by rw [hmv.base, hlen]; exact hU) (by omega)
          have he : p'.addr - m'.base = p.addr - m.base + (n + 1) := by rw [hmv.base]; omega
          rw [he] at hmv2
          refine ⟨m2, r2, res, n + 1 + k, h2, by omega, hmv.trans hmv2 (by omega), ?_⟩
          rcases hres with ⟨h, hkk⟩ | ⟨hkk, h⟩
          · exact .inl ⟨h, by omega⟩
          · exact .inr ⟨by omega, h⟩

end Reader

namespace Writer
open IoLemmas VolatileLemmas

/-- the writer after one script entry was consumed -/
def next (w : Writer) : Writer := { w with script := w.script.tail }
@[simp] theorem next_kind (w : Writer) : w.next.kind = w.kind := rfl
@[simp] theorem next_buf (w : Writer) : w.next.buf = w.buf := rfl
@[simp] theorem next_pos (w : Writer) : w.next.pos = w.pos := rfl
@[simp] theorem next_script (w : Writer) : w.next.script = w.script.tail := rfl
@[simp] theorem next_room (w : Writer) : w.next.room = w.room := rfl

/-- largest amount a `full` call takes out of a slice of `size` bytes -/
def cap (w : Writer) (size : Nat) : Nat :=
  match w.room with | some r => min size r | none => size

theorem cap_le (w : Writer) (size : Nat) : w.cap size ≤ size := by
  unfold cap; split <;> omega

@[simp] theorem accept_kind (w : Writer) (d : List UInt8) : (w.accept d).kind = w.kind := by
  cases w with | mk k b p sc => cases k <;> rfl
@[simp] theorem accept_script (w : Writer) (d : List UInt8) : (w.accept d).script = w.script := by
  cases w with | mk k b p sc => cases k <;> rfl
theorem accept_nil (w : Writer) : w.accept [] = w := by
  cases w with | mk k b p sc => cases k <;> simp [accept, spliceAt]

/-- `go limit` of `writeVolatile` -/
def wvGo (w0 : Writer) (m : Mem) (s : VSlice) (limit : Nat) : Writer × Res Nat :=
  match copyFromVolatileSlice m s (min (w0.cap s.size) limit) with
  | .ok d => (w0.accept d, .ok (min (w0.cap s.size) limit))
  | .err e => (w0, .err e)
  | .panic => (w0, .panic)

theorem writeVolatile_eq (w : Writer) (m : Mem) (s : VSlice) :
    w.writeVolatile m s =
      match hd w.script with
      | .full => wvGo w.next m s s.size
      | .short k => wvGo w.next m s k
      | .zero => (w.next, .ok 0)
      | .eintr => (w.next, .err (.ioError IoKind.interrupted))
      | .fail => (w.next, .err (.ioError IoKind.other)) := by
  unfold writeVolatile next
  cases hs : w.script with
  | nil => rfl
  | cons b bs => cases b <;> rfl

/-- a non-failing call hands the first `n` bytes of the slice to the sink; memory is only read -/
theorem writeVolatile_ok {w : Writer} {m : Mem} {s : VSlice} {n : Nat} (hin : InB m s)
    (hx : xfer (hd w.script) s.size (w.cap s.size) = some n) :
    w.writeVolatile m s = (w.next.accept ((m.bytes.drop (s.addr - m.base)).take n), .ok n) := by
  have hc := cap_le w s.size
  have hgo : ∀ limit, n = min (w.next.cap s.size) limit →
      wvGo w.next m s limit = (w.next.accept ((m.bytes.drop (s.addr - m.base)).take n), .ok n) := by
    intro limit hl
    unfold wvGo
    rw [← hl, copyFromVolatileSlice_spec hin n (by have := cap_le w.next s.size; omega)]
  rw [writeVolatile_eq]
  have hcn : w.next.cap s.size = w.cap s.size := rfl
  cases hb : hd w.script with
  | full => exact hgo _ (by simp [hb, xfer] at hx; rw [hcn]; omega)
  | short k => exact hgo _ (by simp [hb, xfer] at hx; rw [hcn]; omega)
  | zero =>
    have : n = 0 := by simp [hb, xfer] at hx; omega
    subst this
    simp [accept_nil]
  | eintr => simp [hb, xfer] at hx
  | fail => simp [hb, xfer] at hx

theorem writeVolatile_err {w : Writer} (m : Mem) (s : VSlice)
    (hx : hd w.script = .eintr ∨ hd w.script = .fail) :
    w.writeVolatile m s = (w.next, .err (.ioError (errKind (hd w.script)))) := by
  rw [writeVolatile_eq]
  rcases hx with hx | hx <;> rw [hx] <;> rfl

theorem writeVolatile_shape (w : Writer) (m : Mem) (s : VSlice) :
    (∃ d n, w.writeVolatile m s = (w.next.accept d, .ok n)) ∨
    (w.writeVolatile m s = (w.next, .err (.ioError (errKind (hd w.script)))) ∧
      (hd w.script = .eintr ∨ hd w.script = .fail)) ∨
    w.writeVolatile m s = (w.next, .panic) := by
  have hgo : ∀ limit, (∃ d n, wvGo w.next m s limit = (w.next.accept d, .ok n)) ∨
      wvGo w.next m s limit = (w.next, .panic) := by
    intro limit
    unfold wvGo
    rcases copyFromVolatileSlice_cases m s (min (w.next.cap s.size) limit) with h | h
    · rw [h]; exact .inl ⟨_, _, rfl⟩
    · rw [h]; exact .inr rfl
  cases hb : hd w.script with
  | full =>
    rw [writeVolatile_eq, hb]
    rcases hgo s.size with h | h
    · exact .inl h
    · exact .inr (.inr h)
  | short k =>
    rw [writeVolatile_eq, hb]
    rcases hgo k with h | h
    · exact .inl h
    · exact .inr (.inr h)
  | zero => rw [writeVolatile_eq, hb]; exact .inl ⟨[], 0, by simp [accept_nil]⟩
  | eintr => exact .inr (.inl ⟨by rw [writeVolatile_err m s (.inl hb), hb], .inl rfl⟩)
  | fail => exact .inr (.inl ⟨by rw [writeVolatile_err m s (.inr hb), hb], .inr rfl⟩)

theorem writeRetry_nil {w : Writer} (m : Mem) (s : VSlice) (hs : w.script = []) :
    w.writeRetry m s = w.writeVolatile m s := by
  unfold writeRetry
  split
  · rfl
  · simp_all

theorem writeRetry_eintr {w : Writer} (m : Mem) (s : VSlice) (hs : hd w.script = .eintr)
    (hne : w.script ≠ []) : w.writeRetry m s = w.next.writeRetry m s := by
  have hv := writeVolatile_err m s (.inl hs)
  rw [hs] at hv
  conv => lhs; unfold writeRetry
  split
  · simp_all
  · rename_i b rest hsc
    rw [hv]
    simp only [errKind, ↓reduceIte]
    congr 1
    simp [next, hsc]

theorem writeRetry_not_eintr {w : Writer} (m : Mem) (s : VSlice) (hs : hd w.script ≠ .eintr) :
    w.writeRetry m s = w.writeVolatile m s := by
  conv => lhs; unfold writeRetry
  split
  · rfl
  · rcases writeVolatile_shape w m s with ⟨d, n, h⟩ | ⟨h, hh⟩ | h
    · rw [h]
    · rcases hh with hh | hh
      · exact absurd hh hs
      · rw [h, hh]; simp [errKind, IoKind.other, IoKind.interrupted]
    · rw [h]

/-- the script with its leading `eintr` entries deleted -/
def skipEintr (w : Writer) : Writer := { w with script := w.script.dropWhile (· = .eintr) }
@[simp] theorem skipEintr_kind (w : Writer) : w.skipEintr.kind = w.kind := rfl
@[simp] theorem skipEintr_buf (w : Writer) : w.skipEintr.buf = w.buf := rfl
@[simp] theorem skipEintr_pos (w : Writer) : w.skipEintr.pos = w.pos := rfl
theorem skipEintr_hd (w : Writer) : hd w.skipEintr.script ≠ .eintr := Reader.hd_dropWhile _

/-- `retry_eintr!` = one call on the script with its leading `eintr` entries deleted -/
theorem writeRetry_drop_eintr (w : Writer) (m : Mem) (s : VSlice) :
    w.writeRetry m s = w.skipEintr.writeVolatile m s := by
  unfold skipEintr
  generalize hσ : w.script = σ
  induction σ generalizing w with
  | nil =>
    rw [writeRetry_nil m s hσ]
    simp only [List.dropWhile_nil]
    rw [← hσ]
  | cons b rest ih =>
    by_cases hb : b = .eintr
    · subst hb
      rw [writeRetry_eintr m s (by simp [hd, hσ]) (by simp [hσ]), ih w.next (by simp [hσ])]
      simp [List.dropWhile, next]
    · rw [writeRetry_not_eintr m s (by simpa [hd, hσ] using hb)]
      simp only [List.dropWhile, hb, decide_false]
      rw [← hσ]

theorem writeRetry_ne_interrupted (w : Writer) (m : Mem) (s : VSlice) :
    (w.writeRetry m s).2 ≠ .err (.ioError IoKind.interrupted) := by
  rw [writeRetry_drop_eintr]
  rcases writeVolatile_shape w.skipEintr m s with ⟨d, n, h⟩ | ⟨h, hh⟩ | h
  · rw [h]; simp
  · rcases hh with hh | hh
    · exact absurd hh (skipEintr_hd w)
    · rw [h, hh]; simp [errKind, IoKind.other, IoKind.interrupted]
  · rw [h]; simp

theorem room_none_iff (w : Writer) :
    w.room = none ↔ (w.kind = .vec ∨ w.kind = .scripted ∨ w.kind = .fd) := by
  cases w with | mk k b p sc => cases k <;> simp [room]

theorem accept_of_room_none {w : Writer} (h : w.room = none) (d : List UInt8) :
    w.accept d = { w with buf := w.buf ++ d } := by
  cases w with | mk k b p sc => cases k <;> simp [room] at h <;> rfl

theorem cap_of_room_none {w : Writer} (h : w.room = none) (size : Nat) : w.cap size = size := by
  unfold cap; rw [h]

/-- what a sink without a capacity limit received: `d` appended -/
structure Sent (w w' : Writer) (d : List UInt8) : Prop where
  kind : w'.kind = w.kind
  pos : w'.pos = w.pos
  buf : w'.buf = w.buf ++ d

/-- The default `write_all_volatile` loop into a sink without a capacity limit (`Vec`, harness
    stream, descriptor), for every script. -/
theorem writeAllLoop_spec (fuel : Nat) (w : Writer) (m : Mem) (p : VSlice) (hroom : w.room = none)
    (hin : InB m p) (hU : m.base + m.bytes.length < U) (hf : p.size < fuel) :
    ∃ w' res k, w.writeAllLoop fuel m p = (w', res) ∧ k ≤ p.size ∧
      Sent w w' ((m.bytes.drop (p.addr - m.base)).take k) ∧
      ((res = .ok () ∧ k = p.size) ∨
       (k < p.size ∧ (res = .err (.ioError IoKind.writeZero) ∨
                      res = .err (.ioError IoKind.other)))) := by
  induction fuel generalizing w p with
  | zero => omega
  | succ fuel ih =>
    unfold writeAllLoop
    by_cases hz : p.size = 0
    · rw [if_pos hz]
      exact ⟨w, .ok (), 0, rfl, Nat.zero_le _, ⟨rfl, rfl, by simp⟩, .inl ⟨rfl, hz.symm⟩⟩
    · rw [if_neg hz, writeRetry_drop_eintr]
      have hroom1 : w.skipEintr.room = none := hroom
      cases hx : xfer (hd w.skipEintr.script) p.size (w.skipEintr.cap p.size) with
      | none =>
        have he := (xfer_none_iff _ _ _).1 hx
        have hf' : hd w.skipEintr.script = .fail := by
          rcases he with he | he
          · exact absurd he (skipEintr_hd w)
          · exact he
        rw [writeVolatile_err m p he, hf']
        exact ⟨w.skipEintr.next, _, 0, rfl, Nat.zero_le _, ⟨rfl, rfl, by simp⟩,
          .inr ⟨by omega, .inr rfl⟩⟩
      | some n =>
        have hn := (xfer_le hx).1
        rw [writeVolatile_ok hin hx, accept_of_room_none (w := w.skipEintr.next) hroom]
        cases n with
        | zero =>
          exact ⟨_, _, 0, rfl, Nat.zero_le _, ⟨rfl, rfl, rfl⟩, .inr ⟨by omega, .inl rfl⟩⟩
        | succ n =>
          have hin' := hin
          unfold InB at hin'
          obtain ⟨p', hoff⟩ : ∃ p', p.offset (n + 1) = .ok p' := by
            rw [offset_eq, if_pos (by omega), if_pos hn]; exact ⟨_, rfl⟩
          obtain ⟨_, _, hpa, hps, _⟩ := offset_ok hoff
          simp only [hoff]
          obtain ⟨w2, res, k, h2, hk2, hs2, hres⟩ :=
            ih { w.skipEintr.next with
                 buf := w.skipEintr.next.buf ++ (m.bytes.drop (p.addr - m.base)).take (n + 1) } p'
              (by rw [room_none_iff] at hroom ⊢; exact hroom) (by unfold InB; omega) (by omega)
          have he : p'.addr - m.base = p.addr - m.base + (n + 1) := by omega
          refine ⟨w2, res, n + 1 + k, h2, by omega, ⟨hs2.kind, hs2.pos, ?_⟩, ?_⟩
          · rw [hs2.buf, he, List.take_add (i := n + 1) (j := k), List.drop_drop, List.append_assoc]
            rfl
          · rcases hres with ⟨h, hkk⟩ | ⟨hkk, h⟩
            · exact .inl ⟨h, by omega⟩
            · exact .inr ⟨by omega, h⟩

end Writer
end VmMem
