/-
  VmMem.Lemmas.CopyLemmas — helper lemmas about `alignment`, `copyLoop`, `copyPass`
  used by VmMem.Props.C06.  Core Lean only.
-/
import VmMem.Model.Copy
namespace VmMem
namespace CopyLemmas

/-! ### lowest set bit -/

theorem alignment_eq_and_neg (a : BitVec 64) : alignment a = a &&& -a := by
  simp [alignment, BitVec.neg_eq_not_add]

/-- a set bit has a lowest set bit below (or at) it -/
theorem exists_lowest_bit {w : Nat} (a : BitVec w) :
    ∀ n, a.getLsbD n = true →
      ∃ j, j ≤ n ∧ a.getLsbD j = true ∧ ∀ i, i < j → a.getLsbD i = false := by
  intro n
  induction n using Nat.strongRecOn with
  | _ n ih =>
    intro hn
    by_cases h : ∃ i, i < n ∧ a.getLsbD i = true
    · obtain ⟨i, hi, hbit⟩ := h
      obtain ⟨j, hj, hjb, hlow⟩ := ih i hi hbit
      exact ⟨j, by omega, hjb, hlow⟩
    · refine ⟨n, Nat.le_refl _, hn, ?_⟩
      intro i hi
      cases hb : a.getLsbD i with
      | false => rfl
      | true => exact absurd ⟨i, hi, hb⟩ h

theorem exists_bit_of_ne_zero {w : Nat} (a : BitVec w) (h0 : a ≠ 0) :
    ∃ n, n < w ∧ a.getLsbD n = true := by
  apply Classical.byContradiction
  intro hne
  apply h0
  apply BitVec.eq_of_getLsbD_eq
  intro i hi
  cases hb : a.getLsbD i with
  | false => simp
  | true => exact absurd ⟨i, hi, hb⟩ hne

/-- the lowest set bit of a non-zero word -/
theorem lowest_bit (a : BitVec 64) (h0 : a ≠ 0) :
    ∃ j, j < 64 ∧ a.getLsbD j = true ∧ ∀ i, i < j → a.getLsbD i = false := by
  obtain ⟨n, hn, hb⟩ := exists_bit_of_ne_zero a h0
  obtain ⟨j, hj, hjb, hlow⟩ := exists_lowest_bit a n hb
  exact ⟨j, by omega, hjb, hlow⟩

/-- `alignment a` is exactly the lowest set bit of `a` -/
theorem alignment_eq_twoPow (a : BitVec 64) (j : Nat) (hj : j < 64)
    (hjb : a.getLsbD j = true) (hlow : ∀ i, i < j → a.getLsbD i = false) :
    alignment a = BitVec.twoPow 64 j := by
  rw [alignment_eq_and_neg]
  apply BitVec.eq_of_getLsbD_eq
  intro i hi
  rw [BitVec.getLsbD_and, BitVec.getLsbD_neg, BitVec.getLsbD_twoPow]
  by_cases hij : i = j
  · subst hij
    have : ¬ ∃ k, k < i ∧ a.getLsbD k = true := by
      rintro ⟨k, hk, hkb⟩
      rw [hlow k hk] at hkb
      exact Bool.noConfusion hkb
    simp [hjb, hi, this]
  · by_cases hlt : i < j
    · have := hlow i hlt
      simp [this]
      omega
    · have : ∃ k, k < i ∧ a.getLsbD k = true := ⟨j, by omega, hjb⟩
      have hji : ¬ j = i := fun h => hij h.symm
      simp [this, hi, hji]

theorem mod_two_pow_eq_zero_of_low_bits (n j : Nat)
    (hlow : ∀ i, i < j → n.testBit i = false) : n % 2 ^ j = 0 := by
  apply Nat.eq_of_testBit_eq
  intro i
  rw [Nat.testBit_mod_two_pow, Nat.zero_testBit]
  by_cases hi : i < j
  · simp [hlow i hi]
  · simp [hi]

/-- for `a ≠ 0`: `alignment a = 2^j` with `j < 64`, bit `j` of `a` set and `2^j ∣ a` -/
theorem alignment_spec (a : BitVec 64) (h0 : a ≠ 0) :
    ∃ j, j < 64 ∧ (alignment a).toNat = 2 ^ j ∧ a.toNat.testBit j = true ∧
      a.toNat % 2 ^ j = 0 := by
  obtain ⟨j, hj, hjb, hlow⟩ := lowest_bit a h0
  refine ⟨j, hj, ?_, ?_, ?_⟩
  · rw [alignment_eq_twoPow a j hj hjb hlow, BitVec.toNat_twoPow]
    apply Nat.mod_eq_of_lt
    exact Nat.pow_lt_pow_right (by decide) hj
  · rw [BitVec.testBit_toNat]; exact hjb
  · apply mod_two_pow_eq_zero_of_low_bits
    intro i hi
    rw [BitVec.testBit_toNat]; exact hlow i hi

theorem alignment_zero : alignment 0 = 0 := by decide

theorem alignment_ge (a : BitVec 64) (k : Nat) (h0 : a ≠ 0) (h : a.toNat % 2 ^ k = 0) :
    2 ^ k ≤ (alignment a).toNat := by
  obtain ⟨j, _, hal, hbit, _⟩ := alignment_spec a h0
  rw [hal]
  apply Nat.pow_le_pow_right (by decide)
  apply Classical.byContradiction
  intro hkj
  have hlt : j < k := by omega
  have := Nat.testBit_mod_two_pow a.toNat k j
  rw [h, Nat.zero_testBit, hbit] at this
  simp [hlt] at this

theorem alignment_dvd (a : BitVec 64) : (alignment a).toNat ∣ a.toNat := by
  by_cases h0 : a = 0
  · subst h0; rw [alignment_zero]; exact Nat.dvd_refl _
  · obtain ⟨j, _, hal, _, hmod⟩ := alignment_spec a h0
    rw [hal]; exact Nat.dvd_of_mod_eq_zero hmod

theorem alignment_pos (a : BitVec 64) (h0 : a ≠ 0) : 1 ≤ (alignment a).toNat := by
  have := alignment_ge a 0 h0 (by simp [Nat.mod_one])
  simpa using this

/-- a power of two not exceeding the alignment divides the address -/
theorem alignment_le_dvd (a : BitVec 64) (i : Nat) (h0 : a ≠ 0)
    (hle : 2 ^ i ≤ (alignment a).toNat) : a.toNat % 2 ^ i = 0 := by
  obtain ⟨j, _, hal, _, hmod⟩ := alignment_spec a h0
  rw [hal] at hle
  have hij : i ≤ j := (Nat.pow_le_pow_iff_right (by decide)).1 hle
  have h1 : 2 ^ i ∣ 2 ^ j := Nat.pow_dvd_pow 2 hij
  have h2 : 2 ^ j ∣ a.toNat := Nat.dvd_of_mod_eq_zero hmod
  exact Nat.mod_eq_zero_of_dvd (Nat.dvd_trans h1 h2)

/-! ### the copy loop -/

/-- `n` accesses of width `w` at offsets `off, off+w, …` -/
def stride (w off n : Nat) : List Access :=
  (List.range n).map (fun i => (⟨w, off + i * w⟩ : Access))

theorem stride_zero (w off : Nat) : stride w off 0 = [] := rfl

theorem stride_succ (w off n : Nat) :
    stride w off (n + 1) = ⟨w, off⟩ :: stride w (off + w) n := by
  simp only [stride, List.range_succ_eq_map, List.map_cons, List.map_map]
  congr 1
  · simp
  · apply List.map_congr_left
    intro i _
    simp [Nat.add_mul]; omega

theorem copyLoop_spec (w left off : Nat) (hw : 0 < w) :
    (copyLoop w left off).1 = (List.range (left / w)).map (fun i => (⟨w, off + i * w⟩ : Access)) ∧
    (copyLoop w left off).2.1 = left % w ∧
    (copyLoop w left off).2.2 = off + left / w * w := by
  induction left using Nat.strongRecOn generalizing off with
  | _ left ih =>
    rw [copyLoop]
    by_cases h : left ≥ w
    · have hc : left ≥ w ∧ w > 0 := ⟨h, hw⟩
      obtain ⟨ih1, ih2, ih3⟩ := ih (left - w) (by omega) (off + w)
      have hdiv : left / w = (left - w) / w + 1 := Nat.div_eq_sub_div hw h
      have hmod : left % w = (left - w) % w := Nat.mod_eq_sub_mod h
      simp only [hc, and_self, dite_true, ih1, ih2, ih3, hdiv, hmod, List.range_succ_eq_map,
        List.map_cons, List.map_map]
      refine ⟨?_, trivial, ?_⟩
      · congr 1
        · simp
        · apply List.map_congr_left
          intro i _
          simp [Nat.add_mul]; omega
      · simp [Nat.add_mul]; omega
    · have hc : ¬ (left ≥ w ∧ w > 0) := fun hh => h hh.1
      have hlt : left < w := by omega
      simp [hc, Nat.div_eq_of_lt hlt, Nat.mod_eq_of_lt hlt]

theorem copyLoop_eq (w left off : Nat) (hw : 0 < w) :
    copyLoop w left off = (stride w off (left / w), left % w, off + left / w * w) := by
  obtain ⟨h1, h2, h3⟩ := copyLoop_spec w left off hw
  apply Prod.ext
  · exact h1
  · apply Prod.ext
    · exact h2
    · exact h3

theorem copyPass_eq (a w left off : Nat) (hw : 0 < w) :
    copyPass a w left off =
      if a < w then ([], left, off)
      else (stride w off (left / w), left % w, off + left / w * w) := by
  unfold copyPass
  rw [copyLoop_eq w left off hw]

/-! ### tiling -/

/-- sum of the widths of a list of accesses -/
def widthSum (l : List Access) : Nat := (l.map (·.width)).sum

@[simp] theorem widthSum_nil : widthSum [] = 0 := rfl
@[simp] theorem widthSum_cons (a : Access) (l : List Access) :
    widthSum (a :: l) = a.width + widthSum l := by simp [widthSum]
@[simp] theorem widthSum_append (l₁ l₂ : List Access) :
    widthSum (l₁ ++ l₂) = widthSum l₁ + widthSum l₂ := by simp [widthSum]

end CopyLemmas

/-- `tiles l o`: the accesses of `l`, in order, tile a contiguous range starting at
    offset `o` — each access starts exactly where the previous one ended (no gap, no
    overlap, increasing order). -/
def tiles : List Access → Nat → Prop
  | [], _ => True
  | a :: as, o => a.off = o ∧ tiles as (o + a.width)

namespace CopyLemmas

@[simp] theorem tiles_nil (o : Nat) : tiles [] o = True := rfl
@[simp] theorem tiles_cons (a : Access) (l : List Access) (o : Nat) :
    tiles (a :: l) o = (a.off = o ∧ tiles l (o + a.width)) := rfl

theorem tiles_append (l₁ l₂ : List Access) (o : Nat) :
    tiles (l₁ ++ l₂) o ↔ tiles l₁ o ∧ tiles l₂ (o + widthSum l₁) := by
  induction l₁ generalizing o with
  | nil => simp
  | cons a l ih => simp [ih, Nat.add_assoc, and_assoc]

theorem widthSum_stride (w off n : Nat) : widthSum (stride w off n) = n * w := by
  induction n generalizing off with
  | zero => simp [stride_zero]
  | succ n ih => rw [stride_succ, widthSum_cons, ih, Nat.add_mul]; simp; omega

theorem tiles_stride (w off n : Nat) : tiles (stride w off n) off := by
  induction n generalizing off with
  | zero => simp [stride_zero]
  | succ n ih => rw [stride_succ]; exact ⟨rfl, ih (off + w)⟩

theorem mem_stride {w off n : Nat} {x : Access} (h : x ∈ stride w off n) :
    x.width = w ∧ ∃ i, i < n ∧ x.off = off + i * w := by
  simp only [stride, List.mem_map, List.mem_range] at h
  obtain ⟨i, hi, rfl⟩ := h
  exact ⟨rfl, i, hi, rfl⟩

/-- everything the plan-level theorems need to know about one pass -/
theorem copyPass_inv (a w left off : Nat) (hw : 0 < w) :
    widthSum (copyPass a w left off).1 + (copyPass a w left off).2.1 = left ∧
    (copyPass a w left off).2.2 = off + widthSum (copyPass a w left off).1 ∧
    tiles (copyPass a w left off).1 off ∧
    (∃ n, (copyPass a w left off).2.2 = off + n * w) ∧
    (∀ x, x ∈ (copyPass a w left off).1 → x.width = w ∧ w ≤ a ∧ ∃ i, x.off = off + i * w) ∧
    (w ≤ a → (copyPass a w left off).2.1 = left % w) := by
  rw [copyPass_eq a w left off hw]
  by_cases h : a < w
  · simp only [h, if_true]
    refine ⟨by simp, by simp, trivial, ⟨0, by simp⟩, ?_, ?_⟩
    · intro x hx; cases hx
    · intro hle; omega
  · simp only [h, if_false]
    refine ⟨?_, ?_, tiles_stride _ _ _, ⟨left / w, rfl⟩, ?_, fun _ => trivial⟩
    · rw [widthSum_stride]; exact Nat.div_add_mod' left w
    · rw [widthSum_stride]
    · intro x hx
      obtain ⟨h1, i, _, h2⟩ := mem_stride hx
      exact ⟨h1, by omega, i, h2⟩

end CopyLemmas
end VmMem
