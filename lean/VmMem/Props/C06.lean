/-
  VmMem.Props.C06 — properties of `copy_slice_volatile` / `copy_slice`
  (volatile_memory.rs) as modelled in VmMem.Model.Copy.

  Hypotheses `src ≠ 0`, `dst ≠ 0`: `alignment 0 = 0`, so for a null pointer the Rust
  code computes `align = 0`, every `copy_aligned_slice(min_align)` returns early and
  nothing is copied (`plan_null_src`, `plan_null_dst` below make this visible).  Host
  pointers of live allocations (the only values `copy_slice_impl` is ever called with)
  are non-null, so the hypotheses are discharged at every call site.
-/
import VmMem.Lemmas.CopyLemmas
namespace VmMem.C06
open VmMem VmMem.CopyLemmas

/-! ## 1. alignment -/

/-- the computed alignment is at least any power of two dividing a non-zero address -/
theorem alignment_ge (a : BitVec 64) (k : Nat) (h0 : a ≠ 0) (h : a.toNat % 2 ^ k = 0) :
    2 ^ k ≤ (alignment a).toNat :=
  CopyLemmas.alignment_ge a k h0 h

/-- the computed alignment divides the address (also at `0`, where it is `0`) -/
theorem alignment_dvd (a : BitVec 64) : (alignment a).toNat ∣ a.toNat :=
  CopyLemmas.alignment_dvd a

/-- for a non-zero address the alignment is a power of two: the lowest set bit -/
theorem alignment_pow2 (a : BitVec 64) (h0 : a ≠ 0) :
    ∃ j, j < 64 ∧ (alignment a).toNat = 2 ^ j ∧ a.toNat.testBit j = true ∧
      a.toNat % 2 ^ j = 0 :=
  CopyLemmas.alignment_spec a h0

/-- a power of two not exceeding the alignment divides the address -/
theorem alignment_le_dvd (a : BitVec 64) (i : Nat) (h0 : a ≠ 0)
    (hle : 2 ^ i ≤ (alignment a).toNat) : a.toNat % 2 ^ i = 0 :=
  CopyLemmas.alignment_le_dvd a i h0 hle

theorem alignment_null : alignment 0 = 0 := CopyLemmas.alignment_zero

/-! ## 2. the loop -/

theorem copyLoop_spec (w left off : Nat) (hw : 0 < w) :
    (copyLoop w left off).1 = (List.range (left / w)).map (fun i => (⟨w, off + i * w⟩ : Access)) ∧
    (copyLoop w left off).2.1 = left % w ∧
    (copyLoop w left off).2.2 = off + left / w * w :=
  CopyLemmas.copyLoop_spec w left off hw

/-! ## 3. the plan copies every byte exactly once, in order -/

private theorem min_align_pos (src dst : BitVec 64) (hs : src ≠ 0) (hd : dst ≠ 0) :
    1 ≤ min (alignment src).toNat (alignment dst).toNat :=
  Nat.le_min.2 ⟨alignment_pos src hs, alignment_pos dst hd⟩

/-- joint invariant of the four passes, for an arbitrary `align` -/
private theorem plan_inv (src dst : BitVec 64) (total : Nat) :
    let a := min (alignment src).toNat (alignment dst).toNat
    widthSum (copyPlan src dst total) ≤ total ∧
    (1 ≤ a → widthSum (copyPlan src dst total) = total) ∧
    tiles (copyPlan src dst total) 0 ∧
    (∀ x, x ∈ copyPlan src dst total →
      (x.width = 1 ∨ x.width = 2 ∨ x.width = 4 ∨ x.width = 8) ∧ x.width ≤ a ∧
        x.off % x.width = 0) := by
  simp only [copyPlan]
  generalize min (alignment src).toNat (alignment dst).toNat = a
  obtain ⟨s8, o8, t8, ⟨n8, e8⟩, m8, -⟩ := copyPass_inv a 8 total 0 (by decide)
  generalize copyPass a 8 total 0 = p8 at *
  obtain ⟨s4, o4, t4, ⟨n4, e4⟩, m4, -⟩ := copyPass_inv a 4 p8.2.1 p8.2.2 (by decide)
  generalize copyPass a 4 p8.2.1 p8.2.2 = p4 at *
  obtain ⟨s2, o2, t2, ⟨n2, e2⟩, m2, -⟩ := copyPass_inv a 2 p4.2.1 p4.2.2 (by decide)
  generalize copyPass a 2 p4.2.1 p4.2.2 = p2 at *
  obtain ⟨s1, o1, t1, -, m1, r1⟩ := copyPass_inv a 1 p2.2.1 p2.2.2 (by decide)
  generalize copyPass a 1 p2.2.1 p2.2.2 = p1 at *
  refine ⟨?_, ?_, ?_, ?_⟩
  · simp only [widthSum_append]; omega
  · intro ha
    have := r1 ha
    simp only [widthSum_append]; omega
  · simp only [tiles_append, widthSum_append]
    refine ⟨⟨⟨t8, ?_⟩, ?_⟩, ?_⟩
    · rw [← o8]; exact t4
    · have : 0 + (widthSum p8.1 + widthSum p4.1) = p4.2.2 := by omega
      rw [this]; exact t2
    · have : 0 + (widthSum p8.1 + widthSum p4.1 + widthSum p2.1) = p2.2.2 := by omega
      rw [this]; exact t1
  · intro x hx
    simp only [List.mem_append] at hx
    rcases hx with ((hx | hx) | hx) | hx
    · obtain ⟨hw, hle, i, hi⟩ := m8 x hx
      exact ⟨by omega, by omega, by rw [hw]; omega⟩
    · obtain ⟨hw, hle, i, hi⟩ := m4 x hx
      exact ⟨by omega, by omega, by rw [hw]; omega⟩
    · obtain ⟨hw, hle, i, hi⟩ := m2 x hx
      exact ⟨by omega, by omega, by rw [hw]; omega⟩
    · obtain ⟨hw, hle, i, hi⟩ := m1 x hx
      exact ⟨by omega, by omega, by rw [hw]; omega⟩

/-- all bytes are copied: the widths of the plan add up to `total` -/
theorem plan_total (src dst : BitVec 64) (total : Nat) (hs : src ≠ 0) (hd : dst ≠ 0) :
    ((copyPlan src dst total).map (·.width)).sum = total :=
  (plan_inv src dst total).2.1 (min_align_pos src dst hs hd)

/-- the accesses tile `[0, total)` in increasing order with no gap and no overlap:
    each access starts where the previous one ended, the first one at `0`
    (and by `plan_total` the last one ends at `total`).  Holds for all pointers. -/
theorem plan_contiguous (src dst : BitVec 64) (total : Nat) :
    tiles (copyPlan src dst total) 0 :=
  (plan_inv src dst total).2.2.1

/-- `tiles` unfolded: the `i`-th access starts at the sum of the widths before it -/
theorem tiles_getElem (l : List Access) (o i : Nat) (h : tiles l o) (hi : i < l.length) :
    l[i].off = o + ((l.take i).map (·.width)).sum := by
  induction l generalizing o i with
  | nil => cases hi
  | cons a l ih =>
    obtain ⟨h1, h2⟩ := h
    cases i with
    | zero => simpa using h1
    | succ i =>
      have := ih (o + a.width) i h2 (by simpa using hi)
      simp only [List.getElem_cons_succ, List.take_succ_cons, List.map_cons, List.sum_cons]
      omega

/-- without the non-null hypotheses only `≤` holds … -/
theorem plan_total_le (src dst : BitVec 64) (total : Nat) :
    ((copyPlan src dst total).map (·.width)).sum ≤ total :=
  (plan_inv src dst total).1

/-- … because at a null pointer `alignment = 0` and no pass runs: nothing is copied -/
theorem plan_null_src (dst : BitVec 64) (total : Nat) : copyPlan 0 dst total = [] := by
  have h0 : (alignment 0#64).toNat = 0 := by decide
  simp [copyPlan, copyPass, h0]

theorem plan_null_dst (src : BitVec 64) (total : Nat) : copyPlan src 0 total = [] := by
  have h0 : (alignment 0#64).toNat = 0 := by decide
  simp [copyPlan, copyPass, h0]

/-- so `plan_total` is false without `src ≠ 0` -/
example : ((copyPlan 0 0x2008 8).map (·.width)).sum ≠ 8 := by
  rw [plan_null_src]; decide

/-! ## 4. an aligned 1/2/4/8-byte transfer is one access -/

private theorem min_align_ge (src dst : BitVec 64) (k : Nat) (hs : src ≠ 0) (hd : dst ≠ 0)
    (hsa : src.toNat % 2 ^ k = 0) (hda : dst.toNat % 2 ^ k = 0) :
    2 ^ k ≤ min (alignment src).toNat (alignment dst).toNat :=
  Nat.le_min.2 ⟨CopyLemmas.alignment_ge src k hs hsa, CopyLemmas.alignment_ge dst k hd hda⟩

theorem single_access (src dst : BitVec 64) (w : Nat)
    (hw : w = 1 ∨ w = 2 ∨ w = 4 ∨ w = 8) (hs : src ≠ 0) (hd : dst ≠ 0)
    (hsa : src.toNat % w = 0) (hda : dst.toNat % w = 0) :
    copyPlan src dst w = [⟨w, 0⟩] := by
  have h8 : (0 : Nat) < 8 := by decide
  have h4 : (0 : Nat) < 4 := by decide
  have h2 : (0 : Nat) < 2 := by decide
  have h1 : (0 : Nat) < 1 := by decide
  rcases hw with rfl | rfl | rfl | rfl
  · have ha := min_align_ge src dst 0 hs hd hsa hda
    simp only [copyPlan]
    generalize min (alignment src).toNat (alignment dst).toNat = a at ha
    simp only [copyPass_eq _ _ _ _ h8, copyPass_eq _ _ _ _ h4, copyPass_eq _ _ _ _ h2,
      copyPass_eq _ _ _ _ h1]
    have : ¬ a < 1 := by omega
    by_cases c8 : a < 8 <;> by_cases c4 : a < 4 <;> by_cases c2 : a < 2 <;>
      simp [c8, c4, c2, this, stride]
  · have ha := min_align_ge src dst 1 hs hd hsa hda
    simp only [copyPlan]
    generalize min (alignment src).toNat (alignment dst).toNat = a at ha
    simp only [copyPass_eq _ _ _ _ h8, copyPass_eq _ _ _ _ h4, copyPass_eq _ _ _ _ h2,
      copyPass_eq _ _ _ _ h1]
    have : ¬ a < 1 := by omega
    have c2 : ¬ a < 2 := by omega
    by_cases c8 : a < 8 <;> by_cases c4 : a < 4 <;>
      simp [c8, c4, c2, this, stride]
  · have ha := min_align_ge src dst 2 hs hd hsa hda
    simp only [copyPlan]
    generalize min (alignment src).toNat (alignment dst).toNat = a at ha
    simp only [copyPass_eq _ _ _ _ h8, copyPass_eq _ _ _ _ h4, copyPass_eq _ _ _ _ h2,
      copyPass_eq _ _ _ _ h1]
    have : ¬ a < 1 := by omega
    have c2 : ¬ a < 2 := by omega
    have c4 : ¬ a < 4 := by omega
    by_cases c8 : a < 8 <;>
      simp [c8, c4, c2, this, stride]
  · have ha := min_align_ge src dst 3 hs hd hsa hda
    simp only [copyPlan]
    generalize min (alignment src).toNat (alignment dst).toNat = a at ha
    simp only [copyPass_eq _ _ _ _ h8, copyPass_eq _ _ _ _ h4, copyPass_eq _ _ _ _ h2,
      copyPass_eq _ _ _ _ h1]
    have : ¬ a < 1 := by omega
    have c2 : ¬ a < 2 := by omega
    have c4 : ¬ a < 4 := by omega
    have c8 : ¬ a < 8 := by omega
    simp [c8, c4, c2, this, stride]

theorem single_access_trace (src dst : BitVec 64) (w : Nat)
    (hw : w = 1 ∨ w = 2 ∨ w = 4 ∨ w = 8) (hs : src ≠ 0) (hd : dst ≠ 0)
    (hsa : src.toNat % w = 0) (hda : dst.toNat % w = 0) :
    copySliceTrace src dst w = .volatile [⟨w, 0⟩] := by
  have hle : w ≤ 8 := by omega
  simp only [copySliceTrace, hle, if_true, single_access src dst w hw hs hd hsa hda]

/-! ## 6. above the threshold: one bulk copy -/

theorem bulk_above_threshold (src dst : BitVec 64) (total : Nat) (h : 8 < total) :
    copySliceTrace src dst total = .bulk total := by
  have : ¬ total ≤ 8 := by omega
  simp only [copySliceTrace, this, if_false]

/-- and at or below it: the volatile plan -/
theorem volatile_at_threshold (src dst : BitVec 64) (total : Nat) (h : total ≤ 8) :
    copySliceTrace src dst total = .volatile (copyPlan src dst total) := by
  simp only [copySliceTrace, h, if_true]

/-! ## 5. every primitive access is a naturally aligned 1/2/4/8-byte access -/

theorem widths_valid (src dst : BitVec 64) (total : Nat) :
    ∀ x, x ∈ copyPlan src dst total →
      x.width = 1 ∨ x.width = 2 ∨ x.width = 4 ∨ x.width = 8 :=
  fun x hx => ((plan_inv src dst total).2.2.2 x hx).1

private theorem mod_of_parts (s o w : Nat) (h1 : s % w = 0) (h2 : o % w = 0) :
    (s + o) % w = 0 := by
  rw [Nat.add_mod, h1, h2]; simp

theorem accesses_aligned (src dst : BitVec 64) (total : Nat) (hs : src ≠ 0) (hd : dst ≠ 0) :
    ∀ x, x ∈ copyPlan src dst total →
      (src.toNat + x.off) % x.width = 0 ∧ (dst.toNat + x.off) % x.width = 0 := by
  intro x hx
  obtain ⟨hw, hle, hoff⟩ := (plan_inv src dst total).2.2.2 x hx
  have hls : x.width ≤ (alignment src).toNat := Nat.le_trans hle (Nat.min_le_left _ _)
  have hld : x.width ≤ (alignment dst).toNat := Nat.le_trans hle (Nat.min_le_right _ _)
  have key : ∀ i, x.width = 2 ^ i →
      (src.toNat + x.off) % x.width = 0 ∧ (dst.toNat + x.off) % x.width = 0 := by
    intro i hi
    have h1 := CopyLemmas.alignment_le_dvd src i hs (hi ▸ hls)
    have h2 := CopyLemmas.alignment_le_dvd dst i hd (hi ▸ hld)
    rw [← hi] at h1 h2
    exact ⟨mod_of_parts _ _ _ h1 hoff, mod_of_parts _ _ _ h2 hoff⟩
  rcases hw with h | h | h | h
  · exact key 0 h
  · exact key 1 h
  · exact key 2 h
  · exact key 3 h

/-! ## 7. non-vacuity -/

example : copyPlan 0x1004 0x2008 7 = [⟨4, 0⟩, ⟨2, 4⟩, ⟨1, 6⟩] := by
  have ha : min (alignment 0x1004#64).toNat (alignment 0x2008#64).toNat = 4 := by decide
  simp [copyPlan, ha, copyPass_eq, stride]

example : copyPlan 0x1008 0x2008 8 = [⟨8, 0⟩] := by
  have ha : min (alignment 0x1008#64).toNat (alignment 0x2008#64).toNat = 8 := by decide
  simp [copyPlan, ha, copyPass_eq, stride]

/-- a misaligned 8-byte copy is eight 1-byte accesses: the alignment hypotheses of
    `single_access` are necessary -/
example : copyPlan 0x1001 0x2008 8 =
    [⟨1, 0⟩, ⟨1, 1⟩, ⟨1, 2⟩, ⟨1, 3⟩, ⟨1, 4⟩, ⟨1, 5⟩, ⟨1, 6⟩, ⟨1, 7⟩] := by
  have ha : min (alignment 0x1001#64).toNat (alignment 0x2008#64).toNat = 1 := by decide
  simp [copyPlan, ha, copyPass_eq, stride, List.range_succ]

example : copySliceTrace 0x1008 0x2008 8 = .volatile [⟨8, 0⟩] :=
  single_access_trace 0x1008 0x2008 8 (by decide) (by decide) (by decide) (by decide) (by decide)

example : copySliceTrace 0x1008 0x2008 9 = .bulk 9 :=
  bulk_above_threshold _ _ 9 (by decide)

example : alignment 0x1004 = 4 := by decide
example : alignment 0x2008 = 8 := by decide
example : alignment 0 = 0 := by decide

end VmMem.C06

#print axioms VmMem.C06.alignment_ge
#print axioms VmMem.C06.alignment_dvd
#print axioms VmMem.C06.alignment_pow2
#print axioms VmMem.C06.alignment_le_dvd
#print axioms VmMem.C06.copyLoop_spec
#print axioms VmMem.C06.plan_total
#print axioms VmMem.C06.plan_contiguous
#print axioms VmMem.C06.tiles_getElem
#print axioms VmMem.C06.plan_total_le
#print axioms VmMem.C06.plan_null_src
#print axioms VmMem.C06.plan_null_dst
#print axioms VmMem.C06.single_access
#print axioms VmMem.C06.single_access_trace
#print axioms VmMem.C06.widths_valid
#print axioms VmMem.C06.accesses_aligned
#print axioms VmMem.C06.bulk_above_threshold
#print axioms VmMem.C06.volatile_at_threshold
