/-
  VmMem.Props.C17 — pointer guards span their accessor; on-demand windows cover every
  access and are released.

  Guard lengths: `guard_len_slice`, `guard_len_ref`, `guard_len_array` (the array case
  holds at full strength since the `fix:` commit for defect D3; `C01.guard_arr_defect_before_fix`
  keeps the refutation of the old code).
  Windows: for every page size, guest base, region offset and length > 0 the window
  requested by `MmapXenSlice::new_with` covers `[offset, offset + len)`, the pointer handed
  out designates `offset`, and after any sequence of accesses no mapping remains.
-/
import VmMem.Model.Xen
import VmMem.Props.C01
namespace VmMem.C17
open VmMem VmMem.Xen

/-! ### guard lengths -/
theorem guard_len_slice (s : VSlice) : (guardOfSlice s).2 = s.size ∧ (guardOfSlice s).1 = s.addr := ⟨rfl, rfl⟩
theorem guard_len_ref (r : VRef) : (guardOfRef r).2 = r.ty.size ∧ (guardOfRef r).1 = r.addr := ⟨rfl, rfl⟩
theorem guard_len_array (a : VArr) : (guardOfArr a).2 = a.nelem * a.ty.size ∧ (guardOfArr a).1 = a.addr := ⟨rfl, rfl⟩

/-- the guard of every accessor spans exactly the bytes the accessor designates -/
theorem guard_spans (a : C01.Acc) :
    (match a with
      | .sl s => guardOfSlice s
      | .rf r => guardOfRef r
      | .ar x => guardOfArr x) = (a.lo, a.bytes) := by
  cases a <;> rfl

/-! ### windows -/

theorem divCeil_mul_ge (n p : Nat) (hp : 0 < p) : n ≤ divCeil n p * p := by
  unfold divCeil
  have h1 := Nat.div_add_mod (n + p - 1) p
  have h2 := Nat.mod_lt (n + p - 1) hp
  have : (n + p - 1) / p * p = p * ((n + p - 1) / p) := Nat.mul_comm _ _
  omega

theorem pageBase_le (page offset : Nat) : (offset / page) * page ≤ offset :=
  Nat.div_mul_le_self offset page

/-- the mapped window `[pageBase, pageBase + pages·page)` covers the requested bytes
    `[offset, offset + len)`, and the handed-out pointer (`pageBase + inOff`) is `offset` -/
theorem window_covers (page guestBase offset len : Nat) (hp : 0 < page) :
    let w := window page guestBase offset len
    w.pageBase ≤ offset ∧ offset + len ≤ w.pageBase + w.pages * page ∧
    w.pageBase + w.inOff = offset ∧ w.inOff < page ∧ w.pageBase % page = 0 := by
  simp only [window]
  have h1 := pageBase_le page offset
  have h2 := divCeil_mul_ge (offset - offset / page * page + len) page hp
  have h3 : offset - offset / page * page = offset % page := by
    have := Nat.div_add_mod offset page
    have : offset / page * page = page * (offset / page) := Nat.mul_comm _ _
    omega
  have h4 := Nat.mod_lt offset hp
  refine ⟨h1, ?_, ?_, ?_, ?_⟩
  · omega
  · omega
  · omega
  · exact Nat.mul_mod_left _ _

/-- every byte an access of `n ≤ len` bytes at `offset + d` (inside the guard) touches lies in the window -/
theorem access_inside_window (page guestBase offset len : Nat) (hp : 0 < page) (d n : Nat) (h : d + n ≤ len) :
    let w := window page guestBase offset len
    w.pageBase ≤ offset + d ∧ offset + d + n ≤ w.pageBase + w.pages * page := by
  have := window_covers page guestBase offset len hp
  simp only at this ⊢
  omega

/-- a non-empty request always maps at least one page; an empty one at a page-aligned
    offset asks for a 0-byte mapping, which the kernel refuses (defect D5: see DESIGN.md) -/
theorem window_ok_of_pos (page guestBase offset len : Nat) (hp : 0 < page) (hl : 0 < len) :
    windowOk (window page guestBase offset len) = true := by
  have h := divCeil_mul_ge (offset - offset / page * page + len) page hp
  simp only [windowOk, window]
  rcases Nat.eq_zero_or_pos (divCeil (offset - offset / page * page + len) page) with h0 | h0
  · rw [h0] at h; omega
  · exact decide_eq_true h0

theorem window_zero_aligned_fails (page guestBase offset : Nat) (hp : 0 < page) (ha : offset % page = 0) :
    windowOk (window page guestBase offset 0) = false := by
  have h3 : offset - offset / page * page = 0 := by
    have := Nat.div_add_mod offset page
    have : offset / page * page = page * (offset / page) := Nat.mul_comm _ _
    omega
  simp [windowOk, window, h3, divCeil]
  omega

/-! ### release -/

/-- an access maps and unmaps the same `(index, count)` -/
theorem access_balanced (page guestBase offset len : Nat) :
    ∃ i c, accessReqs page guestBase offset len = [.map i c, .unmap i c] := by
  exact ⟨_, _, rfl⟩

theorem liveAfter_append_access (log : List Req) (page guestBase offset len : Nat) :
    liveAfter (log ++ accessReqs page guestBase offset len) = liveAfter log := by
  simp [liveAfter, accessReqs, List.foldl_append, window]

/-- after any sequence of accesses no temporary mapping remains -/
theorem windows_released (accs : List (Nat × Nat × Nat × Nat)) :
    liveAfter (accs.flatMap fun (p, g, o, l) => accessReqs p g o l) = [] := by
  -- generalise over the log accumulated so far
  suffices h : ∀ pre : List Req, liveAfter (pre ++ accs.flatMap fun (p, g, o, l) => accessReqs p g o l) = liveAfter pre by
    simpa [liveAfter] using h []
  induction accs with
  | nil => intro pre; simp
  | cons x xs ih =>
    intro pre
    obtain ⟨p, g, o, l⟩ := x
    rw [List.flatMap_cons, ← List.append_assoc, ih, liveAfter_append_access]

/-! ### non-vacuity -/
example : window 4096 0x10000 0x1ffe 5 = { pageBase := 0x1000, inOff := 0xffe, mapSize := 0x1003, pages := 2, index := 0x11 } := by decide
example : windowOk (window 4096 0 0x2000 0) = false := by decide
example : windowOk (window 4096 0 0x2001 0) = true := by decide

end VmMem.C17

#print axioms VmMem.C17.guard_len_slice
#print axioms VmMem.C17.guard_len_ref
#print axioms VmMem.C17.guard_len_array
#print axioms VmMem.C17.guard_spans
#print axioms VmMem.C17.window_covers
#print axioms VmMem.C17.access_inside_window
#print axioms VmMem.C17.window_ok_of_pos
#print axioms VmMem.C17.window_zero_aligned_fails
#print axioms VmMem.C17.access_balanced
#print axioms VmMem.C17.windows_released
