/-
  C12 (Xen half, system-call level), histories: over every sequence of region constructions (any
  request, any pattern of failing system calls) and drops (any order), the kernel holds exactly the
  `mmap` ranges and grant mappings that the live regions own — nothing leaks, nothing is released
  twice, and once the last region is gone nothing is left.
-/
import VmMem.Model.XenBuild
import VmMem.Props.C15x
namespace VmMem
namespace C12x
open Construct XenBuild C15x

inductive Op where
  | new (id : Nat) (r : Req) (sc : Script)
  | drop (id : Nat)

structure St where
  k : Kernel := {}
  live : List (Nat × Region) := []

/-- what a mapping object owns in the kernel -/
def ownMaps : XMap → List (Nat × Nat)
  | .unix a s => [(a, s)]
  | .foreign a s => [(a, s)]
  | .grantAdvance a ms _ _ => [(a, ms)]
  | .grantOnDemand => []

def ownGrants (page : Nat) : XMap → List (Nat × Nat)
  | .grantAdvance _ _ idx rs => [(idx, (pages rs page).1)]
  | _ => []

def step (page : Nat) (s : St) : Op → St
  | .new id r sc =>
    if (s.live.find? (·.1 == id)).isSome then s else
    match fromRange r page s.k sc with
    | (.ok reg, k', _) => { k := k', live := (id, reg) :: s.live }
    | (.error _, k', _) => { s with k := k' }
  | .drop id =>
    match s.live.find? (·.1 == id) with
    | some e => { k := dropMap s.k e.2.map page, live := s.live.erase e }
    | none => s

def run (page : Nat) (s : St) (ops : List Op) : St := ops.foldl (step page) s

/-- the kernel's view and the live regions' view agree (as multisets) -/
def Inv (page : Nat) (s : St) : Prop :=
  s.k.maps.Perm (s.live.flatMap fun e => ownMaps e.2.map) ∧
  s.k.grants.Perm (s.live.flatMap fun e => ownGrants page e.2.map)

/-- what a successful construction adds to the kernel is what the new region owns -/
theorem newMap_ok_owns (r : Req) (f : Flags) (page : Nat) (k : Kernel) (sc : Script)
    (m : XMap) (k' : Kernel) (sc' : Script)
    (h : newMapWith mmapRange r f page k sc = (.ok m, k', sc')) :
    k'.maps = ownMaps m ++ k.maps ∧ k'.grants = ownGrants page m ++ k.grants := by
  unfold newMapWith at h
  split at h
  · split at h
    · simp at h
    · simp only [pages] at h
      generalize hm : mmapCall k (page * divCeil r.size page) sc = x at h
      obtain ⟨o, k1, sc1⟩ := x
      cases o with
      | none => simp at h
      | some a =>
        simp only at h
        generalize hp : privcmdCall sc1 = p at h
        obtain ⟨b, sc2⟩ := p
        cases b with
        | false => simp at h
        | true =>
          simp at h; obtain ⟨h1, h2, _⟩ := h; subst h1; subst h2
          obtain ⟨_, m1, m2⟩ := mmapCall_some hm
          simp [ownMaps, ownGrants, m1, m2]
  · split at h
    · split at h
      · simp at h
      · split at h
        · generalize hr : mmapRange k r.guestBase r.size page sc = x at h
          obtain ⟨o, k1, sc1⟩ := x
          cases o with
          | none => simp at h
          | some t =>
            obtain ⟨a, ms, idx⟩ := t
            simp at h; obtain ⟨h1, h2, _⟩ := h; subst h1; subst h2
            obtain ⟨_, _, m1, m2⟩ := mmapRange_some _ _ _ _ _ _ _ _ _ _ hr
            simp [ownMaps, ownGrants, m1, m2]
        · simp at h; obtain ⟨h1, h2, _⟩ := h; subst h1; subst h2; simp [ownMaps, ownGrants]
    · split at h
      · simp at h
      · generalize hm : mmapCall k r.size sc = x at h
        obtain ⟨o, k1, sc1⟩ := x
        cases o with
        | none => simp at h
        | some a =>
          simp at h; obtain ⟨h1, h2, _⟩ := h; subst h1; subst h2
          obtain ⟨_, m1, m2⟩ := mmapCall_some hm
          simp [ownMaps, ownGrants, m1, m2]

/-- `Drop` erases exactly what the mapping object owns -/
theorem dropMap_erases (k : Kernel) (m : XMap) (page : Nat) :
    (dropMap k m page).maps = (ownMaps m).foldl List.erase k.maps ∧
    (dropMap k m page).grants = (ownGrants page m).foldl List.erase k.grants := by
  cases m <;> simp only [dropMap, ownMaps, ownGrants, munmapCall, unmapRange, grantUnmapCall, List.foldl_cons, List.foldl_nil] <;>
    (repeat' split) <;> simp_all [List.erase_of_not_mem]

theorem perm_flatMap_erase {α β} [BEq α] [LawfulBEq α] (f : α → List β) (l : List α) (e : α) (he : e ∈ l) :
    (l.flatMap f).Perm (f e ++ (l.erase e).flatMap f) := by
  induction l with
  | nil => cases he
  | cons x xs ih =>
    by_cases hx : x = e
    · subst hx; simp
    · have he' : e ∈ xs := by
        rcases List.mem_cons.1 he with h | h
        · exact absurd h.symm hx
        · exact h
      rw [List.erase_cons_tail (by simpa using hx)]
      simp only [List.flatMap_cons]
      have := ih he'
      calc f x ++ xs.flatMap f
          _ |>.Perm (f x ++ (f e ++ (xs.erase e).flatMap f)) := List.Perm.append_left _ this
          _ |>.Perm (f e ++ (f x ++ (xs.erase e).flatMap f)) := by
              rw [← List.append_assoc, ← List.append_assoc]
              exact List.Perm.append_right _ List.perm_append_comm

theorem foldl_erase_perm {β} [BEq β] [LawfulBEq β] (own rest l : List β) (h : l.Perm (own ++ rest)) :
    (own.foldl List.erase l).Perm rest := by
  induction own generalizing l with
  | nil => simpa using h
  | cons x xs ih =>
    simp only [List.foldl_cons]
    apply ih
    have : (l.erase x).Perm ((x :: (xs ++ rest)).erase x) := List.Perm.erase x (by simpa using h)
    simpa using this

theorem step_inv (page : Nat) (s : St) (op : Op) (h : Inv page s) : Inv page (step page s op) := by
  cases op with
  | new id r sc =>
    simp only [step]
    by_cases hfind : (s.live.find? (·.1 == id)).isSome = true
    · rw [if_pos hfind]; exact h
    · rw [if_neg hfind]
      generalize hf : fromRange r page s.k sc = x
      obtain ⟨o, k', sc'⟩ := x
      cases o with
      | error e =>
        obtain ⟨h1, h2⟩ := fromRange_error_leaves_nothing r page s.k sc e k' sc' hf
        simp only [Inv]; rw [h1, h2]; exact h
      | ok reg =>
        obtain ⟨f, _, _, _, hn, _⟩ := fromRange_ok_inv r page s.k sc reg k' sc' hf
        obtain ⟨m1, m2⟩ := newMap_ok_owns r f page s.k sc reg.map k' sc' hn
        simp only [Inv, List.flatMap_cons]
        rw [m1, m2]
        exact ⟨List.Perm.append_left _ h.1, List.Perm.append_left _ h.2⟩
  | drop id =>
    simp only [step]
    cases he : s.live.find? (·.1 == id) with
    | none => exact h
    | some e =>
      have hmem : e ∈ s.live := List.mem_of_find?_eq_some he
      obtain ⟨d1, d2⟩ := dropMap_erases s.k e.2.map page
      simp only [Inv]
      rw [d1, d2]
      exact ⟨foldl_erase_perm _ _ _ (h.1.trans (perm_flatMap_erase _ _ e hmem)),
             foldl_erase_perm _ _ _ (h.2.trans (perm_flatMap_erase _ _ e hmem))⟩

/-- **every reachable state**: after any history of constructions and drops the kernel holds exactly what the
    live regions own -/
theorem run_inv (page : Nat) (ops : List Op) (s : St) (h : Inv page s) : Inv page (run page s ops) := by
  induction ops generalizing s with
  | nil => exact h
  | cons op rest ih => exact ih _ (step_inv page s op h)

theorem init_inv (page : Nat) : Inv page {} := ⟨List.Perm.refl _, List.Perm.refl _⟩

/-- **nothing is left once the last region is gone** — whatever was built, in whatever order it was dropped,
    whichever system calls failed on the way -/
theorem all_dropped_nothing_mapped (page : Nat) (ops : List Op)
    (h : (run page {} ops).live = []) : (run page {} ops).k.maps = [] ∧ (run page {} ops).k.grants = [] := by
  have := run_inv page ops {} (init_inv page)
  simp only [Inv, h, List.flatMap_nil] at this
  exact ⟨List.Perm.eq_nil this.1, List.Perm.eq_nil this.2⟩

/-- a live region's resources are still held by the kernel (no live handle designates something unmapped) -/
theorem live_region_still_mapped (page : Nat) (ops : List Op) (e : Nat × Region)
    (he : e ∈ (run page {} ops).live) (x : Nat × Nat) (hx : x ∈ ownMaps e.2.map) :
    x ∈ (run page {} ops).k.maps := by
  have := (run_inv page ops {} (init_inv page)).1
  exact this.mem_iff.2 (List.mem_flatMap.2 ⟨e, he, hx⟩)


/-! ### exactly once: over any history nothing is ever released twice -/
theorem dropMap_no_fault (k : Kernel) (m : XMap) (page : Nat)
    (hm : ∀ x ∈ ownMaps m, x ∈ k.maps) (hg : ∀ x ∈ ownGrants page m, x ∈ k.grants) :
    (dropMap k m page).faults = k.faults := by
  cases m with
  | unix a s => exact (munmapCall_held (hm _ (by simp [ownMaps]))).1
  | «foreign» a s => exact (munmapCall_held (hm _ (by simp [ownMaps]))).1
  | grantAdvance a ms idx rs =>
    simp only [dropMap, unmapRange]
    have a1 := munmapCall_held (k := k) (a := a) (s := ms) (hm _ (by simp [ownMaps]))
    have a2 := grantUnmapCall_held (k := munmapCall k a ms) (i := idx) (c := (pages rs page).1)
      (by rw [a1.2]; exact hg _ (by simp [ownGrants]))
    rw [a2.1, a1.1]
  | grantOnDemand => rfl

theorem step_no_fault (page : Nat) (s : St) (op : Op) (h : Inv page s) :
    (step page s op).k.faults = s.k.faults := by
  cases op with
  | new id r sc =>
    simp only [step]
    by_cases hfind : (s.live.find? (·.1 == id)).isSome = true
    · rw [if_pos hfind]
    · rw [if_neg hfind]
      have hf := fromRange_no_fault r page s.k sc
      generalize hx : fromRange r page s.k sc = x at hf
      obtain ⟨o, k', sc'⟩ := x
      cases o <;> simpa using hf
  | drop id =>
    simp only [step]
    cases he : s.live.find? (·.1 == id) with
    | none => rfl
    | some e =>
      have hmem : e ∈ s.live := List.mem_of_find?_eq_some he
      simp only
      apply dropMap_no_fault
      · intro x hx; exact h.1.mem_iff.2 (List.mem_flatMap.2 ⟨e, hmem, hx⟩)
      · intro x hx; exact h.2.mem_iff.2 (List.mem_flatMap.2 ⟨e, hmem, hx⟩)

/-- **unmapped exactly once**: over any history of constructions and drops — any requests, any failing system calls,
    any drop order — the library never releases a range or a grant mapping it does not hold (no second `munmap`,
    no second unmap ioctl) -/
theorem run_no_fault (page : Nat) (ops : List Op) (s : St) (h : Inv page s) :
    (run page s ops).k.faults = s.k.faults := by
  induction ops generalizing s with
  | nil => rfl
  | cons op rest ih =>
    show (run page (step page s op) rest).k.faults = s.k.faults
    rw [ih _ (step_inv page s op h), step_no_fault page s op h]

theorem history_no_fault (page : Nat) (ops : List Op) : (run page {} ops).k.faults = 0 :=
  run_no_fault page ops {} (init_inv page)

def exReq (w : Flags) (base : Nat) : Req :=
  { size := 0x2000, file := some { fileLen := 0x100000, start := 0 }, prot := none, flags := none, xenFlags := w, xenData := 1, guestBase := base }
example : (run 4096 {} [.new 0 (exReq 2 0x5000) [], .new 1 (exReq 1 0x9000) [], .new 2 (exReq 2 0x5000) [true, false],
                        .new 3 (exReq 0xa 0x20000) [], .drop 0, .drop 3]).k.grants = [] := by decide
example : ((run 4096 {} [.new 0 (exReq 2 0x5000) [], .new 1 (exReq 1 0x9000) [], .drop 0]).k.maps.length,
           (run 4096 {} [.new 0 (exReq 2 0x5000) [], .new 1 (exReq 1 0x9000) [], .drop 0]).live.length) = (1, 1) := by decide

end C12x
end VmMem
#print axioms VmMem.C12x.newMap_ok_owns
#print axioms VmMem.C12x.dropMap_erases
#print axioms VmMem.C12x.step_inv
#print axioms VmMem.C12x.run_inv
#print axioms VmMem.C12x.all_dropped_nothing_mapped
#print axioms VmMem.C12x.live_region_still_mapped
#print axioms VmMem.C12x.dropMap_no_fault
#print axioms VmMem.C12x.run_no_fault
#print axioms VmMem.C12x.history_no_fault
