/-
  VmMem.Props.C11 — a snapshot stays whole and usable while the map is being replaced.

  All statements quantify over arbitrary step lists `σ`, i.e. over every interleaving of any
  number of reader and updater threads (and over every sequential history).
  `Inv` holds initially and is preserved by every step.  A snapshot returns the id that is
  current at that very step, ids are published whole maps, an owner that is not dropped keeps
  designating the same, un-freed map across any number of replacements; after a replacement
  every later snapshot shows that map or a later one; the mutex serialises updaters and no
  replacement is lost; what is freed is unreferenced and never comes back.
-/
import VmMem.Model.Atomic
import VmMem.Lemmas.AtomicLemmas
namespace VmMem.C11
open VmMem VmMem.Atomic

structure Inv (s : St) : Prop where
  cur_published : s.cur ∈ s.published
  owners_published : ∀ o m, (o, m) ∈ s.owners → m ∈ s.published
  published_nodup : s.published.Nodup
  freed_sub : ∀ m ∈ s.freed, m ∈ s.published
  live_not_freed : ∀ m, refs s m > 0 → m ∉ s.freed
  cur_last : s.published.getLast? = some s.cur

/-! ### 1. the invariant -/

theorem init_inv (m0 : Nat) : Inv (init m0) := by
  constructor <;> simp [init]

/-- the lock word is irrelevant to the invariant -/
theorem inv_lock (s : St) (l : Option Nat) (h : Inv s) : Inv { s with lock := l } :=
  ⟨h.cur_published, h.owners_published, h.published_nodup, h.freed_sub, h.live_not_freed, h.cur_last⟩

/-- a new owner of an already referenced map -/
theorem inv_add_owner (s : St) (o m : Nat) (h : Inv s) (hm : refs s m > 0) (hp : m ∈ s.published) :
    Inv { s with owners := s.owners ++ [(o, m)] } := by
  refine ⟨h.cur_published, ?_, h.published_nodup, h.freed_sub, ?_, h.cur_last⟩
  · intro o' m' hmem
    rcases List.mem_append.1 hmem with hh | hh
    · exact h.owners_published o' m' hh
    · simp only [List.mem_singleton, Prod.mk.injEq] at hh
      rw [hh.2]; exact hp
  · intro m' hr
    apply h.live_not_freed
    rcases (refs_pos_iff _ m').1 hr with e | ⟨o', ho'⟩
    · exact (refs_pos_iff s m').2 (Or.inl e)
    · rcases List.mem_append.1 ho' with hh | hh
      · exact (refs_pos_iff s m').2 (Or.inr ⟨o', hh⟩)
      · simp only [List.mem_singleton, Prod.mk.injEq] at hh
        rw [hh.2]; exact hm

/-- owners go away (nothing is freed yet) -/
theorem inv_drop (s : St) (o : Nat) (h : Inv s) : Inv { s with owners := s.owners.filter (·.1 != o) } := by
  refine ⟨h.cur_published, ?_, h.published_nodup, h.freed_sub, ?_, h.cur_last⟩
  · intro o' m' hmem
    exact h.owners_published o' m' (List.mem_filter.1 hmem).1
  · intro m' hr
    apply h.live_not_freed
    rcases (refs_pos_iff _ m').1 hr with e | ⟨o', ho'⟩
    · exact (refs_pos_iff s m').2 (Or.inl e)
    · exact (refs_pos_iff s m').2 (Or.inr ⟨o', (List.mem_filter.1 ho').1⟩)

/-- the cell is overwritten with a fresh id (the old reference of the cell goes away) -/
theorem inv_store (s : St) (n : Nat) (h : Inv s) (hn : n ∉ s.published) :
    Inv { s with cur := n, published := s.published ++ [n], lock := none } := by
  refine ⟨by simp, ?_, ?_, ?_, ?_, by simp⟩
  · intro o m hmem
    exact List.mem_append_left _ (h.owners_published o m hmem)
  · show (s.published ++ [n]).Nodup
    rw [List.nodup_append]
    refine ⟨h.published_nodup, by simp, ?_⟩
    intro a ha b hb
    simp only [List.mem_singleton] at hb
    subst hb
    exact fun e => hn (e ▸ ha)
  · intro m hm
    exact List.mem_append_left _ (h.freed_sub m hm)
  · intro m hr
    rcases (refs_pos_iff _ m).1 hr with e | ⟨o', ho'⟩
    · have e' : n = m := e
      subst e'
      exact fun hf => hn (h.freed_sub _ hf)
    · exact h.live_not_freed m ((refs_pos_iff s m).2 (Or.inr ⟨o', ho'⟩))

/-- freeing what is unreferenced -/
theorem inv_collect (s : St) (h : Inv s) : Inv (collect s) := by
  refine ⟨h.cur_published, h.owners_published, h.published_nodup, ?_, ?_, h.cur_last⟩
  · intro m hm
    rcases (mem_collect_freed s m).1 hm with hh | hh
    · exact h.freed_sub m hh
    · exact hh.1
  · intro m hr hm
    rw [refs_collect] at hr
    rcases (mem_collect_freed s m).1 hm with hh | hh
    · exact h.live_not_freed m hr hh
    · omega

theorem step_inv (s : St) (a : Step) (h : Inv s) : Inv (step s a).1 := by
  cases a with
  | snapshot o =>
    exact inv_add_owner s o s.cur h ((refs_pos_iff s s.cur).2 (Or.inl rfl)) h.cur_published
  | cloneOwner o src =>
    simp only [step]
    split
    · rename_i o' m hf
      have hmem := List.mem_of_find?_eq_some hf
      exact inv_add_owner s o m h ((refs_pos_iff s m).2 (Or.inr ⟨o', hmem⟩)) (h.owners_published o' m hmem)
    · exact h
  | dropOwner o =>
    exact inv_collect _ (inv_drop s o h)
  | lock t =>
    simp only [step]
    split
    · exact inv_lock s _ h
    · exact h
  | replace t n =>
    simp only [step]
    split
    · rename_i hc
      have hn : n ∉ s.published := ((replaceEnabled_iff s t n).1 hc).2
      exact inv_collect _ (inv_store s n h hn)
    · exact h
  | unlock t =>
    simp only [step]
    split
    · exact inv_lock s _ h
    · exact h

theorem run_inv (s : St) (σ : List Step) (h : Inv s) : Inv (run s σ).1 := by
  induction σ generalizing s with
  | nil => exact h
  | cons a rest ih => exact ih _ (step_inv s a h)

/-- every state reachable from an initial state, under any interleaving -/
theorem reachable_inv (m0 : Nat) (σ : List Step) : Inv (run (init m0) σ).1 := run_inv _ σ (init_inv m0)

/-! ### 2. what a snapshot shows -/

/-- a snapshot returns the id that is current at that very step, and it is a published
    (whole) map — never a mixture -/
theorem snapshot_is_some_current (s : St) (o : Nat) (h : Inv s) :
    (step s (.snapshot o)).2 = some s.cur ∧ s.cur ∈ s.published := ⟨rfl, h.cur_published⟩

/-- a snapshot makes `o` an owner of that map (if `o` is a fresh owner id) -/
theorem snapshot_owns (s : St) (o : Nat) (hfresh : mapOf s o = none) :
    mapOf (step s (.snapshot o)).1 o = some s.cur := by
  have hn : s.owners.find? (·.1 == o) = none := by
    cases hf : s.owners.find? (·.1 == o) with
    | none => rfl
    | some x => simp [mapOf, hf] at hfresh
  simp [step, mapOf, List.find?_append, hn]

/-- whatever any step returns is a published id -/
theorem step_result_published (s : St) (a : Step) (h : Inv s) (m : Nat) (hr : (step s a).2 = some m) :
    m ∈ (step s a).1.published := by
  cases a with
  | snapshot o =>
    simp only [step, Option.some.injEq] at hr ⊢
    exact hr ▸ h.cur_published
  | cloneOwner o src =>
    simp only [step] at hr ⊢
    split at hr
    · rename_i o' m' hf
      simp only [Option.some.injEq] at hr
      show m ∈ s.published
      exact hr ▸ h.owners_published o' m' (List.mem_of_find?_eq_some hf)
    · cases hr
  | dropOwner o => simp [step] at hr
  | lock t => simp only [step] at hr; split at hr <;> cases hr
  | replace t n => simp only [step] at hr; split at hr <;> cases hr
  | unlock t => simp only [step] at hr; split at hr <;> cases hr

/-- in every execution, every id any step returned is a published (whole) map -/
theorem results_published (s : St) (σ : List Step) (h : Inv s) :
    ∀ r ∈ (run s σ).2, ∀ m, r = some m → m ∈ (run s σ).1.published := by
  induction σ generalizing s with
  | nil => intro r hr; cases hr
  | cons a rest ih =>
    intro r hr m e
    rw [run_cons_snd] at hr
    rw [run_cons_fst]
    rcases List.mem_cons.1 hr with hh | hh
    · have := step_result_published s a h m (hh ▸ e)
      exact (run_published_prefix (step s a).1 rest).subset this
    · exact ih _ (step_inv s a h) r hh m e

/-! ### 3. a snapshot stays stable and alive -/

/-- strongest form: the only side condition is that `o` is not dropped -/
theorem snapshot_stable_and_alive_of_not_dropped (s : St) (σ : List Step) (o m : Nat) (h : Inv s)
    (hm : mapOf s o = some m) (hnd : ∀ a ∈ σ, a ≠ .dropOwner o) :
    mapOf (run s σ).1 o = some m ∧ m ∉ (run s σ).1.freed ∧ m ∈ (run s σ).1.published := by
  have h1 := mapOf_run s σ o m hm hnd
  have hI := run_inv s σ h
  have hmem := mapOf_mem _ o m h1
  exact ⟨h1, hI.live_not_freed m ((refs_pos_iff _ m).2 (Or.inr ⟨o, hmem⟩)), hI.owners_published o m hmem⟩

/-- as requested: `o` is neither dropped nor re-used as a fresh owner id in `σ`; then, no
    matter how many replacements happen meanwhile, `o` still designates `m` and `m` is not freed -/
theorem snapshot_stable_and_alive (s : St) (σ : List Step) (o m : Nat) (h : Inv s)
    (hm : mapOf s o = some m)
    (hside : ∀ a ∈ σ, a ≠ .dropOwner o ∧ a ≠ .snapshot o ∧ ∀ src, a ≠ .cloneOwner o src) :
    mapOf (run s σ).1 o = some m ∧ m ∉ (run s σ).1.freed :=
  have := snapshot_stable_and_alive_of_not_dropped s σ o m h hm (fun a ha => (hside a ha).1)
  ⟨this.1, this.2.1⟩

/-! ### 4. after a replacement -/

theorem replace_enabled_effect (s : St) (t n : Nat) (hl : s.lock = some t) (hn : n ∉ s.published) :
    (step s (.replace t n)).1.cur = n ∧ (step s (.replace t n)).1.published = s.published ++ [n] ∧
    (step s (.replace t n)).1.lock = none := by
  simp [step, hl, hn]

/-- in a reachable state the cell holds the most recently published id -/
theorem cur_is_last (s : St) (h : Inv s) (hne : s.published ≠ []) : s.published.getLast hne = s.cur := by
  have := h.cur_last
  rw [List.getLast?_eq_some_getLast hne] at this
  exact Option.some.inj this

theorem after_replace_new (s : St) (t n : Nat) (h : Inv s) (hl : s.lock = some t) (hn : n ∉ s.published) :
    (step s (.replace t n)).1.cur = n ∧
    ∀ (σ : List Step) (o : Nat),
      (step (run (step s (.replace t n)).1 σ).1 (.snapshot o)).2 = some (run (step s (.replace t n)).1 σ).1.cur ∧
      (run (step s (.replace t n)).1 σ).1.published.getLast? = some (run (step s (.replace t n)).1 σ).1.cur ∧
      (∃ later, (run (step s (.replace t n)).1 σ).1.published = s.published ++ n :: later ∧
                (run (step s (.replace t n)).1 σ).1.cur ∈ n :: later) ∧
      (run (step s (.replace t n)).1 σ).1.cur ∉ s.published ∧
      (run (step s (.replace t n)).1 σ).1.published.idxOf n ≤
        (run (step s (.replace t n)).1 σ).1.published.idxOf (run (step s (.replace t n)).1 σ).1.cur := by
  obtain ⟨e1, e2, _⟩ := replace_enabled_effect s t n hl hn
  refine ⟨e1, ?_⟩
  intro σ o
  generalize hs1 : (step s (.replace t n)).1 = s1 at *
  have hI1 : Inv s1 := hs1 ▸ step_inv s (.replace t n) h
  have hI2 := run_inv s1 σ hI1
  generalize hs2 : (run s1 σ).1 = s2 at *
  have hpub : s2.published = s.published ++ n :: enabledReplaces s1 σ := by
    rw [← hs2, run_published, e2]; simp
  have hlast := hI2.cur_last
  have hcur : s2.cur ∈ n :: enabledReplaces s1 σ := by
    rw [hpub, List.getLast?_append] at hlast
    have : (n :: enabledReplaces s1 σ).getLast? = some ((n :: enabledReplaces s1 σ).getLast (by simp)) :=
      List.getLast?_eq_some_getLast (by simp)
    rw [this] at hlast
    simp only [Option.some_or, Option.some.injEq] at hlast
    rw [← hlast]
    exact List.getLast_mem _
  have hnd := hI2.published_nodup
  rw [hpub, List.nodup_append] at hnd
  have hnotin : s2.cur ∉ s.published := fun hc => hnd.2.2 _ hc _ hcur rfl
  refine ⟨rfl, hI2.cur_last, ⟨_, hpub, hcur⟩, hnotin, ?_⟩
  rw [hpub, List.idxOf_append, List.idxOf_append, if_neg hn, if_neg hnotin, List.idxOf_cons_self]
  omega

/-! ### 5. mutual exclusion, no lost replacement -/

/-- at most one thread holds the lock: taking it is disabled while it is held; a `replace`
    or `unlock` by a thread that does not hold it changes nothing; taking a free lock makes
    the caller the holder -/
theorem mutual_exclusion (s : St) (t : Nat) :
    (s.lock.isSome → step s (.lock t) = (s, none)) ∧
    (s.lock = none → (step s (.lock t)).1.lock = some t) ∧
    (s.lock ≠ some t → (∀ n, step s (.replace t n) = (s, none)) ∧ step s (.unlock t) = (s, none)) := by
  refine ⟨?_, ?_, ?_⟩
  · intro h
    cases hl : s.lock with
    | none => simp [hl] at h
    | some t' => simp [step, hl]
  · intro h; simp [step, h]
  · intro h
    constructor
    · intro n; simp [step, h]
    · simp [step, h]

/-- only lock/replace/unlock touch the lock word, and the lock is only ever acquired when free -/
theorem lock_acquired_only_when_free (s : St) (a : Step) (t : Nat)
    (h : (step s a).1.lock = some t) : s.lock = some t ∨ (s.lock = none ∧ a = .lock t) := by
  cases a with
  | snapshot o => exact Or.inl h
  | cloneOwner o src =>
    simp only [step] at h
    split at h <;> exact Or.inl h
  | dropOwner o => exact Or.inl h
  | lock t' =>
    simp only [step] at h
    split at h
    · rename_i hn
      simp only [Option.some.injEq] at h
      exact Or.inr ⟨by simpa using hn, by rw [h]⟩
    · exact Or.inl h
  | replace t' n =>
    simp only [step] at h
    split at h
    · simp at h
    · exact Or.inl h
  | unlock t' =>
    simp only [step] at h
    split at h
    · simp at h
    · exact Or.inl h

/-- a `replace` takes effect iff its caller holds the lock and the id is fresh; then it
    appends exactly its id, makes it current, and releases the lock -/
theorem replace_effect_iff (s : St) (t n : Nat) :
    ((step s (.replace t n)).1 ≠ s ↔ (s.lock = some t ∧ n ∉ s.published)) ∧
    ((s.lock = some t ∧ n ∉ s.published) →
      (step s (.replace t n)).1.cur = n ∧ (step s (.replace t n)).1.published = s.published ++ [n] ∧
      (step s (.replace t n)).1.lock = none) := by
  constructor
  · constructor
    · intro hne
      by_cases hc : s.lock = some t ∧ n ∉ s.published
      · exact hc
      · exfalso; apply hne
        simp [step, hc]
    · rintro ⟨hl, hn⟩ e
      have := (replace_enabled_effect s t n hl hn).2.2
      rw [e, hl] at this
      cases this
  · rintro ⟨hl, hn⟩
    exact replace_enabled_effect s t n hl hn

/-- no replacement is lost and none is invented: the sequence of cell values is exactly the
    sequence of enabled replaces, in order -/
theorem no_lost_replace (s : St) (σ : List Step) :
    (run s σ).1.published = s.published ++ enabledReplaces s σ := run_published s σ

/-- and the cell ends up holding the last of them -/
theorem no_lost_replace_cur (s : St) (σ : List Step) (h : Inv s) :
    (run s σ).1.cur = (s.cur :: enabledReplaces s σ).getLast (by simp) := by
  have hI := run_inv s σ h
  have h1 := hI.cur_last
  rw [no_lost_replace, List.getLast?_append] at h1
  cases hE : enabledReplaces s σ with
  | nil =>
    rw [hE] at h1
    simp only [List.getLast?_nil, Option.none_or, h.cur_last, Option.some.injEq] at h1
    simp [h1]
  | cons x xs =>
    rw [hE] at h1
    rw [List.getLast?_eq_some_getLast (by simp)] at h1
    simp only [Option.some_or, Option.some.injEq] at h1
    rw [← h1]
    simp [List.getLast_cons]

/-- every id in `enabledReplaces` comes from a `replace` step whose caller held the lock at
    that moment (and which released it) -/
theorem enabled1_holder (s : St) (a : Step) (n : Nat) (h : n ∈ enabled1 s a) :
    ∃ t, a = .replace t n ∧ s.lock = some t ∧ n ∉ s.published ∧ (step s a).1.lock = none ∧ (step s a).1.cur = n := by
  cases a with
  | replace t n' =>
    simp only [enabled1] at h
    split at h
    · rename_i hc
      simp only [List.mem_singleton] at h
      subst h
      obtain ⟨hl, hn⟩ := (replaceEnabled_iff s t n).1 hc
      have := replace_enabled_effect s t n hl hn
      exact ⟨t, rfl, hl, hn, this.2.2, this.1⟩
    · cases h
  | snapshot o => cases h
  | cloneOwner o src => cases h
  | dropOwner o => cases h
  | lock t => cases h
  | unlock t => cases h

theorem enabledReplaces_holder (s : St) (σ : List Step) (n : Nat) (h : n ∈ enabledReplaces s σ) :
    ∃ pre t post, σ = pre ++ .replace t n :: post ∧ (run s pre).1.lock = some t ∧
      n ∉ (run s pre).1.published ∧ (run s (pre ++ [.replace t n])).1.lock = none ∧
      (run s (pre ++ [.replace t n])).1.cur = n := by
  induction σ generalizing s with
  | nil => cases h
  | cons a rest ih =>
    simp only [enabledReplaces] at h
    rcases List.mem_append.1 h with hh | hh
    · obtain ⟨t, ea, hl, hn, hl', hc⟩ := enabled1_holder s a n hh
      subst ea
      exact ⟨[], t, rest, rfl, hl, hn, hl', hc⟩
    · obtain ⟨pre, t, post, e, hl, hn, hl', hc⟩ := ih (step s a).1 hh
      refine ⟨a :: pre, t, post, by rw [e]; rfl, hl, hn, ?_, ?_⟩
      · exact hl'
      · exact hc

/-! ### 6. what is freed -/

theorem freed_only_unreferenced (s : St) (h : Inv s) (m : Nat) (hm : m ∈ s.freed) : refs s m = 0 := by
  by_cases hp : refs s m > 0
  · exact absurd hm (h.live_not_freed m hp)
  · omega

/-- an id once freed stays freed and is never current or owned again, in any continuation -/
theorem freed_never_back (s : St) (σ : List Step) (h : Inv s) (m : Nat) (hm : m ∈ s.freed) :
    m ∈ (run s σ).1.freed ∧ (run s σ).1.cur ≠ m ∧ (∀ o, (o, m) ∉ (run s σ).1.owners) ∧
    (∀ o, mapOf (run s σ).1 o ≠ some m) ∧ refs (run s σ).1 m = 0 := by
  have hf := run_freed_mono s σ m hm
  have hI := run_inv s σ h
  have h0 := freed_only_unreferenced _ hI m hf
  obtain ⟨h1, h2⟩ := (refs_eq_zero_iff _ m).1 h0
  exact ⟨hf, h1, h2, fun o e => h2 o (mapOf_mem _ o m e), h0⟩

/-- in particular no later snapshot returns a freed id -/
theorem freed_never_snapshotted (s : St) (σ : List Step) (o : Nat) (h : Inv s) (m : Nat) (hm : m ∈ s.freed) :
    (step (run s σ).1 (.snapshot o)).2 ≠ some m := by
  intro e
  have := (freed_never_back s σ h m hm).2.1
  simp only [step, Option.some.injEq] at e
  exact this e

/-- `replace` only publishes fresh ids, so a freed id is never published again -/
theorem freed_not_republished (s : St) (σ : List Step) (h : Inv s) (m : Nat) (hm : m ∈ s.freed) :
    m ∉ enabledReplaces s σ := by
  intro hc
  have hI := run_inv s σ h
  have hnd := hI.published_nodup
  rw [no_lost_replace, List.nodup_append] at hnd
  exact hnd.2.2 m (h.freed_sub m hm) m hc rfl

/-- complement ("no leak"): in every state reachable from `init`, a published map that nobody
    references has been freed -/
def Complete (s : St) : Prop := ∀ m ∈ s.published, refs s m = 0 → m ∈ s.freed

theorem init_complete (m0 : Nat) : Complete (init m0) := by
  intro m hm h0
  simp only [init, List.mem_singleton] at hm
  subst hm
  simp [refs, init] at h0

theorem complete_collect (s : St) : Complete (collect s) := by
  intro m hm h0
  rw [refs_collect] at h0
  rw [mem_collect_freed]
  by_cases hf : m ∈ s.freed
  · exact Or.inl hf
  · exact Or.inr ⟨hm, h0, hf⟩

theorem complete_add_owner (s : St) (o m : Nat) (h : Complete s) :
    Complete { s with owners := s.owners ++ [(o, m)] } := by
  intro m' hm' h0
  apply h m' hm'
  obtain ⟨h1, h2⟩ := (refs_eq_zero_iff _ m').1 h0
  exact (refs_eq_zero_iff s m').2 ⟨h1, fun o' ho' => h2 o' (List.mem_append_left _ ho')⟩

theorem step_complete (s : St) (a : Step) (h : Complete s) : Complete (step s a).1 := by
  cases a with
  | snapshot o => exact complete_add_owner s o s.cur h
  | cloneOwner o src =>
    simp only [step]
    split
    · exact complete_add_owner s o _ h
    · exact h
  | dropOwner o => exact complete_collect _
  | lock t =>
    simp only [step]
    split <;> exact h
  | replace t n =>
    simp only [step]
    split
    · exact complete_collect _
    · exact h
  | unlock t =>
    simp only [step]
    split <;> exact h

theorem run_complete (s : St) (σ : List Step) (h : Complete s) : Complete (run s σ).1 := by
  induction σ generalizing s with
  | nil => exact h
  | cons a rest ih => exact ih _ (step_complete s a h)

/-- freed = exactly the published maps without a reference, in every reachable state -/
theorem freed_iff_unreferenced (m0 : Nat) (σ : List Step) (m : Nat) :
    m ∈ (run (init m0) σ).1.freed ↔ (m ∈ (run (init m0) σ).1.published ∧ refs (run (init m0) σ).1 m = 0) := by
  have hI := reachable_inv m0 σ
  constructor
  · intro hm
    exact ⟨hI.freed_sub m hm, freed_only_unreferenced _ hI m hm⟩
  · rintro ⟨hp, h0⟩
    exact run_complete _ σ (init_complete m0) m hp h0

/-! ### 7. non-vacuity: an 8-step trace -/

/-- reader 1 snapshots; updater 7 locks and replaces; reader 2 snapshots; updater 8 takes the
    lock; updater 9 is shut out (its `lock` and `replace` are disabled); reader 1 drops -/
def demo : List Step :=
  [.snapshot 1, .lock 7, .replace 7 5, .snapshot 2, .lock 8, .lock 9, .replace 9 6, .dropOwner 1]

/-- after seven steps the first snapshot still keeps map 0 alive although the cell moved on -/
example : (run (init 0) (demo.take 7)).1 =
    { cur := 5, lock := some 8, owners := [(1, 0), (2, 5)], freed := [], published := [0, 5] } := by decide

/-- what the steps returned: first snapshot saw 0, the second saw 5 -/
example : (run (init 0) demo).2 = [some 0, none, none, some 5, none, none, none, none] := by decide

/-- once the first snapshot is dropped, map 0 is freed -/
example : (run (init 0) demo).1 =
    { cur := 5, lock := some 8, owners := [(2, 5)], freed := [0], published := [0, 5] } := by decide

example : mapOf (run (init 0) (demo.take 7)).1 1 = some 0 ∧ 0 ∉ (run (init 0) (demo.take 7)).1.freed ∧
    0 ∈ (run (init 0) demo).1.freed := by decide

example : enabledReplaces (init 0) demo = [5] := by decide

end VmMem.C11

#print axioms VmMem.C11.init_inv
#print axioms VmMem.C11.step_inv
#print axioms VmMem.C11.run_inv
#print axioms VmMem.C11.reachable_inv
#print axioms VmMem.C11.snapshot_is_some_current
#print axioms VmMem.C11.snapshot_owns
#print axioms VmMem.C11.results_published
#print axioms VmMem.C11.snapshot_stable_and_alive_of_not_dropped
#print axioms VmMem.C11.snapshot_stable_and_alive
#print axioms VmMem.C11.replace_enabled_effect
#print axioms VmMem.C11.after_replace_new
#print axioms VmMem.Atomic.run_published_prefix
#print axioms VmMem.C11.mutual_exclusion
#print axioms VmMem.C11.lock_acquired_only_when_free
#print axioms VmMem.C11.replace_effect_iff
#print axioms VmMem.C11.no_lost_replace
#print axioms VmMem.C11.no_lost_replace_cur
#print axioms VmMem.C11.enabledReplaces_holder
#print axioms VmMem.C11.freed_only_unreferenced
#print axioms VmMem.C11.freed_never_back
#print axioms VmMem.C11.freed_never_snapshotted
#print axioms VmMem.C11.freed_not_republished
#print axioms VmMem.C11.freed_iff_unreferenced
