/-
  VmMem.Props.C19 — address arithmetic (address.rs) over `Word = BitVec 64`.
-/
import VmMem.Model.Addr
import VmMem.Lemmas.AddrLemmas
namespace VmMem
namespace C19
open AddrLemmas

/-! ### 1. checked_add -/

theorem checkedAdd_iff (a b : Word) :
    (∃ r, Addr.checkedAdd a b = some r) ↔ a.toNat + b.toNat < U := by
  unfold Addr.checkedAdd
  by_cases h : a.toNat + b.toNat < U <;> simp [h]

theorem checkedAdd_val {a b r : Word} (h : Addr.checkedAdd a b = some r) :
    r.toNat = a.toNat + b.toNat := by
  unfold Addr.checkedAdd at h
  split at h
  · rename_i hlt
    cases h
    rw [BitVec.toNat_add]
    exact Nat.mod_eq_of_lt hlt
  · cases h

theorem checkedAdd_none_iff (a b : Word) :
    Addr.checkedAdd a b = none ↔ U ≤ a.toNat + b.toNat := by
  unfold Addr.checkedAdd
  by_cases h : a.toNat + b.toNat < U <;> simp [h] <;> omega

/-! ### 2. checked_sub / checked_offset_from -/

theorem checkedSub_iff (a b : Word) :
    (∃ r, Addr.checkedSub a b = some r) ↔ b.toNat ≤ a.toNat := by
  unfold Addr.checkedSub
  by_cases h : b.toNat ≤ a.toNat <;> simp [h]

theorem checkedSub_val {a b r : Word} (h : Addr.checkedSub a b = some r) :
    b.toNat ≤ a.toNat ∧ r.toNat = a.toNat - b.toNat := by
  unfold Addr.checkedSub at h
  split at h
  · rename_i hle
    cases h
    refine ⟨hle, ?_⟩
    rw [BitVec.toNat_sub]
    have := a.isLt; have := b.isLt
    omega
  · cases h

theorem checkedOffsetFrom_iff (a base : Word) :
    (∃ r, Addr.checkedOffsetFrom a base = some r) ↔ base.toNat ≤ a.toNat :=
  checkedSub_iff a base

theorem checkedOffsetFrom_val {a base r : Word} (h : Addr.checkedOffsetFrom a base = some r) :
    base.toNat ≤ a.toNat ∧ r.toNat = a.toNat - base.toNat :=
  checkedSub_val h

/-! ### 3. overflowing_add / overflowing_sub -/

theorem overflowingAdd_spec (a b : Word) :
    (Addr.overflowingAdd a b).1.toNat = (a.toNat + b.toNat) % U ∧
      ((Addr.overflowingAdd a b).2 = true ↔ U ≤ a.toNat + b.toNat) := by
  refine ⟨BitVec.toNat_add a b, ?_⟩
  show decide (U ≤ a.toNat + b.toNat) = true ↔ _
  exact decide_eq_true_iff

theorem overflowingSub_spec (a b : Word) :
    (Addr.overflowingSub a b).1.toNat = (a.toNat + U - b.toNat) % U ∧
      ((Addr.overflowingSub a b).2 = true ↔ a.toNat < b.toNat) := by
  refine ⟨?_, by simp [Addr.overflowingSub]⟩
  show (a - b).toNat = _
  rw [BitVec.toNat_sub]
  have := b.isLt
  unfold U
  congr 1
  omega

/-! ### 4. plain `+` / `-` in the two build profiles -/

theorem uncheckedAdd_fits (chk : Bool) (a b : Word) (h : a.toNat + b.toNat < U) :
    ∃ r, Addr.uncheckedAdd chk a b = .ok r ∧ r.toNat = a.toNat + b.toNat := by
  refine ⟨a + b, by simp [Addr.uncheckedAdd, h], ?_⟩
  rw [BitVec.toNat_add]; exact Nat.mod_eq_of_lt h

theorem uncheckedAdd_overflow_checked (a b : Word) (h : U ≤ a.toNat + b.toNat) :
    Addr.uncheckedAdd true a b = .panic := by
  have : ¬ a.toNat + b.toNat < U := by omega
  simp [Addr.uncheckedAdd, this]

theorem uncheckedAdd_overflow_wrapping (a b : Word) (h : U ≤ a.toNat + b.toNat) :
    ∃ r, Addr.uncheckedAdd false a b = .ok r ∧ r.toNat = (a.toNat + b.toNat) % U := by
  have : ¬ a.toNat + b.toNat < U := by omega
  exact ⟨a + b, by simp [Addr.uncheckedAdd, this], by rw [BitVec.toNat_add]; rfl⟩

theorem uncheckedSub_fits (chk : Bool) (a b : Word) (h : b.toNat ≤ a.toNat) :
    ∃ r, Addr.uncheckedSub chk a b = .ok r ∧ r.toNat = a.toNat - b.toNat := by
  refine ⟨a - b, by simp [Addr.uncheckedSub, h], ?_⟩
  rw [BitVec.toNat_sub]
  have := a.isLt; have := b.isLt
  omega

theorem uncheckedSub_underflow_checked (a b : Word) (h : a.toNat < b.toNat) :
    Addr.uncheckedSub true a b = .panic := by
  have : ¬ b.toNat ≤ a.toNat := by omega
  simp [Addr.uncheckedSub, this]

theorem uncheckedSub_underflow_wrapping (a b : Word) (h : a.toNat < b.toNat) :
    ∃ r, Addr.uncheckedSub false a b = .ok r ∧ r.toNat = (a.toNat + U - b.toNat) % U := by
  have hn : ¬ b.toNat ≤ a.toNat := by omega
  refine ⟨a - b, by simp [Addr.uncheckedSub, hn], ?_⟩
  rw [BitVec.toNat_sub]
  have := b.isLt
  unfold U
  congr 1
  omega

theorem uncheckedOffsetFrom_eq (chk : Bool) (a base : Word) :
    Addr.uncheckedOffsetFrom chk a base = Addr.uncheckedSub chk a base := rfl

/-! ### 5. align-up -/

/-- `p` is a power of two representable in a `u64` -/
def IsPow2 (p : Word) : Prop := ∃ k, k < 64 ∧ p.toNat = 2 ^ k

/-- `r` is the least multiple of `p` that is `≥ a` -/
def IsLeastMultipleGe (p a r : Nat) : Prop :=
  p ∣ r ∧ a ≤ r ∧ ∀ m, p ∣ m → a ≤ m → r ≤ m

theorem IsPow2.ne_zero {p : Word} (hp : IsPow2 p) : p ≠ 0 := by
  obtain ⟨k, _, hk⟩ := hp
  intro h
  rw [h] at hk
  have := Nat.two_pow_pos k
  simp at hk
  omega

theorem toNat_pred_of_pow2 {p : Word} {k : Nat} (hk : p.toNat = 2 ^ k) :
    (p - 1).toNat = 2 ^ k - 1 := by
  rw [BitVec.toNat_sub, hk]
  have := Nat.two_pow_pos k
  have := p.isLt
  simp
  omega

theorem IsPow2.and_pred {p : Word} (hp : IsPow2 p) : p &&& (p - 1) = 0 := by
  obtain ⟨k, _, hk⟩ := hp
  apply BitVec.eq_of_toNat_eq
  rw [BitVec.toNat_and, toNat_pred_of_pow2 hk, hk, and_pred_two_pow]
  rfl

/-- the two `assert`s of `checked_align_up` pass exactly for powers of two -/
theorem isPow2_iff (p : Word) : IsPow2 p ↔ (p ≠ 0 ∧ p &&& (p - 1) = 0) := by
  constructor
  · intro hp; exact ⟨hp.ne_zero, hp.and_pred⟩
  · intro ⟨h0, hand⟩
    have hn : p.toNat ≠ 0 := by
      intro h; apply h0; apply BitVec.eq_of_toNat_eq; simpa using h
    have hpred : (p - 1).toNat = p.toNat - 1 := by
      rw [BitVec.toNat_sub]
      have := p.isLt
      simp
      omega
    have h := congrArg BitVec.toNat hand
    rw [BitVec.toNat_and, hpred] at h
    have hpow := pow2_of_and_pred hn (by simpa using h)
    refine ⟨p.toNat.log2, ?_, hpow⟩
    exact (Nat.log2_lt hn).2 p.isLt

/-- `x & !(p-1)` rounds `x` down to a multiple of `p = 2^k` -/
theorem toNat_and_not_pred {p : Word} {k : Nat} (hk64 : k < 64) (hk : p.toNat = 2 ^ k) (x : Word) :
    (x &&& ~~~(p - 1)).toNat = x.toNat / p.toNat * p.toNat := by
  rw [BitVec.toNat_and, BitVec.toNat_not, toNat_pred_of_pow2 hk, hk]
  exact and_not_low x.toNat k 64 x.isLt (by omega)

theorem checkedAlignUp_panics_iff (a p : Word) :
    Addr.checkedAlignUp a p = .panic ↔ ¬ IsPow2 p := by
  rw [isPow2_iff]
  unfold Addr.checkedAlignUp
  by_cases h0 : p = 0
  · rw [if_pos h0]
    exact ⟨fun _ h => h.1 h0, fun _ => rfl⟩
  · rw [if_neg h0]
    by_cases h1 : p &&& (p - 1) = 0
    · rw [if_neg (fun h => h h1)]
      exact ⟨fun h => (by cases h), fun h => absurd ⟨h0, h1⟩ h⟩
    · rw [if_pos h1]
      exact ⟨fun _ h => h1 h.2, fun _ => rfl⟩

theorem checkedAlignUp_eq_of_pow2 (a p : Word) (hp : IsPow2 p) :
    Addr.checkedAlignUp a p =
      .ok ((Addr.checkedAdd a (p - 1)).map (fun x => x &&& ~~~(p - 1))) := by
  have h0 := hp.ne_zero
  have h1 := hp.and_pred
  unfold Addr.checkedAlignUp
  rw [if_neg h0, if_neg (fun h => h h1)]

/-- when the add succeeds, the computed value is the least multiple `≥ a` -/
theorem alignUp_value {a p x : Word} (hp : IsPow2 p) (hx : x.toNat = a.toNat + (p - 1).toNat) :
    IsLeastMultipleGe p.toNat a.toNat (x &&& ~~~(p - 1)).toNat := by
  obtain ⟨k, hk64, hk⟩ := hp
  rw [toNat_and_not_pred hk64 hk, hx, toNat_pred_of_pow2 hk, ← hk]
  have hpos : 0 < p.toNat := by rw [hk]; exact Nat.two_pow_pos k
  obtain ⟨h1, h2, _, h4⟩ := alignUp_least a.toNat p.toNat hpos
  exact ⟨h1, h2, h4⟩

theorem checkedAlignUp_some (a p r : Word) (hp : IsPow2 p) :
    Addr.checkedAlignUp a p = .ok (some r) ↔
      (p.toNat ∣ r.toNat ∧ a.toNat ≤ r.toNat ∧ ∀ m, p.toNat ∣ m → a.toNat ≤ m → r.toNat ≤ m) := by
  rw [checkedAlignUp_eq_of_pow2 a p hp]
  obtain ⟨k, hk64, hk⟩ := id hp
  have hpred := toNat_pred_of_pow2 hk
  have hpos : 0 < 2 ^ k := Nat.two_pow_pos k
  constructor
  · intro h
    cases hadd : Addr.checkedAdd a (p - 1) with
    | none => rw [hadd] at h; simp only [Option.map_none] at h; cases h
    | some x =>
      rw [hadd] at h
      simp only [Option.map_some, Res.ok.injEq, Option.some.injEq] at h
      have hx := checkedAdd_val hadd
      have := alignUp_value hp hx
      rw [h] at this
      exact this
  · intro h
    have hr : r.toNat + 2 ^ k ≤ 2 ^ 64 :=
      multiple_le_top k 64 r.toNat (by omega) (hk ▸ h.1) r.isLt
    have hfit : a.toNat + (p - 1).toNat < U := by
      rw [hpred]; unfold U; have := h.2.1; omega
    obtain ⟨x, hadd⟩ := (checkedAdd_iff a (p - 1)).2 hfit
    have hx := checkedAdd_val hadd
    have hv := alignUp_value hp hx
    simp only [hadd, Option.map_some]
    congr 2
    apply BitVec.eq_of_toNat_eq
    exact least_unique a.toNat p.toNat _ _ hv h

theorem checkedAlignUp_none (a p : Word) (hp : IsPow2 p) :
    Addr.checkedAlignUp a p = .ok none ↔ ¬ ∃ m, m < U ∧ p.toNat ∣ m ∧ a.toNat ≤ m := by
  rw [checkedAlignUp_eq_of_pow2 a p hp]
  obtain ⟨k, hk64, hk⟩ := id hp
  have hpred := toNat_pred_of_pow2 hk
  have hpos : 0 < 2 ^ k := Nat.two_pow_pos k
  constructor
  · intro h ⟨m, hmU, hdvd, ham⟩
    have hm : m + 2 ^ k ≤ 2 ^ 64 := multiple_le_top k 64 m (by omega) (hk ▸ hdvd) hmU
    have hfit : a.toNat + (p - 1).toNat < U := by
      rw [hpred]; unfold U; omega
    obtain ⟨x, hadd⟩ := (checkedAdd_iff a (p - 1)).2 hfit
    rw [hadd] at h
    simp only [Option.map_some, Res.ok.injEq] at h
    cases h
  · intro h
    cases hadd : Addr.checkedAdd a (p - 1) with
    | none => rfl
    | some x =>
      exfalso
      apply h
      have hx := checkedAdd_val hadd
      have hv := alignUp_value hp hx
      exact ⟨_, (x &&& ~~~(p - 1)).isLt, hv.1, hv.2.1⟩

/-- `checked_align_up` returns `None` exactly when `a + (p-1)` overflows -/
theorem checkedAlignUp_none_iff_overflow (a p : Word) (hp : IsPow2 p) :
    Addr.checkedAlignUp a p = .ok none ↔ U ≤ a.toNat + p.toNat - 1 := by
  rw [checkedAlignUp_eq_of_pow2 a p hp]
  obtain ⟨k, hk64, hk⟩ := id hp
  have hpred := toNat_pred_of_pow2 hk
  have hpos : 0 < 2 ^ k := Nat.two_pow_pos k
  cases hadd : Addr.checkedAdd a (p - 1) with
  | none =>
    have := (checkedAdd_none_iff _ _).1 hadd
    simp; omega
  | some x =>
    have := (checkedAdd_iff a (p - 1)).1 ⟨x, hadd⟩
    simp; omega

theorem uncheckedAlignUp_eq (chk : Bool) (a p : Word) (hp : IsPow2 p)
    (h : a.toNat + p.toNat - 1 < U) :
    ∃ r, Addr.uncheckedAlignUp chk a p = .ok r ∧
      (p.toNat ∣ r.toNat ∧ a.toNat ≤ r.toNat ∧ ∀ m, p.toNat ∣ m → a.toNat ≤ m → r.toNat ≤ m) := by
  obtain ⟨k, hk64, hk⟩ := id hp
  have hpred := toNat_pred_of_pow2 hk
  have hpos : 0 < 2 ^ k := Nat.two_pow_pos k
  have hfit : a.toNat + (p - 1).toNat < U := by rw [hpred]; omega
  obtain ⟨x, hadd, hx⟩ := uncheckedAdd_fits chk a (p - 1) hfit
  refine ⟨x &&& ~~~(p - 1), ?_, alignUp_value hp hx⟩
  have h0 := hp.ne_zero
  unfold Addr.uncheckedAlignUp
  rw [if_neg (fun h => h0 h.1)]
  simp only [hadd]

/-- on non-overflowing inputs the two align-up functions agree, in both profiles -/
theorem uncheckedAlignUp_eq_checked (chk : Bool) (a p : Word) (hp : IsPow2 p)
    (h : a.toNat + p.toNat - 1 < U) :
    ∃ r, Addr.uncheckedAlignUp chk a p = .ok r ∧ Addr.checkedAlignUp a p = .ok (some r) := by
  obtain ⟨r, h1, h2⟩ := uncheckedAlignUp_eq chk a p hp h
  exact ⟨r, h1, (checkedAlignUp_some a p r hp).2 h2⟩

/-! ### 6. mask / bitand / bitor -/

theorem mask_raw (a m : Word) : (Addr.mask a m).toNat = a.toNat &&& m.toNat :=
  BitVec.toNat_and a m
theorem bitAnd_raw (a m : Word) : (Addr.bitAnd a m).toNat = a.toNat &&& m.toNat :=
  BitVec.toNat_and a m
theorem bitOr_raw (a m : Word) : (Addr.bitOr a m).toNat = a.toNat ||| m.toNat :=
  BitVec.toNat_or a m

/-! ### 7. ordering -/

theorem cmp_spec (a b : Word) :
    (Addr.cmp a b = -1 ↔ a.toNat < b.toNat) ∧
    (Addr.cmp a b = 0 ↔ a = b) ∧
    (Addr.cmp a b = 1 ↔ a.toNat > b.toNat) := by
  unfold Addr.cmp
  rw [← BitVec.toNat_inj]
  by_cases h1 : a.toNat < b.toNat
  · have : a.toNat ≠ b.toNat := by omega
    have : ¬ a.toNat > b.toNat := by omega
    simp [*]
  · by_cases h2 : a.toNat = b.toNat
    · simp [h2]
    · have : a.toNat > b.toNat := by omega
      simp [*]

/-! ### non-vacuity -/

example : IsPow2 (4 : Word) := ⟨2, by decide, by decide⟩
example : ¬ IsPow2 (6 : Word) := by rw [isPow2_iff]; decide
example : ¬ IsPow2 (0 : Word) := by rw [isPow2_iff]; decide
example : Addr.checkedAlignUp (BitVec.ofNat 64 (2 ^ 64 - 5)) 4 =
    .ok (some (BitVec.ofNat 64 (2 ^ 64 - 4))) := by decide
example : Addr.checkedAlignUp (BitVec.ofNat 64 (2 ^ 64 - 3)) 4 = .ok none := by decide
example : Addr.checkedAlignUp (BitVec.ofNat 64 (2 ^ 64 - 4)) 4 =
    .ok (some (BitVec.ofNat 64 (2 ^ 64 - 4))) := by decide
example : Addr.checkedAlignUp 0x1001 0x1000 = .ok (some 0x2000) := by decide
example : Addr.checkedAlignUp 5 6 = .panic := by decide
example : Addr.checkedAlignUp 5 0 = .panic := by decide
example : Addr.uncheckedAlignUp true (BitVec.ofNat 64 (2 ^ 64 - 3)) 4 = .panic := by decide
example : Addr.uncheckedAlignUp false (BitVec.ofNat 64 (2 ^ 64 - 3)) 4 = .ok 0 := by decide
example : Addr.uncheckedAlignUp true 0x1001 0x1000 = .ok 0x2000 := by decide
example : Addr.checkedAdd (BitVec.ofNat 64 (2 ^ 64 - 1)) 1 = none := by decide
example : Addr.overflowingAdd (BitVec.ofNat 64 (2 ^ 64 - 1)) 2 = (1, true) := by decide
example : Addr.overflowingSub 1 2 = (BitVec.ofNat 64 (2 ^ 64 - 1), true) := by decide
example : Addr.uncheckedSub true 1 2 = .panic := by decide
example : Addr.uncheckedSub false 1 2 = .ok (BitVec.ofNat 64 (2 ^ 64 - 1)) := by decide
example : Addr.cmp 1 2 = -1 ∧ Addr.cmp 2 2 = 0 ∧ Addr.cmp 3 2 = 1 := by decide

#print axioms checkedAdd_iff
#print axioms checkedAdd_val
#print axioms checkedSub_iff
#print axioms checkedSub_val
#print axioms checkedOffsetFrom_iff
#print axioms checkedOffsetFrom_val
#print axioms overflowingAdd_spec
#print axioms overflowingSub_spec
#print axioms uncheckedAdd_fits
#print axioms uncheckedAdd_overflow_checked
#print axioms uncheckedAdd_overflow_wrapping
#print axioms uncheckedSub_fits
#print axioms uncheckedSub_underflow_checked
#print axioms uncheckedSub_underflow_wrapping
#print axioms isPow2_iff
#print axioms checkedAlignUp_panics_iff
#print axioms checkedAlignUp_some
#print axioms checkedAlignUp_none
#print axioms checkedAlignUp_none_iff_overflow
#print axioms uncheckedAlignUp_eq
#print axioms uncheckedAlignUp_eq_checked
#print axioms mask_raw
#print axioms bitAnd_raw
#print axioms bitOr_raw
#print axioms cmp_spec

end C19
end VmMem
