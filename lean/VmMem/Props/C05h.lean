/-
  VmMem.Props.C05h — C05 (soundness of dirty-page tracking) under a concurrent harvester.

  `VmMem.Props.C05` is sequential: it relates the state before an operation to the state
  after it.  A harvester thread (`AtomicBitmap::get_and_reset`, or `reset`) may run at any
  moment, in particular BETWEEN the two atomic phases of a tracked store:

      store the bytes            (`storePhase`,  `Mem.writeAt`)
      mark the pages dirty       (`markPhase`,   `Mem.mark`)

  The source issues them in this order (`copy_to_volatile_slice`: `copy_slice_impl`, then
  `slice.bitmap.mark_dirty(0, count)`; the same for `VolatileRef::store`, `Bytes::store`).
  With this order a harvest between the phases is harmless: the mark comes after it, so
  every changed byte is dirty in the final state (§3).  With the opposite order the harvest
  would collect the mark BEFORE the bytes change, and the page modified afterwards would
  stay clean for ever (§5, a concrete container).

  Layout
    §0  `harvest`, `harvestResult`, `storePhase`, `markPhase`
    §1  `copy_is_store_then_mark`
    §2  `harvest_setting`, `harvest_tracks` (and `k` harvests)
    §3  `sound_with_harvest_between` (+ any number of harvests before the store and between)
    §4  `mark_survives_or_is_harvested` (a harvest AFTER the mark returns the page)
    §5  `mark_first_is_unsound` (counter-example for the opposite order), non-vacuity of §3
    §6  the public operations: `VSlice.write`, `VRef.store`, `VSlice.store`, `writeSlice`
  Core Lean only.
-/
import VmMem.Props.C05
namespace VmMem.C05h
open VmMem C01 Dirty VolatileLemmas

/-! ## §0 definitions -/

/-- a concurrent harvest (or reset) of the container's bitmap: `get_and_reset` -/
def harvest (m : Mem) : Mem := { m with bm := m.bm.map (fun b => b.getAndReset.1) }

/-- the words that harvest hands to its caller -/
def harvestResult (m : Mem) : List (BitVec 64) :=
  match m.bm with
  | some b => b.getAndReset.2
  | none => []

/-- the two atomic phases of a tracked store, in the order the source has them -/
def storePhase (m : Mem) (s : VSlice) (src : List UInt8) (total : Nat) : Res Mem :=
  m.writeAt s.addr (src.take total)
def markPhase (m : Mem) (s : VSlice) (total : Nat) : Res Mem := m.mark s.bmBase 0 total

/-- `AtomicBitmap::reset` has the same effect on the container as the state part of a harvest -/
theorem harvest_eq_reset (m : Mem) : harvest m = { m with bm := m.bm.map ABitmap.reset } := by
  unfold harvest
  congr 1
  cases m.bm with
  | none => rfl
  | some b => simp only [Option.map_some, C09.reset_eq_getAndReset]

/-- the harvest step of `C05.stepH` is `harvest` -/
theorem stepH_harvest (m : Mem) (snap : List UInt8) :
    C05.stepH (m, snap) .harvest = .ok (harvest m, m.bytes) := rfl

/-! ## §1 the operation is its two phases, store first -/

theorem copy_is_store_then_mark (m : Mem) (s : VSlice) (src : List UInt8) (total : Nat) :
    copyToVolatileSlice m s src total =
      (do let m1 ← storePhase m s src total
          let m2 ← markPhase m1 s total
          pure (m2, total)) := rfl

/-! ## §2 a harvest keeps the setting, the bytes and the accessors; it empties the bitmap -/

@[simp] theorem harvest_bytes (m : Mem) : (harvest m).bytes = m.bytes := rfl
@[simp] theorem harvest_base (m : Mem) : (harvest m).base = m.base := rfl

theorem harvest_bm {m : Mem} {b : ABitmap} (h : m.bm = some b) :
    (harvest m).bm = some b.getAndReset.1 := by
  simp only [harvest, h, Option.map_some]

/-- explicit form: the bitmap after the harvest is `b.getAndReset.1` -/
theorem harvest_setting_explicit {m : Mem} {b : ABitmap} {B0 : Nat} (hs : Setting m b B0) :
    Setting (harvest m) b.getAndReset.1 B0 ∧ (∀ p, b.getAndReset.1.bit p = false) ∧
      b.getAndReset.1.page = b.page ∧ b.getAndReset.1.byteSize = b.byteSize := by
  obtain ⟨r1, -, r3, r4, r5, -⟩ := C09.getAndReset_spec b hs.inv
  exact ⟨⟨harvest_bm hs.bm, r1, by rw [r3]; exact hs.size, hs.fitU, hs.baseU⟩, r5, r4, r3⟩

theorem harvest_setting {m : Mem} {b : ABitmap} {B0 : Nat} (hs : Setting m b B0) :
    ∃ b', Setting (harvest m) b' B0 ∧ (∀ p, b'.bit p = false) ∧
      (harvest m).bytes = m.bytes ∧ (harvest m).base = m.base :=
  ⟨b.getAndReset.1, (harvest_setting_explicit hs).1, (harvest_setting_explicit hs).2.1, rfl, rfl⟩

theorem harvest_tracks {m : Mem} {B0 : Nat} {a : Acc} (ht : Tracks m B0 a) :
    Tracks (harvest m) B0 a := ht.congr rfl rfl

/-- directly after a harvest nothing is dirty -/
theorem harvest_cleans {m : Mem} {b : ABitmap} {B0 : Nat} (hs : Setting m b B0) (i : Nat) :
    dirty (harvest m) B0 i = false := by
  obtain ⟨h1, h2, -⟩ := harvest_setting_explicit hs
  rw [dirty_of_bm h1.bm]; exact h2 _

theorem repeat_succ (m : Mem) (k : Nat) :
    Nat.repeat harvest (k + 1) m = harvest (Nat.repeat harvest k m) := rfl

/-- any number of harvests (`Nat.repeat harvest k m`: `harvest` applied `k` times) -/
theorem harvests_setting {m : Mem} {b : ABitmap} {B0 : Nat} (hs : Setting m b B0) (k : Nat) :
    ∃ bk, Setting (Nat.repeat harvest k m) bk B0 ∧ bk.page = b.page ∧ bk.byteSize = b.byteSize ∧
      (0 < k → ∀ p, bk.bit p = false) ∧
      (Nat.repeat harvest k m).bytes = m.bytes ∧ (Nat.repeat harvest k m).base = m.base := by
  induction k with
  | zero => exact ⟨b, hs, rfl, rfl, fun h => absurd h (Nat.lt_irrefl 0), rfl, rfl⟩
  | succ k ih =>
    obtain ⟨bk, i1, i2, i3, -, i5, i6⟩ := ih
    obtain ⟨h1, h2, h3, h4⟩ := harvest_setting_explicit i1
    rw [repeat_succ]
    exact ⟨_, h1, by rw [h3, i2], by rw [h4, i3], fun _ => h2, i5, i6⟩

theorem harvests_tracks {m : Mem} {B0 : Nat} {a : Acc} (ht : Tracks m B0 a) (k : Nat) :
    Tracks (Nat.repeat harvest k m) B0 a := by
  induction k with
  | zero => exact ht
  | succ k ih => rw [repeat_succ]; exact harvest_tracks ih

/-! ## §3 store, harvest(s), mark: every changed byte is dirty at the end -/

/-- every byte of the window of an `Effect` is dirty afterwards (changed or not) -/
theorem effect_window_dirty {m : Mem} {b : ABitmap} {B0 : Nat} {m' : Mem} {b' : ABitmap} {w n : Nat}
    (he : Effect m b B0 m' b' w n) (i : Nat) (hlo : w ≤ i) (hhi : i < w + n) :
    dirty m' B0 i = true := by
  rw [dirty_of_bm he.bm, he.bits, he.page]
  have h1 : (B0 + w) / b.page ≤ (B0 + i) / b.page := Nat.div_le_div_right (by omega)
  have h2 : (B0 + i) / b.page ≤ (B0 + w + n - 1) / b.page := Nat.div_le_div_right (by omega)
  have h3 : 0 < n := by omega
  simp [markedBits, h1, h2, h3]

/-- the workhorse: `writeAt x d`, then `k` harvests, then `mark bmBase off n`, where `x` is
    byte `w` of the container, `d.length ≤ n` and the bitmap offset tracks the address.
    The mark acts on the harvested bitmap `bk` and adds exactly the pages of the window;
    outside the window the bytes are those of `m`. -/
theorem store_harvest_mark {m : Mem} {b : ABitmap} {B0 : Nat} (hs : Setting m b B0)
    {x w n bmBase off k : Nat} {d : List UInt8} {m1 m2 : Mem}
    (hx : x = m.base + w) (hdn : d.length ≤ n) (hfit : w + n ≤ m.bytes.length)
    (hbm : wrappingAdd bmBase off = B0 + w)
    (h1 : m.writeAt x d = .ok m1) (h2 : (Nat.repeat harvest k m1).mark bmBase off n = .ok m2) :
    ∃ bk b2, Setting (Nat.repeat harvest k m1) bk B0 ∧ Effect (Nat.repeat harvest k m1) bk B0 m2 b2 w n ∧
      m2.bytes = m1.bytes ∧ m2.base = m.base ∧ m2.bytes.length = m.bytes.length ∧
      (∀ i, (i < w ∨ w + n ≤ i) → m2.bytes[i]? = m.bytes[i]?) := by
  have hm1 := writeAt_ok_inv h1
  have hxw : x - m.base = w := by omega
  rw [hxw] at hm1
  have hl1 : m1.bytes.length = m.bytes.length := by
    rw [hm1]; exact splice_length _ _ _ (by omega)
  have hb1 : m1.base = m.base := by rw [hm1]
  have hs1 : Setting m1 b B0 := writeAt_setting hs (by omega) (by omega) h1
  obtain ⟨bk, hsk, -, -, -, hbytes, hbase⟩ := harvests_setting hs1 k
  obtain ⟨hb, b2, he⟩ := mark_Effect hsk hbm (by rw [hbytes, hl1]; exact hfit) h2
  refine ⟨bk, b2, hsk, he, by rw [hb, hbytes], by rw [he.base, hbase, hb1],
    by rw [hb, hbytes, hl1], ?_⟩
  intro i hi
  rw [hb, hbytes, hm1]
  simp only []
  cases hi with
  | inl hi => exact splice_getElem?_lt _ _ _ _ hi (by omega)
  | inr hi => exact splice_getElem?_ge _ _ _ _ (by omega) (by omega)

/-- … hence soundness with respect to the bytes BEFORE the store -/
theorem store_harvest_mark_sound {m : Mem} {b : ABitmap} {B0 : Nat} (hs : Setting m b B0)
    {x w n bmBase off k : Nat} {d : List UInt8} {m1 m2 : Mem}
    (hx : x = m.base + w) (hdn : d.length ≤ n) (hfit : w + n ≤ m.bytes.length)
    (hbm : wrappingAdd bmBase off = B0 + w)
    (h1 : m.writeAt x d = .ok m1) (h2 : (Nat.repeat harvest k m1).mark bmBase off n = .ok m2) :
    (∃ b2, Setting m2 b2 B0) ∧ ∀ i, m2.bytes[i]? ≠ m.bytes[i]? → dirty m2 B0 i = true := by
  obtain ⟨bk, b2, hsk, he, -, -, -, hout⟩ := store_harvest_mark hs hx hdn hfit hbm h1 h2
  refine ⟨⟨b2, he.setting hsk⟩, ?_⟩
  intro i hne
  have hin : w ≤ i ∧ i < w + n :=
    Classical.byContradiction fun hc => hne (hout i (by omega))
  exact effect_window_dirty he i hin.1 hin.2

section copy
variable {m : Mem} {b : ABitmap} {B0 : Nat}

/-- 3, general form: `k` harvests between the store and the mark -/
theorem sound_with_harvests_between (hs : Setting m b B0) {s : VSlice} (ht : Tracks m B0 (.sl s))
    {src : List UInt8} {total : Nat} {m1 m2 : Mem} (htot : total ≤ s.size) (k : Nat)
    (h1 : storePhase m s src total = .ok m1) (h2 : markPhase (Nat.repeat harvest k m1) s total = .ok m2) :
    ∀ i, m2.bytes[i]? ≠ m.bytes[i]? → dirty m2 B0 i = true := by
  obtain ⟨t1, t2, t3⟩ := id ht
  simp only [Acc.lo, Acc.hi, Acc.bytes] at t2 t3
  have hw := tracks_wrap hs ht 0 (by simp only [Acc.lo]; omega)
  simp only [Acc.lo, Acc.bmBase, Nat.add_zero] at hw
  exact (store_harvest_mark_sound hs (w := s.addr - m.base) (by omega)
    (by rw [List.length_take]; omega) (by omega) hw h1 h2).2

/-- 3. with ANY harvest between the store and the mark, every byte the operation changed
    is dirty afterwards -/
theorem sound_with_harvest_between (hs : Setting m b B0) {s : VSlice} (ht : Tracks m B0 (.sl s))
    {src : List UInt8} {total : Nat} {m1 m2 : Mem} (htot : total ≤ s.size)
    (h1 : storePhase m s src total = .ok m1) (h2 : markPhase (harvest m1) s total = .ok m2) :
    ∀ i, m2.bytes[i]? ≠ m.bytes[i]? → dirty m2 B0 i = true :=
  sound_with_harvests_between hs ht htot 1 h1 h2

/-- the case of no harvest is `C05.sound` for `copyIn` -/
theorem sound_without_harvest (hs : Setting m b B0) {s : VSlice} (ht : Tracks m B0 (.sl s))
    {src : List UInt8} {total : Nat} {m1 m2 : Mem} (htot : total ≤ s.size)
    (h1 : storePhase m s src total = .ok m1) (h2 : markPhase m1 s total = .ok m2) :
    ∀ i, m2.bytes[i]? ≠ m.bytes[i]? → dirty m2 B0 i = true := by
  apply C05.sound hs ht (op := .copyIn src total)
  simp only [applyW, if_pos htot, copy_is_store_then_mark, h1, h2, Res.bind_ok, Res.pure_eq, mapOk]

/-- harvests both before the store (`j` of them) and between the store and the mark (`k`) -/
theorem sound_with_harvests_before_and_between (hs : Setting m b B0) {s : VSlice}
    (ht : Tracks m B0 (.sl s)) {src : List UInt8} {total : Nat} {m1 m2 : Mem}
    (htot : total ≤ s.size) (j k : Nat)
    (h1 : storePhase (Nat.repeat harvest j m) s src total = .ok m1)
    (h2 : markPhase (Nat.repeat harvest k m1) s total = .ok m2) :
    ∀ i, m2.bytes[i]? ≠ m.bytes[i]? → dirty m2 B0 i = true := by
  obtain ⟨bj, hsj, -, -, -, hbytes, -⟩ := harvests_setting hs j
  have := sound_with_harvests_between hsj (harvests_tracks ht j) htot k h1 h2
  rw [hbytes] at this
  exact this

end copy

/-! ## §4 a harvest AFTER the mark legitimately collects it: then the page is in the
       words that harvest returns.  ("reported dirty" then refers to that result.) -/

/-- the words a harvest returns encode exactly the set of dirty pages -/
theorem harvestResult_spec {m : Mem} {b : ABitmap} {B0 : Nat} (hs : Setting m b B0) (p : Nat) :
    (p < 64 * (harvestResult m).length ∧
      ((harvestResult m).getD (p / 64) 0).getLsbD (p % 64) = true) ↔ b.bit p = true := by
  obtain ⟨-, -, -, -, -, -, h7⟩ := C09.getAndReset_spec b hs.inv
  simp only [harvestResult, hs.bm]
  exact h7 p

/-- a page that is dirty when the harvest runs is returned by it -/
theorem harvestResult_bit {m : Mem} {b : ABitmap} {B0 : Nat} (hs : Setting m b B0) (p : Nat)
    (h : b.bit p = true) : ((harvestResult m).getD (p / 64) 0).getLsbD (p % 64) = true :=
  ((harvestResult_spec hs p).2 h).2

/-- a byte that is dirty when the harvest runs: its page is returned by the harvest -/
theorem harvestResult_dirty {m : Mem} {b : ABitmap} {B0 : Nat} (hs : Setting m b B0) (i : Nat)
    (h : dirty m B0 i = true) :
    ((harvestResult m).getD ((B0 + i) / b.page / 64) 0).getLsbD ((B0 + i) / b.page % 64) = true := by
  rw [dirty_of_bm hs.bm] at h
  exact harvestResult_bit hs _ h

section after
variable {m : Mem} {b : ABitmap} {B0 : Nat}

/-- 4. store, (any number of harvests), mark — and then possibly one more harvest.
    `m2` is the state after the operation, `b2` its bitmap.  Every page set in `b2` is returned
    by a harvest of `m2`; for a byte `i` the operation changed: it is dirty in `m2`, and a
    harvest running after the mark returns its page (and, of course, leaves it clean: that
    harvest's RESULT is what reports the byte). -/
theorem mark_survives_or_is_harvested (hs : Setting m b B0) {s : VSlice} (ht : Tracks m B0 (.sl s))
    {src : List UInt8} {total : Nat} {m1 m2 : Mem} (htot : total ≤ s.size) (k : Nat)
    (h1 : storePhase m s src total = .ok m1)
    (h2 : markPhase (Nat.repeat harvest k m1) s total = .ok m2) :
    ∃ b2, Setting m2 b2 B0 ∧
      (∀ p, b2.bit p = true → ((harvestResult m2).getD (p / 64) 0).getLsbD (p % 64) = true) ∧
      ∀ i, m2.bytes[i]? ≠ m.bytes[i]? →
        dirty m2 B0 i = true ∧
        ((harvestResult m2).getD ((B0 + i) / b2.page / 64) 0).getLsbD ((B0 + i) / b2.page % 64) = true ∧
        (harvest m2).bytes = m2.bytes ∧ dirty (harvest m2) B0 i = false := by
  obtain ⟨t1, t2, t3⟩ := id ht
  simp only [Acc.lo, Acc.hi, Acc.bytes] at t2 t3
  have hw := tracks_wrap hs ht 0 (by simp only [Acc.lo]; omega)
  simp only [Acc.lo, Acc.bmBase, Nat.add_zero] at hw
  obtain ⟨⟨b2, hs2⟩, hsound⟩ := store_harvest_mark_sound hs (w := s.addr - m.base) (by omega)
    (by rw [List.length_take]; omega) (by omega) hw h1 h2
  refine ⟨b2, hs2, fun p hp => harvestResult_bit hs2 p hp, ?_⟩
  intro i hne
  have hd := hsound i hne
  exact ⟨hd, harvestResult_dirty hs2 i hd, rfl, harvest_cleans hs2 i⟩

/-- the either/or reading: whether or not a harvest ran after the mark (`fin` is the final
    state), a changed byte is dirty in the final state or was returned by that harvest -/
theorem final_dirty_or_harvested (hs : Setting m b B0) {s : VSlice} (ht : Tracks m B0 (.sl s))
    {src : List UInt8} {total : Nat} {m1 m2 : Mem} (htot : total ≤ s.size) (k : Nat)
    (h1 : storePhase m s src total = .ok m1)
    (h2 : markPhase (Nat.repeat harvest k m1) s total = .ok m2)
    (fin : Mem) (hfin : fin = m2 ∨ fin = harvest m2) :
    ∀ i, fin.bytes[i]? ≠ m.bytes[i]? →
      dirty fin B0 i = true ∨
      (fin = harvest m2 ∧ ∃ b2, m2.bm = some b2 ∧
        ((harvestResult m2).getD ((B0 + i) / b2.page / 64) 0).getLsbD ((B0 + i) / b2.page % 64) = true) := by
  obtain ⟨b2, hs2, -, h⟩ := mark_survives_or_is_harvested hs ht htot k h1 h2
  intro i hne
  cases hfin with
  | inl hf => subst hf; exact .inl (h i hne).1
  | inr hf => subst hf; exact .inr ⟨rfl, b2, hs2.bm, (h i hne).2.1⟩

/-- the same for the operation run without interference: `m'` is the state after
    `copy_to_volatile_slice` -/
theorem copy_then_harvest (hs : Setting m b B0) {s : VSlice} (ht : Tracks m B0 (.sl s))
    {src : List UInt8} {total n : Nat} {m' : Mem} (htot : total ≤ s.size)
    (h : copyToVolatileSlice m s src total = .ok (m', n)) :
    ∃ b', Setting m' b' B0 ∧
      (∀ p, b'.bit p = true → ((harvestResult m').getD (p / 64) 0).getLsbD (p % 64) = true) ∧
      ∀ i, m'.bytes[i]? ≠ m.bytes[i]? →
        dirty m' B0 i = true ∧
        ((harvestResult m').getD ((B0 + i) / b'.page / 64) 0).getLsbD ((B0 + i) / b'.page % 64) = true := by
  rw [copy_is_store_then_mark] at h
  obtain ⟨m1, h1, h⟩ := (Res.bind_eq_ok _ _ _).1 h
  obtain ⟨m2, h2, h⟩ := (Res.bind_eq_ok _ _ _).1 h
  simp only [Res.pure_eq, Res.ok.injEq, Prod.mk.injEq] at h
  obtain ⟨rfl, rfl⟩ := h
  obtain ⟨b2, hs2, hp, hi⟩ := mark_survives_or_is_harvested hs ht htot 0 h1 h2
  exact ⟨b2, hs2, hp, fun i hne => ⟨(hi i hne).1, (hi i hne).2.1⟩⟩

end after

/-! ## §5 the order matters: mark first, harvest, store — a modified page stays clean -/

/-- 16 bytes at 0x1000, 4-byte pages, `B0 = 0` -/
def cM : Mem := { base := 0x1000, bytes := List.replicate 16 0, bm := some (ABitmap.new 16 4) }
/-- two bytes at offset 5 of the container (page 1) -/
def cS : VSlice := { addr := 0x1005, size := 2, bmBase := 5 }
def cSrc : List UInt8 := [0xAA, 0xBB]

/-- after the mark: page 1 set -/
def cMa : Mem := { cM with bm := some ⟨[2#64], 4, 16, 4⟩ }
/-- after mark, harvest, store: bytes 5 and 6 changed, bitmap empty -/
def cMb : Mem :=
  { base := 0x1000, bytes := [0, 0, 0, 0, 0, 0xAA, 0xBB, 0, 0, 0, 0, 0, 0, 0, 0, 0],
    bm := some ⟨[0#64], 4, 16, 4⟩ }

theorem cM_setting : Setting cM (ABitmap.new 16 4) 0 :=
  Setting.of_eq rfl (C09.new_inv 16 4 (by decide)) (by decide) (by decide) (by decide)

theorem cS_tracks : Tracks cM 0 (.sl cS) := by
  refine ⟨?_, ?_, ?_⟩ <;> decide

/-- the hypothetical opposite order: `mark_dirty` first, then the store -/
def markThenStore (m : Mem) (s : VSlice) (src : List UInt8) (total : Nat) : Res (Mem × Nat) := do
  let ma ← markPhase m s total
  let mb ← storePhase ma s src total
  pure (mb, total)

/-- … with `k` harvests between its two phases -/
def markThenStoreH (m : Mem) (s : VSlice) (src : List UInt8) (total k : Nat) : Res (Mem × Nat) := do
  let ma ← markPhase m s total
  let mb ← storePhase (Nat.repeat harvest k ma) s src total
  pure (mb, total)

theorem markThenStoreH_zero (m : Mem) (s : VSlice) (src : List UInt8) (total : Nat) :
    markThenStoreH m s src total 0 = markThenStore m s src total := rfl

/-- 5. mark first, then a harvest, then the store: the mark is collected BEFORE the bytes
    change (the harvester reads the old bytes of page 1 and is told nothing afterwards);
    byte 5 differs from the initial container and its page is clean.  The hypotheses of
    `sound_with_harvest_between` (`cM_setting`, `cS_tracks`, `2 ≤ cS.size`) all hold: only
    the order of the phases differs. -/
theorem mark_first_is_unsound :
    markPhase cM cS 2 = .ok cMa ∧ dirty cMa 0 5 = true ∧ harvestResult cMa = [2#64] ∧
    storePhase (harvest cMa) cS cSrc 2 = .ok cMb ∧
    cMb.bytes[5]? ≠ cM.bytes[5]? ∧ dirty cMb 0 5 = false ∧
    harvestResult cMb = [0#64] := by
  decide +kernel

/-- the same as one run of the reordered operation -/
theorem mark_first_is_unsound_run :
    markThenStoreH cM cS cSrc 2 1 = .ok (cMb, 2) ∧
    ¬ (∀ i, cMb.bytes[i]? ≠ cM.bytes[i]? → dirty cMb 0 i = true) := by
  refine ⟨by decide +kernel, ?_⟩
  intro h
  have := h 5 (by decide +kernel)
  revert this
  decide +kernel

/-- without interference both orders give the same final state: the sequential theorems of
    `C05` cannot tell them apart -/
theorem orders_agree_sequentially :
    markThenStore cM cS cSrc 2 = copyToVolatileSlice cM cS cSrc 2 := by
  decide +kernel

/-- non-vacuity of §3 on the same container with the same harvest: store first, harvest,
    mark.  The phases succeed, byte 5 changed, and `sound_with_harvest_between` (not
    evaluation) gives that it is dirty. -/
theorem store_first_is_sound_here :
    ∃ m1 m2, storePhase cM cS cSrc 2 = .ok m1 ∧ markPhase (harvest m1) cS 2 = .ok m2 ∧
      m2.bytes[5]? ≠ cM.bytes[5]? ∧ dirty m2 0 5 = true ∧ dirty m2 0 6 = true := by
  have h1 : storePhase cM cS cSrc 2 = .ok { cMb with bm := some (ABitmap.new 16 4) } := by
    decide +kernel
  have h2 : markPhase (harvest { cMb with bm := some (ABitmap.new 16 4) }) cS 2
      = .ok { cMb with bm := some ⟨[2#64], 4, 16, 4⟩ } := by decide +kernel
  have hsound := sound_with_harvest_between cM_setting cS_tracks (by decide) h1 h2
  exact ⟨_, _, h1, h2, by decide +kernel, hsound 5 (by decide +kernel), hsound 6 (by decide +kernel)⟩

/-- … and the evaluation agrees with the theorem -/
example : dirty ({ cMb with bm := some ⟨[2#64], 4, 16, 4⟩ } : Mem) 0 5 = true := by decide +kernel

/-! ## §6 the public operations built from the two phases -/

/-- `copy_to_volatile_slice` with `k` harvests between its store and its mark -/
def copyH (m : Mem) (s : VSlice) (src : List UInt8) (total k : Nat) : Res (Mem × Nat) := do
  let m1 ← storePhase m s src total
  let m2 ← markPhase (Nat.repeat harvest k m1) s total
  pure (m2, total)

theorem copyH_zero (m : Mem) (s : VSlice) (src : List UInt8) (total : Nat) :
    copyH m s src total 0 = copyToVolatileSlice m s src total := rfl

theorem copyH_ok {m : Mem} {s : VSlice} {src : List UInt8} {total k n : Nat} {m' : Mem}
    (h : copyH m s src total k = .ok (m', n)) :
    n = total ∧ ∃ m1, storePhase m s src total = .ok m1 ∧
      markPhase (Nat.repeat harvest k m1) s total = .ok m' := by
  unfold copyH at h
  obtain ⟨m1, h1, h⟩ := (Res.bind_eq_ok _ _ _).1 h
  obtain ⟨m2, h2, h⟩ := (Res.bind_eq_ok _ _ _).1 h
  simp only [Res.pure_eq, Res.ok.injEq, Prod.mk.injEq] at h
  obtain ⟨rfl, rfl⟩ := h
  exact ⟨rfl, m1, h1, h2⟩

section ops
variable {m : Mem} {b : ABitmap} {B0 : Nat}

theorem copy_sound_with_harvest (hs : Setting m b B0) {s : VSlice} (ht : Tracks m B0 (.sl s))
    {src : List UInt8} {total k n : Nat} {m' : Mem} (htot : total ≤ s.size)
    (h : copyH m s src total k = .ok (m', n)) :
    ∀ i, m'.bytes[i]? ≠ m.bytes[i]? → dirty m' B0 i = true := by
  obtain ⟨-, m1, h1, h2⟩ := copyH_ok h
  exact sound_with_harvests_between hs ht htot k h1 h2

/-! ### `Bytes::write` -/

/-- `VolatileSlice::write` with `k` harvests between the store and the mark of its
    `copy_to_volatile_slice` -/
def writeH (m : Mem) (s : VSlice) (buf : List UInt8) (addr k : Nat) : Res (Mem × Nat) :=
  if buf.isEmpty then .ok (m, 0)
  else if addr ≥ s.size then .err .outOfBounds
  else do
    let s' ← s.offset addr
    copyH m s' buf (min s'.size buf.length) k

theorem writeH_zero (m : Mem) (s : VSlice) (buf : List UInt8) (addr : Nat) :
    writeH m s buf addr 0 = s.write m buf addr := rfl

/-- 6. a `write` that stores something is the store phase followed by the mark phase of
    the sub-slice `s' = s.offset(addr)` with `n = min(s'.len, buf.len)` -/
theorem write_is_store_then_mark (m : Mem) (s : VSlice) (buf : List UInt8) (addr : Nat)
    (hne : buf.isEmpty = false) {m' : Mem} {n : Nat} (h : s.write m buf addr = .ok (m', n)) :
    ∃ s', s.offset addr = .ok s' ∧ n = min s'.size buf.length ∧
      s.write m buf addr =
        (do let m1 ← storePhase m s' buf n
            let m2 ← markPhase m1 s' n
            pure (m2, n)) := by
  unfold VSlice.write at h
  rw [if_neg (by simp [hne])] at h
  split at h
  · cases h
  · rename_i hlt
    obtain ⟨s', hs', hc⟩ := (Res.bind_eq_ok _ _ _).1 h
    have hn : n = min s'.size buf.length := by
      rw [copy_is_store_then_mark] at hc
      obtain ⟨m1, -, hc⟩ := (Res.bind_eq_ok _ _ _).1 hc
      obtain ⟨m2, -, hc⟩ := (Res.bind_eq_ok _ _ _).1 hc
      simp only [Res.pure_eq, Res.ok.injEq, Prod.mk.injEq] at hc
      exact hc.2.symm
    refine ⟨s', hs', hn, ?_⟩
    unfold VSlice.write
    rw [if_neg (by simp [hne]), if_neg hlt, hs', hn]
    rfl

/-- the empty buffer: nothing is stored, nothing needs a mark -/
theorem write_empty (m : Mem) (s : VSlice) (buf : List UInt8) (addr : Nat)
    (he : buf.isEmpty = true) : s.write m buf addr = .ok (m, 0) := by
  unfold VSlice.write; rw [if_pos he]

theorem writeH_ok {s : VSlice} {buf : List UInt8} {addr k n : Nat} {m' : Mem}
    (h : writeH m s buf addr k = .ok (m', n)) :
    (m' = m ∧ n = 0) ∨
    ∃ s' m1, s.offset addr = .ok s' ∧ n = min s'.size buf.length ∧
      storePhase m s' buf n = .ok m1 ∧ markPhase (Nat.repeat harvest k m1) s' n = .ok m' := by
  unfold writeH at h
  split at h
  · simp only [Res.ok.injEq, Prod.mk.injEq] at h
    exact .inl ⟨h.1.symm, h.2.symm⟩
  · split at h
    · cases h
    · obtain ⟨s', hs', hc⟩ := (Res.bind_eq_ok _ _ _).1 h
      obtain ⟨hn, m1, h1, h2⟩ := copyH_ok hc
      subst hn
      exact .inr ⟨s', m1, hs', rfl, h1, h2⟩

/-- `write` with any number of harvests between its store and its mark is sound -/
theorem write_sound_with_harvest (hs : Setting m b B0) {s : VSlice} (ht : Tracks m B0 (.sl s))
    {buf : List UInt8} {addr k n : Nat} {m' : Mem} (h : writeH m s buf addr k = .ok (m', n)) :
    ∀ i, m'.bytes[i]? ≠ m.bytes[i]? → dirty m' B0 i = true := by
  rcases writeH_ok h with ⟨rfl, -⟩ | ⟨s', m1, hs', hn, h1, h2⟩
  · exact fun i hne => absurd rfl hne
  · have ht' := offset_tracks ht hs'
    exact sound_with_harvests_between hs ht' (by rw [hn]; exact Nat.min_le_left _ _) k h1 h2

/-- in the phrasing of the phases: `s.write m buf addr` decomposed by
    `write_is_store_then_mark`, a harvest dropped between the two phases -/
theorem write_phases_sound_with_harvest (hs : Setting m b B0) {s s' : VSlice}
    (ht : Tracks m B0 (.sl s)) {buf : List UInt8} {addr : Nat} (hoff : s.offset addr = .ok s')
    {m1 m2 : Mem} (h1 : storePhase m s' buf (min s'.size buf.length) = .ok m1)
    (h2 : markPhase (harvest m1) s' (min s'.size buf.length) = .ok m2) :
    ∀ i, m2.bytes[i]? ≠ m.bytes[i]? → dirty m2 B0 i = true :=
  sound_with_harvest_between hs (offset_tracks ht hoff) (Nat.min_le_left _ _) h1 h2

/-! ### `Bytes::write_slice` / `write_obj` (the container is returned also on `PartialBuffer`) -/

def writeSliceH (m : Mem) (s : VSlice) (buf : List UInt8) (addr k : Nat) : Mem × Res Unit :=
  match writeH m s buf addr k with
  | .ok (m', n) => if n ≠ buf.length then (m', .err (.partialBuffer buf.length n)) else (m', .ok ())
  | .err e => (m, .err e)
  | .panic => (m, .panic)

theorem writeSliceH_zero (m : Mem) (s : VSlice) (buf : List UInt8) (addr : Nat) :
    writeSliceH m s buf addr 0 = s.writeSlice m buf addr := rfl

theorem writeSlice_sound_with_harvest (hs : Setting m b B0) {s : VSlice} (ht : Tracks m B0 (.sl s))
    (buf : List UInt8) (addr k : Nat) :
    ∀ i, (writeSliceH m s buf addr k).1.bytes[i]? ≠ m.bytes[i]? →
      dirty (writeSliceH m s buf addr k).1 B0 i = true := by
  unfold writeSliceH
  cases hw : writeH m s buf addr k with
  | ok p =>
    obtain ⟨m', n⟩ := p
    have := write_sound_with_harvest hs ht hw
    simp only []
    split <;> exact this
  | err e => exact fun i hne => absurd rfl hne
  | panic => exact fun i hne => absurd rfl hne

/-! ### `VolatileRef::store` -/

/-- `VolatileRef::store` with `k` harvests between the packed write and `mark_dirty(0, len)` -/
def refStoreH (m : Mem) (r : VRef) (val : List UInt8) (k : Nat) : Res Mem := do
  let m1 ← storePhase m r.toSlice val r.ty.size
  markPhase (Nat.repeat harvest k m1) r.toSlice r.ty.size

theorem refStoreH_zero (m : Mem) (r : VRef) (val : List UInt8) :
    refStoreH m r val 0 = r.store m val := rfl

theorem refStore_is_store_then_mark (m : Mem) (r : VRef) (val : List UInt8) :
    r.store m val =
      (do let m1 ← storePhase m r.toSlice val r.ty.size
          markPhase m1 r.toSlice r.ty.size) := rfl

theorem refStore_sound_with_harvest (hs : Setting m b B0) {r : VRef} (ht : Tracks m B0 (.rf r))
    {val : List UInt8} {k : Nat} {m' : Mem} (h : refStoreH m r val k = .ok m') :
    ∀ i, m'.bytes[i]? ≠ m.bytes[i]? → dirty m' B0 i = true := by
  unfold refStoreH at h
  obtain ⟨m1, h1, h2⟩ := (Res.bind_eq_ok _ _ _).1 h
  exact sound_with_harvests_between hs (refToSlice_tracks ht) (Nat.le_refl _) k h1 h2

/-! ### `VolatileArrayRef::store` -/

def arrStoreH (m : Mem) (a : VArr) (i : Nat) (val : List UInt8) (k : Nat) : Res Mem := do
  let r ← a.refAt i
  refStoreH m r val k

theorem arrStoreH_zero (m : Mem) (a : VArr) (i : Nat) (val : List UInt8) :
    arrStoreH m a i val 0 = a.store m i val := rfl

theorem arrStore_sound_with_harvest (hs : Setting m b B0) {a : VArr} (ht : Tracks m B0 (.ar a))
    {i : Nat} {val : List UInt8} {k : Nat} {m' : Mem} (h : arrStoreH m a i val k = .ok m') :
    ∀ j, m'.bytes[j]? ≠ m.bytes[j]? → dirty m' B0 j = true := by
  unfold arrStoreH at h
  obtain ⟨r, hr, h⟩ := (Res.bind_eq_ok _ _ _).1 h
  exact refStore_sound_with_harvest hs (refAt_tracks ht hr) h

/-! ### `Bytes::store` (the mark is made on the parent slice at `addr`) -/

/-- `VolatileSlice::store::<T>` with `k` harvests between the atomic store and
    `self.bitmap.mark_dirty(addr, size_of::<T>())` -/
def storeH (m : Mem) (s : VSlice) (val : List UInt8) (t : Ty) (addr k : Nat) : Res Mem := do
  let p ← s.alignedRef addr t
  let m1 ← m.writeAt p (val.take t.size)
  (Nat.repeat harvest k m1).mark s.bmBase addr t.size

theorem storeH_zero (m : Mem) (s : VSlice) (val : List UInt8) (t : Ty) (addr : Nat) :
    storeH m s val t addr 0 = s.store m val t addr := rfl

theorem store_sound_with_harvest (hs : Setting m b B0) {s : VSlice} (ht : Tracks m B0 (.sl s))
    {val : List UInt8} {t : Ty} {addr k : Nat} {m' : Mem} (h : storeH m s val t addr k = .ok m') :
    ∀ i, m'.bytes[i]? ≠ m.bytes[i]? → dirty m' B0 i = true := by
  unfold storeH at h
  obtain ⟨p, hp, h⟩ := (Res.bind_eq_ok _ _ _).1 h
  obtain ⟨m1, h1, h2⟩ := (Res.bind_eq_ok _ _ _).1 h
  obtain ⟨a1, a2, a3, rfl⟩ := alignedRef_ok hp
  obtain ⟨t1, t2, t3⟩ := id ht
  simp only [Acc.lo, Acc.hi, Acc.bytes] at t2 t3
  have hw := tracks_wrap hs ht addr (by simp only [Acc.lo]; omega)
  simp only [Acc.lo, Acc.bmBase] at hw
  exact (store_harvest_mark_sound hs (w := s.addr - m.base + addr) (by omega)
    (by rw [List.length_take]; omega) (by omega) hw h1 h2).2

end ops

/-- the lifted theorem is not vacuous: on the container of §5 a `write` of `cSrc` at
    offset 5 of the root slice with one harvest between its phases succeeds, changes
    byte 5, and (by `write_sound_with_harvest`) leaves it dirty -/
theorem writeH_example :
    ∃ m', writeH cM cM.root cSrc 5 1 = .ok (m', 2) ∧ m'.bytes[5]? ≠ cM.bytes[5]? ∧
      dirty m' 0 5 = true := by
  have h : writeH cM cM.root cSrc 5 1 = .ok ({ cMb with bm := some ⟨[2#64], 4, 16, 4⟩ }, 2) := by
    decide +kernel
  exact ⟨_, h, by decide +kernel,
    write_sound_with_harvest cM_setting (C05.mem_root_tracks cM) h 5 (by decide +kernel)⟩

end VmMem.C05h

#print axioms VmMem.C05h.harvest_eq_reset
#print axioms VmMem.C05h.copy_is_store_then_mark
#print axioms VmMem.C05h.harvest_setting_explicit
#print axioms VmMem.C05h.harvest_setting
#print axioms VmMem.C05h.harvest_tracks
#print axioms VmMem.C05h.harvest_cleans
#print axioms VmMem.C05h.harvests_setting
#print axioms VmMem.C05h.harvests_tracks
#print axioms VmMem.C05h.effect_window_dirty
#print axioms VmMem.C05h.store_harvest_mark
#print axioms VmMem.C05h.store_harvest_mark_sound
#print axioms VmMem.C05h.sound_with_harvests_between
#print axioms VmMem.C05h.sound_with_harvest_between
#print axioms VmMem.C05h.sound_without_harvest
#print axioms VmMem.C05h.sound_with_harvests_before_and_between
#print axioms VmMem.C05h.harvestResult_spec
#print axioms VmMem.C05h.harvestResult_bit
#print axioms VmMem.C05h.harvestResult_dirty
#print axioms VmMem.C05h.mark_survives_or_is_harvested
#print axioms VmMem.C05h.final_dirty_or_harvested
#print axioms VmMem.C05h.copy_then_harvest
#print axioms VmMem.C05h.cM_setting
#print axioms VmMem.C05h.cS_tracks
#print axioms VmMem.C05h.mark_first_is_unsound
#print axioms VmMem.C05h.mark_first_is_unsound_run
#print axioms VmMem.C05h.orders_agree_sequentially
#print axioms VmMem.C05h.store_first_is_sound_here
#print axioms VmMem.C05h.copyH_zero
#print axioms VmMem.C05h.copy_sound_with_harvest
#print axioms VmMem.C05h.writeH_zero
#print axioms VmMem.C05h.write_is_store_then_mark
#print axioms VmMem.C05h.write_empty
#print axioms VmMem.C05h.writeH_ok
#print axioms VmMem.C05h.write_sound_with_harvest
#print axioms VmMem.C05h.write_phases_sound_with_harvest
#print axioms VmMem.C05h.writeSliceH_zero
#print axioms VmMem.C05h.writeSlice_sound_with_harvest
#print axioms VmMem.C05h.refStoreH_zero
#print axioms VmMem.C05h.refStore_is_store_then_mark
#print axioms VmMem.C05h.refStore_sound_with_harvest
#print axioms VmMem.C05h.arrStoreH_zero
#print axioms VmMem.C05h.arrStore_sound_with_harvest
#print axioms VmMem.C05h.storeH_zero
#print axioms VmMem.C05h.store_sound_with_harvest
#print axioms VmMem.C05h.writeH_example
