/-
  VmMem.Props.C18 — slice/container layer: an access that names no bytes succeeds as
  a no-op at ANY offset, including out-of-range ones.

  * empty buffer / zero-sized object through `Bytes<usize> for VolatileSlice`:
    no hypothesis on the offset, on the slice, or on the container at all;
  * zero-sized element types through `VolatileRef`, `VolatileArrayRef` and
    `VolatileSlice::copy_to / copy_from`: nothing is read, nothing is written,
    nothing is marked dirty, the element count reported is the buffer's;
  * the raw helpers accept a zero-byte transfer wherever the slice points;
  * `copyToBeforeFix` / `arrCopyToBeforeFix` record the repaired defect D2: the code
    before the `fix:` commit divided by `size_of::<T>()` (resp. called
    `ptr.offset_from`) and panicked for a zero-sized `T`.
-/
import VmMem.Model.Volatile
import VmMem.Lemmas.VolatileLemmas
import VmMem.Lemmas.DataLemmas
namespace VmMem
namespace C18
open VolatileLemmas DataLemmas

/-! ## §1 `Bytes<usize>`: empty buffer, zero-sized object — every `addr` -/

theorem write_empty (m : Mem) (s : VSlice) (addr : Nat) : s.write m [] addr = .ok (m, 0) := rfl

theorem read_zero (m : Mem) (s : VSlice) (addr : Nat) : s.read m 0 addr = .ok [] := rfl

theorem writeSlice_empty (m : Mem) (s : VSlice) (addr : Nat) :
    s.writeSlice m [] addr = (m, .ok ()) := rfl

theorem readSlice_zero (m : Mem) (s : VSlice) (addr : Nat) : s.readSlice m 0 addr = .ok [] := rfl

/-- `write_obj` of a zero-sized value (its byte image is empty) -/
theorem writeObj_zst (m : Mem) (s : VSlice) (val : List UInt8) (h : val.length = 0) (addr : Nat) :
    s.writeObj m val addr = (m, .ok ()) := by
  rw [List.length_eq_zero_iff.1 h]; rfl

/-- `read_obj` of a zero-sized type -/
theorem readObj_zst (m : Mem) (s : VSlice) (t : Ty) (h : t.size = 0) (addr : Nat) :
    s.readObj m t addr = .ok [] := by
  unfold VSlice.readObj; rw [h]; rfl

/-- in particular: far out of range, on an empty slice, on an empty container -/
example (m : Mem) (s : VSlice) : s.write m [] (U - 1) = .ok (m, 0) := write_empty m s _
example (m : Mem) : (VSlice.mk 0 0 0).readObj m ⟨0, 1⟩ (2 ^ 70) = .ok [] :=
  readObj_zst m _ _ rfl _

/-- the contrast that makes the statement non-trivial: one byte at the same place is refused -/
example (m : Mem) (s : VSlice) (b : UInt8) : s.write m [b] s.size = .err .outOfBounds := by
  simp [VSlice.write]

/-! ## §2 raw helpers and marks -/

/-- `mark_dirty(off, 0)` marks nothing (the page program is empty) — no `Inv` needed -/
theorem mark_zero (m : Mem) (bmBase off : Nat) : m.mark bmBase off 0 = .ok m :=
  DataLemmas.mark_zero m bmBase off

theorem writeAt_nil (m : Mem) (addr : Nat) : m.writeAt addr [] = .ok m :=
  DataLemmas.writeAt_nil m addr

theorem readAt_zero (m : Mem) (addr : Nat) : m.readAt addr 0 = .ok [] :=
  DataLemmas.readAt_zero m addr

/-- `copy_to_volatile_slice(slice, src, 0)`: any slice, even one outside the container -/
theorem copyToVolatileSlice_zero (m : Mem) (s : VSlice) (src : List UInt8) :
    copyToVolatileSlice m s src 0 = .ok (m, 0) :=
  DataLemmas.copyToVolatileSlice_zero m s src

theorem copyFromVolatileSlice_zero (m : Mem) (s : VSlice) :
    copyFromVolatileSlice m s 0 = .ok [] :=
  DataLemmas.copyFromVolatileSlice_zero m s

/-- store-then-mark of no bytes is the identity, whatever the address and the mark offset -/
theorem store_nothing (m : Mem) (addr bmBase off : Nat) :
    (m.writeAt addr [] >>= fun m1 => m1.mark bmBase off 0) = .ok m := by
  rw [DataLemmas.writeAt_nil, Res.bind_ok, DataLemmas.mark_zero]

/-! ## §3 `VolatileRef<T>` / `VolatileArrayRef<T>` with a zero-sized `T` -/

theorem ref_store_zst (m : Mem) (r : VRef) (val : List UInt8) (h0 : r.ty.size = 0) :
    r.store m val = .ok m := by
  unfold VRef.store
  rw [h0, List.take_zero]
  exact store_nothing m r.addr r.bmBase 0

theorem ref_load_zst (m : Mem) (r : VRef) (h0 : r.ty.size = 0) : r.load m = .ok [] := by
  unfold VRef.load
  rw [h0]; exact DataLemmas.readAt_zero m r.addr

theorem refAt_zst (a : VArr) (i : Nat) (h0 : a.ty.size = 0) (hi : i < a.nelem) :
    a.refAt i = .ok { addr := a.addr, bmBase := sliceAt a.bmBase 0, ty := a.ty } := by
  rw [refAt_eq, if_pos hi, h0, Nat.zero_mul, if_pos (by decide)]
  rfl

/-- element access keeps its index assertion even for a zero-sized `T` … -/
theorem arr_store_zst (m : Mem) (a : VArr) (i : Nat) (val : List UInt8) (h0 : a.ty.size = 0)
    (hi : i < a.nelem) : a.store m i val = .ok m := by
  unfold VArr.store
  rw [refAt_zst a i h0 hi, Res.bind_ok]
  exact ref_store_zst m _ val h0

theorem arr_load_zst (m : Mem) (a : VArr) (i : Nat) (h0 : a.ty.size = 0) (hi : i < a.nelem) :
    a.load m i = .ok [] := by
  unfold VArr.load
  rw [refAt_zst a i h0 hi, Res.bind_ok]
  exact ref_load_zst m _ h0

/-- … (`assert!(index < self.nelem)`) -/
theorem arr_store_zst_index (m : Mem) (a : VArr) (i : Nat) (val : List UInt8) (hi : a.nelem ≤ i) :
    a.store m i val = .panic := by
  unfold VArr.store
  rw [refAt_eq, if_neg (by omega)]; rfl

/-- `VolatileArrayRef::copy_to` with a zero-sized `T`: `min(buf.len(), nelem)` elements,
    no bytes, wherever the array points -/
theorem arr_copyTo_zst (m : Mem) (a : VArr) (blen : Nat) (h0 : a.ty.size = 0) :
    a.copyTo m blen = .ok (min blen a.nelem, []) := by
  unfold VArr.copyTo
  have h1 : ¬ a.ty.size = 1 := by omega
  rw [if_neg h1]
  dsimp only
  rw [h0, Nat.mul_zero, DataLemmas.readAt_zero]
  rfl

/-- `VolatileArrayRef::copy_from` with a zero-sized `T`: nothing stored, nothing marked -/
theorem arr_copyFrom_zst (m : Mem) (a : VArr) (blen : Nat) (buf : List UInt8) (h0 : a.ty.size = 0) :
    a.copyFrom m blen buf = .ok m := by
  unfold VArr.copyFrom
  have h1 : ¬ a.ty.size = 1 := by omega
  rw [if_neg h1]
  dsimp only
  rw [h0, Nat.mul_zero, List.take_zero]
  exact store_nothing m a.addr a.bmBase 0

/-- `VolatileArrayRef::copy_to_volatile_slice` with a zero-sized `T` or of an empty
    array: nothing moves, nothing is marked, wherever source and destination point -/
theorem arr_copyToSlice_zst (m : Mem) (a : VArr) (dst : VSlice)
    (h0 : a.ty.size = 0 ∨ a.nelem = 0) : a.copyToSlice m dst = .ok m := by
  have hz : a.nelem * a.ty.size = 0 := by
    rcases h0 with h | h
    · rw [h, Nat.mul_zero]
    · rw [h, Nat.zero_mul]
  unfold VArr.copyToSlice
  rw [mulP_of_lt (by rw [hz]; decide), Res.bind_ok, hz, Nat.zero_min]
  dsimp only
  rw [DataLemmas.readAt_zero, Res.bind_ok]
  exact store_nothing m dst.addr dst.bmBase 0

/-- … and into an empty destination (the array's byte length being a `usize` value) -/
theorem arr_copyToSlice_empty_dst (m : Mem) (a : VArr) (dst : VSlice) (hd : dst.size = 0)
    (hlt : a.nelem * a.ty.size < U) : a.copyToSlice m dst = .ok m := by
  unfold VArr.copyToSlice
  rw [mulP_of_lt hlt, Res.bind_ok, hd, Nat.min_zero]
  dsimp only
  rw [DataLemmas.readAt_zero, Res.bind_ok]
  exact store_nothing m dst.addr dst.bmBase 0

/-! ## §4 `VolatileSlice::copy_to / copy_from / copy_to_volatile_slice` -/

/-- `VolatileSlice::copy_to_volatile_slice` from or into an empty slice -/
theorem copyToSlice_empty (m : Mem) (s dst : VSlice) (h0 : s.size = 0 ∨ dst.size = 0) :
    s.copyToSlice m dst = .ok m := by
  have hz : min s.size dst.size = 0 := by omega
  unfold VSlice.copyToSlice
  simp only [hz]
  rw [DataLemmas.readAt_zero, Res.bind_ok]
  exact store_nothing m dst.addr dst.bmBase 0

theorem elemCount_zst (s : VSlice) (t : Ty) (blen : Nat) (h0 : t.size = 0) :
    s.elemCount t blen = blen := by
  unfold VSlice.elemCount; rw [if_pos h0]

/-- the array view `copy_to::<T>` builds for a zero-sized `T` -/
theorem getArrayRef_zst (s : VSlice) (t : Ty) (blen : Nat) (h0 : t.size = 0) (hb : blen ≤ ISIZE_MAX) :
    s.getArrayRef 0 blen t =
      .ok { addr := s.addr + 0, nelem := blen, bmBase := sliceAt s.bmBase 0, ty := t } := by
  rw [getArrayRef_eq, h0, Nat.mul_zero, if_pos ⟨hb, by decide⟩, if_pos (by decide),
    if_pos (Nat.zero_le _)]

/-- `copy_to::<T>` with a zero-sized `T`: all `buf.len()` elements "copied", no byte read —
    for ANY slice (no containment hypothesis) -/
theorem copyTo_zst (m : Mem) (s : VSlice) (t : Ty) (blen : Nat) (h0 : t.size = 0)
    (hb : blen ≤ ISIZE_MAX) : s.copyTo m t blen = .ok (blen, []) := by
  unfold VSlice.copyTo
  have h1 : ¬ t.size = 1 := by omega
  rw [if_neg h1, elemCount_zst s t blen h0, getArrayRef_zst s t blen h0 hb]
  show VArr.copyTo m _ blen = _
  rw [arr_copyTo_zst m _ blen h0]
  show Res.ok (min blen blen, []) = _
  rw [Nat.min_self]

/-- `copy_from::<T>` with a zero-sized `T`: the container is returned unchanged — bytes,
    base AND bitmap (nothing is marked) -/
theorem copyFrom_zst (m : Mem) (s : VSlice) (t : Ty) (blen : Nat) (buf : List UInt8)
    (h0 : t.size = 0) (hb : blen ≤ ISIZE_MAX) : s.copyFrom m t blen buf = .ok m := by
  unfold VSlice.copyFrom
  have h1 : ¬ t.size = 1 := by omega
  rw [if_neg h1, elemCount_zst s t blen h0, getArrayRef_zst s t blen h0 hb]
  show VArr.copyFrom m _ blen buf = _
  exact arr_copyFrom_zst m _ blen buf h0

/-- as requested: the bytes (and everything else) are untouched -/
theorem copyFrom_zst_bytes (m : Mem) (s : VSlice) (t : Ty) (blen : Nat) (buf : List UInt8)
    (h0 : t.size = 0) (hb : blen ≤ ISIZE_MAX) :
    ∃ m', s.copyFrom m t blen buf = .ok m' ∧ m'.bytes = m.bytes ∧ m'.base = m.base ∧ m'.bm = m.bm :=
  ⟨m, copyFrom_zst m s t blen buf h0 hb, rfl, rfl, rfl⟩

/-- the element-count conversion `isize::try_from(n)` of `get_array_ref` is still there:
    a zero-sized-element buffer longer than `isize::MAX` makes `.unwrap()` panic.
    (Real code: `get_array_ref` returns `TooBig`; `copy_to` unwraps it.) -/
theorem copyTo_zst_huge (m : Mem) (s : VSlice) (t : Ty) (blen : Nat) (h0 : t.size = 0)
    (hb : ISIZE_MAX < blen) : s.copyTo m t blen = .panic := by
  unfold VSlice.copyTo
  have h1 : ¬ t.size = 1 := by omega
  rw [if_neg h1, elemCount_zst s t blen h0, getArrayRef_eq, if_neg (by omega)]
  rfl

/-- an empty element buffer with a one-byte `T` (the fast path): nothing moves -/
theorem copyTo_empty_buf_u8 (m : Mem) (s : VSlice) (t : Ty) (h1 : t.size = 1) :
    s.copyTo m t 0 = .ok (0, []) := by
  unfold VSlice.copyTo
  rw [if_pos h1, Nat.zero_min]
  dsimp only
  rw [DataLemmas.copyFromVolatileSlice_zero]
  rfl

theorem copyFrom_empty_buf_u8 (m : Mem) (s : VSlice) (t : Ty) (buf : List UInt8) (h1 : t.size = 1) :
    s.copyFrom m t 0 buf = .ok m := by
  unfold VSlice.copyFrom
  rw [if_pos h1, Nat.zero_min]
  dsimp only
  rw [DataLemmas.copyToVolatileSlice_zero]
  rfl

/-! ## §5 the repaired defect D2 -/

/-- `VolatileSlice::copy_to::<T>` as it was before the `fix:` commit:
    `let count = self.size / size_of::<T>();` -/
def copyToBeforeFix (m : Mem) (s : VSlice) (t : Ty) (blen : Nat) : Res (Nat × List UInt8) :=
  if t.size = 1 then do
    let total := min blen s.size
    let d ← copyFromVolatileSlice m s total
    pure (total, d)
  else do
    let count ← divP s.size t.size
    let a ← Res.unwrapRes (s.getArrayRef 0 count t)
    a.copyTo m blen

/-- `VolatileArrayRef::copy_to` as it was before the `fix:` commit: the result was
    `ptr.offset_from(start)`, which asserts `size_of::<T>() != 0` -/
def arrCopyToBeforeFix (m : Mem) (a : VArr) (blen : Nat) : Res (Nat × List UInt8) :=
  if a.ty.size = 1 then a.copyTo m blen
  else do
    let k := min blen a.nelem
    let d ← m.readAt a.addr (k * a.ty.size)
    let cnt ← divP (k * a.ty.size) a.ty.size     -- `offset_from`: byte distance / size_of::<T>()
    pure (cnt, d)

/-- before the fix a zero-sized `T` was a division by zero … -/
theorem copyToBeforeFix_zst_panics (m : Mem) (s : VSlice) (t : Ty) (blen : Nat) (h0 : t.size = 0) :
    copyToBeforeFix m s t blen = .panic := by
  unfold copyToBeforeFix
  have h1 : ¬ t.size = 1 := by omega
  rw [if_neg h1, h0]
  rfl

theorem arrCopyToBeforeFix_zst_panics (m : Mem) (a : VArr) (blen : Nat) (h0 : a.ty.size = 0) :
    arrCopyToBeforeFix m a blen = .panic := by
  unfold arrCopyToBeforeFix
  have h1 : ¬ a.ty.size = 1 := by omega
  rw [if_neg h1]
  dsimp only
  rw [h0, Nat.mul_zero, DataLemmas.readAt_zero]
  rfl

/-- … and for every non-zero-sized `T` the old and the new `copy_to` agree, so the
    theorem `copyTo_zst` is exactly about the fix -/
theorem copyToBeforeFix_agrees (m : Mem) (s : VSlice) (t : Ty) (blen : Nat) (h0 : t.size ≠ 0) :
    copyToBeforeFix m s t blen = s.copyTo m t blen := by
  unfold copyToBeforeFix VSlice.copyTo VSlice.elemCount divP
  rw [if_neg h0, if_neg h0]
  rfl

example : copyToBeforeFix ⟨0x1003, List.replicate 13 0, none⟩ ⟨0x1003, 13, 0⟩ ⟨0, 1⟩ 5 = .panic := by
  decide
example : (VSlice.mk 0x1003 13 0).copyTo ⟨0x1003, List.replicate 13 0, none⟩ ⟨0, 1⟩ 5 = .ok (5, []) := by
  decide
example : arrCopyToBeforeFix ⟨0x1003, List.replicate 13 0, none⟩ ⟨0x1003, 7, 0, ⟨0, 1⟩⟩ 5 = .panic := by
  decide
example : (VArr.mk 0x1003 7 0 ⟨0, 1⟩).copyTo ⟨0x1003, List.replicate 13 0, none⟩ 5 = .ok (5, []) := by
  decide
/-- even far outside the container -/
example : (VSlice.mk 0x9999 13 0).copyTo ⟨0x1003, List.replicate 13 0, none⟩ ⟨0, 1⟩ 5 = .ok (5, []) := by
  decide
example : (VSlice.mk 0x9999 13 0).write ⟨0x1003, List.replicate 13 0, none⟩ [] 0xffff
    = .ok (⟨0x1003, List.replicate 13 0, none⟩, 0) := by decide

end C18
end VmMem

#print axioms VmMem.C18.write_empty
#print axioms VmMem.C18.read_zero
#print axioms VmMem.C18.writeSlice_empty
#print axioms VmMem.C18.readSlice_zero
#print axioms VmMem.C18.writeObj_zst
#print axioms VmMem.C18.readObj_zst
#print axioms VmMem.C18.mark_zero
#print axioms VmMem.C18.writeAt_nil
#print axioms VmMem.C18.readAt_zero
#print axioms VmMem.C18.copyToVolatileSlice_zero
#print axioms VmMem.C18.copyFromVolatileSlice_zero
#print axioms VmMem.C18.store_nothing
#print axioms VmMem.C18.ref_store_zst
#print axioms VmMem.C18.ref_load_zst
#print axioms VmMem.C18.refAt_zst
#print axioms VmMem.C18.arr_store_zst
#print axioms VmMem.C18.arr_load_zst
#print axioms VmMem.C18.arr_store_zst_index
#print axioms VmMem.C18.arr_copyTo_zst
#print axioms VmMem.C18.arr_copyFrom_zst
#print axioms VmMem.C18.arr_copyToSlice_zst
#print axioms VmMem.C18.arr_copyToSlice_empty_dst
#print axioms VmMem.C18.copyToSlice_empty
#print axioms VmMem.C18.copyTo_zst
#print axioms VmMem.C18.copyFrom_zst
#print axioms VmMem.C18.copyFrom_zst_bytes
#print axioms VmMem.C18.copyTo_zst_huge
#print axioms VmMem.C18.copyTo_empty_buf_u8
#print axioms VmMem.C18.copyFrom_empty_buf_u8
#print axioms VmMem.C18.copyToBeforeFix_zst_panics
#print axioms VmMem.C18.arrCopyToBeforeFix_zst_panics
#print axioms VmMem.C18.copyToBeforeFix_agrees
