/-
  VmMem.Props.C02t — C02 for layouts in which a region may end exactly at 2^64 (`WFT`): what a third-party
  `GuestMemoryRegion` can be, though no constructor of the crate builds it.  The statements are those of Props/C02 with
  `WF` weakened to `WFT` (derived mechanically from that file; the proofs differ only where the `try_access` walk reaches the
  last address, which after fix dfb8366 ends the walk).
-/
import VmMem.Lemmas.TopLemmas
import VmMem.Props.C02
namespace VmMem
namespace C02t
open TopLemmas
open GuestLemmas (mapped_iff_getElem? mapped_or_not trivCb checkRange_eq checkRange_zero_eq Region.toRegionAddr_eq Region.getSlice_eq)

/-! ### 1. find_region -/

/-- under WFT at most one index contains `a` -/
theorem region_unique {m : GMem} (h : WFT m) {a i j : Nat} {r s : Region}
    (hi : m[i]? = some r) (hj : m[j]? = some s)
    (hr : r.start ≤ a ∧ a < r.start + r.len) (hs : s.start ≤ a ∧ a < s.start + s.len) :
    i = j := TopLemmas.region_unique h hi hj hr hs

theorem mapped_lt_U {m : GMem} (h : WFT m) {a : Nat} (hm : mapped m a) : a < U := by
  obtain ⟨r, hr, h1, h2⟩ := hm
  have := h.mem hr
  omega

/-- `find_region` never panics or errs; it resolves to the one region containing the
    address and to nothing in a hole or beyond the ends. -/
theorem findRegion_spec (m : GMem) (h : WFT m) (a : Nat) :
    ∃ o, m.findRegion a = .ok o ∧
      (∀ i, o = some i ↔ ∃ r, m[i]? = some r ∧ r.start ≤ a ∧ a < r.start + r.len) := by
  rcases mapped_or_not m a with ⟨i, r, hi, hin⟩ | hn
  · refine ⟨some i, findRegion_of_getElem? h hi hin, ?_⟩
    intro j
    constructor
    · intro hj; cases hj; exact ⟨r, hi, hin⟩
    · rintro ⟨s, hs, hsin⟩
      rw [TopLemmas.region_unique h hi hs hin hsin]
  · refine ⟨none, findRegion_of_unmapped h hn, ?_⟩
    intro j
    constructor
    · intro hj; cases hj
    · rintro ⟨s, hs, hsin⟩
      exact absurd ((mapped_iff_getElem? m a).2 ⟨j, s, hs, hsin⟩) hn

theorem findRegion_some_iff (m : GMem) (h : WFT m) (a i : Nat) :
    m.findRegion a = .ok (some i) ↔ ∃ r, m[i]? = some r ∧ r.start ≤ a ∧ a < r.start + r.len := by
  obtain ⟨o, ho, hiff⟩ := findRegion_spec m h a
  rw [ho, ← hiff i]
  constructor
  · intro e; cases e; rfl
  · intro e; rw [e]

theorem findRegion_none_iff (m : GMem) (h : WFT m) (a : Nat) :
    m.findRegion a = .ok none ↔ ¬ mapped m a := by
  rcases mapped_or_not m a with ⟨i, r, hi, hin⟩ | hn
  · rw [findRegion_of_getElem? h hi hin]
    have : mapped m a := (mapped_iff_getElem? m a).2 ⟨i, r, hi, hin⟩
    simp [this]
  · simp [findRegion_of_unmapped h hn, hn]

theorem findRegion_no_panic (m : GMem) (h : WFT m) (a : Nat) :
    m.findRegion a ≠ .panic ∧ ∀ e, m.findRegion a ≠ .err e := by
  obtain ⟨o, ho, _⟩ := findRegion_spec m h a
  rw [ho]; simp

/-! ### 2. the defaults built on find_region -/

/-- `to_region_addr`: `(i, a - r.start)` exactly for the containing region (the inner
    `unwrap` never panics), `None` iff unmapped. -/
theorem toRegionAddr_spec (m : GMem) (h : WFT m) (a : Nat) :
    (∀ i ra, m.toRegionAddr a = .ok (some (i, ra)) ↔
        ∃ r, m[i]? = some r ∧ r.start ≤ a ∧ a < r.start + r.len ∧ ra = a - r.start) ∧
    (m.toRegionAddr a = .ok none ↔ ¬ mapped m a) ∧
    (∃ o, m.toRegionAddr a = .ok o) := by
  rcases mapped_or_not m a with ⟨i, r, hi, hin⟩ | hn
  · have hm : mapped m a := (mapped_iff_getElem? m a).2 ⟨i, r, hi, hin⟩
    rw [toRegionAddr_of_getElem? h hi hin]
    refine ⟨?_, by simp [hm], ⟨_, rfl⟩⟩
    intro j ra
    constructor
    · intro e
      injection e with e; injection e with e; injection e with e1 e2
      subst e1; subst e2
      exact ⟨r, hi, hin.1, hin.2, rfl⟩
    · rintro ⟨s, hs, hs1, hs2, hra⟩
      have hij := TopLemmas.region_unique h hi hs hin ⟨hs1, hs2⟩
      subst hij
      rw [hi] at hs; cases hs
      rw [hra]
  · rw [toRegionAddr_of_unmapped h hn]
    refine ⟨?_, by simp [hn], ⟨_, rfl⟩⟩
    intro j ra
    constructor
    · intro e; cases e
    · rintro ⟨s, hs, hs1, hs2, _⟩
      exact absurd ((mapped_iff_getElem? m a).2 ⟨j, s, hs, hs1, hs2⟩) hn

theorem addressInRange_spec (m : GMem) (h : WFT m) (a : Nat) :
    m.addressInRange a = .ok (decide (mapped m a)) := by
  unfold GMem.addressInRange
  rcases mapped_or_not m a with ⟨i, r, hi, hin⟩ | hn
  · have hm : mapped m a := (mapped_iff_getElem? m a).2 ⟨i, r, hi, hin⟩
    simp [findRegion_of_getElem? h hi hin, hm]
  · simp [findRegion_of_unmapped h hn, hn]

theorem addressInRange_iff (m : GMem) (h : WFT m) (a : Nat) :
    m.addressInRange a = .ok true ↔ mapped m a := by
  rw [addressInRange_spec m h a]; simp

theorem checkAddress_spec (m : GMem) (h : WFT m) (a : Nat) :
    m.checkAddress a = .ok (if mapped m a then some a else none) := by
  unfold GMem.checkAddress
  rcases mapped_or_not m a with ⟨i, r, hi, hin⟩ | hn
  · have hm : mapped m a := (mapped_iff_getElem? m a).2 ⟨i, r, hi, hin⟩
    simp [findRegion_of_getElem? h hi hin, hm]
  · simp [findRegion_of_unmapped h hn, hn]

theorem checkAddress_iff (m : GMem) (h : WFT m) (a x : Nat) :
    m.checkAddress a = .ok (some x) ↔ x = a ∧ mapped m a := by
  rw [checkAddress_spec m h a]
  by_cases hm : mapped m a <;> simp [hm, eq_comm]

/-- `checked_offset`: never panics; `Some(base + off)` iff the sum does not overflow and is mapped -/
theorem checkedOffset_eq (m : GMem) (h : WFT m) (base off : Nat) :
    m.checkedOffset base off =
      .ok (if base + off < U ∧ mapped m (base + off) then some (base + off) else none) := by
  unfold GMem.checkedOffset checkedAdd
  by_cases hlt : base + off < U
  · simp only [hlt, if_true, true_and]
    exact checkAddress_spec m h (base + off)
  · simp [hlt]

theorem checkedOffset_spec (m : GMem) (h : WFT m) (base off x : Nat) :
    m.checkedOffset base off = .ok (some x) ↔
      x = base + off ∧ base + off < U ∧ mapped m (base + off) := by
  rw [checkedOffset_eq m h]
  by_cases hc : base + off < U ∧ mapped m (base + off)
  · simp [hc, eq_comm]
  · rw [if_neg hc]
    constructor
    · intro e; cases e
    · rintro ⟨_, h1, h2⟩; exact absurd ⟨h1, h2⟩ hc

theorem checkedOffset_none (m : GMem) (h : WFT m) (base off : Nat) :
    m.checkedOffset base off = .ok none ↔ ¬ (base + off < U ∧ mapped m (base + off)) := by
  rw [checkedOffset_eq m h]
  by_cases hc : base + off < U ∧ mapped m (base + off) <;> simp [hc]

/-! ### 4. get_host_address -/

theorem getHostAddress_of_getElem? {m : GMem} (h : WFT m) {a i : Nat} {r : Region}
    (hi : m[i]? = some r) (hin : r.start ≤ a ∧ a < r.start + r.len) :
    m.getHostAddress a = .ok (r.mem.base + (a - r.start)) := by
  unfold GMem.getHostAddress
  rw [toRegionAddr_of_getElem? h hi hin]
  have : a - r.start < r.len := by omega
  simp [hi, Region.getHostAddress, Region.checkAddress, Region.addressInRange, this]

theorem getHostAddress_of_unmapped {m : GMem} (h : WFT m) {a : Nat} (hn : ¬ mapped m a) :
    m.getHostAddress a = .err (.invalidGuestAddress a) := by
  unfold GMem.getHostAddress
  rw [toRegionAddr_of_unmapped h hn]
  simp

theorem getHostAddress_spec (m : GMem) (h : WFT m) (a : Nat) :
    (∀ p, m.getHostAddress a = .ok p ↔
        ∃ (i : Nat) (r : Region), m[i]? = some r ∧ r.start ≤ a ∧ a < r.start + r.len ∧ p = r.mem.base + (a - r.start)) ∧
    (m.getHostAddress a = .err (.invalidGuestAddress a) ↔ ¬ mapped m a) ∧
    m.getHostAddress a ≠ .panic := by
  rcases mapped_or_not m a with ⟨i, r, hi, hin⟩ | hn
  · have hm : mapped m a := (mapped_iff_getElem? m a).2 ⟨i, r, hi, hin⟩
    rw [getHostAddress_of_getElem? h hi hin]
    refine ⟨?_, by simp [hm], by simp⟩
    intro p
    constructor
    · intro e; cases e; exact ⟨i, r, hi, hin.1, hin.2, rfl⟩
    · rintro ⟨j, s, hs, hs1, hs2, hp⟩
      have hij := TopLemmas.region_unique h hi hs hin ⟨hs1, hs2⟩
      subst hij
      rw [hi] at hs; cases hs
      rw [hp]
  · rw [getHostAddress_of_unmapped h hn]
    refine ⟨?_, by simp [hn], by simp⟩
    intro p
    constructor
    · intro e; cases e
    · rintro ⟨j, s, hs, hs1, hs2, _⟩
      exact absurd ((mapped_iff_getElem? m a).2 ⟨j, s, hs, hs1, hs2⟩) hn

/-! (5. get_slice: a third-party region's `get_slice` is its own; see Props/C02 for the crate's) -/

/-! ### 3. last_addr -/

theorem lastAddr_nil : GMem.lastAddr [] = .ok 0 := rfl

theorem lastAddr_aux : ∀ (m : GMem), WFT m → (hne : m ≠ []) → ∀ acc : Nat,
    (∀ x ∈ m, acc ≤ x.start + x.len - 1) →
    m.foldlM (fun acc r => do let la ← r.lastAddr; pure (max acc la)) acc =
        Res.ok ((m.getLast hne).start + (m.getLast hne).len - 1) ∧
    ∀ x ∈ m, x.start + x.len ≤ (m.getLast hne).start + (m.getLast hne).len := by
  intro m
  induction m with
  | nil => intro _ hne; exact absurd rfl hne
  | cons r rest ih =>
    intro h hne acc hacc
    obtain ⟨h1, h2, h3, hrest⟩ := (WF_cons r rest).1 h
    have hr := hacc r (List.mem_cons_self)
    have hmax : max acc (r.start + r.len - 1) = r.start + r.len - 1 := by omega
    rw [List.foldlM_cons, Region.lastAddr_eq ⟨h1, h2⟩]
    simp only [Res.bind_ok, Res.pure_eq, hmax]
    cases rest with
    | nil => simp
    | cons s rest' =>
      have hne' : s :: rest' ≠ [] := by simp
      have := ih hrest hne' (r.start + r.len - 1) (by
        intro x hx
        have := h3 x hx
        have := hrest.mem hx
        omega)
      rw [List.getLast_cons hne']
      refine ⟨this.1, ?_⟩
      intro x hx
      rcases List.mem_cons.1 hx with rfl | hx
      · have := this.2 s List.mem_cons_self
        have := h3 s List.mem_cons_self
        have := hrest.mem (List.mem_cons_self (a := s) (l := rest'))
        omega
      · exact this.2 x hx

/-- `last_addr` of a non-empty layout is the last byte of the last region, which is mapped
    and is the greatest mapped address. -/
theorem lastAddr_spec (m : GMem) (h : WFT m) (hne : m ≠ []) :
    m.lastAddr = .ok ((m.getLast hne).start + (m.getLast hne).len - 1) ∧
    mapped m ((m.getLast hne).start + (m.getLast hne).len - 1) ∧
    ∀ a, mapped m a → a ≤ (m.getLast hne).start + (m.getLast hne).len - 1 := by
  have haux := lastAddr_aux m h hne 0 (by intros; omega)
  have hl := h.mem (List.getLast_mem hne)
  refine ⟨haux.1, ⟨m.getLast hne, List.getLast_mem hne, by omega, by omega⟩, ?_⟩
  rintro a ⟨x, hx, _, hx2⟩
  have := haux.2 x hx
  omega

theorem lastAddr_no_panic (m : GMem) (h : WFT m) : ∃ a, m.lastAddr = .ok a := by
  by_cases hne : m = []
  · subst hne; exact ⟨0, rfl⟩
  · exact ⟨_, (lastAddr_spec m h hne).1⟩

/-! ### 6. check_range -/

/-- for a non-zero length, `check_range` is true exactly when every byte of the range is
    mapped (in particular below `2^64`); it never panics -/
theorem checkRange_spec (m : GMem) (h : WFT m) (base len : Nat) (hl : len < U) (hpos : 0 < len) :
    (m.checkRange base len = .ok true ↔ ∀ i, i < len → base + i < U ∧ mapped m (base + i)) ∧
    (∃ b, m.checkRange base len = .ok b) := by
  rw [checkRange_eq m base len hpos]
  obtain ⟨res, hres, hnp, hiff, _⟩ := loop_triv h hl base len base 0 rfl hpos
  rw [hres]
  have hiff' : res = .ok len ↔ ∀ i, i < len → base + i < U ∧ mapped m (base + i) := by
    rw [hiff]
    simp only [Nat.sub_zero]
    constructor
    · intro hall i hi; exact ⟨mapped_lt_U h (hall i hi), hall i hi⟩
    · intro hall i hi; exact (hall i hi).2
  rw [← hiff']
  cases res with
  | ok n => simp
  | err e => simp
  | panic => exact absurd rfl hnp

/-- the same as one equation (the bounded quantifier is decidable) -/
theorem checkRange_eq_decide (m : GMem) (h : WFT m) (base len : Nat) (hl : len < U) (hpos : 0 < len) :
    m.checkRange base len = .ok (decide (∀ i, i < len → base + i < U ∧ mapped m (base + i))) := by
  obtain ⟨hiff, b, hb⟩ := checkRange_spec m h base len hl hpos
  rw [hb] at hiff ⊢
  cases b with
  | true =>
    have := hiff.1 rfl
    rw [decide_eq_true this]
  | false =>
    have : ¬ ∀ i, i < len → base + i < U ∧ mapped m (base + i) := by
      intro hall; have := hiff.2 hall; cases this
    rw [decide_eq_false this]

/-- an empty range has no unmapped byte: `check_range(base, 0)` is `true` for every `base`
    (full-strength reading of the statement).  This holds since the `fix:` commit
    "zero-length guest memory accesses succeed at any address": before it `try_access`
    with `count = 0` still resolved `base` and the answer was `mapped m base` (defect D4). -/
theorem checkRange_zero (m : GMem) (base : Nat) : m.checkRange base 0 = .ok true :=
  checkRange_zero_eq m base

/-- both lengths together: the range is valid exactly when every one of its bytes is mapped -/
theorem checkRange_all (m : GMem) (h : WFT m) (base len : Nat) (hl : len < U) :
    m.checkRange base len = .ok true ↔ ∀ i, i < len → base + i < U ∧ mapped m (base + i) := by
  rcases Nat.eq_zero_or_pos len with h0 | hpos
  · subst h0; simp [checkRange_zero]
  · exact (checkRange_spec m h base len hl hpos).1

/-! ### 7. num_regions and iteration order -/

theorem numRegions_eq (m : GMem) : m.numRegions = m.length := rfl

/-- `iter()` is the list itself: regions come in strictly increasing start order -/
theorem iter_sorted (m : GMem) (h : WFT m) : m.Pairwise (fun r s => r.start < s.start) := h.starts_lt

theorem iter_sorted_idx (m : GMem) (h : WFT m) {i j : Nat} {r s : Region}
    (hi : m[i]? = some r) (hj : m[j]? = some s) (hij : i < j) : r.start < s.start := by
  have := h.lt hi hj hij
  have := h.getElem? hi
  omega

/-! ### non-vacuity: a concrete three-region layout -/

def mem (base n : Nat) : Mem := { base := base, bytes := List.replicate n 0, bm := none }

/-- regions `[0,5)`, `[5,8)` (adjacent) and `[U-16, U)`: the last one ends exactly at 2^64 -/
def ex : GMem :=
  [ { start := 0, mem := mem 0x1000 5, id := 1 },
    { start := 5, mem := mem 0x2000 3, id := 2 },
    { start := 0xFFFF_FFFF_FFFF_FFF0, mem := mem 0x3000 16, id := 3 } ]

theorem ex_WF : WFT ex := by decide

example : ex.findRegion 0 = .ok (some 0) := by decide
example : ex.findRegion 4 = .ok (some 0) := by decide
example : ex.findRegion 5 = .ok (some 1) := by decide
example : ex.findRegion 7 = .ok (some 1) := by decide
example : ex.findRegion 8 = .ok none := by decide
example : ex.findRegion 0xFFFF_FFFF_FFFF_FFEF = .ok none := by decide
example : ex.findRegion 0xFFFF_FFFF_FFFF_FFFE = .ok (some 2) := by decide
example : ex.findRegion 0xFFFF_FFFF_FFFF_FFFF = .ok (some 2) := by decide
example : ex.toRegionAddr 6 = .ok (some (1, 1)) := by decide
example : ex.lastAddr = .ok 0xFFFF_FFFF_FFFF_FFFF := by decide
example : ex.getHostAddress 6 = .ok 0x2001 := by decide
example : ex.getHostAddress 8 = .err (.invalidGuestAddress 8) := by decide
example : ex.checkedOffset 0xFFFF_FFFF_FFFF_FFF0 0x10 = .ok none := by decide
example : ex.checkedOffset 2 4 = .ok (some 6) := by decide

/-- a two-region range evaluated directly on the model (two iterations of the loop) -/
example : ex.checkRange 3 5 = .ok true := by
  have h1 : ex.findRegion 3 = .ok (some 0) := by decide
  have h2 : ex.findRegion 5 = .ok (some 1) := by decide
  have e0 : ex[0]? = some { start := 0, mem := mem 0x1000 5, id := 1 } := rfl
  have e1 : ex[1]? = some { start := 5, mem := mem 0x2000 3, id := 2 } := rfl
  rw [GuestLemmas.checkRange_eq _ _ _ (by decide), GMem.tryAccessLoop, h1]
  simp [e0, trivCb, Region.toRegionAddr, checkedSub, Region.checkAddress, Region.addressInRange,
    Region.len, mem, U, overflowingAdd]
  rw [GMem.tryAccessLoop, h2]
  simp [e1, trivCb, Region.toRegionAddr, checkedSub, Region.checkAddress, Region.addressInRange,
    Region.len, mem, U]
/- the loop is defined by well-founded recursion, which `decide` does not unfold; the
   remaining queries are evaluated through `checkRange_eq_decide` / `checkRange_zero` -/
example : ex.checkRange 3 5 = .ok true :=
  (checkRange_eq_decide ex ex_WF 3 5 (by decide) (by decide)).trans (by decide)
example : ex.checkRange 3 6 = .ok false :=
  (checkRange_eq_decide ex ex_WF 3 6 (by decide) (by decide)).trans (by decide)
example : ¬ WF ex := by decide
example : ex.checkRange 0xFFFF_FFFF_FFFF_FFF0 16 = .ok true :=
  (checkRange_eq_decide ex ex_WF _ 16 (by decide) (by decide)).trans (by decide)
example : ex.checkRange 0xFFFF_FFFF_FFFF_FFFF 1 = .ok true :=
  (checkRange_eq_decide ex ex_WF _ 1 (by decide) (by decide)).trans (by decide)
/-- a range that runs past the last address is not valid, even though address 0 is mapped -/
example : ex.checkRange 0xFFFF_FFFF_FFFF_FFFF 2 = .ok false :=
  (checkRange_eq_decide ex ex_WF _ 2 (by decide) (by decide)).trans (by decide)
example : ex.checkRange 0xFFFF_FFFF_FFFF_FFF0 17 = .ok false :=
  (checkRange_eq_decide ex ex_WF _ 17 (by decide) (by decide)).trans (by decide)
example : ex.checkRange 8 0 = .ok true := checkRange_zero ex 8
example : ex.checkRange 7 0 = .ok true := checkRange_zero ex 7

/-! ### last_addr for implementations that do not keep their regions sorted -/
/-- the regions' own requirement (what `GuestRegionMmap::new` enforces), without any order -/
def RegionsOk (m : GMem) : Prop := ∀ r ∈ m, 0 < r.len ∧ r.start + r.len ≤ U

theorem lastAddr_fold (m : GMem) (h : RegionsOk m) (acc : Nat) :
    m.foldlM (fun acc r => do let la ← r.lastAddr; pure (max acc la)) acc =
      Res.ok (m.foldl (fun acc r => max acc (r.start + r.len - 1)) acc) := by
  induction m generalizing acc with
  | nil => rfl
  | cons r rest ih =>
    have hr := h r List.mem_cons_self
    rw [List.foldlM_cons, Region.lastAddr_eq hr]
    simp only [Res.bind_ok, Res.pure_eq, List.foldl_cons]
    exact ih (fun x hx => h x (List.mem_cons_of_mem _ hx)) _

/-- **`last_addr` does not depend on the order in which an implementation iterates its regions**: for any
    permutation of the regions (a `GuestMemory` implementation that keeps them in plug order, say) the default
    method returns the same value — for a well-formed set, the greatest mapped address. -/
theorem lastAddr_order_independent (m m' : GMem) (hp : m'.Perm m) (h : RegionsOk m) :
    GMem.lastAddr m' = GMem.lastAddr m := by
  have h' : RegionsOk m' := fun r hr => h r (hp.mem_iff.1 hr)
  unfold GMem.lastAddr
  rw [lastAddr_fold m h, lastAddr_fold m' h']
  congr 1
  apply List.Perm.foldl_eq' hp
  intro x _ y _ z
  omega

theorem lastAddr_perm_greatest (m m' : GMem) (hp : m'.Perm m) (h : WFT m) (hne : m ≠ []) :
    ∃ a, GMem.lastAddr m' = .ok a ∧ mapped m a ∧ ∀ b, mapped m b → b ≤ a := by
  rw [lastAddr_order_independent m m' hp h.1]
  exact ⟨_, lastAddr_spec m h hne⟩


end C02t
end VmMem

#print axioms VmMem.C02t.region_unique
#print axioms VmMem.C02t.findRegion_spec
#print axioms VmMem.C02t.findRegion_some_iff
#print axioms VmMem.C02t.findRegion_none_iff
#print axioms VmMem.C02t.findRegion_no_panic
#print axioms VmMem.C02t.toRegionAddr_spec
#print axioms VmMem.C02t.addressInRange_spec
#print axioms VmMem.C02t.addressInRange_iff
#print axioms VmMem.C02t.checkAddress_spec
#print axioms VmMem.C02t.checkAddress_iff
#print axioms VmMem.C02t.checkedOffset_eq
#print axioms VmMem.C02t.checkedOffset_spec
#print axioms VmMem.C02t.checkedOffset_none
#print axioms VmMem.C02t.getHostAddress_spec
#print axioms VmMem.C02t.lastAddr_nil
#print axioms VmMem.C02t.lastAddr_spec
#print axioms VmMem.C02t.lastAddr_no_panic
#print axioms VmMem.C02t.checkRange_spec
#print axioms VmMem.C02t.checkRange_eq_decide
#print axioms VmMem.C02t.checkRange_zero
#print axioms VmMem.C02t.checkRange_all
#print axioms VmMem.C02t.numRegions_eq
#print axioms VmMem.C02t.iter_sorted
#print axioms VmMem.C02t.iter_sorted_idx
#print axioms VmMem.C02t.ex_WF
#print axioms VmMem.C02t.lastAddr_order_independent
#print axioms VmMem.C02t.lastAddr_perm_greatest
