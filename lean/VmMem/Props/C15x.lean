/-
  C15 (Xen half, system-call level) and C12 (Xen half): `MmapRegion::from_range` either fails
  and leaves the kernel-side state exactly as it found it — for every request and every pattern of
  failing system calls — or yields a region that reports the request and owns exactly the
  resources it acquired, which `Drop` gives back, all of them, once.
-/
import VmMem.Model.XenBuild
namespace VmMem
namespace C15x
open Construct XenBuild

/-! ### kernel call lemmas -/
theorem mmapCall_none {k : Kernel} {size : Nat} {sc : Script} {k' : Kernel} {sc' : Script}
    (h : mmapCall k size sc = (none, k', sc')) : k' = k := by
  unfold mmapCall at h
  split at h
  · simp at h; exact h.1.symm
  · simp at h

theorem mmapCall_some {k : Kernel} {size : Nat} {sc : Script} {a : Nat} {k' : Kernel} {sc' : Script}
    (h : mmapCall k size sc = (some a, k', sc')) :
    a = k.next ∧ k'.maps = (a, size) :: k.maps ∧ k'.grants = k.grants := by
  unfold mmapCall at h
  split at h
  · simp at h
  · simp at h; obtain ⟨h1, h2, _⟩ := h; subst h1; subst h2; simp

theorem grantMapCall_false {k : Kernel} {i c : Nat} {sc : Script} {k' : Kernel} {sc' : Script}
    (h : grantMapCall k i c sc = (false, k', sc')) : k' = k := by
  unfold grantMapCall at h
  split at h
  · simp at h; exact h.1.symm
  · simp at h

theorem grantMapCall_true {k : Kernel} {i c : Nat} {sc : Script} {k' : Kernel} {sc' : Script}
    (h : grantMapCall k i c sc = (true, k', sc')) :
    k'.maps = k.maps ∧ k'.grants = (i, c) :: k.grants := by
  unfold grantMapCall at h
  split at h
  · simp at h
  · simp at h; obtain ⟨h2, _⟩ := h; subst h2; simp

/-- same kernel-side resources (the allocation cursor `next` is not a resource) -/
def SameRes (a b : Kernel) : Prop := a.maps = b.maps ∧ a.grants = b.grants
instance (a b : Kernel) : Decidable (SameRes a b) := by unfold SameRes; infer_instance

theorem SameRes.rfl' (k : Kernel) : SameRes k k := ⟨rfl, rfl⟩

/-! ### `mmap_range` -/
theorem mmapRange_none (k : Kernel) (addr size page : Nat) (sc : Script) (k' : Kernel) (sc' : Script)
    (h : mmapRange k addr size page sc = (none, k', sc')) : SameRes k' k := by
  unfold mmapRange at h
  simp only [pages] at h
  generalize hg : grantMapCall k (grantIndex addr page) (divCeil size page) sc = g at h
  obtain ⟨b, k1, sc1⟩ := g
  cases b with
  | false =>
    simp at h; obtain ⟨h1, _⟩ := h; subst h1
    rw [grantMapCall_false hg]; exact SameRes.rfl' _
  | true =>
    simp only at h
    generalize hm : mmapCall k1 (page * divCeil size page) sc1 = m at h
    obtain ⟨o, k2, sc2⟩ := m
    cases o with
    | none =>
      simp at h; obtain ⟨h1, _⟩ := h; subst h1
      have := mmapCall_none hm; subst this
      obtain ⟨g1, g2⟩ := grantMapCall_true hg
      constructor
      · simp [grantUnmapCall, g1, g2]
      · simp [grantUnmapCall, g1, g2]
    | some a => simp at h

theorem mmapRange_some (k : Kernel) (addr size page : Nat) (sc : Script) (a ms idx : Nat) (k' : Kernel) (sc' : Script)
    (h : mmapRange k addr size page sc = (some (a, ms, idx), k', sc')) :
    ms = (pages size page).2 ∧ idx = grantIndex addr page ∧
    k'.maps = (a, ms) :: k.maps ∧ k'.grants = (idx, (pages size page).1) :: k.grants := by
  unfold mmapRange at h
  simp only [pages] at h ⊢
  generalize hg : grantMapCall k (grantIndex addr page) (divCeil size page) sc = g at h
  obtain ⟨b, k1, sc1⟩ := g
  cases b with
  | false => simp at h
  | true =>
    simp only at h
    generalize hm : mmapCall k1 (page * divCeil size page) sc1 = m at h
    obtain ⟨o, k2, sc2⟩ := m
    cases o with
    | none => simp at h
    | some a' =>
      simp at h
      obtain ⟨⟨h1, h2, h3⟩, h4, _⟩ := h
      subst h1; subst h2; subst h3; subst h4
      obtain ⟨_, m1, m2⟩ := mmapCall_some hm
      obtain ⟨g1, g2⟩ := grantMapCall_true hg
      refine ⟨rfl, rfl, ?_, ?_⟩
      · rw [m1, g1]
      · rw [m2, g2]

/-- D7 as it stood: a failing `mmap` after a successful grant-map ioctl left the grant mapping behind -/
theorem mmapRangeBeforeFix_leaks :
    ∃ k addr size page sc k' sc', mmapRangeBeforeFix k addr size page sc = (none, k', sc') ∧ ¬ SameRes k' k :=
  ⟨{}, 0x5000, 0x2000, 4096, [true, false], _, _, rfl, by decide⟩

/-! ### `MmapXen::new` / `from_range`: failure leaves nothing behind -/
theorem newMap_error_same (r : Req) (f : Flags) (page : Nat) (k : Kernel) (sc : Script)
    (e : BErr) (k' : Kernel) (sc' : Script)
    (h : newMapWith mmapRange r f page k sc = (.error e, k', sc')) : SameRes k' k := by
  unfold newMapWith at h
  split at h
  · -- foreign
    split at h
    · simp at h; rw [← h.2.1]; exact SameRes.rfl' _
    · simp only [pages] at h
      generalize hm : mmapCall k (page * divCeil r.size page) sc = m at h
      obtain ⟨o, k1, sc1⟩ := m
      cases o with
      | none => simp at h; rw [← h.2.1, mmapCall_none hm]; exact SameRes.rfl' _
      | some a =>
        simp only at h
        generalize hp : privcmdCall sc1 = p at h
        obtain ⟨b, sc2⟩ := p
        cases b with
        | false =>
          simp at h; rw [← h.2.1]
          obtain ⟨_, m1, m2⟩ := mmapCall_some hm
          exact ⟨by simp [munmapCall, m1, m1, m2], by simp [munmapCall, m1, m2]⟩
        | true => simp at h
  · split at h
    · -- grant
      split at h
      · simp at h; rw [← h.2.1]; exact SameRes.rfl' _
      · split at h
        · generalize hr : mmapRange k r.guestBase r.size page sc = x at h
          obtain ⟨o, k1, sc1⟩ := x
          cases o with
          | none => simp at h; rw [← h.2.1]; exact mmapRange_none _ _ _ _ _ _ _ hr
          | some t => obtain ⟨a, ms, idx⟩ := t; simp at h
        · simp at h
    · -- unix
      split at h
      · simp at h; rw [← h.2.1]; exact SameRes.rfl' _
      · generalize hm : mmapCall k r.size sc = m at h
        obtain ⟨o, k1, sc1⟩ := m
        cases o with
        | none => simp at h; rw [← h.2.1, mmapCall_none hm]; exact SameRes.rfl' _
        | some a => simp at h

/-- **C15, Xen build: a failed construction leaves nothing mapped behind** — no `mmap` range and no
    gntdev grant mapping — for every request and every pattern of failing system calls. -/
theorem fromRange_error_leaves_nothing (r : Req) (page : Nat) (k : Kernel) (sc : Script)
    (e : BErr) (k' : Kernel) (sc' : Script)
    (h : fromRange r page k sc = (.error e, k', sc')) : k'.maps = k.maps ∧ k'.grants = k.grants := by
  unfold fromRange fromRangeWith at h
  split at h
  · simp at h; rw [← h.2.1]; exact SameRes.rfl' _
  · unfold fromRangeCore at h
    split at h
    · simp at h; rw [← h.2.1]; exact SameRes.rfl' _
    · split at h
      · simp at h; rw [← h.2.1]; exact SameRes.rfl' _
      · rename_i f _ _
        generalize hn : newMapWith mmapRange r f page k sc = x at h
        obtain ⟨o, k1, sc1⟩ := x
        cases o with
        | error e1 => simp at h; rw [← h.2.1]; exact newMap_error_same _ _ _ _ _ _ _ _ hn
        | ok m => simp at h

/-- the record of D7: before the repair the statement above was false -/
theorem fromRangeBeforeFix_leaks :
    ∃ r page k sc e k' sc', fromRangeBeforeFix r page k sc = (.error e, k', sc') ∧ k'.grants ≠ k.grants :=
  ⟨{ size := 0x2000, file := some { fileLen := 0x10000, start := 0 }, prot := none, flags := none,
     xenFlags := 0x2, xenData := 7, guestBase := 0x5000 }, 4096, {}, [true, false], .mmapFailed, _, _, rfl, by decide⟩

/-! ### which requests fail before any system call: agreement with `Construct.xenValidate` -/
theorem core_validate_error (mr) (r : Req) (page : Nat) (k : Kernel) (sc : Script) (e : BErr) (prot flags : Nat)
    (h : xenValidate.xenRest r.toXenReq = .error e) :
    fromRangeCore mr r page k sc prot flags = (.error e, k, sc) := by
  unfold xenValidate.xenRest at h
  simp only [Req.toXenReq] at h
  unfold fromRangeCore
  cases hb : fromBits r.xenFlags with
  | none => simp only [hb] at h; simp at h; subst h; rfl
  | some f =>
    simp only [hb] at h
    by_cases hv : isValid f = true
    · simp only [hv, Bool.not_true, Bool.false_eq_true, if_false] at h ⊢
      unfold newMapWith
      by_cases hfo : isForeign f = true
      · simp only [hfo, Bool.true_or, if_true] at h
        simp only [hfo, if_true]
        rw [h]
      · by_cases hg : isGrant f = true
        · simp only [hfo, hg, Bool.or_true, if_true] at h
          simp only [hfo, hg, if_true, Bool.false_eq_true, if_false]
          rw [h]
        · simp only [hfo, hg, Bool.or_false, Bool.false_eq_true, if_false] at h
          simp only [hfo, hg, Bool.false_eq_true, if_false]
          cases hfile : r.file with
          | none => simp only [hfile] at h; simp at h
          | some fr => simp only [hfile] at h; simp only [h]
    · simp only [Bool.not_eq_true] at hv
      simp only [hv, Bool.not_false, if_true] at h ⊢
      simp at h; subst h; rfl

/-- every request `Construct.xenValidate` refuses (C15's acceptance theorems) is refused by `from_range`
    with that very error, before any system call: kernel state and reply script untouched -/
theorem fromRange_validate_error (mr) (r : Req) (page : Nat) (k : Kernel) (sc : Script) (e : BErr)
    (h : xenValidate r.toXenReq = .error e) : fromRangeWith mr r page k sc = (.error e, k, sc) := by
  unfold xenValidate at h
  unfold fromRangeWith effFlags
  have hfl : r.toXenReq.flags = r.flags := rfl
  rw [hfl] at h
  cases hf : r.flags with
  | some fl =>
    simp only [hf] at h
    by_cases hfx : fl &&& MAP_FIXED ≠ 0
    · rw [if_pos hfx] at h; injection h with h; subst h; simp only [if_pos hfx]
    · rw [if_neg hfx] at h
      simp only [if_neg hfx]
      exact core_validate_error mr r page k sc e _ _ h
  | none =>
    simp only [hf] at h
    exact core_validate_error mr r page k sc e _ _ h


/-! ### success: the region owns exactly what was acquired, and `Drop` gives all of it back -/
theorem erase_head {α} [BEq α] [LawfulBEq α] (a : α) (l : List α) : (a :: l).erase a = l := by simp

theorem newMap_ok_drop (r : Req) (f : Flags) (page : Nat) (k : Kernel) (sc : Script)
    (m : XMap) (k' : Kernel) (sc' : Script)
    (h : newMapWith mmapRange r f page k sc = (.ok m, k', sc')) : SameRes (dropMap k' m page) k := by
  unfold newMapWith at h
  split at h
  · split at h
    · simp at h
    · simp only [pages] at h
      generalize hm : mmapCall k (page * divCeil r.size page) sc = x at h
      obtain ⟨o, k1, sc1⟩ := x
      cases o with
      | none => simp at h
      | some a =>
        simp only at h
        generalize hp : privcmdCall sc1 = p at h
        obtain ⟨b, sc2⟩ := p
        cases b with
        | false => simp at h
        | true =>
          simp at h; obtain ⟨h1, h2, _⟩ := h; subst h1; subst h2
          obtain ⟨_, m1, m2⟩ := mmapCall_some hm
          exact ⟨by simp [dropMap, munmapCall, m1, m1, m2], by simp [dropMap, munmapCall, m1, m2]⟩
  · split at h
    · split at h
      · simp at h
      · split at h
        · generalize hr : mmapRange k r.guestBase r.size page sc = x at h
          obtain ⟨o, k1, sc1⟩ := x
          cases o with
          | none => simp at h
          | some t =>
            obtain ⟨a, ms, idx⟩ := t
            simp at h; obtain ⟨h1, h2, _⟩ := h; subst h1; subst h2
            obtain ⟨_, _, m1, m2⟩ := mmapRange_some _ _ _ _ _ _ _ _ _ _ hr
            exact ⟨by simp [dropMap, unmapRange, munmapCall, grantUnmapCall, m1, m1, m2],
                   by simp [dropMap, unmapRange, munmapCall, grantUnmapCall, m1, m2]⟩
        · simp at h; obtain ⟨h1, h2, _⟩ := h; subst h1; subst h2; exact ⟨rfl, rfl⟩
    · split at h
      · simp at h
      · generalize hm : mmapCall k r.size sc = x at h
        obtain ⟨o, k1, sc1⟩ := x
        cases o with
        | none => simp at h
        | some a =>
          simp at h; obtain ⟨h1, h2, _⟩ := h; subst h1; subst h2
          obtain ⟨_, m1, m2⟩ := mmapCall_some hm
          exact ⟨by simp [dropMap, munmapCall, m1, m1, m2], by simp [dropMap, munmapCall, m1, m2]⟩

/-- what a successful `from_range` returns -/
theorem fromRange_ok_inv (r : Req) (page : Nat) (k : Kernel) (sc : Script) (reg : Region) (k' : Kernel) (sc' : Script)
    (h : fromRange r page k sc = (.ok reg, k', sc')) :
    ∃ f, fromBits r.xenFlags = some f ∧ isValid f = true ∧ effFlags r = some reg.flags ∧
      newMapWith mmapRange r f page k sc = (.ok reg.map, k', sc') ∧
      reg.size = r.size ∧ reg.prot = r.prot.getD PROT_RW ∧ reg.fileStart = r.file.map (·.start) ∧
      reg.xenFlags = f.toNat ∧ reg.xenData = r.xenData := by
  unfold fromRange fromRangeWith at h
  split at h
  · simp at h
  · rename_i flags hfl
    unfold fromRangeCore at h
    split at h
    · simp at h
    · rename_i f hb
      split at h
      · simp at h
      · rename_i hv
        generalize hn : newMapWith mmapRange r f page k sc = x at h
        obtain ⟨o, k1, sc1⟩ := x
        cases o with
        | error e1 => simp at h
        | ok m =>
          simp at h; obtain ⟨h1, h2, h3⟩ := h; subst h1; subst h2; subst h3
          simp only [Bool.not_eq_true, Bool.not_eq_false'] at hv
          exact ⟨f, hb, by simpa using hv, hfl, hn, rfl, rfl, rfl, rfl, rfl⟩

/-- **C15 (Xen): a region that is built reports exactly the request** (size, protection — defaulted to
    read/write —, flags — defaulted to `MAP_NORESERVE | MAP_SHARED` —, file offset, Xen flag word and data) -/
theorem fromRange_ok_reports (r : Req) (page : Nat) (k : Kernel) (sc : Script) (reg : Region) (k' : Kernel) (sc' : Script)
    (h : fromRange r page k sc = (.ok reg, k', sc')) :
    reg.size = r.size ∧ reg.prot = r.prot.getD PROT_RW ∧ effFlags r = some reg.flags ∧
    reg.fileStart = r.file.map (·.start) ∧ reg.xenFlags = r.xenFlags.toNat ∧ reg.xenData = r.xenData ∧
    xenFlagsAccepted r.xenFlags = true := by
  obtain ⟨f, hb, hv, hfl, _, h1, h2, h3, h4, h5⟩ := fromRange_ok_inv r page k sc reg k' sc' h
  have hf : f = r.xenFlags := by
    unfold fromBits at hb; split at hb <;> simp at hb; exact hb.symm
  subst hf
  refine ⟨h1, h2, hfl, h3, h4, h5, ?_⟩
  unfold xenFlagsAccepted; rw [hb]; exact hv

/-- **C12 (Xen): build then drop gives back every kernel-side resource** — each `mmap` range is
    unmapped with exactly its `(addr, size)`, each grant mapping with exactly its `(index, count)` -/
theorem fromRange_then_drop_restores (r : Req) (page : Nat) (k : Kernel) (sc : Script) (reg : Region) (k' : Kernel) (sc' : Script)
    (h : fromRange r page k sc = (.ok reg, k', sc')) :
    (dropMap k' reg.map page).maps = k.maps ∧ (dropMap k' reg.map page).grants = k.grants := by
  obtain ⟨f, _, _, _, hn, _⟩ := fromRange_ok_inv r page k sc reg k' sc' h
  exact newMap_ok_drop r f page k sc reg.map k' sc' hn

/-- an on-demand grant region is built without any system call -/
theorem fromRange_ondemand_no_calls (r : Req) (page : Nat) (k : Kernel) (sc : Script) (reg : Region) (k' : Kernel) (sc' : Script)
    (h : fromRange r page k sc = (.ok reg, k', sc')) (hx : r.xenFlags = 0xa) :
    reg.map = .grantOnDemand ∧ k' = k ∧ sc' = sc := by
  obtain ⟨f, hb, _, _, hn, _⟩ := fromRange_ok_inv r page k sc reg k' sc' h
  have hf : f = 0xa := by
    unfold fromBits at hb; split at hb <;> simp at hb; rw [← hb, hx]
  subst hf
  unfold newMapWith at hn
  have h1 : isForeign (0xa : Flags) = false := by decide
  have h2 : isGrant (0xa : Flags) = true := by decide
  have h3 : mmapInAdvance (0xa : Flags) = false := by decide
  simp only [h1, h2, h3, Bool.false_eq_true, if_false, if_true] at hn
  split at hn
  · simp at hn
  · simp at hn; exact ⟨hn.1.symm, hn.2.1.symm, hn.2.2.symm⟩

/-- when every system call succeeds, a request is built iff `xenValidate` accepts it -/
theorem fromRange_all_succeed_ok (r : Req) (page : Nat) (k : Kernel)
    (h : xenValidate r.toXenReq = .ok ()) : ∃ reg k', fromRange r page k [] = (.ok reg, k', []) := by
  unfold xenValidate at h
  have hfl : r.toXenReq.flags = r.flags := rfl
  rw [hfl] at h
  unfold fromRange fromRangeWith effFlags
  have core : xenValidate.xenRest r.toXenReq = .ok () → ∀ prot flags, ∃ reg k', fromRangeCore mmapRange r page k [] prot flags = (.ok reg, k', []) := by
    intro h prot flags
    unfold xenValidate.xenRest at h
    simp only [Req.toXenReq] at h
    unfold fromRangeCore
    cases hb : fromBits r.xenFlags with
    | none => simp [hb] at h
    | some f =>
      simp only [hb] at h
      by_cases hv : isValid f = true
      · simp only [hv, Bool.not_true, Bool.false_eq_true, if_false] at h ⊢
        unfold newMapWith
        by_cases hfo : isForeign f = true
        · simp only [hfo, Bool.true_or, if_true] at h
          simp only [hfo, if_true, h, pages, mmapCall, privcmdCall, List.tail_nil]
          exact ⟨_, _, rfl⟩
        · by_cases hg : isGrant f = true
          · simp only [hfo, hg, Bool.or_true, if_true] at h
            simp only [hfo, hg, if_true, Bool.false_eq_true, if_false, h]
            by_cases ha : mmapInAdvance f = true
            · simp only [ha, if_true, mmapRange, pages, grantMapCall, mmapCall, List.tail_nil]
              exact ⟨_, _, rfl⟩
            · simp only [ha, Bool.false_eq_true, if_false]
              exact ⟨_, _, rfl⟩
          · simp only [hfo, hg, Bool.or_false, Bool.false_eq_true, if_false] at h
            simp only [hfo, hg, Bool.false_eq_true, if_false]
            cases hfile : r.file with
            | none => simp only [mmapCall, List.tail_nil]; exact ⟨_, _, rfl⟩
            | some fr => simp only [hfile] at h; simp only [h, mmapCall, List.tail_nil]; exact ⟨_, _, rfl⟩
      · simp only [Bool.not_eq_true] at hv
        simp [hv] at h
  cases hf : r.flags with
  | some fl =>
    simp only [hf] at h
    by_cases hfx : fl &&& MAP_FIXED ≠ 0
    · rw [if_pos hfx] at h; simp at h
    · rw [if_neg hfx] at h
      simp only [if_neg hfx]
      exact core h _ _
  | none =>
    simp only [hf] at h
    exact core h _ _

/-- **a guest region is refused when its end would exceed the address space, and nothing stays mapped** —
    also when the mapping had already been built (any kind of Xen mapping) -/
theorem guestRegionFromRange_error_leaves_nothing (r : Req) (guestBase page : Nat) (k : Kernel) (sc : Script)
    (e : BErr) (k' : Kernel) (sc' : Script)
    (h : guestRegionFromRange r guestBase page k sc = (.error e, k', sc')) :
    k'.maps = k.maps ∧ k'.grants = k.grants := by
  unfold guestRegionFromRange at h
  generalize hf : fromRange r page k sc = x at h
  obtain ⟨o, k1, sc1⟩ := x
  cases o with
  | error e1 =>
    simp at h; rw [← h.2.1]; exact fromRange_error_leaves_nothing r page k sc e1 k1 sc1 hf
  | ok reg =>
    simp only at h
    split at h
    · simp at h; rw [← h.2.1]; exact fromRange_then_drop_restores r page k sc reg k1 sc1 hf
    · simp at h

theorem guestRegionFromRange_ok_iff (r : Req) (guestBase page : Nat) (k : Kernel) (sc : Script) (reg : Region) (k' : Kernel) (sc' : Script) :
    guestRegionFromRange r guestBase page k sc = (.ok reg, k', sc') ↔
      fromRange r page k sc = (.ok reg, k', sc') ∧ guestBase + r.size < U := by
  unfold guestRegionFromRange
  generalize hf : fromRange r page k sc = x
  obtain ⟨o, k1, sc1⟩ := x
  cases o with
  | error e1 => simp
  | ok reg1 =>
    have hs : reg1.size = r.size := (fromRange_ok_reports r page k sc reg1 k1 sc1 hf).1
    simp only [checkedAdd, hs]
    by_cases hlt : guestBase + r.size < U
    · simp [hlt]
    · simp [hlt]


/-! ### "exactly once": nothing is ever released that is not held (`faults` stays where it was) -/
theorem mmapCall_faults (k : Kernel) (size : Nat) (sc : Script) : (mmapCall k size sc).2.1.faults = k.faults := by
  unfold mmapCall; split <;> rfl

theorem grantMapCall_faults (k : Kernel) (i c : Nat) (sc : Script) : (grantMapCall k i c sc).2.1.faults = k.faults := by
  unfold grantMapCall; split <;> rfl

theorem munmapCall_held {k : Kernel} {a s : Nat} (h : (a, s) ∈ k.maps) :
    (munmapCall k a s).faults = k.faults ∧ (munmapCall k a s).grants = k.grants := by
  unfold munmapCall; simp [h]

theorem grantUnmapCall_held {k : Kernel} {i c : Nat} (h : (i, c) ∈ k.grants) :
    (grantUnmapCall k i c).faults = k.faults ∧ (grantUnmapCall k i c).maps = k.maps := by
  unfold grantUnmapCall; simp [h]

theorem mmapRange_faults (k : Kernel) (addr size page : Nat) (sc : Script) :
    (mmapRange k addr size page sc).2.1.faults = k.faults := by
  unfold mmapRange
  simp only [pages]
  generalize hg : grantMapCall k (grantIndex addr page) (divCeil size page) sc = g
  obtain ⟨b, k1, sc1⟩ := g
  have f1 : k1.faults = k.faults := by have := grantMapCall_faults k (grantIndex addr page) (divCeil size page) sc; rw [hg] at this; exact this
  cases b with
  | false => simpa using f1
  | true =>
    simp only
    generalize hm : mmapCall k1 (page * divCeil size page) sc1 = m
    obtain ⟨o, k2, sc2⟩ := m
    have f2 : k2.faults = k1.faults := by have := mmapCall_faults k1 (page * divCeil size page) sc1; rw [hm] at this; exact this
    cases o with
    | none =>
      have := mmapCall_none hm; subst this
      obtain ⟨_, g2⟩ := grantMapCall_true hg
      have := (grantUnmapCall_held (k := k2) (i := grantIndex addr page) (c := divCeil size page) (by rw [g2]; exact List.mem_cons_self)).1
      simp only; rw [this, f1]
    | some a => simp only; rw [f2, f1]

theorem newMap_faults (r : Req) (f : Flags) (page : Nat) (k : Kernel) (sc : Script) :
    (newMapWith mmapRange r f page k sc).2.1.faults = k.faults := by
  unfold newMapWith
  split
  · split
    · rfl
    · simp only [pages]
      generalize hm : mmapCall k (page * divCeil r.size page) sc = m
      obtain ⟨o, k1, sc1⟩ := m
      have f1 : k1.faults = k.faults := by have := mmapCall_faults k (page * divCeil r.size page) sc; rw [hm] at this; exact this
      cases o with
      | none => simpa using f1
      | some a =>
        simp only
        generalize hp : privcmdCall sc1 = p
        obtain ⟨b, sc2⟩ := p
        cases b with
        | false =>
          obtain ⟨_, m1, _⟩ := mmapCall_some hm
          have := (munmapCall_held (k := k1) (a := a) (s := page * divCeil r.size page) (by rw [m1]; exact List.mem_cons_self)).1
          simp only; rw [this, f1]
        | true => simpa using f1
  · split
    · split
      · rfl
      · split
        · generalize hr : mmapRange k r.guestBase r.size page sc = x
          obtain ⟨o, k1, sc1⟩ := x
          have f1 : k1.faults = k.faults := by have := mmapRange_faults k r.guestBase r.size page sc; rw [hr] at this; exact this
          cases o with
          | none => simpa using f1
          | some t => obtain ⟨a, ms, idx⟩ := t; simpa using f1
        · rfl
    · split
      · rfl
      · generalize hm : mmapCall k r.size sc = m
        obtain ⟨o, k1, sc1⟩ := m
        have f1 : k1.faults = k.faults := by have := mmapCall_faults k r.size sc; rw [hm] at this; exact this
        cases o with
        | none => simpa using f1
        | some a => simpa using f1

/-- **construction never releases anything it does not hold** — on success, on a refused request, and on every
    failure path after a partial acquisition (each range and each grant mapping it gives back is one it holds) -/
theorem fromRange_no_fault (r : Req) (page : Nat) (k : Kernel) (sc : Script) :
    (fromRange r page k sc).2.1.faults = k.faults := by
  unfold fromRange fromRangeWith
  split
  · rfl
  · unfold fromRangeCore
    split
    · rfl
    · split
      · rfl
      · rename_i f _ _
        have hf := newMap_faults r f page k sc
        generalize hn : newMapWith mmapRange r f page k sc = x at hf
        obtain ⟨o, k1, sc1⟩ := x
        cases o <;> simpa using hf

/-- dropping a region built by `from_range` releases each of its resources once: nothing it releases is missing -/
theorem fromRange_then_drop_no_fault (r : Req) (page : Nat) (k : Kernel) (sc : Script) (reg : Region) (k' : Kernel) (sc' : Script)
    (h : fromRange r page k sc = (.ok reg, k', sc')) : (dropMap k' reg.map page).faults = k.faults := by
  have hk : k'.faults = k.faults := by have := fromRange_no_fault r page k sc; rw [h] at this; exact this
  obtain ⟨f, _, _, _, hn, _⟩ := fromRange_ok_inv r page k sc reg k' sc' h
  rw [← hk]
  clear hk h
  unfold newMapWith at hn
  split at hn
  · split at hn
    · simp at hn
    · simp only [pages] at hn
      generalize hm : mmapCall k (page * divCeil r.size page) sc = x at hn
      obtain ⟨o, k1, sc1⟩ := x
      cases o with
      | none => simp at hn
      | some a =>
        simp only at hn
        generalize hp : privcmdCall sc1 = p at hn
        obtain ⟨b, sc2⟩ := p
        cases b with
        | false => simp at hn
        | true =>
          simp at hn; obtain ⟨h1, h2, _⟩ := hn; rw [← h1, ← h2]
          obtain ⟨_, m1, _⟩ := mmapCall_some hm
          exact (munmapCall_held (by rw [m1]; exact List.mem_cons_self)).1
  · split at hn
    · split at hn
      · simp at hn
      · split at hn
        · generalize hr : mmapRange k r.guestBase r.size page sc = x at hn
          obtain ⟨o, k1, sc1⟩ := x
          cases o with
          | none => simp at hn
          | some t =>
            obtain ⟨a, ms, idx⟩ := t
            simp at hn; obtain ⟨h1, h2, _⟩ := hn; rw [← h1, ← h2]
            obtain ⟨_, _, m1, m2⟩ := mmapRange_some _ _ _ _ _ _ _ _ _ _ hr
            simp only [dropMap, unmapRange]
            have a1 := munmapCall_held (k := k1) (a := a) (s := ms) (by rw [m1]; exact List.mem_cons_self)
            have a2 := grantUnmapCall_held (k := munmapCall k1 a ms) (i := idx) (c := (pages r.size page).1) (by rw [a1.2, m2]; exact List.mem_cons_self)
            rw [a2.1, a1.1]
        · simp at hn; obtain ⟨h1, h2, _⟩ := hn; rw [← h1, ← h2]; rfl
    · split at hn
      · simp at hn
      · generalize hm : mmapCall k r.size sc = x at hn
        obtain ⟨o, k1, sc1⟩ := x
        cases o with
        | none => simp at hn
        | some a =>
          simp at hn; obtain ⟨h1, h2, _⟩ := hn; rw [← h1, ← h2]
          obtain ⟨_, m1, _⟩ := mmapCall_some hm
          exact (munmapCall_held (by rw [m1]; exact List.mem_cons_self)).1

/-! ### `fds_overlap` (a convenience check on two built regions) -/
/-- for regions built through the checked constructors (`start + len` fits, `len > 0`) on one descriptor,
    `fds_overlap` is exactly "the two file ranges intersect", and it does not overflow -/
theorem fdsOverlap_spec (s1 l1 s2 l2 : Nat) (h1 : s1 + l1 < U) (h2 : s2 + l2 < U) (p1 : 0 < l1) (p2 : 0 < l2) :
    fdsOverlap true (some (s1, l1)) (some (s2, l2)) = .ok (decide (max s1 s2 < min (s1 + l1) (s2 + l2))) := by
  unfold fdsOverlap addP
  by_cases h : s1 < s2
  · simp only [h, if_true, h1, Res.bind_ok, Res.pure_eq]
    congr 1
    simp only [decide_eq_decide]
    omega
  · simp only [h, if_false, if_true, h2, Res.bind_ok, Res.pure_eq]
    congr 1
    simp only [decide_eq_decide]
    omega

theorem fdsOverlap_other_fd (a b : Option (Nat × Nat)) : fdsOverlap false a b = .ok false := by
  unfold fdsOverlap; cases a <;> cases b <;> simp

theorem fdsOverlap_no_file (sameFd : Bool) (b : Option (Nat × Nat)) :
    fdsOverlap sameFd none b = .ok false ∧ fdsOverlap sameFd b none = .ok false := by
  unfold fdsOverlap; cases b <;> simp

/-! ### non-vacuity: concrete requests through the whole function -/
def grantReq : Req := { size := 0x2000, file := some { fileLen := 0x10000, start := 0 }, prot := none, flags := none,
                        xenFlags := 0x2, xenData := 7, guestBase := 0x5000 }
def okOf {α} : Except BErr α → Option α | .ok a => some a | .error _ => none
def errOf {α} : Except BErr α → Option BErr | .ok _ => none | .error e => some e
example : okOf (fromRange grantReq 4096 ({} : Kernel) []).1 =
    some (Region.mk 0x2000 3 0x4001 (some 0) 2 7 (.grantAdvance 0x10000 0x2000 0x5000 0x2000)) := by decide
example : (fromRange grantReq 4096 {} []).2.1.grants = [(0x5000, 2)] := by decide
example : (fromRange grantReq 4096 {} [true, false]).2.1.grants = [] := by decide
example : errOf (fromRange grantReq 4096 {} [false]).1 = some .mmapFailed := by decide
example : (fromRange { grantReq with xenFlags := 0x1 } 4096 {} [true, false]).2.1.maps = [] := by decide
example : errOf (fromRange { grantReq with xenFlags := 0x1 } 4096 {} [true, false]).1 = some .mmapFailed := by decide
example : (fromRange { grantReq with xenFlags := 0xa } 4096 {} []).2.1 = {} := by decide
example : errOf (fromRange { grantReq with xenFlags := 0x6 } 4096 {} []).1 = some (.mmapFlags 6) := by decide

end C15x
end VmMem

#print axioms VmMem.C15x.mmapRange_none
#print axioms VmMem.C15x.mmapRange_some
#print axioms VmMem.C15x.mmapRangeBeforeFix_leaks
#print axioms VmMem.C15x.newMap_error_same
#print axioms VmMem.C15x.fromRange_error_leaves_nothing
#print axioms VmMem.C15x.fromRangeBeforeFix_leaks
#print axioms VmMem.C15x.core_validate_error
#print axioms VmMem.C15x.fromRange_validate_error
#print axioms VmMem.C15x.newMap_ok_drop
#print axioms VmMem.C15x.fromRange_ok_inv
#print axioms VmMem.C15x.fromRange_ok_reports
#print axioms VmMem.C15x.fromRange_then_drop_restores
#print axioms VmMem.C15x.fromRange_ondemand_no_calls
#print axioms VmMem.C15x.fromRange_all_succeed_ok
#print axioms VmMem.C15x.guestRegionFromRange_error_leaves_nothing
#print axioms VmMem.C15x.guestRegionFromRange_ok_iff
#print axioms VmMem.C15x.fdsOverlap_spec
#print axioms VmMem.C15x.fdsOverlap_other_fd
#print axioms VmMem.C15x.fdsOverlap_no_file
#print axioms VmMem.C15x.mmapRange_faults
#print axioms VmMem.C15x.newMap_faults
#print axioms VmMem.C15x.fromRange_no_fault
#print axioms VmMem.C15x.fromRange_then_drop_no_fault
