/-
  C17 (on-demand half, system-call level): the temporary mapping of an access is released when the
  access completes — and also when obtaining it fails half-way — so none remains; a zero-length access
  asks the device for nothing (C18).
-/
import VmMem.Model.XenAccess
import VmMem.Props.C15x
namespace VmMem
namespace C17x
open XenBuild XenAccess C15x

/-- **no temporary mapping remains**, whatever the device and `mmap` answer: after the access (completed, or
    aborted by the `unwrap`) the kernel holds exactly the mmap ranges and grant mappings it held before -/
theorem access_leaves_nothing (k : Kernel) (guestBase offset len page : Nat) (sc : Script)
    (o : Outcome) (k' : Kernel) (sc' : Script)
    (h : access k guestBase offset len page sc = (o, k', sc')) :
    k'.maps = k.maps ∧ k'.grants = k.grants := by
  unfold access at h
  split at h
  · simp at h; rw [← h.2.1]; exact ⟨rfl, rfl⟩
  · simp only at h
    generalize hr : mmapRange k _ _ page sc = x at h
    obtain ⟨r, k1, sc1⟩ := x
    cases r with
    | none => simp at h; rw [← h.2.1]; exact mmapRange_none _ _ _ _ _ _ _ hr
    | some t =>
      obtain ⟨a, ms, idx⟩ := t
      simp at h; rw [← h.2.1]
      obtain ⟨_, _, m1, m2⟩ := mmapRange_some _ _ _ _ _ _ _ _ _ _ hr
      exact ⟨by simp [unmapRange, munmapCall, grantUnmapCall, m1, m1, m2], by simp [unmapRange, munmapCall, grantUnmapCall, m1, m2]⟩

/-- a zero-length access makes no system call at all -/
theorem zero_length_access_no_call (k : Kernel) (guestBase offset page : Nat) (sc : Script) :
    access k guestBase offset 0 page sc = (.raw, k, sc) := by
  simp [access]

/-- with a cooperating device a non-empty access completes -/
theorem access_completes (k : Kernel) (guestBase offset len page : Nat) (hl : 0 < len) :
    (access k guestBase offset len page []).1 = .done := by
  have : len ≠ 0 := by omega
  simp [access, this, mmapRange, grantMapCall, mmapCall, pages]

/-- the unmap request names exactly the pages the map request named (what `Drop` passes is the window's
    `size`, which `pages` turns into the same count) -/
theorem requests_balanced (guestBase offset len page : Nat) :
    Xen.liveAfter (requests guestBase offset len page) = [] := by
  unfold requests
  split
  · rfl
  · simp [Xen.liveAfter]

/-- the window requested covers every byte of the access: `[offset, offset+len) ⊆ [pageBase, pageBase + pages·page)` -/
theorem window_covers_access (guestBase offset len page : Nat) (hp : 0 < page) :
    let w := Xen.window page guestBase offset len
    w.pageBase ≤ offset ∧ offset + len ≤ w.pageBase + (pages w.mapSize page).2 := by
  simp only [Xen.window, pages, divCeil]
  have h1 : offset / page * page ≤ offset := Nat.div_mul_le_self offset page
  refine ⟨h1, ?_⟩
  have h2 : (offset - offset / page * page + len) ≤ page * ((offset - offset / page * page + len + page - 1) / page) := by
    have := Nat.div_add_mod (offset - offset / page * page + len + page - 1) page
    have hm := Nat.mod_lt (offset - offset / page * page + len + page - 1) hp
    omega
  omega


/-- the window is released **once**: the access never gives back a range or a grant mapping it does not hold -/
theorem access_no_fault (k : Kernel) (guestBase offset len page : Nat) (sc : Script) :
    (access k guestBase offset len page sc).2.1.faults = k.faults := by
  unfold access
  split
  · rfl
  · simp only
    have hf := mmapRange_faults k (guestBase + (Xen.window page guestBase offset len).pageBase) (Xen.window page guestBase offset len).mapSize page sc
    generalize hr : mmapRange k _ _ page sc = x at hf
    obtain ⟨r, k1, sc1⟩ := x
    cases r with
    | none => simpa using hf
    | some t =>
      obtain ⟨a, ms, idx⟩ := t
      obtain ⟨_, _, m1, m2⟩ := mmapRange_some _ _ _ _ _ _ _ _ _ _ hr
      simp only [unmapRange]
      have a1 := munmapCall_held (k := k1) (a := a) (s := ms) (by rw [m1]; exact List.mem_cons_self)
      have a2 := grantUnmapCall_held (k := munmapCall k1 a ms) (i := idx) (c := (pages (Xen.window page guestBase offset len).mapSize page).1)
        (by rw [a1.2, m2]; exact List.mem_cons_self)
      rw [a2.1, a1.1]; simpa using hf

example : (access {} 0x10000 0xffe 8 4096 []).2.1.maps = [] ∧ (access {} 0x10000 0xffe 8 4096 []).2.1.grants = [] ∧ (access {} 0x10000 0xffe 8 4096 []).1 = .done := by decide
example : (access {} 0x10000 0xffe 8 4096 [true, false]).1 = .unwrapPanic ∧ (access {} 0x10000 0xffe 8 4096 [true, false]).2.1.grants = [] := by decide
example : requests 0x10000 0xffe 8 4096 = [.map 0x10000 2, .unmap 0x10000 2] := by decide

end C17x
end VmMem
#print axioms VmMem.C17x.access_leaves_nothing
#print axioms VmMem.C17x.zero_length_access_no_call
#print axioms VmMem.C17x.access_completes
#print axioms VmMem.C17x.requests_balanced
#print axioms VmMem.C17x.window_covers_access
#print axioms VmMem.C17x.access_no_fault
