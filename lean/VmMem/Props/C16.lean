/-
  VmMem.Props.C16 — precision of dirty-page tracking: marks are confined to what was
  written.

  Same setting as `VmMem.Props.C05` (`Dirty.Setting m b B0`, accessors `Dirty.Tracks`).
  Every mutating operation has an `Effect m b B0 m' b' w n` (DirtyLemmas §4/§5, the
  explicit window per operation is in `C05.*_marks`): bytes outside `[w, w + n)` are
  unchanged and `b'.bit p = (b.bit p || decide (0 < n ∧ (B0+w)/page ≤ p ∧ p ≤ (B0+w+n-1)/page))`.

  Layout
    §1  `pages_overlap_iff`
    §2  `precise`, `newly_dirty_iff`, `untouched_pages_unchanged`, `page_end_exact`,
        `precise_step` / `marks_confined_to_accessor` (over `applyW`)
    §3  `reads_mark_nothing`
    §4  `rejected_marks_nothing`, `zero_len_marks_nothing`
    §5  non-vacuity
-/
import VmMem.Lemmas.DirtyLemmas
import VmMem.Props.C05
namespace VmMem.C16
open VmMem C01 Dirty VolatileLemmas

/-! ## §1 pages of a byte range -/

/-- the pages `a / page ..= (a + n - 1) / page` are exactly the pages the non-empty byte
    range `[a, a + n)` overlaps -/
theorem pages_overlap_iff (page a n p : Nat) (hp : 0 < page) (hn : 0 < n) :
    (a / page ≤ p ∧ p ≤ (a + n - 1) / page) ↔ ∃ x, a ≤ x ∧ x < a + n ∧ x / page = p :=
  Dirty.pages_overlap_iff page a n p hp hn

/-! ## §2 precision -/

section precise
variable {m m' : Mem} {b b' : ABitmap} {B0 w n : Nat}

/-- the newly dirty pages are exactly the so-far-clean pages overlapping the window -/
theorem newly_dirty_iff (hs : Setting m b B0) (he : Effect m b B0 m' b' w n) (p : Nat) :
    (b'.bit p = true ∧ b.bit p = false) ↔
      (b.bit p = false ∧ 0 < n ∧ ∃ x, B0 + w ≤ x ∧ x < B0 + w + n ∧ x / b.page = p) := by
  rw [he.bits p]
  unfold markedBits
  by_cases hn : 0 < n
  · rw [← Dirty.pages_overlap_iff b.page (B0 + w) n p hs.inv.page_pos hn]
    cases b.bit p <;> simp [hn]
  · cases b.bit p <;> simp [hn]

/-- 7. `precise`: for a write of `n > 0` bytes at container offset `w`, the set of newly
    dirty pages is contained in the pages overlapping `[B0 + w, B0 + w + n)`, and every
    page overlapping it is dirty afterwards -/
theorem precise (hs : Setting m b B0) (he : Effect m b B0 m' b' w n) (hn : 0 < n) :
    (∀ p, b'.bit p = true → b.bit p = false →
        ∃ x, B0 + w ≤ x ∧ x < B0 + w + n ∧ x / b.page = p) ∧
    (∀ x, B0 + w ≤ x → x < B0 + w + n → b'.bit (x / b.page) = true) := by
  constructor
  · intro p h1 h2
    exact ((newly_dirty_iff hs he p).1 ⟨h1, h2⟩).2.2
  · intro x h1 h2
    rw [he.bits]
    have h3 : (B0 + w) / b.page ≤ x / b.page := Nat.div_le_div_right h1
    have h4 : x / b.page ≤ (B0 + w + n - 1) / b.page := Nat.div_le_div_right (by omega)
    simp [markedBits, h3, h4, hn]

/-- a page that does not overlap the window keeps its bit -/
theorem untouched_pages_unchanged (hs : Setting m b B0) (he : Effect m b B0 m' b' w n) (p : Nat)
    (h : ¬ ∃ x, B0 + w ≤ x ∧ x < B0 + w + n ∧ x / b.page = p) : b'.bit p = b.bit p := by
  cases hb : b.bit p with
  | true => exact he.mono p hb
  | false =>
    cases hb' : b'.bit p with
    | false => rfl
    | true => exact absurd ((newly_dirty_iff hs he p).1 ⟨hb', hb⟩).2.2 h

/-- nothing stored (`n = 0`): nothing marked -/
theorem empty_window_marks_nothing (he : Effect m b B0 m' b' w 0) : ∀ p, b'.bit p = b.bit p := by
  intro p; rw [he.bits, markedBits_zero]

/-- a byte whose page does not overlap the window keeps its dirty status -/
theorem other_bytes_status (hs : Setting m b B0) (he : Effect m b B0 m' b' w n) (i : Nat)
    (h : ¬ ∃ x, B0 + w ≤ x ∧ x < B0 + w + n ∧ x / b.page = (B0 + i) / b.page) :
    dirty m' B0 i = dirty m B0 i := by
  rw [dirty_of_bm he.bm, dirty_of_bm hs.bm, he.page]
  exact untouched_pages_unchanged hs he _ h

/-- `page_end_exact`: when the window ends exactly on a page boundary, the page that
    starts there is NOT newly marked (no off-by-one in `start + len - 1`) -/
theorem page_end_exact (hs : Setting m b B0) (he : Effect m b B0 m' b' w n)
    (hend : (B0 + w + n) % b.page = 0) :
    b'.bit ((B0 + w + n) / b.page) = b.bit ((B0 + w + n) / b.page) := by
  rw [he.bits]
  unfold markedBits
  by_cases hn : 0 < n
  · have hp := hs.inv.page_pos
    have hmul : (B0 + w + n) / b.page * b.page = B0 + w + n :=
      Nat.div_mul_cancel (Nat.dvd_of_mod_eq_zero hend)
    have hlt : (B0 + w + n - 1) / b.page < (B0 + w + n) / b.page := by
      rw [Nat.div_lt_iff_lt_mul hp, hmul]; omega
    have : ¬ ((B0 + w + n) / b.page ≤ (B0 + w + n - 1) / b.page) := by omega
    simp [this]
  · simp [hn]

/-- symmetric: when the window starts on a page boundary the page before it is not newly
    marked -/
theorem page_start_exact (hs : Setting m b B0) (he : Effect m b B0 m' b' w n) (p : Nat)
    (hp : p < (B0 + w) / b.page) : b'.bit p = b.bit p := by
  apply untouched_pages_unchanged hs he
  rintro ⟨x, h1, -, rfl⟩
  have : (B0 + w) / b.page ≤ x / b.page := Nat.div_le_div_right h1
  omega

end precise

/-- precision of every mutating operation (over `applyW`): bytes outside the window
    `[winStart, winStart + n)` are unchanged, the window lies inside the accessor, and the
    newly dirty pages are exactly the clean pages overlapping the window -/
theorem precise_step {m : Mem} {b : ABitmap} {B0 : Nat} (hs : Setting m b B0) {a : Acc}
    (ht : Tracks m B0 a) {op : WOp} {m' : Mem} (h : applyW m a op = .ok m') :
    ∃ b' n, m'.bm = some b' ∧ b'.page = b.page ∧
      (n = 0 ∨ winStart m a op + n ≤ a.lo - m.base + a.bytes) ∧
      (∀ i, (i < winStart m a op ∨ winStart m a op + n ≤ i) → m'.bytes[i]? = m.bytes[i]?) ∧
      (∀ p, (b'.bit p = true ∧ b.bit p = false) ↔
        (b.bit p = false ∧ 0 < n ∧
          ∃ x, B0 + winStart m a op ≤ x ∧ x < B0 + winStart m a op + n ∧ x / b.page = p)) := by
  obtain ⟨b', n, he, hin⟩ := applyW_effect hs ht h
  exact ⟨b', n, he.bm, he.page, hin, he.outside, newly_dirty_iff hs he⟩

/-- in particular the marks of an operation never leave the pages of the accessor it
    was applied through -/
theorem marks_confined_to_accessor {m : Mem} {b : ABitmap} {B0 : Nat} (hs : Setting m b B0)
    {a : Acc} (ht : Tracks m B0 a) {op : WOp} {m' : Mem} (h : applyW m a op = .ok m') :
    ∃ b', m'.bm = some b' ∧ ∀ p, b'.bit p = true → b.bit p = false →
      ∃ x, B0 + (a.lo - m.base) ≤ x ∧ x < B0 + (a.lo - m.base) + a.bytes ∧ x / b.page = p := by
  obtain ⟨b', n, he, hin⟩ := applyW_effect hs ht h
  refine ⟨b', he.bm, ?_⟩
  intro p h1 h2
  obtain ⟨-, hn, x, x1, x2, x3⟩ := (newly_dirty_iff hs he p).1 ⟨h1, h2⟩
  have hw : a.lo - m.base ≤ winStart m a op := Nat.le_add_right _ _
  exact ⟨x, by omega, by omega, x3⟩

/-- `precise` for `Bytes::write` by name: a write that stored `n > 0` bytes at offset
    `addr` of a tracked slice newly marks only pages overlapping
    `[B0 + o + addr, B0 + o + addr + n)`, `o = s.addr - m.base`, and all of those are dirty -/
theorem precise_write {m : Mem} {b : ABitmap} {B0 : Nat} (hs : Setting m b B0) {s : VSlice}
    (ht : Tracks m B0 (.sl s)) {buf : List UInt8} {addr n : Nat} {m' : Mem}
    (h : s.write m buf addr = .ok (m', n)) (hn : 0 < n) :
    ∃ b', m'.bm = some b' ∧
      (∀ p, b'.bit p = true → b.bit p = false →
        ∃ x, B0 + (s.addr - m.base + addr) ≤ x ∧ x < B0 + (s.addr - m.base + addr) + n ∧
          x / b.page = p) ∧
      (∀ x, B0 + (s.addr - m.base + addr) ≤ x → x < B0 + (s.addr - m.base + addr) + n →
        b'.bit (x / b.page) = true) := by
  obtain ⟨-, b', he⟩ := write_effect hs ht h
  exact ⟨b', he.bm, precise hs he hn⟩

/-- `precise` for `Bytes::store` by name (the mark is made on the parent slice at `addr`) -/
theorem precise_store {m : Mem} {b : ABitmap} {B0 : Nat} (hs : Setting m b B0) {s : VSlice}
    (ht : Tracks m B0 (.sl s)) {val : List UInt8} {t : Ty} {addr : Nat} {m' : Mem}
    (h : s.store m val t addr = .ok m') (hn : 0 < t.size) :
    ∃ b', m'.bm = some b' ∧
      (∀ p, b'.bit p = true → b.bit p = false →
        ∃ x, B0 + (s.addr - m.base + addr) ≤ x ∧ x < B0 + (s.addr - m.base + addr) + t.size ∧
          x / b.page = p) ∧
      (∀ x, B0 + (s.addr - m.base + addr) ≤ x → x < B0 + (s.addr - m.base + addr) + t.size →
        b'.bit (x / b.page) = true) := by
  obtain ⟨-, b', he⟩ := store_effect hs ht h
  exact ⟨b', he.bm, precise hs he hn⟩

/-! ## §3 reads mark nothing -/

/-! Remark (`reads_mark_nothing`, checked by the type checker): the read-type operations
    take the container as an argument and return NO container — there is no state in
    their result in which a mark could be observed. -/
example : Mem → VSlice → Nat → Nat → Res (List UInt8) := VSlice.read
example : Mem → VSlice → Nat → Nat → Res (List UInt8) := VSlice.readSlice
example : Mem → VSlice → Ty → Nat → Res (List UInt8) := VSlice.readObj
example : Mem → VSlice → Ty → Nat → Res (List UInt8) := VSlice.load
example : Mem → VSlice → Ty → Nat → Res (Nat × List UInt8) := VSlice.copyTo
example : Mem → VRef → Res (List UInt8) := VRef.load
example : Mem → VArr → Nat → Res (List UInt8) := VArr.load
example : Mem → VArr → Nat → Res (Nat × List UInt8) := VArr.copyTo
example : Mem → VSlice → Nat → Res (List UInt8) := copyFromVolatileSlice
example : Writer → Mem → VSlice → Writer × Res Nat := Writer.writeVolatile
example : Writer → Mem → VSlice → Writer × Res Nat := Writer.writeRetry
example : Writer → Mem → VSlice → Writer × Res Unit := Writer.writeAll
example : Mem → VSlice → Nat → Writer → Nat → Writer × Res Nat := VSlice.writeVolatileTo
example : Mem → VSlice → Nat → Writer → Nat → Writer × Res Unit := VSlice.writeAllVolatileTo
example : Acc → DOp → Res Acc := C01.derive

theorem rvFail_nonfd (m : Mem) (s : VSlice) (r : Reader) (k : Nat) (hk : r.kind ≠ .fd) :
    (rvFail m s r k).1 = m := by
  unfold rvFail
  cases hk' : r.kind <;> first | exact absurd hk' hk | rfl

/-- the stream-in calls are the only functions besides the mutating ones that return a
    container; when they transfer nothing they return the container they were given:
    a `zero` call, and a failing call of any stream that is not a raw descriptor -/
theorem reads_mark_nothing (r : Reader) (m : Mem) (s : VSlice) (beh : Beh) (rest : List Beh)
    (hsc : r.script = beh :: rest)
    (hb : beh = .zero ∨ ((beh = .fail ∨ beh = .eintr) ∧ r.kind ≠ .fd)) :
    (r.readVolatile m s).1 = m := by
  rw [readVolatile_eq, hsc]
  rcases hb with rfl | ⟨rfl | rfl, hk⟩
  · rfl
  · exact rvFail_nonfd m s _ _ hk
  · exact rvFail_nonfd m s _ _ hk

/-- `read_exact_volatile` of a `&[u8]` / `Cursor` that is too short: refused up front -/
theorem readExact_eof_marks_nothing (r : Reader) (m : Mem) (s : VSlice)
    (hk : r.kind = .slice ∨ r.kind = .cursor) (h : s.size > r.avail.length) :
    r.readExact m s = (m, r, .err (ioErr IoKind.unexpectedEof)) := by
  unfold Reader.readExact
  rcases hk with hk | hk <;> simp only [hk, if_pos h]

/-! ## §4 rejected operations mark nothing -/

/-! Remark: `copyToVolatileSlice`, `VSlice.write`, `VSlice.store`, `VSlice.copyFrom`,
    `VSlice.copyToSlice`, `VRef.store`, `VArr.store`, `VArr.copyFrom`, `VArr.copyToSlice`
    have result type `Res (Mem × _)` / `Res Mem`: an `.err e` answer carries no new
    container — the caller keeps `m`.  The one function that returns a container next
    to an error is `writeSlice` (and `writeObj`), treated below. -/
example : Mem → VSlice → List UInt8 → Nat → Res (Mem × Nat) := VSlice.write
example : Mem → VSlice → List UInt8 → Ty → Nat → Res Mem := VSlice.store
example : Mem → VSlice → List UInt8 → Nat → Mem × Res Unit := VSlice.writeSlice

/-- the only error values of `write` are raised before any byte is stored -/
theorem write_err_kind {m : Mem} {s : VSlice} {buf : List UInt8} {addr : Nat} {e : Err}
    (h : s.write m buf addr = .err e) : e = .outOfBounds ∨ e = .overflow :=
  Dirty.write_err_kind h

/-- `rejected_marks_nothing`: `write_slice` answering any error other than `PartialBuffer`
    (or a panic) returns the container it was given — bytes and bitmap (no hypotheses) -/
theorem rejected_marks_nothing (m : Mem) (s : VSlice) (buf : List UInt8) (addr : Nat)
    (h : ∀ x c, (s.writeSlice m buf addr).2 ≠ .err (.partialBuffer x c))
    (hok : (s.writeSlice m buf addr).2 ≠ .ok ()) : (s.writeSlice m buf addr).1 = m := by
  unfold VSlice.writeSlice at h hok ⊢
  cases hw : s.write m buf addr with
  | ok p =>
    obtain ⟨m2, n⟩ := p
    rw [hw] at h hok
    simp only [] at h hok ⊢
    by_cases hc : n ≠ buf.length
    · rw [if_pos hc] at h; exact absurd rfl (h _ _)
    · rw [if_neg hc] at hok; exact absurd rfl hok
  | err e => rfl
  | panic => rfl

/-- the error of `write_slice` is `OutOfBounds`, `Overflow` (nothing stored, container
    unchanged) or `PartialBuffer` -/
theorem writeSlice_err_kind (m : Mem) (s : VSlice) (buf : List UInt8) (addr : Nat) (e : Err)
    (h : (s.writeSlice m buf addr).2 = .err e) :
    ((e = .outOfBounds ∨ e = .overflow) ∧ (s.writeSlice m buf addr).1 = m) ∨
    ∃ c, e = .partialBuffer buf.length c := by
  unfold VSlice.writeSlice at h ⊢
  cases hw : s.write m buf addr with
  | ok p =>
    obtain ⟨m2, n⟩ := p
    rw [hw] at h
    simp only [] at h ⊢
    by_cases hc : n ≠ buf.length
    · rw [if_pos hc] at h
      simp only [Res.err.injEq] at h
      exact .inr ⟨n, h.symm⟩
    · rw [if_neg hc] at h; cases h
  | err e' =>
    rw [hw] at h
    simp only [Res.err.injEq] at h
    subst h
    exact .inl ⟨Dirty.write_err_kind hw, rfl⟩
  | panic => rw [hw] at h; cases h

/-- for `write_slice` answering `PartialBuffer { expected, completed }` the marks are
    exactly those of the stored prefix `[o + addr, o + addr + completed)` -/
theorem partial_marks_prefix {m : Mem} {b : ABitmap} {B0 : Nat} (hs : Setting m b B0)
    {s : VSlice} (ht : Tracks m B0 (.sl s)) (buf : List UInt8) (addr x c : Nat)
    (h : (s.writeSlice m buf addr).2 = .err (.partialBuffer x c)) :
    x = buf.length ∧ c < buf.length ∧
    ∃ b', Effect m b B0 (s.writeSlice m buf addr).1 b' (s.addr - m.base + addr) c := by
  obtain ⟨n, b', he, -, -, hp, -⟩ := writeSlice_effect hs ht buf addr
  obtain ⟨h1, h2, h3⟩ := hp x c h
  subst h2
  exact ⟨h1, h3, b', he⟩

/-- in a history (`C05.stepH`) a rejected operation leaves container, bitmap and snapshot alone -/
theorem rejected_step_marks_nothing {m : Mem} {a : Acc} {op : WOp} {e : Err} (snap : List UInt8)
    (h : applyW m a op = .err e) : C05.stepH (m, snap) (.write a op) = .ok (m, snap) := by
  simp only [C05.stepH, h]

/-- … and so does a read step -/
theorem read_step_marks_nothing (st : Mem × List UInt8) : C05.stepH st .read = .ok st := rfl

/-- `mark_dirty(off, 0)` marks nothing (no hypotheses) -/
theorem zero_len_marks_nothing (m : Mem) (bmBase off : Nat) : m.mark bmBase off 0 = .ok m := by
  obtain ⟨base, bytes, bm⟩ := m
  cases bm with
  | none => rfl
  | some b => rfl

/-! ## §5 non-vacuity -/

/-- `dMem`: 300 bytes, 128-byte pages.  A 2-byte write at container bytes 126, 127 ends
    exactly at the page boundary 128: page 0 is marked, page 1 is not. -/
theorem ex_page_end :
    ∃ m' b', (rootAt dMem 0).write dMem [1, 2] 126 = .ok (m', 2) ∧ m'.bm = some b' ∧
      b'.bit 0 = true ∧ b'.bit 1 = false := by
  have ht : Tracks dMem 0 (.sl (rootAt dMem 0)) := Dirty.root_tracks dMem 0 (by decide)
  have hsz : (rootAt dMem 0).size = 300 := dMem_len
  obtain ⟨m', hm'⟩ := Dirty.write_ok dMem_setting ht [1, 2] 126 (by rw [hsz]; decide)
  have h2 : min ((rootAt dMem 0).size - 126) ([1, 2] : List UInt8).length = 2 := by
    rw [hsz]; decide
  rw [h2] at hm'
  obtain ⟨-, b', he⟩ := write_effect dMem_setting ht hm'
  have hw : (rootAt dMem 0).addr - dMem.base + 126 = 126 := by decide
  rw [hw] at he
  refine ⟨m', b', hm', he.bm, ?_, ?_⟩
  · rw [he.bits]; decide
  · have := page_end_exact dMem_setting he (by decide)
    have h128 : (0 + 126 + 2) / (ABitmap.new 300 128).page = 1 := by decide
    rw [h128] at this
    rw [this]; decide

/-- a 3-byte write at 126 crosses into page 1: both pages are marked, page 2 is not -/
theorem ex_page_cross :
    ∃ m' b', (rootAt dMem 0).write dMem [1, 2, 3] 126 = .ok (m', 3) ∧ m'.bm = some b' ∧
      b'.bit 0 = true ∧ b'.bit 1 = true ∧ b'.bit 2 = false := by
  have ht : Tracks dMem 0 (.sl (rootAt dMem 0)) := Dirty.root_tracks dMem 0 (by decide)
  have hsz : (rootAt dMem 0).size = 300 := dMem_len
  obtain ⟨m', hm'⟩ := Dirty.write_ok dMem_setting ht [1, 2, 3] 126 (by rw [hsz]; decide)
  have h2 : min ((rootAt dMem 0).size - 126) ([1, 2, 3] : List UInt8).length = 3 := by
    rw [hsz]; decide
  rw [h2] at hm'
  obtain ⟨-, b', he⟩ := write_effect dMem_setting ht hm'
  have hw : (rootAt dMem 0).addr - dMem.base + 126 = 126 := by decide
  rw [hw] at he
  refine ⟨m', b', hm', he.bm, ?_, ?_, ?_⟩
  · rw [he.bits]; decide
  · rw [he.bits]; decide
  · rw [he.bits]; decide

/-- a `PartialBuffer` write: 10 bytes offered at offset 295 of the 300-byte root: 5 are
    stored; the error says so and only the last page is marked -/
theorem ex_partial :
    ∃ b', (rootAt dMem 0).writeSlice dMem (List.replicate 10 7) 295
        = ((((rootAt dMem 0).writeSlice dMem (List.replicate 10 7) 295)).1,
            .err (.partialBuffer 10 5)) ∧
      (((rootAt dMem 0).writeSlice dMem (List.replicate 10 7) 295)).1.bm = some b' ∧
      b'.bit 2 = true ∧ b'.bit 1 = false ∧ b'.bit 0 = false := by
  have ht : Tracks dMem 0 (.sl (rootAt dMem 0)) := Dirty.root_tracks dMem 0 (by decide)
  have hsz : (rootAt dMem 0).size = 300 := dMem_len
  obtain ⟨m', hm'⟩ := Dirty.write_ok dMem_setting ht (List.replicate 10 7) 295
    (by rw [hsz]; decide)
  have h2 : min ((rootAt dMem 0).size - 295) (List.replicate 10 (7 : UInt8)).length = 5 := by
    rw [hsz]; decide
  rw [h2] at hm'
  have hws : (rootAt dMem 0).writeSlice dMem (List.replicate 10 7) 295
      = (m', .err (.partialBuffer 10 5)) := by
    unfold VSlice.writeSlice
    rw [hm']
    rfl
  obtain ⟨-, b', he⟩ := write_effect dMem_setting ht hm'
  have hw : (rootAt dMem 0).addr - dMem.base + 295 = 295 := by decide
  rw [hw] at he
  rw [hws]
  refine ⟨b', rfl, he.bm, ?_, ?_, ?_⟩
  · rw [he.bits]; decide
  · rw [he.bits]; decide
  · rw [he.bits]; decide

end VmMem.C16

#print axioms VmMem.C16.pages_overlap_iff
#print axioms VmMem.C16.newly_dirty_iff
#print axioms VmMem.C16.precise
#print axioms VmMem.C16.untouched_pages_unchanged
#print axioms VmMem.C16.empty_window_marks_nothing
#print axioms VmMem.C16.other_bytes_status
#print axioms VmMem.C16.page_end_exact
#print axioms VmMem.C16.page_start_exact
#print axioms VmMem.C16.precise_step
#print axioms VmMem.C16.marks_confined_to_accessor
#print axioms VmMem.C16.reads_mark_nothing
#print axioms VmMem.C16.readExact_eof_marks_nothing
#print axioms VmMem.C16.write_err_kind
#print axioms VmMem.C16.rejected_marks_nothing
#print axioms VmMem.C16.writeSlice_err_kind
#print axioms VmMem.C16.partial_marks_prefix
#print axioms VmMem.C16.rejected_step_marks_nothing
#print axioms VmMem.C16.read_step_marks_nothing
#print axioms VmMem.C16.precise_write
#print axioms VmMem.C16.precise_store
#print axioms VmMem.C16.rvFail_nonfd
#print axioms VmMem.C16.zero_len_marks_nothing
#print axioms VmMem.C16.ex_page_end
#print axioms VmMem.C16.ex_page_cross
#print axioms VmMem.C16.ex_partial
