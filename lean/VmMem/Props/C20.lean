/-
  VmMem.Props.C20 — endian wrappers (endian.rs): for every width `k` (bytes),
  both hosts and both declared byte orders.
-/
import VmMem.Model.Endian
namespace VmMem
namespace C20
open Endian

/-! ### 1. byte strings -/

theorem leBytes_length (k v : Nat) : (leBytes k v).length = k := by
  induction k generalizing v with
  | zero => rfl
  | succ k ih => simp [leBytes, ih]

theorem beBytes_length (k v : Nat) : (beBytes k v).length = k := by
  simp [beBytes, leBytes_length]

theorem ofLeBytes_lt (bs : List UInt8) : ofLeBytes bs < 256 ^ bs.length := by
  induction bs with
  | nil => simp [ofLeBytes]
  | cons b bs ih =>
    have hb : b.toNat < 256 := b.toNat_lt
    simp only [ofLeBytes, List.length_cons, Nat.pow_succ]
    omega

theorem ofBeBytes_lt (bs : List UInt8) : ofBeBytes bs < 256 ^ bs.length := by
  have := ofLeBytes_lt bs.reverse
  rwa [List.length_reverse] at this

/-- decoding the `k` low bytes yields the value modulo `256^k` -/
theorem ofLeBytes_leBytes_mod (k v : Nat) : ofLeBytes (leBytes k v) = v % 256 ^ k := by
  induction k generalizing v with
  | zero => simp [leBytes, ofLeBytes, Nat.mod_one]
  | succ k ih =>
    simp only [leBytes, ofLeBytes, ih, UInt8.toNat_ofNat']
    have e : 256 ^ (k + 1) = 256 * 256 ^ k := by rw [Nat.pow_succ, Nat.mul_comm]
    rw [e, Nat.mod_mul]
    omega

theorem ofLeBytes_leBytes (k v : Nat) (hv : v < 256 ^ k) : ofLeBytes (leBytes k v) = v := by
  rw [ofLeBytes_leBytes_mod, Nat.mod_eq_of_lt hv]

theorem leBytes_ofLeBytes (bs : List UInt8) : leBytes bs.length (ofLeBytes bs) = bs := by
  induction bs with
  | nil => rfl
  | cons b bs ih =>
    have hb : b.toNat < 256 := b.toNat_lt
    have h1 : (b.toNat + 256 * ofLeBytes bs) % 256 = b.toNat := by omega
    have h2 : (b.toNat + 256 * ofLeBytes bs) / 256 = ofLeBytes bs := by omega
    simp only [List.length_cons, ofLeBytes, leBytes, h1, h2, ih, UInt8.ofNat_toNat]

theorem ofBeBytes_beBytes (k v : Nat) (hv : v < 256 ^ k) : ofBeBytes (beBytes k v) = v := by
  simp only [ofBeBytes, beBytes, List.reverse_reverse]
  exact ofLeBytes_leBytes k v hv

theorem beBytes_ofBeBytes (bs : List UInt8) : beBytes bs.length (ofBeBytes bs) = bs := by
  have := leBytes_ofLeBytes bs.reverse
  rw [List.length_reverse] at this
  simp only [ofBeBytes, beBytes, this, List.reverse_reverse]

/-- `leBytes k` inverts `ofLeBytes` on any `k`-byte string -/
theorem leBytes_ofLeBytes_of_length {k : Nat} {bs : List UInt8} (h : bs.length = k) :
    leBytes k (ofLeBytes bs) = bs := by
  subst h; exact leBytes_ofLeBytes bs

/-! ### 2. swap_bytes -/

theorem swapBytes_lt (k v : Nat) : swapBytes k v < 256 ^ k := by
  have := ofLeBytes_lt (beBytes k v)
  rwa [beBytes_length] at this

/-- the bytes of the swapped value are the reversed bytes -/
theorem leBytes_swapBytes (k v : Nat) : leBytes k (swapBytes k v) = beBytes k v :=
  leBytes_ofLeBytes_of_length (beBytes_length k v)

theorem beBytes_swapBytes (k v : Nat) : beBytes k (swapBytes k v) = leBytes k v := by
  unfold beBytes
  rw [leBytes_swapBytes]
  simp only [beBytes, List.reverse_reverse]

theorem swapBytes_involutive (k v : Nat) (hv : v < 256 ^ k) : swapBytes k (swapBytes k v) = v := by
  show ofLeBytes (beBytes k (swapBytes k v)) = v
  rw [beBytes_swapBytes, ofLeBytes_leBytes k v hv]

/-- swapping the native integer read from a byte string = reading the reversed string -/
theorem swapBytes_ofLeBytes {k : Nat} {bs : List UInt8} (h : bs.length = k) :
    swapBytes k (ofLeBytes bs) = ofBeBytes bs := by
  show ofLeBytes (leBytes k (ofLeBytes bs)).reverse = ofLeBytes bs.reverse
  rw [leBytes_ofLeBytes_of_length h]

theorem swapBytes_ofBeBytes {k : Nat} {bs : List UInt8} (h : bs.length = k) :
    swapBytes k (ofBeBytes bs) = ofLeBytes bs := by
  show ofLeBytes (leBytes k (ofLeBytes bs.reverse)).reverse = ofLeBytes bs
  rw [leBytes_ofLeBytes_of_length (by rw [List.length_reverse]; exact h), List.reverse_reverse]

/-! ### 3–7. wrappers -/

theorem toOrder_lt (h : Host) (o : Order) (k v : Nat) (hv : v < 256 ^ k) :
    toOrder h o k v < 256 ^ k := by
  cases h <;> cases o <;> first | exact hv | exact swapBytes_lt k v

theorem toOrder_involutive (h : Host) (o : Order) (k v : Nat) (hv : v < 256 ^ k) :
    toOrder h o k (toOrder h o k v) = v := by
  cases h <;> cases o <;> first | rfl | exact swapBytes_involutive k v hv

theorem wrap_lt (h : Host) (o : Order) (k v : Nat) (hv : v < 256 ^ k) : wrap h o k v < 256 ^ k :=
  toOrder_lt h o k v hv

theorem round_trip (h : Host) (o : Order) (k v : Nat) (hv : v < 256 ^ k) :
    toNative h o k (wrap h o k v) = v :=
  toOrder_involutive h o k v hv

/-- The in-memory image of the wrapper is the value in the declared byte order on
    either host.  (No bound on `v` is needed: both sides keep the low `k` bytes.) -/
theorem wire_bytes' (h : Host) (o : Order) (k v : Nat) :
    hostBytes h k (wrap h o k v) = wireBytes o k v := by
  cases h <;> cases o
  · rfl
  · exact leBytes_swapBytes k v
  · exact beBytes_swapBytes k v
  · rfl

theorem wire_bytes (h : Host) (o : Order) (k v : Nat) (_hv : v < 256 ^ k) :
    hostBytes h k (wrap h o k v) = wireBytes o k v :=
  wire_bytes' h o k v

theorem eq_native_iff (h : Host) (o : Order) (k v n : Nat) (hv : v < 256 ^ k) (hn : n < 256 ^ k) :
    eqNative h o k (wrap h o k v) n = true ↔ n = v := by
  unfold eqNative wrap
  rw [beq_iff_eq]
  constructor
  · intro e
    have := congrArg (toOrder h o k) e
    rw [toOrder_involutive h o k v hv, toOrder_involutive h o k n hn] at this
    exact this.symm
  · intro e; rw [e]

theorem unwrap_wire (h : Host) (o : Order) (k : Nat) (bs : List UInt8) (hlen : bs.length = k) :
    toNative h o k (ofHostBytes h bs) =
      (match o with | .le => ofLeBytes bs | .be => ofBeBytes bs) := by
  cases h <;> cases o
  · rfl
  · exact swapBytes_ofLeBytes hlen
  · exact swapBytes_ofBeBytes hlen
  · rfl

/-- memory → wrapper → memory is the identity on `k`-byte strings -/
theorem hostBytes_ofHostBytes (h : Host) (bs : List UInt8) :
    hostBytes h bs.length (ofHostBytes h bs) = bs := by
  cases h
  · exact leBytes_ofLeBytes bs
  · exact beBytes_ofBeBytes bs

/-! ### non-vacuity -/

example : leBytes 2 0x1234 = [0x34, 0x12] := by decide
example : beBytes 4 0x12345678 = [0x12, 0x34, 0x56, 0x78] := by decide
example : swapBytes 2 0x1234 = 0x3412 := by decide
example : swapBytes 4 0x12345678 = 0x78563412 := by decide
example : wrap .little .be 2 0x1234 = 0x3412 := by decide
example : wrap .big .be 2 0x1234 = 0x1234 := by decide
example : hostBytes .little 2 (wrap .little .be 2 0x1234) = [0x12, 0x34] := by decide
example : hostBytes .big 2 (wrap .big .le 2 0x1234) = [0x34, 0x12] := by decide
example : hostBytes .little 4 (wrap .little .be 4 0x12345678) = [0x12, 0x34, 0x56, 0x78] := by decide
example : hostBytes .big 4 (wrap .big .le 4 0x12345678) = [0x78, 0x56, 0x34, 0x12] := by decide
example : toNative .little .be 4 (wrap .little .be 4 0x12345678) = 0x12345678 := by decide
example : toNative .big .le 4 (ofHostBytes .big [0x78, 0x56, 0x34, 0x12]) = 0x12345678 := by decide
example : eqNative .little .be 2 (wrap .little .be 2 0x1234) 0x1234 = true := by decide
example : eqNative .little .be 2 (wrap .little .be 2 0x1234) 0x3412 = false := by decide
/-- the bound `v < 256^k` in `round_trip` is needed: wider values are truncated by a swap -/
example : toNative .little .be 2 (wrap .little .be 2 0x123456) ≠ 0x123456 := by decide

#print axioms leBytes_length
#print axioms ofLeBytes_leBytes
#print axioms leBytes_ofLeBytes
#print axioms ofLeBytes_lt
#print axioms swapBytes_involutive
#print axioms swapBytes_lt
#print axioms round_trip
#print axioms wire_bytes
#print axioms wire_bytes'
#print axioms eq_native_iff
#print axioms unwrap_wire
#print axioms wrap_lt
#print axioms hostBytes_ofHostBytes

end C20
end VmMem
