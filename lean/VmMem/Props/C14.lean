/-
  VmMem.Props.C14 — nothing is lost or duplicated under short I/O, EINTR and errors.

  A stream is a `Reader`/`Writer` whose successive calls behave as its `script : List Beh`
  says.  Every theorem below quantifies over ALL scripts (of any length): unbounded
  sequences of short transfers, interruptions and failures.

  Standing hypotheses (see `VmMem.Lemmas.IoLemmas`):
    * `BmInv m` : every tracking bitmap of the container satisfies `C09.Inv`
                  (so dirty marking cannot panic); `m.bm = none` is a special case;
    * `InB m s` : the target slice lies inside the container;
    * `m.base + m.bytes.length < U` : the allocation does not end at the very top of the
      address space (with `≤ U` the `checked_add` in `VolatileSlice::offset` reports
      `Overflow` for the one-past-the-end pointer, see `offset_at_top_overflows`).

  `o := s.addr - m.base` is the offset of the slice in the container,
  `splice l o d = l.take o ++ d ++ l.drop (o + d.length)`.
-/
import VmMem.Lemmas.IoLemmas
namespace VmMem.C14
open VmMem IoLemmas VolatileLemmas

/-! ### 1. one call -/

/-- C14.1.  One `read_volatile` call on a stream that is not a raw descriptor either returns
    `Ok(n)`, `n ≤ min(s.size, available)`, having stored the next `n` available bytes at
    `[o, o+n)` and advanced the reader by `n`; or it returns `Interrupted`/`other` with memory
    and stream data unchanged (only the script advanced).  It never panics. -/
theorem readVolatile_cases (r : Reader) (m : Mem) (s : VSlice) (hk : r.kind ≠ .fd)
    (hbm : BmInv m) (hin : InB m s) :
    (∃ m' n, r.readVolatile m s = (m', r.next.advance n, .ok n) ∧
        n ≤ min s.size r.avail.length ∧
        m'.bytes = splice m.bytes (s.addr - m.base) (r.avail.take n) ∧
        (r.next.advance n).avail = r.avail.drop n ∧
        m'.base = m.base ∧ BmInv m') ∨
    (∃ k, r.readVolatile m s = (m, r.next, .err (.ioError k)) ∧
        (k = IoKind.interrupted ∨ k = IoKind.other) ∧
        r.next.data = r.data ∧ r.next.pos = r.pos ∧ r.next.avail = r.avail) := by
  cases hx : xfer (hd r.script) s.size r.avail.length with
  | some n =>
    obtain ⟨m', h, hb, hbase, hinv⟩ := Reader.readVolatile_ok hbm hin hx
    have := xfer_le hx
    exact .inl ⟨m', n, h, by omega, hb, by rw [Reader.advance_avail]; rfl, hbase, hinv⟩
  | none =>
    have he := (xfer_none_iff _ _ _).1 hx
    refine .inr ⟨errKind (hd r.script), Reader.readVolatile_err m s hk he, ?_, rfl, rfl, rfl⟩
    rcases he with he | he <;> rw [he] <;> simp [errKind]

theorem readVolatile_no_panic (r : Reader) (m : Mem) (s : VSlice) (hk : r.kind ≠ .fd)
    (hbm : BmInv m) (hin : InB m s) : (r.readVolatile m s).2.2 ≠ .panic := by
  rcases readVolatile_cases r m s hk hbm hin with ⟨m', n, h, _⟩ | ⟨k, h, _⟩ <;> rw [h] <;> simp

/-- dual of C14.1: one `write_volatile` call hands the first `n` bytes of the slice to the
    sink (`n ≤ s.size`, and `≤` the room of a bounded sink), or fails leaving the sink unchanged;
    memory is only read (writers return no `Mem`). -/
theorem writeVolatile_cases (w : Writer) (m : Mem) (s : VSlice) (hin : InB m s) :
    (∃ n, w.writeVolatile m s =
          (w.next.accept ((m.bytes.drop (s.addr - m.base)).take n), .ok n) ∧
        n ≤ s.size ∧ (∀ room, w.room = some room → n ≤ room)) ∨
    (∃ k, w.writeVolatile m s = (w.next, .err (.ioError k)) ∧
        (k = IoKind.interrupted ∨ k = IoKind.other)) := by
  cases hx : xfer (hd w.script) s.size (w.cap s.size) with
  | some n =>
    have hle := xfer_le hx
    refine .inl ⟨n, Writer.writeVolatile_ok hin hx, hle.1, ?_⟩
    intro room hr
    have : w.cap s.size ≤ room := by simp only [Writer.cap, hr]; omega
    omega
  | none =>
    have he := (xfer_none_iff _ _ _).1 hx
    refine .inr ⟨errKind (hd w.script), Writer.writeVolatile_err m s he, ?_⟩
    rcases he with he | he <;> rw [he] <;> simp [errKind]

/-! ### 2. `retry_eintr!` -/

/-- C14.2a.  `Interrupted` never escapes `retry_eintr!`: every kind (also raw descriptors),
    every script, every container. -/
theorem eintr_invisible (r : Reader) (m : Mem) (s : VSlice) :
    (r.readRetry m s).2.2 ≠ .err (.ioError IoKind.interrupted) :=
  Reader.readRetry_ne_interrupted r m s

/-- C14.2b.  `retry_eintr!(read_volatile)` on script `σ` = one `read_volatile` on `σ` with its
    leading `eintr` entries deleted: same memory, same result, same data, and the remaining
    script is the corresponding tail. -/
theorem readRetry_drop_eintr (r : Reader) (m : Mem) (s : VSlice) (hk : r.kind ≠ .fd) :
    r.readRetry m s =
      ({ r with script := r.script.dropWhile (· = .eintr) } : Reader).readVolatile m s :=
  Reader.readRetry_drop_eintr r m s hk

theorem readRetry_script (r : Reader) (m : Mem) (s : VSlice) (hk : r.kind ≠ .fd) :
    (r.readRetry m s).2.1.script = (r.script.dropWhile (· = .eintr)).tail := by
  rw [readRetry_drop_eintr r m s hk]
  rcases Reader.readVolatile_shape
      ({ r with script := r.script.dropWhile (· = .eintr) } : Reader) m s with
    ⟨m', n, h⟩ | ⟨m', h, _⟩ | h <;> rw [h] <;> simp

theorem eintr_invisible_write (w : Writer) (m : Mem) (s : VSlice) :
    (w.writeRetry m s).2 ≠ .err (.ioError IoKind.interrupted) :=
  Writer.writeRetry_ne_interrupted w m s

theorem writeRetry_drop_eintr (w : Writer) (m : Mem) (s : VSlice) :
    w.writeRetry m s =
      ({ w with script := w.script.dropWhile (· = .eintr) } : Writer).writeVolatile m s :=
  Writer.writeRetry_drop_eintr w m s

theorem writeRetry_script (w : Writer) (m : Mem) (s : VSlice) :
    (w.writeRetry m s).1.script = (w.script.dropWhile (· = .eintr)).tail := by
  rw [writeRetry_drop_eintr w m s]
  rcases Writer.writeVolatile_shape
      ({ w with script := w.script.dropWhile (· = .eintr) } : Writer) m s with
    ⟨d, n, h⟩ | ⟨h, _⟩ | h <;> rw [h] <;> simp

/-! ### 3. the up-to form `read_volatile_from` -/

/-- the window `[addr, addr + min(s.size - addr, count))` of `s` -/
theorem window_eq (s : VSlice) (addr count : Nat) (ha : addr ≤ s.size) (hU : s.addr + s.size < U) :
    ∃ s2, s.offset addr = .ok
        { addr := s.addr + addr, size := s.size - addr, bmBase := sliceAt s.bmBase addr } ∧
      Res.unwrapRes ((VSlice.mk (s.addr + addr) (s.size - addr) (sliceAt s.bmBase addr)).subslice 0
        (min (s.size - addr) count)) = .ok s2 ∧
      s2.addr = s.addr + addr ∧ s2.size = min (s.size - addr) count := by
  refine ⟨{ addr := s.addr + addr + 0, size := min (s.size - addr) count,
            bmBase := sliceAt (sliceAt s.bmBase addr) 0 }, ?_, ?_, rfl, rfl⟩
  · rw [offset_eq, if_pos (by omega), if_pos ha]
  · rw [subslice_eq, if_pos (by omega), if_pos (by simp only []; omega)]
    rfl

/-- C14.3 (`in_order_no_gap_no_dup`, `upto_returns_moved`, `frame`).
    `read_volatile_from(addr, src, count)` with `addr ≤ s.size`, for every script: some `k ≤
    min(s.size - addr, count)` bytes were consumed from the reader and exactly these, in order,
    are stored at `[o + addr, o + addr + k)` — none dropped, none stored twice; every other
    byte of the container is unchanged; the call returns `Ok(k)`, or `k = 0` and the stream's
    own error.  Never `Interrupted`, never a panic. -/
theorem in_order_no_gap_no_dup (m : Mem) (s : VSlice) (addr : Nat) (r : Reader) (count : Nat)
    (hk : r.kind ≠ .fd) (hbm : BmInv m) (hin : InB m s) (hU : m.base + m.bytes.length < U)
    (ha : addr ≤ s.size) :
    ∃ m' r' res k, s.readVolatileFrom m addr r count = (m', r', res) ∧
      k ≤ min (s.size - addr) count ∧ k ≤ r.avail.length ∧
      r'.avail = r.avail.drop k ∧
      m'.bytes = splice m.bytes (s.addr - m.base + addr) (r.avail.take k) ∧
      (∀ i, i < s.addr - m.base + addr ∨ s.addr - m.base + addr + k ≤ i →
        m'.bytes[i]? = m.bytes[i]?) ∧
      m'.base = m.base ∧ BmInv m' ∧ r'.kind = r.kind ∧
      (res = .ok k ∨ (k = 0 ∧ res = .err (.ioError IoKind.other))) := by
  have hin' := hin
  unfold InB at hin'
  obtain ⟨s2, h1, h2, ha2, hs2⟩ := window_eq s addr count ha (by omega)
  unfold VSlice.readVolatileFrom
  rw [h1]
  simp only [h2]
  have hin2 : InB m s2 := by unfold InB; omega
  have ho : s2.addr - m.base = s.addr - m.base + addr := by omega
  rw [Reader.readRetry_eq_skip r m s2 hk]
  cases hx : xfer (hd r.skipEintr.script) s2.size r.skipEintr.avail.length with
  | some n =>
    obtain ⟨m', hrv, hmv⟩ := Reader.readVolatile_moved hbm hin2 hx
    have hn := xfer_le hx
    rw [ho] at hmv
    exact ⟨m', _, _, n, hrv, by omega, hmv.le, hmv.avail, hmv.bytes,
      hmv.frame (by omega), hmv.base, hmv.bm, hmv.kind, .inl rfl⟩
  | none =>
    have he := (xfer_none_iff _ _ _).1 hx
    have hf : hd r.skipEintr.script = .fail := by
      rcases he with he | he
      · exact absurd he (Reader.skipEintr_hd r)
      · exact he
    rw [Reader.readVolatile_err m s2 (by exact hk) he, hf]
    exact ⟨m, _, _, 0, rfl, Nat.zero_le _, Nat.zero_le _, rfl, by simp [splice_nil],
      fun _ _ => rfl, rfl, hbm, rfl, .inr ⟨rfl, rfl⟩⟩

/-- C14.3 (`upto_returns_moved`): the count returned is the number of bytes moved. -/
theorem upto_returns_moved (m : Mem) (s : VSlice) (addr : Nat) (r : Reader) (count : Nat)
    (hk : r.kind ≠ .fd) (hbm : BmInv m) (hin : InB m s) (hU : m.base + m.bytes.length < U)
    (ha : addr ≤ s.size) (m' : Mem) (r' : Reader) (n : Nat)
    (h : s.readVolatileFrom m addr r count = (m', r', .ok n)) :
    n ≤ min (s.size - addr) count ∧ r'.avail = r.avail.drop n ∧
      m'.bytes = splice m.bytes (s.addr - m.base + addr) (r.avail.take n) ∧
      (m'.bytes.drop (s.addr - m.base + addr)).take n = r.avail.take n := by
  obtain ⟨m2, r2, res, k, h2, hk2, hle, hav, hb, _, _, _, _, hres⟩ :=
    in_order_no_gap_no_dup m s addr r count hk hbm hin hU ha
  rw [h] at h2
  have e1 : m' = m2 := congrArg (·.1) h2
  have e2 : r' = r2 := congrArg (·.2.1) h2
  have e3 : Res.ok n = res := congrArg (·.2.2) h2
  subst e1 e2 e3
  have hkn : k = n := by
    rcases hres with h | ⟨_, h⟩
    · injection h with h; exact h.symm
    · cases h
  subst hkn
  refine ⟨hk2, hav, hb, ?_⟩
  have hl : (r.avail.take k).length = k := List.length_take_of_le hle
  have := splice_read m.bytes (s.addr - m.base + addr) (r.avail.take k)
    (by unfold InB at hin; omega)
  rw [hl] at this
  rw [hb]; exact this

/-- `addr > s.size`: an error value, nothing changed.  (`OutOfBounds` unless the pointer
    addition itself overflows, which `VolatileSlice::offset` checks first.) -/
theorem upto_out_of_bounds (m : Mem) (s : VSlice) (addr : Nat) (r : Reader) (count : Nat)
    (ha : s.size < addr) :
    s.readVolatileFrom m addr r count =
      (m, r, .err (if s.addr + addr < U then .outOfBounds else .overflow)) := by
  unfold VSlice.readVolatileFrom
  rw [offset_eq]
  by_cases h : s.addr + addr < U
  · rw [if_pos h, if_neg (by omega), if_pos h]
  · rw [if_neg h, if_neg h]

/-! ### 4. the exact form `read_exact_volatile_from` (default loop) -/

/-- C14.4 (`exact_ok_iff_full`, `error_ends_and_is_reported`, `readExactLoop_fuel`, `frame`).
    `read_exact_volatile_from(addr, src, count)` on a stream using the default loop, for every
    script: some `k ≤ count` bytes were consumed and exactly these are stored, in order, at
    `[o + addr, o + addr + k)`; everything else is unchanged; the result is `Ok(())` iff
    `k = count`, otherwise `UnexpectedEof` or the stream's own error.  Never `Interrupted`,
    never a panic: the fuel `count + 1` of the model's loop never runs out. -/
theorem exact_spec (m : Mem) (s : VSlice) (addr : Nat) (r : Reader) (count : Nat)
    (hk : r.kind = .scripted) (hbm : BmInv m) (hin : InB m s) (hU : m.base + m.bytes.length < U)
    (hfit : addr + count ≤ s.size) :
    ∃ m' r' res k, s.readExactVolatileFrom m addr r count = (m', r', res) ∧
      k ≤ count ∧ k ≤ r.avail.length ∧
      r'.avail = r.avail.drop k ∧
      m'.bytes = splice m.bytes (s.addr - m.base + addr) (r.avail.take k) ∧
      (∀ i, i < s.addr - m.base + addr ∨ s.addr - m.base + addr + k ≤ i →
        m'.bytes[i]? = m.bytes[i]?) ∧
      m'.base = m.base ∧ BmInv m' ∧ r'.kind = r.kind ∧
      (res = .ok () ↔ k = count) ∧
      (res = .ok () ∨ res = .err (.ioError IoKind.unexpectedEof) ∨
        res = .err (.ioError IoKind.other)) := by
  have hin' := hin
  unfold InB at hin'
  have hkf : r.kind ≠ .fd := by rw [hk]; simp
  unfold VSlice.readExactVolatileFrom
  rw [subslice_eq, if_pos (by omega), if_pos hfit]
  simp only []
  unfold Reader.readExact
  rw [hk]
  simp only []
  rw [offset_eq, if_pos (by simp only []; omega), if_pos (Nat.zero_le _)]
  simp only [Nat.add_zero, Nat.sub_zero]
  obtain ⟨m', r', res, k, h, hkc, hmv, hres⟩ :=
    Reader.readExactLoop_spec (count + 1) r m
      { addr := s.addr + addr, size := count, bmBase := sliceAt (sliceAt s.bmBase addr) 0 }
      hkf hbm (by unfold InB; simp only []; omega) hU (by simp only []; omega)
  simp only [] at hkc hmv hres
  have ho : s.addr + addr - m.base = s.addr - m.base + addr := by omega
  rw [ho] at hmv
  refine ⟨m', r', res, k, h, hkc, hmv.le, hmv.avail, hmv.bytes, hmv.frame (by omega),
    hmv.base, hmv.bm, hmv.kind.trans hk, ?_, ?_⟩
  · rcases hres with ⟨h1, h2⟩ | ⟨h1, h2 | h2⟩
    · exact ⟨fun _ => h2, fun _ => h1⟩
    · rw [h2]; exact ⟨fun h => (by cases h), fun h => (by omega)⟩
    · rw [h2]; exact ⟨fun h => (by cases h), fun h => (by omega)⟩
  · rcases hres with ⟨h1, _⟩ | ⟨_, h2 | h2⟩
    · exact .inl h1
    · exact .inr (.inl h2)
    · exact .inr (.inr h2)

/-- C14.4 `exact_ok_iff_full`: `Ok(())` exactly when all `count` bytes were moved. -/
theorem exact_ok_iff_full (m : Mem) (s : VSlice) (addr : Nat) (r : Reader) (count : Nat)
    (hk : r.kind = .scripted) (hbm : BmInv m) (hin : InB m s) (hU : m.base + m.bytes.length < U)
    (hfit : addr + count ≤ s.size) :
    (s.readExactVolatileFrom m addr r count).2.2 = .ok () ↔
      ((s.readExactVolatileFrom m addr r count).2.1.avail = r.avail.drop count ∧
       count ≤ r.avail.length ∧
       (s.readExactVolatileFrom m addr r count).1.bytes =
         splice m.bytes (s.addr - m.base + addr) (r.avail.take count)) := by
  obtain ⟨m', r', res, k, h, hkc, hle, hav, hb, _, _, _, _, hiff, _⟩ :=
    exact_spec m s addr r count hk hbm hin hU hfit
  rw [h]
  simp only []
  constructor
  · intro hok
    have := hiff.1 hok
    subst this
    exact ⟨hav, hle, hb⟩
  · intro ⟨h1, h2, _⟩
    apply hiff.2
    -- the reader has `count` fewer bytes available, so `k = count`
    have := congrArg List.length h1
    rw [hav] at this
    simp at this
    omega

/-- C14.4 `error_ends_and_is_reported`: a result that is not `Ok` is `UnexpectedEof` (a `zero`
    call or the end of data) or the stream's error (`fail`); in particular it is never
    `Interrupted` and never a panic. -/
theorem error_ends_and_is_reported (m : Mem) (s : VSlice) (addr : Nat) (r : Reader) (count : Nat)
    (hk : r.kind = .scripted) (hbm : BmInv m) (hin : InB m s) (hU : m.base + m.bytes.length < U)
    (hfit : addr + count ≤ s.size) :
    let res := (s.readExactVolatileFrom m addr r count).2.2
    (res = .ok () ∨ res = .err (.ioError IoKind.unexpectedEof) ∨
        res = .err (.ioError IoKind.other)) ∧
      res ≠ .err (.ioError IoKind.interrupted) ∧ res ≠ .panic := by
  obtain ⟨m', r', res, k, h, _, _, _, _, _, _, _, _, _, hres⟩ :=
    exact_spec m s addr r count hk hbm hin hU hfit
  rw [h]
  simp only []
  refine ⟨hres, ?_, ?_⟩ <;>
    rcases hres with h | h | h <;> rw [h] <;>
    simp [IoKind.unexpectedEof, IoKind.other, IoKind.interrupted]

/-- C14.4 `readExactLoop_fuel`: with fuel `p.size + 1` the model's loop never runs out of fuel
    (never returns the `panic` that stands for it), whatever the script. -/
theorem readExactLoop_fuel (r : Reader) (m : Mem) (p : VSlice) (hk : r.kind ≠ .fd)
    (hbm : BmInv m) (hin : InB m p) (hU : m.base + m.bytes.length < U) :
    (r.readExactLoop (p.size + 1) m p).2.2 ≠ .panic := by
  obtain ⟨m', r', res, k, h, _, _, hres⟩ :=
    Reader.readExactLoop_spec (p.size + 1) r m p hk hbm hin hU (Nat.lt_succ_self _)
  rw [h]
  rcases hres with ⟨h, _⟩ | ⟨_, h | h⟩ <;> rw [h] <;> simp

/-- the window does not fit: an error value, nothing changed -/
theorem exact_out_of_bounds (m : Mem) (s : VSlice) (addr : Nat) (r : Reader) (count : Nat)
    (hfit : s.size < addr + count) :
    s.readExactVolatileFrom m addr r count =
      (m, r, .err (if addr + count < U then .outOfBounds else .overflow)) := by
  unfold VSlice.readExactVolatileFrom
  rw [subslice_eq]
  by_cases h : addr + count < U
  · rw [if_pos h, if_neg (by omega), if_pos h]
  · rw [if_neg h, if_neg h]

/-! ### 5. writers -/

/-- C14.5a.  `write_volatile_to(addr, dst, count)` into a harness stream, for every script: the
    sink received exactly `(m.bytes.drop (o + addr)).take k`, appended in order, with
    `k ≤ min(s.size - addr, count)`; the call returns `Ok(k)`, or `k = 0` and the stream's own
    error.  Never `Interrupted`, never a panic.  Memory is only read. -/
theorem writeVolatileTo_spec (m : Mem) (s : VSlice) (addr : Nat) (w : Writer) (count : Nat)
    (hk : w.kind = .scripted) (hin : InB m s) (hU : m.base + m.bytes.length < U)
    (ha : addr ≤ s.size) :
    ∃ w' res k, s.writeVolatileTo m addr w count = (w', res) ∧
      k ≤ min (s.size - addr) count ∧
      w'.buf = w.buf ++ (m.bytes.drop (s.addr - m.base + addr)).take k ∧
      w'.kind = w.kind ∧ w'.pos = w.pos ∧
      (res = .ok k ∨ (k = 0 ∧ res = .err (.ioError IoKind.other))) := by
  have hin' := hin
  unfold InB at hin'
  obtain ⟨s2, h1, h2, ha2, hs2⟩ := window_eq s addr count ha (by omega)
  unfold VSlice.writeVolatileTo
  rw [h1]
  simp only [h2]
  have hin2 : InB m s2 := by unfold InB; omega
  have ho : s2.addr - m.base = s.addr - m.base + addr := by omega
  have hroom : w.skipEintr.next.room = none := by
    rw [Writer.room_none_iff]; exact .inr (.inl hk)
  rw [Writer.writeRetry_drop_eintr]
  cases hx : xfer (hd w.skipEintr.script) s2.size (w.skipEintr.cap s2.size) with
  | some n =>
    have hn := xfer_le hx
    rw [Writer.writeVolatile_ok hin2 hx, Writer.accept_of_room_none hroom, ho]
    exact ⟨_, _, n, rfl, by omega, rfl, rfl, rfl, .inl rfl⟩
  | none =>
    have he := (xfer_none_iff _ _ _).1 hx
    have hf : hd w.skipEintr.script = .fail := by
      rcases he with he | he
      · exact absurd he (Writer.skipEintr_hd w)
      · exact he
    rw [Writer.writeVolatile_err m s2 he, hf]
    exact ⟨_, _, 0, rfl, Nat.zero_le _, by simp, rfl, rfl, .inr ⟨rfl, rfl⟩⟩

/-- C14.5b.  `write_all_volatile_to(addr, dst, count)` into a harness stream (default loop),
    for every script: the sink received exactly `(m.bytes.drop (o + addr)).take k`, appended in
    order, `k ≤ count`; `Ok(())` iff `k = count`; otherwise `WriteZero` (a `zero` call) or the
    stream's error (`fail`).  Never `Interrupted`, never a panic. -/
theorem writeAllVolatileTo_spec (m : Mem) (s : VSlice) (addr : Nat) (w : Writer) (count : Nat)
    (hk : w.kind = .scripted) (hin : InB m s) (hU : m.base + m.bytes.length < U)
    (hfit : addr + count ≤ s.size) :
    ∃ w' res k, s.writeAllVolatileTo m addr w count = (w', res) ∧
      k ≤ count ∧
      w'.buf = w.buf ++ (m.bytes.drop (s.addr - m.base + addr)).take k ∧
      w'.kind = w.kind ∧ w'.pos = w.pos ∧
      (res = .ok () ↔ k = count) ∧
      (res = .ok () ∨ res = .err (.ioError IoKind.writeZero) ∨
        res = .err (.ioError IoKind.other)) := by
  have hin' := hin
  unfold InB at hin'
  unfold VSlice.writeAllVolatileTo
  rw [subslice_eq, if_pos (by omega), if_pos hfit]
  simp only []
  unfold Writer.writeAll
  rw [hk]
  simp only []
  rw [offset_eq, if_pos (by simp only []; omega), if_pos (Nat.zero_le _)]
  simp only [Nat.add_zero, Nat.sub_zero]
  obtain ⟨w', res, k, h, hkc, hs, hres⟩ :=
    Writer.writeAllLoop_spec (count + 1) w m
      { addr := s.addr + addr, size := count, bmBase := sliceAt (sliceAt s.bmBase addr) 0 }
      (by rw [Writer.room_none_iff]; exact .inr (.inl hk))
      (by unfold InB; simp only []; omega) hU (by simp only []; omega)
  simp only [] at hkc hs hres
  have ho : s.addr + addr - m.base = s.addr - m.base + addr := by omega
  rw [ho] at hs
  refine ⟨w', res, k, h, hkc, hs.buf, hs.kind.trans hk, hs.pos, ?_, ?_⟩
  · rcases hres with ⟨h1, h2⟩ | ⟨h1, h2 | h2⟩
    · exact ⟨fun _ => h2, fun _ => h1⟩
    · rw [h2]; exact ⟨fun h => (by cases h), fun h => (by omega)⟩
    · rw [h2]; exact ⟨fun h => (by cases h), fun h => (by omega)⟩
  · rcases hres with ⟨h1, _⟩ | ⟨_, h2 | h2⟩
    · exact .inl h1
    · exact .inr (.inl h2)
    · exact .inr (.inr h2)

/-! ### 6. frame -/

/-- C14.6.  The frame property as a consequence of the `splice` equation alone: if `k` bytes
    were spliced in at `o'`, every byte outside `[o', o' + k)` is unchanged. -/
theorem frame (l l' a : List UInt8) (o' k : Nat) (hk : k ≤ a.length) (ho : o' + k ≤ l.length)
    (h : l' = splice l o' (a.take k)) :
    ∀ i, i < o' ∨ o' + k ≤ i → l'[i]? = l[i]? := by
  intro i hi
  have hl : (a.take k).length = k := List.length_take_of_le hk
  rw [h]
  exact splice_frame _ _ _ (by omega) i (by omega)

/-- and the transferred window holds exactly the consumed bytes, the length is unchanged -/
theorem stored (l l' a : List UInt8) (o' k : Nat) (hk : k ≤ a.length) (ho : o' + k ≤ l.length)
    (h : l' = splice l o' (a.take k)) :
    (l'.drop o').take k = a.take k ∧ l'.length = l.length := by
  have hl : (a.take k).length = k := List.length_take_of_le hk
  have h1 := splice_read l o' (a.take k) (by omega)
  have h2 := splice_length l o' (a.take k) (by omega)
  rw [hl] at h1
  rw [h]; exact ⟨h1, h2⟩

/-! ### model remark: an allocation ending at `2^64` -/

/-- With `m.base + m.bytes.length = U` (excluded by the standing hypothesis, and impossible for
    a real allocation) `VolatileSlice::offset(size)` reports `Overflow` for the one-past-the-end
    pointer, so the exact loop would return an error after having moved everything. -/
theorem offset_at_top_overflows :
    (VSlice.mk (U - 1) 1 0).offset 1 = .err .overflow := by decide

/-! ### non-vacuity: concrete fault scripts -/

def exMem : Mem := { base := 0x1000, bytes := List.replicate 16 0, bm := none }
def exWin : VSlice := { addr := 0x1004, size := 8, bmBase := 4 }
def exReader (σ : List Beh) : Reader :=
  { kind := .scripted, data := [1, 2, 3, 4, 5], pos := 0, script := σ }

theorem exMem_ok : BmInv exMem ∧ InB exMem exWin ∧ exMem.base + exMem.bytes.length < U := by
  refine ⟨BmInv_of_none rfl, by unfold InB; decide, by decide⟩

/-- `[eintr, short 2, eintr, eintr, zero]` on 5 bytes of data into an 8-byte window: two bytes
    stored, three left in the stream, then `UnexpectedEof`; the interruptions are invisible. -/
theorem ex_eintr_short_zero :
    exWin.readExactVolatileFrom exMem 0 (exReader [.eintr, .short 2, .eintr, .eintr, .zero]) 8 =
      ({ exMem with bytes := [0, 0, 0, 0, 1, 2, 0, 0, 0, 0, 0, 0, 0, 0, 0, 0] },
       { kind := .scripted, data := [3, 4, 5], pos := 0, script := [] },
       .err (.ioError IoKind.unexpectedEof)) := by decide +kernel

/-- `[short 1, full]` completes a 5-byte exact read exactly -/
theorem ex_short_full :
    exWin.readExactVolatileFrom exMem 0 (exReader [.short 1, .full]) 5 =
      ({ exMem with bytes := [0, 0, 0, 0, 1, 2, 3, 4, 5, 0, 0, 0, 0, 0, 0, 0] },
       { kind := .scripted, data := [], pos := 0, script := [] },
       .ok ()) := by decide +kernel

/-- a `fail` after a partial transfer: the error is reported, the two bytes stay stored -/
theorem ex_short_fail :
    exWin.readExactVolatileFrom exMem 1 (exReader [.short 2, .eintr, .fail, .full]) 4 =
      ({ exMem with bytes := [0, 0, 0, 0, 0, 1, 2, 0, 0, 0, 0, 0, 0, 0, 0, 0] },
       { kind := .scripted, data := [3, 4, 5], pos := 0, script := [.full] },
       .err (.ioError IoKind.other)) := by decide +kernel

/-- the up-to form under `[eintr, eintr, short 3]` returns `Ok(3)` -/
theorem ex_upto :
    exWin.readVolatileFrom exMem 2 (exReader [.eintr, .eintr, .short 3]) 100 =
      ({ exMem with bytes := [0, 0, 0, 0, 0, 0, 1, 2, 3, 0, 0, 0, 0, 0, 0, 0] },
       { kind := .scripted, data := [4, 5], pos := 0, script := [] },
       .ok 3) := by decide +kernel

def exMemW : Mem := { base := 0x1000, bytes := [10, 11, 12, 13, 14, 15, 16, 17], bm := none }
def exWinW : VSlice := { addr := 0x1002, size := 5, bmBase := 2 }

/-- writer: `[short 2, eintr, short 1, zero]`: three bytes reach the sink in order, then
    `WriteZero` -/
theorem ex_write_all :
    exWinW.writeAllVolatileTo exMemW 0
        { kind := .scripted, buf := [99], pos := 0, script := [.short 2, .eintr, .short 1, .zero] } 5 =
      ({ kind := .scripted, buf := [99, 12, 13, 14], pos := 0, script := [] },
       .err (.ioError IoKind.writeZero)) := by decide +kernel

#print axioms readVolatile_cases
#print axioms readVolatile_no_panic
#print axioms writeVolatile_cases
#print axioms eintr_invisible
#print axioms readRetry_drop_eintr
#print axioms readRetry_script
#print axioms eintr_invisible_write
#print axioms writeRetry_drop_eintr
#print axioms writeRetry_script
#print axioms in_order_no_gap_no_dup
#print axioms upto_returns_moved
#print axioms upto_out_of_bounds
#print axioms exact_spec
#print axioms exact_ok_iff_full
#print axioms error_ends_and_is_reported
#print axioms readExactLoop_fuel
#print axioms exact_out_of_bounds
#print axioms writeVolatileTo_spec
#print axioms writeAllVolatileTo_spec
#print axioms frame
#print axioms stored
#print axioms offset_at_top_overflows
#print axioms ex_eintr_short_zero
#print axioms ex_short_full
#print axioms ex_short_fail
#print axioms ex_upto
#print axioms ex_write_all

end VmMem.C14
