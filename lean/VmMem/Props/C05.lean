/-
  VmMem.Props.C05 — soundness of dirty-page tracking: no tracked write leaves its
  pages clean.

  Setting (`Dirty.Setting m b B0`): a container `m` tracked by the bitmap `b`
  (`m.bm = some b`, `C09.Inv b`), placed at offset `B0` of the tracked area
  (`B0 + m.bytes.length ≤ b.byteSize`; the requested `b.byteSize = B0 + m.bytes.length`
  is the special case `Setting.of_eq`; `B0 + m.bytes.length < 2^64`,
  `m.base + m.bytes.length ≤ 2^64`).  Byte `i` of the container
  lives on page `(B0 + i) / b.page`; `dirty m B0 i` is the bit of that page.

  Layout
    §1  accessors: the bitmap offset tracks the address (`root_tracks`, `derive_tracks`,
        `chain_tracks`)
    §2  `mark_pages`: what a mark through a tracked slice does
    §3  `step_marks_written` (every mutating op, explicit window per op)
    §4  `sound`, per-op corollaries, `marks_monotone`
    §5  histories with resets (`sound_history`)
    §6  a failed descriptor read marks the whole target (`failed_fd_read_marks_all`)
    §7  no-panic / satisfiability of the hypotheses, non-vacuity

  Remarks on phrasing (reported, not silent):
  * `copy_to_volatile_slice(slice, src, total)` (a private `unsafe fn`) is only correct
    for `total ≤ slice.len()`; the theorem about it carries that hypothesis, every
    public caller discharges it.  The model marks `total` bytes even when `src` is
    shorter than `total`; the window used below is therefore `total` (the value the
    function returns), and the bytes stored are a prefix of it.
  * `Tracks` is stated with `% U` exactly as requested; it needs no bound on `B0`
    for the derivation steps, only the root needs `B0 < U`.
-/
import VmMem.Lemmas.DirtyLemmas
namespace VmMem.C05
open VmMem C01 Dirty VolatileLemmas

/-! ## §1 the bitmap offset tracks the address -/

/-- 1. the root slice `{addr := m.base, size := m.bytes.length, bmBase := B0}` tracks -/
theorem root_tracks (m : Mem) (B0 : Nat) (hB : B0 < U) :
    Tracks m B0 (.sl { addr := m.base, size := m.bytes.length, bmBase := B0 }) :=
  Dirty.root_tracks m B0 hB

/-- `Mem.root` is the case `B0 = 0` -/
theorem mem_root_tracks (m : Mem) : Tracks m 0 (.sl m.root) :=
  Dirty.root_tracks m 0 (by decide)

/-- 2. every derivation step (sub, off, splitL, splitR, getRef, getArr, refToSlice,
    arrToSlice, refAt, sliceToArr) preserves the invariant -/
theorem derive_tracks {m : Mem} {B0 : Nat} (a a' : Acc) (op : DOp) (h : Tracks m B0 a)
    (hd : C01.derive a op = .ok a') : Tracks m B0 a' :=
  Dirty.derive_tracks a a' op h hd

theorem chain_tracks {m : Mem} {B0 : Nat} (a a' : Acc) (ops : List DOp) (h : Tracks m B0 a)
    (hd : C01.deriveChain a ops = .ok a') : Tracks m B0 a' :=
  Dirty.chain_tracks a a' ops h hd

/-- every accessor obtained from the root by a chain of any depth tracks -/
theorem root_chain_tracks (m : Mem) (B0 : Nat) (hB : B0 < U) (ops : List DOp) (a : Acc)
    (hd : C01.deriveChain (.sl { addr := m.base, size := m.bytes.length, bmBase := B0 }) ops = .ok a) :
    Tracks m B0 a :=
  Dirty.root_chain_tracks m B0 hB ops a hd

/-! ## §2 a mark through a tracked slice -/

/-- 3. `saturating_add` does not saturate, no page is cut off by `size`: exactly the
    pages of `[B0 + o + off, B0 + o + off + len)` are added, `o = s.addr - m.base` -/
theorem mark_pages {m : Mem} {b : ABitmap} {B0 : Nat} (hs : Setting m b B0) (s : VSlice)
    (ht : Tracks m B0 (.sl s)) (off len : Nat)
    (hfit : (s.addr - m.base) + off + len ≤ m.bytes.length) (m' : Mem)
    (h : m.mark s.bmBase off len = .ok m') :
    m'.bytes = m.bytes ∧ ∃ b', m'.bm = some b' ∧ C09.Inv b' ∧ b'.page = b.page ∧
      b'.byteSize = b.byteSize ∧
      ∀ p, b'.bit p = (b.bit p || decide (0 < len ∧ (B0 + (s.addr - m.base) + off) / b.page ≤ p ∧
        p ≤ (B0 + (s.addr - m.base) + off + len - 1) / b.page)) :=
  Dirty.mark_pages hs ht off len hfit h

/-! ## §3 the workhorse: every mutating operation stores inside a window and marks
       exactly the pages of that window -/

section ops
variable {m : Mem} {b : ABitmap} {B0 : Nat}

/-- unfolded reading of `Effect`: bytes outside the window `[w, w + n)` are unchanged and
    `b'.bit p = (b.bit p || decide (0 < n ∧ (B0+w)/page ≤ p ∧ p ≤ (B0+w+n-1)/page))` -/
theorem effect_unfold {m' : Mem} {b' : ABitmap} {w n : Nat} (he : Effect m b B0 m' b' w n) :
    m'.base = m.base ∧ m'.bytes.length = m.bytes.length ∧
    (∀ i, (i < w ∨ w + n ≤ i) → m'.bytes[i]? = m.bytes[i]?) ∧
    m'.bm = some b' ∧ C09.Inv b' ∧ b'.page = b.page ∧ b'.byteSize = b.byteSize ∧
    ∀ p, b'.bit p = (b.bit p || decide (0 < n ∧ (B0 + w) / b.page ≤ p ∧ p ≤ (B0 + w + n - 1) / b.page)) :=
  ⟨he.base, he.len, he.outside, he.bm, he.inv, he.page, he.byteSize, he.bits⟩

theorem copyToVolatileSlice_marks (hs : Setting m b B0) {s : VSlice} (ht : Tracks m B0 (.sl s))
    {src : List UInt8} {total n : Nat} {m' : Mem} (htot : total ≤ s.size)
    (h : copyToVolatileSlice m s src total = .ok (m', n)) :
    n = total ∧ ∃ b', Effect m b B0 m' b' (s.addr - m.base) total :=
  copyToVolatileSlice_effect hs ht htot h

/-- `s.write(buf, addr)` returning count `n`: window `[o + addr, o + addr + n)` -/
theorem write_marks (hs : Setting m b B0) {s : VSlice} (ht : Tracks m B0 (.sl s))
    {buf : List UInt8} {addr n : Nat} {m' : Mem} (h : s.write m buf addr = .ok (m', n)) :
    n = min (s.size - addr) buf.length ∧
      ∃ b', Effect m b B0 m' b' (s.addr - m.base + addr) n :=
  write_effect hs ht h

/-- `write_slice` including the `PartialBuffer` case: the stored prefix is marked -/
theorem writeSlice_marks (hs : Setting m b B0) {s : VSlice} (ht : Tracks m B0 (.sl s))
    (buf : List UInt8) (addr : Nat) :
    ∃ n b', Effect m b B0 (s.writeSlice m buf addr).1 b' (s.addr - m.base + addr) n ∧
      n ≤ buf.length ∧
      ((s.writeSlice m buf addr).2 = .ok () → n = buf.length) ∧
      (∀ x c, (s.writeSlice m buf addr).2 = .err (.partialBuffer x c) →
        x = buf.length ∧ c = n ∧ n < buf.length) ∧
      (∀ e, (s.writeSlice m buf addr).2 = .err e → (∀ x c, e ≠ .partialBuffer x c) →
        (s.writeSlice m buf addr).1 = m ∧ n = 0) :=
  writeSlice_effect hs ht buf addr

/-- `store`: the mark is made on the parent slice at `addr`: window `o + addr` -/
theorem store_marks (hs : Setting m b B0) {s : VSlice} (ht : Tracks m B0 (.sl s))
    {val : List UInt8} {t : Ty} {addr : Nat} {m' : Mem} (h : s.store m val t addr = .ok m') :
    addr + t.size ≤ s.size ∧ ∃ b', Effect m b B0 m' b' (s.addr - m.base + addr) t.size :=
  store_effect hs ht h

theorem refStore_marks (hs : Setting m b B0) {r : VRef} (ht : Tracks m B0 (.rf r))
    {val : List UInt8} {m' : Mem} (h : r.store m val = .ok m') :
    ∃ b', Effect m b B0 m' b' (r.addr - m.base) r.ty.size :=
  refStore_effect hs ht h

theorem arrStore_marks (hs : Setting m b B0) {a : VArr} (ht : Tracks m B0 (.ar a))
    {i : Nat} {val : List UInt8} {m' : Mem} (h : a.store m i val = .ok m') :
    i < a.nelem ∧ ∃ b', Effect m b B0 m' b' (a.addr - m.base + a.ty.size * i) a.ty.size :=
  arrStore_effect hs ht h

/-- `VolatileArrayRef::copy_from`, both branches: `min(blen, nelem)` elements -/
theorem arrCopyFrom_marks (hs : Setting m b B0) {a : VArr} (ht : Tracks m B0 (.ar a))
    {blen : Nat} {buf : List UInt8} {m' : Mem} (h : a.copyFrom m blen buf = .ok m') :
    ∃ b', Effect m b B0 m' b' (a.addr - m.base) (min blen a.nelem * a.ty.size) :=
  arrCopyFrom_effect hs ht h

theorem sliceCopyFrom_marks (hs : Setting m b B0) {s : VSlice} (ht : Tracks m B0 (.sl s))
    {t : Ty} {blen : Nat} {buf : List UInt8} {m' : Mem} (h : s.copyFrom m t blen buf = .ok m') :
    ∃ b', Effect m b B0 m' b' (s.addr - m.base) (min blen (s.elemCount t blen) * t.size) :=
  sliceCopyFrom_effect hs ht h

/-- slice-to-slice copy: the marks go to the DESTINATION accessor -/
theorem copyToSlice_marks (hs : Setting m b B0) {s dst : VSlice} (ht : Tracks m B0 (.sl dst))
    {m' : Mem} (h : s.copyToSlice m dst = .ok m') :
    ∃ b', Effect m b B0 m' b' (dst.addr - m.base) (min s.size dst.size) :=
  copyToSlice_effect hs ht h

theorem arrCopyToSlice_marks (hs : Setting m b B0) {a : VArr} {dst : VSlice}
    (ht : Tracks m B0 (.sl dst)) {m' : Mem} (h : a.copyToSlice m dst = .ok m') :
    ∃ b', Effect m b B0 m' b' (dst.addr - m.base) (min (a.nelem * a.ty.size) dst.size) :=
  arrCopyToSlice_effect hs ht h

theorem readVolatile_marks (hs : Setting m b B0) {s : VSlice} (ht : Tracks m B0 (.sl s))
    (r : Reader) :
    ∃ n b', Effect m b B0 (r.readVolatile m s).1 b' (s.addr - m.base) n ∧ n ≤ s.size :=
  readVolatile_effect hs ht r

/-- 4. all of the above as one statement over `applyW`: the window starts at
    `winStart m a op` (the accessor's offset in the container plus the operation's
    `addr` / element offset) and lies inside the accessor -/
theorem step_marks_written (hs : Setting m b B0) {a : Acc} (ht : Tracks m B0 a) {op : WOp}
    {m' : Mem} (h : applyW m a op = .ok m') :
    ∃ b' n, Effect m b B0 m' b' (winStart m a op) n ∧
      (n = 0 ∨ winStart m a op + n ≤ a.lo - m.base + a.bytes) :=
  applyW_effect hs ht h

/-! ## §4 soundness -/

/-- 5. C05 headline: after any mutating operation through a tracked accessor, every byte
    of the container that differs between `m` and `m'` is on a page that is dirty in `m'` -/
theorem sound (hs : Setting m b B0) {a : Acc} (ht : Tracks m B0 a) {op : WOp} {m' : Mem}
    (h : applyW m a op = .ok m') :
    ∀ i, m'.bytes[i]? ≠ m.bytes[i]? → dirty m' B0 i = true := by
  obtain ⟨b', n, he, -⟩ := applyW_effect hs ht h
  exact he.sound

/-- … and nothing that was dirty becomes clean -/
theorem marks_monotone (hs : Setting m b B0) {a : Acc} (ht : Tracks m B0 a) {op : WOp} {m' : Mem}
    (h : applyW m a op = .ok m') : ∀ i, dirty m B0 i = true → dirty m' B0 i = true := by
  obtain ⟨b', n, he, -⟩ := applyW_effect hs ht h
  exact he.dirty_mono hs

/-- the setting is re-established, accessors stay tracked -/
theorem step_setting (hs : Setting m b B0) {a : Acc} (ht : Tracks m B0 a) {op : WOp} {m' : Mem}
    (h : applyW m a op = .ok m') :
    ∃ b', Setting m' b' B0 ∧ m'.base = m.base ∧ m'.bytes.length = m.bytes.length ∧
      ∀ a₂, Tracks m B0 a₂ → Tracks m' B0 a₂ := by
  obtain ⟨b', n, he, -⟩ := applyW_effect hs ht h
  exact ⟨b', he.setting hs, he.base, he.len, fun _ h2 => he.tracks h2⟩

/-! the headline for each API function by name -/

theorem sound_write (hs : Setting m b B0) {s : VSlice} (ht : Tracks m B0 (.sl s))
    {buf : List UInt8} {addr n : Nat} {m' : Mem} (h : s.write m buf addr = .ok (m', n)) :
    ∀ i, m'.bytes[i]? ≠ m.bytes[i]? → dirty m' B0 i = true := by
  obtain ⟨-, b', he⟩ := write_effect hs ht h
  exact he.sound

/-- also for a `PartialBuffer` result -/
theorem sound_writeSlice (hs : Setting m b B0) {s : VSlice} (ht : Tracks m B0 (.sl s))
    (buf : List UInt8) (addr : Nat) :
    ∀ i, (s.writeSlice m buf addr).1.bytes[i]? ≠ m.bytes[i]? →
      dirty (s.writeSlice m buf addr).1 B0 i = true := by
  obtain ⟨n, b', he, -⟩ := writeSlice_effect hs ht buf addr
  exact he.sound

theorem sound_writeObj (hs : Setting m b B0) {s : VSlice} (ht : Tracks m B0 (.sl s))
    (val : List UInt8) (addr : Nat) :
    ∀ i, (s.writeObj m val addr).1.bytes[i]? ≠ m.bytes[i]? →
      dirty (s.writeObj m val addr).1 B0 i = true :=
  sound_writeSlice hs ht val addr

theorem sound_store (hs : Setting m b B0) {s : VSlice} (ht : Tracks m B0 (.sl s))
    {val : List UInt8} {t : Ty} {addr : Nat} {m' : Mem} (h : s.store m val t addr = .ok m') :
    ∀ i, m'.bytes[i]? ≠ m.bytes[i]? → dirty m' B0 i = true := by
  obtain ⟨-, b', he⟩ := store_effect hs ht h
  exact he.sound

theorem sound_refStore (hs : Setting m b B0) {r : VRef} (ht : Tracks m B0 (.rf r))
    {val : List UInt8} {m' : Mem} (h : r.store m val = .ok m') :
    ∀ i, m'.bytes[i]? ≠ m.bytes[i]? → dirty m' B0 i = true := by
  obtain ⟨b', he⟩ := refStore_effect hs ht h
  exact he.sound

theorem sound_arrStore (hs : Setting m b B0) {a : VArr} (ht : Tracks m B0 (.ar a))
    {i : Nat} {val : List UInt8} {m' : Mem} (h : a.store m i val = .ok m') :
    ∀ j, m'.bytes[j]? ≠ m.bytes[j]? → dirty m' B0 j = true := by
  obtain ⟨-, b', he⟩ := arrStore_effect hs ht h
  exact he.sound

theorem sound_arrCopyFrom (hs : Setting m b B0) {a : VArr} (ht : Tracks m B0 (.ar a))
    {blen : Nat} {buf : List UInt8} {m' : Mem} (h : a.copyFrom m blen buf = .ok m') :
    ∀ i, m'.bytes[i]? ≠ m.bytes[i]? → dirty m' B0 i = true := by
  obtain ⟨b', he⟩ := arrCopyFrom_effect hs ht h
  exact he.sound

theorem sound_sliceCopyFrom (hs : Setting m b B0) {s : VSlice} (ht : Tracks m B0 (.sl s))
    {t : Ty} {blen : Nat} {buf : List UInt8} {m' : Mem} (h : s.copyFrom m t blen buf = .ok m') :
    ∀ i, m'.bytes[i]? ≠ m.bytes[i]? → dirty m' B0 i = true := by
  obtain ⟨b', he⟩ := sliceCopyFrom_effect hs ht h
  exact he.sound

theorem sound_copyToSlice (hs : Setting m b B0) {s dst : VSlice} (ht : Tracks m B0 (.sl dst))
    {m' : Mem} (h : s.copyToSlice m dst = .ok m') :
    ∀ i, m'.bytes[i]? ≠ m.bytes[i]? → dirty m' B0 i = true := by
  obtain ⟨b', he⟩ := copyToSlice_effect hs ht h
  exact he.sound

theorem sound_arrCopyToSlice (hs : Setting m b B0) {a : VArr} {dst : VSlice}
    (ht : Tracks m B0 (.sl dst)) {m' : Mem} (h : a.copyToSlice m dst = .ok m') :
    ∀ i, m'.bytes[i]? ≠ m.bytes[i]? → dirty m' B0 i = true := by
  obtain ⟨b', he⟩ := arrCopyToSlice_effect hs ht h
  exact he.sound

theorem sound_readVolatile (hs : Setting m b B0) {s : VSlice} (ht : Tracks m B0 (.sl s))
    (r : Reader) :
    ∀ i, (r.readVolatile m s).1.bytes[i]? ≠ m.bytes[i]? →
      dirty (r.readVolatile m s).1 B0 i = true := by
  obtain ⟨n, b', he, -⟩ := readVolatile_effect hs ht r
  exact he.sound

end ops

/-! ## §5 histories: every byte changed since the last reset is dirty -/

/-- one step of a history: a mutating operation through an accessor, a read-type
    operation (no state in its result), or a reset of the bitmap by the VMM -/
inductive Step where
  | write (a : Acc) (op : WOp)
  | read
  | reset                    -- `AtomicBitmap::reset`
  | harvest                  -- `AtomicBitmap::get_and_reset`
  deriving Repr, DecidableEq

/-- state of a history: the container and the ghost snapshot of its bytes at the last reset.
    A rejected operation (`.err`) hands its error to the caller and leaves the state alone. -/
def stepH (st : Mem × List UInt8) : Step → Res (Mem × List UInt8)
  | .write a op =>
    match applyW st.1 a op with
    | .ok m' => .ok (m', st.2)
    | .err _ => .ok st
    | .panic => .panic
  | .read => .ok st
  | .reset => .ok ({ st.1 with bm := st.1.bm.map ABitmap.reset }, st.1.bytes)
  | .harvest => .ok ({ st.1 with bm := st.1.bm.map (fun b => b.getAndReset.1) }, st.1.bytes)

def runH (st : Mem × List UInt8) : List Step → Res (Mem × List UInt8)
  | [] => .ok st
  | x :: xs => stepH st x >>= fun st' => runH st' xs

/-- every byte that differs from the snapshot is on a dirty page -/
def Inv2 (snap : List UInt8) (m : Mem) (B0 : Nat) : Prop :=
  ∀ i, m.bytes[i]? ≠ snap[i]? → dirty m B0 i = true

/-- right after a reset nothing differs -/
theorem Inv2_self (m : Mem) (B0 : Nat) : Inv2 m.bytes m B0 := fun _ h => absurd rfl h

/-- a write step preserves `Inv2` -/
theorem Inv2_write {m m' : Mem} {b b' : ABitmap} {B0 w n : Nat} {snap : List UInt8}
    (hs : Setting m b B0) (he : Effect m b B0 m' b' w n) (hi : Inv2 snap m B0) :
    Inv2 snap m' B0 := by
  intro i hne
  by_cases hc : m'.bytes[i]? = m.bytes[i]?
  · exact he.dirty_mono hs i (hi i (by rw [← hc]; exact hne))
  · exact he.sound i hc

theorem stepH_preserves {m m' : Mem} {b : ABitmap} {B0 : Nat} {snap snap' : List UInt8}
    (hs : Setting m b B0) (hi : Inv2 snap m B0) (x : Step)
    (htr : ∀ a op, x = .write a op → Tracks m B0 a)
    (h : stepH (m, snap) x = .ok (m', snap')) :
    (∃ b', Setting m' b' B0) ∧ Inv2 snap' m' B0 ∧ m'.base = m.base ∧
      m'.bytes.length = m.bytes.length := by
  cases x with
  | write a op =>
    simp only [stepH] at h
    cases ha : applyW m a op with
    | ok m2 =>
      rw [ha] at h
      simp only [Res.ok.injEq, Prod.mk.injEq] at h
      obtain ⟨rfl, rfl⟩ := h
      obtain ⟨b', n, he, -⟩ := applyW_effect hs (htr a op rfl) ha
      exact ⟨⟨b', he.setting hs⟩, Inv2_write hs he hi, he.base, he.len⟩
    | err e =>
      rw [ha] at h
      simp only [Res.ok.injEq, Prod.mk.injEq] at h
      obtain ⟨rfl, rfl⟩ := h
      exact ⟨⟨b, hs⟩, hi, rfl, rfl⟩
    | panic => rw [ha] at h; cases h
  | read =>
    simp only [stepH, Res.ok.injEq, Prod.mk.injEq] at h
    obtain ⟨rfl, rfl⟩ := h
    exact ⟨⟨b, hs⟩, hi, rfl, rfl⟩
  | reset =>
    simp only [stepH, Res.ok.injEq, Prod.mk.injEq] at h
    obtain ⟨rfl, rfl⟩ := h
    obtain ⟨r1, -, r3, -, -⟩ := C09.reset_spec b hs.inv
    refine ⟨⟨b.reset, ⟨by simp [hs.bm], r1, by rw [r3]; exact hs.size, hs.fitU, hs.baseU⟩⟩, ?_, rfl, rfl⟩
    exact fun _ hne => absurd rfl hne
  | harvest =>
    simp only [stepH, Res.ok.injEq, Prod.mk.injEq] at h
    obtain ⟨rfl, rfl⟩ := h
    obtain ⟨r1, -, r3, -, -⟩ := C09.getAndReset_spec b hs.inv
    refine ⟨⟨b.getAndReset.1, ⟨by simp [hs.bm], r1, by rw [r3]; exact hs.size, hs.fitU, hs.baseU⟩⟩, ?_, rfl, rfl⟩
    exact fun _ hne => absurd rfl hne

/-- 5b. for any list of steps — mutating operations through tracked accessors, reads,
    and resets of the bitmap (`reset` / `get_and_reset`) in any interleaving — every byte
    changed since the last reset is dirty at the end (`snap'` is the ghost snapshot the
    history computes: the bytes at the last reset, or the initial `snap`). -/
theorem sound_history {m : Mem} {b : ABitmap} {B0 : Nat} (hs : Setting m b B0)
    (snap : List UInt8) (hi : Inv2 snap m B0) (steps : List Step)
    (htr : ∀ a op, Step.write a op ∈ steps → Tracks m B0 a)
    {m' : Mem} {snap' : List UInt8} (h : runH (m, snap) steps = .ok (m', snap')) :
    (∃ b', Setting m' b' B0) ∧ ∀ i, m'.bytes[i]? ≠ snap'[i]? → dirty m' B0 i = true := by
  induction steps generalizing m b snap with
  | nil =>
    simp only [runH, Res.ok.injEq, Prod.mk.injEq] at h
    obtain ⟨rfl, rfl⟩ := h
    exact ⟨⟨b, hs⟩, hi⟩
  | cons x xs ih =>
    simp only [runH] at h
    obtain ⟨⟨m1, snap1⟩, h1, h2⟩ := (Res.bind_eq_ok _ _ _).1 h
    obtain ⟨⟨b1, hs1⟩, hi1, hb1, hl1⟩ := stepH_preserves hs hi x
      (fun a op hx => htr a op (by rw [hx]; exact List.mem_cons_self)) h1
    exact ih hs1 snap1 hi1
      (fun a op hmem => (htr a op (List.mem_cons_of_mem _ hmem)).congr hb1 hl1) h2

/-- the ghost snapshot after a history that ends with a reset-free suffix: the resets
    really do set it (so `sound_history` is about "since the LAST reset") -/
theorem runH_reset_snap (m : Mem) (snap : List UInt8) :
    stepH (m, snap) .reset = .ok ({ m with bm := m.bm.map ABitmap.reset }, m.bytes) ∧
    stepH (m, snap) .harvest = .ok ({ m with bm := m.bm.map (fun b => b.getAndReset.1) }, m.bytes) :=
  ⟨rfl, rfl⟩

/-- non-reset steps never move the snapshot -/
theorem stepH_snap_fixed (st st' : Mem × List UInt8) (x : Step) (hx : x ≠ .reset ∧ x ≠ .harvest)
    (h : stepH st x = .ok st') : st'.2 = st.2 := by
  cases x with
  | write a op =>
    simp only [stepH] at h
    split at h
    · cases h; rfl
    · cases h; rfl
    · cases h
  | read => cases h; rfl
  | reset => exact absurd rfl hx.1
  | harvest => exact absurd rfl hx.2

/-- and a reset really cleans: directly after it no byte is dirty -/
theorem reset_cleans {m : Mem} {b : ABitmap} {B0 : Nat} (hs : Setting m b B0) (i : Nat) :
    dirty { m with bm := m.bm.map ABitmap.reset } B0 i = false ∧
    dirty { m with bm := m.bm.map (fun b => b.getAndReset.1) } B0 i = false := by
  obtain ⟨-, -, -, -, r5⟩ := C09.reset_spec b hs.inv
  obtain ⟨-, -, -, -, g5, -⟩ := C09.getAndReset_spec b hs.inv
  simp only [dirty, hs.bm, Option.map_some]
  exact ⟨r5 _, g5 _⟩

/-! ## §6 a failed descriptor read marks the whole target slice -/

/-- 6. `read_volatile_raw_fd` failing (`Err(other)` or `EINTR`): the bytes are unchanged,
    the error is handed on, and every page overlapping `[o, o + s.size)` is dirty -/
theorem failed_fd_read_marks_all {m : Mem} {b : ABitmap} {B0 : Nat} (hs : Setting m b B0)
    {s : VSlice} (ht : Tracks m B0 (.sl s)) (r : Reader) (hk : r.kind = .fd)
    (beh : Beh) (rest : List Beh) (hsc : r.script = beh :: rest)
    (hb : beh = .fail ∨ beh = .eintr) :
    ∃ m' b',
      r.readVolatile m s = (m', { r with script := rest },
        .err (ioErr (if beh = .fail then IoKind.other else IoKind.interrupted))) ∧
      m'.bytes = m.bytes ∧ Effect m b B0 m' b' (s.addr - m.base) s.size ∧
      (∀ i, s.addr - m.base ≤ i → i < s.addr - m.base + s.size → dirty m' B0 i = true) ∧
      (∀ x, B0 + (s.addr - m.base) ≤ x → x < B0 + (s.addr - m.base) + s.size →
        b'.bit (x / b.page) = true) := by
  obtain ⟨m', hm⟩ := mark_ok hs s.bmBase 0 s.size
  obtain ⟨t1, t2, t3⟩ := id ht
  simp only [Acc.lo, Acc.hi, Acc.bytes] at t2 t3
  have hw := tracks_wrap hs ht 0 (by simp only [Acc.lo]; omega)
  simp only [Acc.lo, Acc.bmBase, Nat.add_zero] at hw
  obtain ⟨hbytes, b', he⟩ := mark_Effect hs hw (by omega) hm
  have hpages : ∀ x, B0 + (s.addr - m.base) ≤ x → x < B0 + (s.addr - m.base) + s.size →
      b'.bit (x / b.page) = true := by
    intro x h1 h2
    rw [he.bits]
    have h3 : (B0 + (s.addr - m.base)) / b.page ≤ x / b.page := Nat.div_le_div_right h1
    have h4 : x / b.page ≤ (B0 + (s.addr - m.base) + s.size - 1) / b.page :=
      Nat.div_le_div_right (by omega)
    have h5 : 0 < s.size := by omega
    simp [markedBits, h3, h4, h5]
  refine ⟨m', b', readVolatile_fd_fail r m s hk beh rest hsc hb m' hm, hbytes, he, ?_, hpages⟩
  intro i h1 h2
  rw [dirty_of_bm he.bm, he.page]
  exact hpages (B0 + i) (by omega) (by omega)

/-! ## §7 the `= .ok` hypotheses are satisfiable; non-vacuity -/

/-- a write at an offset inside a tracked slice succeeds and stores `min(size - addr, len)` bytes -/
theorem write_ok {m : Mem} {b : ABitmap} {B0 : Nat} (hs : Setting m b B0) {s : VSlice}
    (ht : Tracks m B0 (.sl s)) (buf : List UInt8) (addr : Nat) (h : addr < s.size) :
    ∃ m', s.write m buf addr = .ok (m', min (s.size - addr) buf.length) :=
  Dirty.write_ok hs ht buf addr h

theorem write_no_panic {m : Mem} {b : ABitmap} {B0 : Nat} (hs : Setting m b B0) {s : VSlice}
    (ht : Tracks m B0 (.sl s)) (buf : List UInt8) (addr : Nat) : s.write m buf addr ≠ .panic :=
  Dirty.write_no_panic hs ht buf addr

/-- 300-byte container, 128-byte pages, `B0 = 0`; the slice reached by the depth-3 chain
    `sub 5 290`, `off 130`, `sub 7 10` starts at container byte 142 with `bmBase = 142` -/
example : deriveChain (.sl (rootAt dMem 0)) [.sub 5 290, .off 130, .sub 7 10]
    = .ok (.sl { addr := 0x1000 + 142, size := 10, bmBase := 142 }) := dSlice_chain

/-- a 2-byte write through it succeeds, marks page 1 and not page 0 (nor page 2) -/
theorem ex_two_byte_write :
    ∃ m' b', dSlice.write dMem [1, 2] 0 = .ok (m', 2) ∧ m'.bm = some b' ∧
      b'.bit 1 = true ∧ b'.bit 0 = false ∧ b'.bit 2 = false ∧
      dirty m' 0 142 = true ∧ dirty m' 0 143 = true ∧ dirty m' 0 127 = false := by
  obtain ⟨m', hm'⟩ := Dirty.write_ok dMem_setting dSlice_tracks [1, 2] 0 (by decide)
  have h2 : min (dSlice.size - 0) ([1, 2] : List UInt8).length = 2 := by decide
  rw [h2] at hm'
  obtain ⟨-, b', he⟩ := write_effect dMem_setting dSlice_tracks hm'
  have hw : dSlice.addr - dMem.base + 0 = 142 := by decide
  rw [hw] at he
  refine ⟨m', b', hm', he.bm, ?_, ?_, ?_, ?_, ?_, ?_⟩
  · rw [he.bits]; decide
  · rw [he.bits]; decide
  · rw [he.bits]; decide
  · rw [dirty_of_bm he.bm, he.page, he.bits]; decide
  · rw [dirty_of_bm he.bm, he.page, he.bits]; decide
  · rw [dirty_of_bm he.bm, he.page, he.bits]; decide

/-- had the chain dropped a base offset (say `bmBase = 12` instead of `142`) the accessor
    would not be `Tracks`: the invariant is not vacuous -/
example : ¬ Tracks dMem 0 (.sl { addr := 0x1000 + 142, size := 10, bmBase := 12 }) := by
  intro h
  have := h.1
  revert this
  decide

end VmMem.C05

#print axioms VmMem.C05.root_tracks
#print axioms VmMem.C05.mem_root_tracks
#print axioms VmMem.C05.derive_tracks
#print axioms VmMem.C05.chain_tracks
#print axioms VmMem.C05.root_chain_tracks
#print axioms VmMem.C05.mark_pages
#print axioms VmMem.C05.effect_unfold
#print axioms VmMem.C05.copyToVolatileSlice_marks
#print axioms VmMem.C05.write_marks
#print axioms VmMem.C05.writeSlice_marks
#print axioms VmMem.C05.store_marks
#print axioms VmMem.C05.refStore_marks
#print axioms VmMem.C05.arrStore_marks
#print axioms VmMem.C05.arrCopyFrom_marks
#print axioms VmMem.C05.sliceCopyFrom_marks
#print axioms VmMem.C05.copyToSlice_marks
#print axioms VmMem.C05.arrCopyToSlice_marks
#print axioms VmMem.C05.readVolatile_marks
#print axioms VmMem.C05.step_marks_written
#print axioms VmMem.C05.sound
#print axioms VmMem.C05.marks_monotone
#print axioms VmMem.C05.step_setting
#print axioms VmMem.C05.sound_write
#print axioms VmMem.C05.sound_writeSlice
#print axioms VmMem.C05.sound_writeObj
#print axioms VmMem.C05.sound_store
#print axioms VmMem.C05.sound_refStore
#print axioms VmMem.C05.sound_arrStore
#print axioms VmMem.C05.sound_arrCopyFrom
#print axioms VmMem.C05.sound_sliceCopyFrom
#print axioms VmMem.C05.sound_copyToSlice
#print axioms VmMem.C05.sound_arrCopyToSlice
#print axioms VmMem.C05.sound_readVolatile
#print axioms VmMem.C05.Inv2_self
#print axioms VmMem.C05.Inv2_write
#print axioms VmMem.C05.stepH_preserves
#print axioms VmMem.C05.sound_history
#print axioms VmMem.C05.runH_reset_snap
#print axioms VmMem.C05.stepH_snap_fixed
#print axioms VmMem.C05.reset_cleans
#print axioms VmMem.C05.failed_fd_read_marks_all
#print axioms VmMem.C05.write_ok
#print axioms VmMem.C05.write_no_panic
#print axioms VmMem.C05.ex_two_byte_write
