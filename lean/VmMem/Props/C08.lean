/-
  VmMem.Props.C08 — concurrency: no dirty mark is lost.

  A concurrent execution of any number of threads running any `AtomicBitmap`
  operations is (because every access is a SeqCst RMW / acquire load on a single
  word) *some list of `AStep`s* applied in order.  All theorems below quantify
  over ALL step lists `σ`; in particular over every interleaving of every set of
  operation programs (`rangeProgram`, `bitProgram`, `harvestProgram`,
  `cloneProgram`), which are shown to be store-free in §7.
-/
import VmMem.Lemmas.BitmapLemmas
namespace VmMem.C08
open VmMem AStep ABitmap

/-! ### 5. steps never change the number of words -/

theorem steps_preserve_length (s : Words) (σ : List AStep) :
    (runAll s σ).1.length = s.length := runAll_length s σ

theorem rets_length (s : Words) (σ : List AStep) : (runAll s σ).2.length = σ.length :=
  runAll_rets_length s σ

/-! ### 1. no lost mark -/

/-- Once bit `bit` of word `w` is set, for EVERY continuation `σ` without plain
    stores: either no step of `σ` clears it and it is still set at the end, or the
    FIRST step that clears it (a harvest `fetchAnd w 0`, or a range/bit reset)
    returned a word with the bit set, i.e. observed the mark.
    (`hw`, `hbit` are not needed by the proof; they are kept to document the
    intended domain.) -/
theorem no_lost_mark (s : Words) (w bit : Nat) (_hw : w < s.length) (_hbit : bit < 64)
    (hset : (s.getD w 0).getLsbD bit = true)
    (σ : List AStep) (hns : ∀ a ∈ σ, a.isStore = false) :
    match σ.findIdx? (AStep.clears w bit) with
    | none => ((runAll s σ).1.getD w 0).getLsbD bit = true
    | some j => ((runAll s σ).2.getD j 0).getLsbD bit = true := by
  clear _hw _hbit
  induction σ generalizing s with
  | nil => simpa [runAll_nil] using hset
  | cons a rest ih =>
    rw [List.findIdx?_cons, runAll_cons]
    by_cases hc : AStep.clears w bit a = true
    · simp only [hc, if_true]
      have := run_ret_of_reads s w a (reads_of_clears w bit a hc)
      simpa [this] using hset
    · have hc' : AStep.clears w bit a = false := by simpa using hc
      simp only [hc', Bool.false_eq_true, if_false]
      have hns_a : a.isStore = false := hns a (by simp)
      have hns_r : ∀ x ∈ rest, x.isStore = false := fun x hx => hns x (by simp [hx])
      have hset' := run_keeps_set s w bit a hset hns_a hc'
      have := ih (a.run s).1 hset' hns_r
      cases hf : List.findIdx? (AStep.clears w bit) rest with
      | none => simpa [hf] using this
      | some j => simpa [hf] using this

/-- The same statement without the (unused) range hypotheses. -/
theorem no_lost_mark' (s : Words) (w bit : Nat)
    (hset : (s.getD w 0).getLsbD bit = true)
    (σ : List AStep) (hns : ∀ a ∈ σ, a.isStore = false) :
    match σ.findIdx? (AStep.clears w bit) with
    | none => ((runAll s σ).1.getD w 0).getLsbD bit = true
    | some j => ((runAll s σ).2.getD j 0).getLsbD bit = true := by
  by_cases hw : w < s.length
  · by_cases hbit : bit < 64
    · exact no_lost_mark s w bit hw hbit hset σ hns
    · have : (s.getD w 0).getLsbD bit = false := BitVec.getLsbD_of_ge _ _ (by omega)
      rw [this] at hset
      cases hset
  · rw [getD_of_length_le s w (by omega)] at hset
    simp at hset

/-! ### 2. the mark made by a particular `fetch_or` inside a trace -/

/-- For a trace `pre ++ [fetchOr w m] ++ σ` (arbitrary prefix, even with stores;
    store-free suffix): the bit set by that `fetch_or` is either still set at the
    end of the whole trace, or the first clearing step of `σ` — which is step
    number `pre.length + 1 + j` of the whole trace — returned it. -/
theorem mark_then (s : Words) (w bit : Nat) (hw : w < s.length) (hbit : bit < 64)
    (pre σ : List AStep) (m : BitVec 64) (hm : m.getLsbD bit = true)
    (hns : ∀ a ∈ σ, a.isStore = false) :
    match σ.findIdx? (AStep.clears w bit) with
    | none => ((runAll s (pre ++ [.fetchOr w m] ++ σ)).1.getD w 0).getLsbD bit = true
    | some j =>
      ((runAll s (pre ++ [.fetchOr w m] ++ σ)).2.getD (pre.length + 1 + j) 0).getLsbD bit
        = true := by
  let s1 := (runAll s (pre ++ [.fetchOr w m])).1
  have hlen : s1.length = s.length := runAll_length _ _
  have hs1 : (s1.getD w 0).getLsbD bit = true := by
    have hpl : w < (runAll s pre).1.length := by rw [runAll_length]; exact hw
    simp only [s1, runAll_append, runAll_singleton, AStep.run, getD_set_words]
    simp [hpl, hm]
  have key := no_lost_mark s1 w bit (by omega) hbit hs1 σ hns
  have hrl : (runAll s (pre ++ [.fetchOr w m])).2.length = pre.length + 1 := by
    rw [runAll_rets_length]; simp
  have happ := runAll_append s (pre ++ [.fetchOr w m]) σ
  rw [happ]
  cases hf : List.findIdx? (AStep.clears w bit) σ with
  | none => simpa [hf] using key
  | some j =>
    simp only [hf] at key
    simp only [List.getD_eq_getElem?_getD] at key ⊢
    rw [List.getElem?_append_right (by omega)]
    rw [hrl]
    have : pre.length + 1 + j - (pre.length + 1) = j := by omega
    rw [this]
    exact key

/-- page-level reading of `mark_then`: the step that `set_bit(p)` / `set_addr_range`
    issues for page `p` is `bitStep p true = fetchOr (p / 64) (bitMask p)`; its mark
    on page `p` is never lost by any store-free continuation. -/
theorem page_mark_then (s : Words) (p : Nat) (hw : p / 64 < s.length)
    (pre σ : List AStep) (hns : ∀ a ∈ σ, a.isStore = false) :
    match σ.findIdx? (AStep.clears (p / 64) (p % 64)) with
    | none => testBit (runAll s (pre ++ [bitStep p true] ++ σ)).1 p = true
    | some j =>
      ((runAll s (pre ++ [bitStep p true] ++ σ)).2.getD (pre.length + 1 + j) 0).getLsbD (p % 64)
        = true := by
  have hm : (bitMask p).getLsbD (p % 64) = true := by rw [bitMask_getLsbD]; simp
  exact mark_then s (p / 64) (p % 64) hw (Nat.mod_lt _ (by decide)) pre σ (bitMask p) hm hns

/-- the steps that can clear page `p`: the harvest step on its word … -/
theorem harvest_step_clears (w bit : Nat) : AStep.clears w bit (.fetchAnd w 0) = true := by
  simp [AStep.clears]

/-- … and `reset_bit(p)` / the `reset_addr_range` step for page `p` -/
theorem resetStep_clears (p : Nat) : AStep.clears (p / 64) (p % 64) (bitStep p false) = true := by
  simp [bitStep, AStep.clears, bitMask_getLsbD, Nat.mod_lt]

theorem markStep_sets (p : Nat) : AStep.sets (p / 64) (p % 64) (bitStep p true) = true := by
  simp [bitStep, AStep.sets, bitMask_getLsbD]

/-! ### 3. no phantom marks -/

/-- A read (`fetchOr`/`fetchAnd`/`load` on word `w`, in particular a harvest) only
    reports a bit that some EARLIER step set, if the bit was clear initially. -/
theorem no_phantom (s : Words) (σ : List AStep) (hns : ∀ a ∈ σ, a.isStore = false)
    (w bit : Nat) (hclean : (s.getD w 0).getLsbD bit = false)
    (j : Nat) (hj : j < σ.length)
    (hret : ((runAll s σ).2.getD j 0).getLsbD bit = true)
    (hw : (σ[j]).reads w = true) :
    ∃ i, ∃ (hi : i < j), AStep.sets w bit (σ[i]'(by omega)) = true := by
  induction σ generalizing s j with
  | nil => simp at hj
  | cons a rest ih =>
    have hns_a : a.isStore = false := hns a (by simp)
    have hns_r : ∀ x ∈ rest, x.isStore = false := fun x hx => hns x (by simp [hx])
    rw [runAll_cons] at hret
    cases j with
    | zero =>
      simp only [List.getElem_cons_zero] at hw
      simp only [List.getD_cons_zero] at hret
      rw [run_ret_of_reads s w a hw, hclean] at hret
      cases hret
    | succ j =>
      by_cases hsa : AStep.sets w bit a = true
      · exact ⟨0, by omega, by simpa using hsa⟩
      · have hsa' : AStep.sets w bit a = false := by simpa using hsa
        have hclean' := run_keeps_clear s w bit a hclean hns_a hsa'
        have hj' : j < rest.length := by simpa using hj
        have hret' : ((runAll (a.run s).1 rest).2.getD j 0).getLsbD bit = true := by
          simpa using hret
        have hw' : (rest[j]).reads w = true := by simpa using hw
        obtain ⟨i, hi, hs⟩ := ih (a.run s).1 hns_r hclean' j hj' hret' hw'
        exact ⟨i + 1, by omega, by simpa using hs⟩

/-- End-state version: a bit that is clear initially and set at the end was set by
    some step. -/
theorem no_phantom_final (s : Words) (σ : List AStep) (hns : ∀ a ∈ σ, a.isStore = false)
    (w bit : Nat) (hclean : (s.getD w 0).getLsbD bit = false)
    (hend : ((runAll s σ).1.getD w 0).getLsbD bit = true) :
    ∃ a ∈ σ, AStep.sets w bit a = true := by
  induction σ generalizing s with
  | nil =>
    rw [runAll_nil, hclean] at hend
    cases hend
  | cons a rest ih =>
    have hns_a : a.isStore = false := hns a (by simp)
    have hns_r : ∀ x ∈ rest, x.isStore = false := fun x hx => hns x (by simp [hx])
    by_cases hsa : AStep.sets w bit a = true
    · exact ⟨a, by simp, hsa⟩
    · have hsa' : AStep.sets w bit a = false := by simpa using hsa
      have hclean' := run_keeps_clear s w bit a hclean hns_a hsa'
      rw [runAll_cons] at hend
      obtain ⟨x, hx, hs⟩ := ih (a.run s).1 hns_r hclean' hend
      exact ⟨x, by simp [hx], hs⟩

/-! ### 4. marks commute -/

theorem marks_commute (s : Words) (w : Nat) (m1 m2 : BitVec 64) :
    (runAll s [.fetchOr w m1, .fetchOr w m2]).1 = (runAll s [.fetchOr w m2, .fetchOr w m1]).1 := by
  apply words_ext
  · simp [runAll_length]
  · intro j
    simp only [runAll_cons, runAll_nil, AStep.run, getD_set_words, List.length_set]
    by_cases h : w = j ∧ w < s.length
    · obtain ⟨rfl, hl⟩ := h
      simp only [hl, and_self, if_true]
      rw [BitVec.or_assoc, BitVec.or_comm m1 m2, ← BitVec.or_assoc]
    · simp only [h, if_false]

theorem marks_both_set (s : Words) (w : Nat) (m1 m2 : BitVec 64) (hw : w < s.length) :
    (runAll s [.fetchOr w m1, .fetchOr w m2]).1.getD w 0 = s.getD w 0 ||| m1 ||| m2 := by
  simp only [runAll_cons, runAll_nil, AStep.run, getD_set_words, List.length_set, hw, and_self,
    if_true]

theorem marks_both_set_bits (s : Words) (w : Nat) (m1 m2 : BitVec 64) (hw : w < s.length)
    (bit : Nat) (h : m1.getLsbD bit = true ∨ m2.getLsbD bit = true) :
    ((runAll s [.fetchOr w m1, .fetchOr w m2]).1.getD w 0).getLsbD bit = true := by
  rw [marks_both_set s w m1 m2 hw]
  simp only [BitVec.getLsbD_or]
  rcases h with h | h <;> simp [h]

/-! ### 6. sensitivity: a non-atomic `set_bit` (or any plain store) loses marks

  Suppose thread A's `set_bit(1)` were `old = load; store (old ||| mask)` instead of
  `fetch_or`.  Interleaving: A loads (0), thread B marks bit 0 with a real
  `fetch_or`, A stores `0 ||| 2`, then a harvest `fetch_and(0)`.  B's mark is
  neither in the harvest result nor set at the end: it is lost.  The three steps
  around B's mark are `load; store; harvest`; the suffix after the mark contains a
  plain store, so `hns` of `no_lost_mark` fails — exactly why `reset()` (plain
  stores) is documented as not being a harvest. -/

def lostTrace : List AStep :=
  [.load 0, .fetchOr 0 1#64, .store 0 (0#64 ||| 2#64), .fetchAnd 0 0#64]

/-- the harvest (step 3) does not report bit 0 … -/
example : ((runAll [0#64] lostTrace).2.getD 3 0).getLsbD 0 = false := by decide
/-- … and it is not set at the end either … -/
example : ((runAll [0#64] lostTrace).1.getD 0 0).getLsbD 0 = false := by decide
/-- … although it was set right after B's `fetch_or` … -/
example : ((runAll [0#64] (lostTrace.take 2)).1.getD 0 0).getLsbD 0 = true := by decide
/-- … and the harvest IS the first step after the mark that clears the bit in the
    sense of `AStep.clears`; the conclusion of `no_lost_mark` is false here. -/
example : (lostTrace.drop 2).findIdx? (AStep.clears 0 0) = some 1 := by decide
example : ((runAll (runAll [0#64] (lostTrace.take 2)).1 (lostTrace.drop 2)).2.getD 1 0).getLsbD 0
    = false := by decide
/-- the only hypothesis of `no_lost_mark` that fails is store-freedom -/
example : ¬ ∀ a ∈ lostTrace.drop 2, a.isStore = false := by decide

/-- and with the real atomic `set_bit` (`fetch_or`) in A's place the harvest sees
    both marks (non-vacuity of the positive statement). -/
example : (runAll [0#64] [.fetchOr 0 1#64, .fetchOr 0 2#64, .fetchAnd 0 0#64]).2.getD 2 0 = 3#64 := by
  decide

/-! ### 7. the programs of all operations except `reset` are store-free -/

theorem bitStep_no_store (n : Nat) (set : Bool) : (bitStep n set).isStore = false := by
  unfold bitStep; split <;> rfl

theorem rangeSteps_no_store (size n last : Nat) (set : Bool) :
    ∀ a ∈ rangeSteps size n last set, a.isStore = false := by
  fun_induction rangeSteps size n last set with
  | case1 n h ih =>
    intro a ha
    rcases List.mem_cons.mp ha with rfl | ha
    · exact bitStep_no_store _ _
    · exact ih a ha
  | case2 n h => intro a ha; simp at ha

theorem rangeProgram_no_store (b : ABitmap) (start len : Nat) (set : Bool) :
    ∀ a ∈ b.rangeProgram start len set, a.isStore = false := by
  unfold rangeProgram
  split
  · intro a ha; simp at ha
  · exact rangeSteps_no_store _ _ _ _

theorem bitProgram_no_store (b : ABitmap) (i : Nat) (set : Bool) :
    ∀ a ∈ b.bitProgram i set, a.isStore = false := by
  unfold bitProgram
  split
  · intro a ha; simp at ha
  · intro a ha
    rw [List.mem_singleton.mp ha]
    exact bitStep_no_store _ _

theorem harvestProgram_no_store (b : ABitmap) : ∀ a ∈ b.harvestProgram, a.isStore = false := by
  intro a ha
  simp only [harvestProgram, List.mem_map] at ha
  obtain ⟨w, _, rfl⟩ := ha
  rfl

theorem cloneProgram_no_store (b : ABitmap) : ∀ a ∈ b.cloneProgram, a.isStore = false := by
  intro a ha
  simp only [cloneProgram, List.mem_map] at ha
  obtain ⟨w, _, rfl⟩ := ha
  rfl

/-- whereas `reset` consists of plain stores only (so it is NOT covered) -/
theorem resetProgram_all_store (b : ABitmap) : ∀ a ∈ b.resetProgram, a.isStore = true := by
  intro a ha
  simp only [resetProgram, List.mem_map] at ha
  obtain ⟨w, _, rfl⟩ := ha
  rfl

/-- Any concatenation/interleaving of store-free programs is store-free: if every
    step of `σ` comes from one of the given programs, `no_lost_mark` applies. -/
theorem interleaving_no_store (progs : List (List AStep))
    (hp : ∀ p ∈ progs, ∀ a ∈ p, a.isStore = false)
    (σ : List AStep) (hσ : ∀ a ∈ σ, ∃ p ∈ progs, a ∈ p) : ∀ a ∈ σ, a.isStore = false := by
  intro a ha
  obtain ⟨p, hpp, hap⟩ := hσ a ha
  exact hp p hpp a hap

end VmMem.C08

#print axioms VmMem.C08.no_lost_mark
#print axioms VmMem.C08.no_lost_mark'
#print axioms VmMem.C08.mark_then
#print axioms VmMem.C08.page_mark_then
#print axioms VmMem.C08.harvest_step_clears
#print axioms VmMem.C08.resetStep_clears
#print axioms VmMem.C08.markStep_sets
#print axioms VmMem.C08.no_phantom
#print axioms VmMem.C08.no_phantom_final
#print axioms VmMem.C08.marks_commute
#print axioms VmMem.C08.marks_both_set
#print axioms VmMem.C08.marks_both_set_bits
#print axioms VmMem.C08.steps_preserve_length
#print axioms VmMem.C08.rangeProgram_no_store
#print axioms VmMem.C08.bitProgram_no_store
#print axioms VmMem.C08.harvestProgram_no_store
#print axioms VmMem.C08.cloneProgram_no_store
#print axioms VmMem.C08.resetProgram_all_store
#print axioms VmMem.C08.interleaving_no_store
